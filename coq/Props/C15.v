(* C15 — Equality, ordering and map-key lookup are coherent across all value kinds.
   Only statements, each closed by `exact`; proofs live in Proofs/OrderProofs.v.
   Quantification: every value tree of any nesting depth that a tera::Value can be ([wf]:
   integers fit their variant, no two keys of one map are `==`; floats are arbitrary
   spec_float data, NaN and infinities included), every key in each of the seven
   representations, every association list (= HashMap in any iteration order) of any size.
   The model describes the code with fixes/D2-total-order.patch applied; the last theorem
   records that the statement is false for the unrepaired `Ord for Value`. *)
From Coq Require Import List ZArith NArith Permutation.
From TeraV Require Import Model.Value Gen.OrderTables Model.Order Proofs.OrderProofs.
Import ListNotations.

(* `==` is an equivalence on all values (NaN == NaN included) ... *)
Theorem C15_veq_equivalence :
  (forall a, wf a -> veq a a = true) /\
  (forall a b, wf a -> wf b -> veq a b = true -> veq b a = true) /\
  (forall a b c, wf a -> wf b -> wf c -> veq a b = true -> veq b c = true -> veq a c = true).
Proof. exact veq_equivalence. Qed.

(* ... structural on arrays and maps (a map entry matches an entry of the other map whose key has
   the same normal form), and blind to the safe mark *)
Theorem C15_veq_structural :
  (forall s f f', veq (VStr s f) (VStr s f') = true) /\
  (forall l l', veq (VArr l) (VArr l') = true <-> Forall2 (fun x y => veq x y = true) l l') /\
  (forall m m', wf (VMap m) -> wf (VMap m') ->
     (veq (VMap m) (VMap m') = true <->
      length m = length m' /\
      forall k v, In (k, v) m -> exists k' v', In (k', v') m' /\ key_norm k' = key_norm k /\ veq v v' = true)).
Proof. exact veq_structural. Qed.

(* numbers compare by mathematical value whatever their representation: every comparison the
   code makes between two numbers is the exact comparison [xcmp] of the represented
   (extended) dyadic rationals, with NaN above everything and equal to itself *)
Theorem C15_numbers_by_value : forall a b x y, wf a -> wf b -> sk a = Some (SNum x) -> sk b = Some (SNum y) ->
  vpcmp a b = Some (xcmp x y) /\ vcmp a b = xcmp x y /\
  veq a b = match xcmp x y with Eq => true | _ => false end.
Proof.
  intros a b x y Wa Wb Ha Hb.
  exact (conj (vpcmp_sk a b _ _ Wa Wb Ha Hb) (conj (vcmp_sk a b _ _ Wa Wb Ha Hb) (veq_sk a b _ _ Wa Wb Ha Hb))).
Qed.

(* the ordering used by sort/unique (Ord::cmp) is a total order, transitive, antisymmetric up to
   `==`, and Equal exactly when `==` *)
Theorem C15_vcmp_total_order :
  (forall a b, wf a -> wf b -> vcmp b a = CompOpp (vcmp a b)) /\
  (forall a b, wf a -> wf b -> vle a b \/ vle b a) /\
  (forall a b c, wf a -> wf b -> wf c -> vcmp a b = Lt -> vcmp b c = Lt -> vcmp a c = Lt) /\
  (forall a b c, wf a -> wf b -> wf c -> vle a b -> vle b c -> vle a c) /\
  (forall a b c, wf a -> wf b -> wf c -> vcmp a b = Eq -> vcmp a c = vcmp b c) /\
  (forall a b, wf a -> wf b -> vle a b -> vle b a -> veq a b = true) /\
  (forall a b, wf a -> wf b -> (vcmp a b = Eq <-> veq a b = true)).
Proof. exact vcmp_total_order. Qed.

(* `<` in templates (partial_cmp) is the same order wherever it answers at all *)
Theorem C15_partial_cmp_agrees : forall a, wf a -> forall b, wf b -> forall r,
  vpcmp a b = Some r -> vcmp a b = r.
Proof. exact vpcmp_some_vcmp. Qed.

(* values of different kind ranks are ordered by the rank table of the source, never == and never
   `<`-comparable *)
Theorem C15_rank_decides : forall a b, wf a -> wf b -> rank a <> rank b ->
  vcmp a b = N.compare (rank a) (rank b) /\ veq a b = false /\ vpcmp a b = None.
Proof. exact diff_rank. Qed.

(* keys: Eq, Ord and Hash all factor through one normal form that forgets the integer width
   and whether the string is owned or borrowed *)
Theorem C15_key_norm_sound :
  (forall a b, key_wf a = true -> key_wf b = true -> (key_eq a b = true <-> key_norm a = key_norm b)) /\
  (forall a b, key_wf a = true -> key_wf b = true -> key_cmp b a = CompOpp (key_cmp a b)) /\
  (forall a b c, key_wf a = true -> key_wf b = true -> key_wf c = true ->
     tr (key_cmp a b) (key_cmp b c) (key_cmp a c)) /\
  (forall a b, key_wf a = true -> key_wf b = true -> (key_cmp a b = Eq <-> key_eq a b = true)) /\
  (forall a, key_wf a = true -> key_hash a = nkey_hash (key_norm a)) /\
  (forall a b, key_wf a = true -> key_wf b = true -> key_eq a b = true -> key_hash a = key_hash b).
Proof. exact key_norm_sound. Qed.

Theorem C15_key_norm_forgets_representation :
  (forall r r' z, key_norm (KInt r z) = key_norm (KInt r' z)) /\
  (forall s o o', key_norm (KStr s o) = key_norm (KStr s o')).
Proof. exact key_norm_repr. Qed.

(* m[k], `k in m`, containing, m.k and get find an entry exactly when a key with the same normal
   form is stored, for maps of every size *)
Theorem C15_lookup_spec : forall m item k, wf (VMap m) -> wf item -> as_key item = Some k ->
  (forall v, map_get m k = Some v <-> exists k', In (k', v) m /\ key_norm k' = key_norm k) /\
  (map_get m k <> None <-> In (key_norm k) (map K m)) /\
  get_item_map m item = ROk (match map_get m k with Some v => v | None => VUndef end) /\
  contains (VMap m) item = ROk (is_some (map_get m k)) /\
  test_containing (VMap m) item = ROk (is_some (map_get m k)) /\
  (forall s f, item = VStr s f ->
     get_attr (VMap m) s = map_get m k /\
     forall d, filter_get m item d =
       match map_get m k with
       | Some v => ROk v
       | None => match d with Some x => ROk x | None => RErr ErrMsg end
       end).
Proof. exact lookup_spec. Qed.

(* `k in m` (and containing) hold exactly when some entry's key equals k by value — whatever
   value that entry stores, an undefined or none value included — and then m[k] is that value *)
Theorem C15_in_iff_key_present : forall m item k, wf (VMap m) -> wf item -> as_key item = Some k ->
  (contains (VMap m) item = ROk true <-> exists k' v, In (k', v) m /\ key_norm k' = key_norm k) /\
  (vm_in item (VMap m) = ROk (VBool true) <-> exists k' v, In (k', v) m /\ key_norm k' = key_norm k) /\
  (test_containing (VMap m) item = ROk true <-> exists k' v, In (k', v) m /\ key_norm k' = key_norm k) /\
  (forall k' v, In (k', v) m -> key_norm k' = key_norm k ->
     contains (VMap m) item = ROk true /\ get_item_map m item = ROk v).
Proof. exact in_map_iff_key_present. Qed.

(* the linear scan and the hash lookup of get_attr agree on every map, so the size cutoff
   (Gen.attr_scan_cutoff) is unobservable *)
Theorem C15_get_attr_scan_eq_hash : forall m attr,
  attr_scan m attr = attr_hash m attr /\
  get_attr (VMap m) attr = map_get m (KStr attr false).
Proof. intros m attr. exact (conj (attr_scan_eq_hash m attr) (get_attr_spec (VMap m) attr)). Qed.

(* the iteration order of the HashMap is unobservable by lookups *)
Theorem C15_lookup_order_independent : forall (m m' : list (key * value)) k,
  kwf m -> kdist m -> key_wf k = true -> Permutation m m' -> map_get m k = map_get m' k.
Proof. exact (@map_get_perm value). Qed.

(* "exactly when an equal key was inserted": a map built by any sequence of inserts answers with
   the last value inserted under an equal key, and finds nothing otherwise *)
Theorem C15_lookup_after_inserts : forall (l : list (key * value)) k, kwf l -> key_wf k = true ->
  (kwf (map_from_list l) /\ kdist (map_from_list l) /\
   map_get (map_from_list l) k = assoc_last l k) /\
  (assoc_last l k <> None <-> In (key_norm k) (map K l)).
Proof.
  intros l k Kl Hk. exact (conj (map_from_list_spec l k Kl Hk) (assoc_last_found l k Kl Hk)).
Qed.

(* D2: for the Ord impl as it stood before the patch the order theorem is false — two different
   maps are Equal, and Equal is not transitive on arrays with incomparable elements *)
Theorem C15_vcmp_total_order_refuted_before_fix :
  (exists a b, wf a /\ wf b /\ vcmp_unfixed a b = Eq /\ veq a b = false) /\
  (exists a b c, wf a /\ wf b /\ wf c /\
     vcmp_unfixed a b = Eq /\ vcmp_unfixed b c = Eq /\ vcmp_unfixed a c = Lt).
Proof. exact vcmp_unfixed_refuted. Qed.

Print Assumptions C15_veq_equivalence.
Print Assumptions C15_vcmp_total_order.
Print Assumptions C15_key_norm_sound.
Print Assumptions C15_lookup_spec.
Print Assumptions C15_lookup_after_inserts.
Print Assumptions C15_in_iff_key_present.

(* non-vacuity *)
Definition ex_map1 := VMap [(KInt I64 1, VStr [120%N] false); (KStr [97%N] true, VArr [VNone; VFloat S754_nan])].
Definition ex_map2 := VMap [(KStr [97%N] false, VArr [VNone; VFloat S754_nan]); (KInt U128 1, VStr [120%N] true)].
Example C15_ex_wf : wf ex_map1 /\ wf ex_map2.
Proof. split; vm_compute; reflexivity. Qed.
Example C15_ex_eq_maps : veq ex_map1 ex_map2 = true /\ vcmp ex_map1 ex_map2 = Eq.
Proof. split; vm_compute; reflexivity. Qed.
Example C15_ex_float_int :
  veq (VFloat (S754_finite false 4503599627370496 1)) (VInt U128 9007199254740992) = true /\
  vcmp (VFloat (S754_finite false 4503599627370496 1)) (VInt I64 9007199254740993) = Lt /\
  vcmp (VInt U128 340282366920938463463374607431768211455) (VFloat (S754_finite false 4503599627370496 76)) = Lt.
Proof. repeat split; vm_compute; reflexivity. Qed.
Example C15_ex_fixed_order :
  vcmp d2_m1 d2_m2 = Lt /\ vcmp d2_a1 d2_a2 = Gt /\ vcmp d2_a2 d2_a3 = Lt /\ vcmp d2_a1 d2_a3 = Lt.
Proof. repeat split; vm_compute; reflexivity. Qed.
Example C15_ex_in_with_undefined_value :
  wf (VMap [(KStr [107%N] true, VUndef); (KInt U64 1, VNone)]) /\
  vm_in (VStr [107%N] false) (VMap [(KStr [107%N] true, VUndef); (KInt U64 1, VNone)]) = ROk (VBool true) /\
  vm_in (VInt I128 1) (VMap [(KStr [107%N] true, VUndef); (KInt U64 1, VNone)]) = ROk (VBool true) /\
  vm_subscript_map false (VMap [(KStr [107%N] true, VUndef)]) (VStr [107%N] true) = ROk VUndef.
Proof. repeat split; vm_compute; reflexivity. Qed.
Example C15_ex_lookup :
  get_item_map [(KInt I64 1, VBool true)] (VInt U128 1) = ROk (VBool true) /\
  get_attr ex_map1 [97%N] = Some (VArr [VNone; VFloat S754_nan]).
Proof. split; vm_compute; reflexivity. Qed.
