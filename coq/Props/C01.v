(* C01 — Autoescaping: data never reaches an autoescaped output unescaped.
   Statements only; proofs in Proofs/AutoescapeProofs.v; definitions in Model/Taint.v
   (clean, vok, chunk_ok, tpl_ok, guard_bodies, events, the suffix registry), Model/WorldC01.v
   (the concrete world of the correspondence). Everything is over the concrete VM model
   Model/VM.v (a port of vm/interpreter.rs interpret(), tied to the engine by running the real
   finalized chunks on it: Corr/CorrC01.v, Corr/CorrVM.v), for ALL instruction sequences, all
   contexts, all worlds satisfying the stated hypotheses, all fuel.

   Reading guide.
   * `ok : N -> bool` is any set of characters, `clean ok s` = every character of s is in it,
     `vok ok v` = every string inside v that carries the safe flag is clean. `ok_html` is
     "none of  <  >  double-quote  apostrophe".
   * (A) C01_safe_flag_invariant is the induction (every instruction, nested runs for include /
     block / super() / component): in every reachable state every safe-flagged string (stack,
     nested in arrays/maps, set variables, loop frames, includer scopes, contexts), every capture
     buffer, the block buffer and the output are clean -- whatever dirty unflagged data the
     context holds. C01_no_raw_data_when_autoescape_on instantiates it for render/render_block
     with the generated default escaper. This is the special case "literal template text and
     constants contain no special character" of the property: then NO  < > quote apostrophe
     reaches the output at all. The general case (specials allowed in literal text: the output's
     specials are exactly the literal ones) is decided on every run by the implementation-side
     oracle of harness/src/bin/c01.rs (literal text erased, remainder checked), and by the
     sink-level statements (B) below.
   * The VM marks the body operand of RenderBodyComponent safe whatever it is (interpreter.rs:158),
     which is sound only because the compiler always emits Capture ... EndCapture in front of it.
     For arbitrary instruction sequences the unconditional statement is FALSE of the model:
     C01_body_mint_needs_capture is the witness. The theorems therefore carry the DECIDABLE
     chunk-level side condition `bodies_from_capture c` (Model/CapCheck.v: an abstract
     interpretation of the value stack and the loop stack against a table, in the style of the C07
     validator, whose only refusal is a RenderBodyComponent whose body slot is not known to have
     been pushed by EndCapture / a component result / super() / a flagged constant). It is
     evaluated on EVERY real chunk in the correspondence run (Corr/CorrC01.v); compiled code
     satisfies it, a compiler that skips the capture (seeded change S46) does not.
     C01_body_operand_is_minted states what the condition gives at that instruction.
   * "No use of safe" is the hypothesis on w_filter / w_function: what they return, after the VM
     applied their is_safe flag, contains no dirty flagged string when their inputs contain none.
     The `safe` filter violates it by design.
   * Floats: Value::format of an f64 is an oracle `fp` assumed to print clean text. *)
From TeraV Require Import Model.Value Model.Instr Model.Slice Model.VFormat Model.VM Model.World0 Model.StackCheck
     Model.CapCheck Model.Taint Model.WorldC01 Gen.Tables Gen.SafeTables Proofs.AutoescapeProofs.
Local Open Scope nat_scope.

(* ---------- tables re-extracted from the source ---------- *)

(* Model/VM.v's value_is_safe is the match of value/mod.rs 677-683 as regenerated into Gen/SafeTables.v *)
Theorem C01_value_is_safe_matches_source : forall v, value_is_safe v = is_safe_gen v.
Proof. exact value_is_safe_matches_source. Qed.

(* the default escaper's output never contains  < > quote apostrophe  (over Gen.Tables.escape_html_map) *)
Theorem C01_default_escaper_clean : forall s, clean ok_html (escape_html s) = true.
Proof. exact escape_html_clean. Qed.

(* ... and every & it writes starts one of the table's entities, which contain no other & *)
Theorem C01_default_escaper_entities : forall s,
  escape_html s = concat (map (esc_lookup escape_html_map) s) /\
  Forall (fun piece => (exists c, piece = [c] /\ c <> amp) \/
                       (exists r, piece = amp :: r /\ ~ In amp r /\ In piece (map snd escape_html_map)))
         (map (esc_lookup escape_html_map) s).
Proof. exact escape_html_entities. Qed.

(* every kind is_safe lets through unescaped formats to clean text (a safe string: by the invariant) *)
Theorem C01_scalar_format_clean : forall (fp : spec_float -> str),
  (forall f, clean ok_html (fp f) = true) ->
  forall v, value_is_safe v = true -> vok ok_html v = true -> clean ok_html (format_with fp v) = true.
Proof. exact scalar_format_clean. Qed.

(* ---------- (A) the invariant ---------- *)

(* any character set, any escape function with clean output, any writer, any autoescape override *)
Theorem C01_safe_flag_invariant :
  forall (W : Type) (wr : W -> str -> option W) (wd : world) (ok : N -> bool) (Wok : W -> Prop) (ae : option bool)
         (T : str -> Prop),          (* anything that holds of literal text, formatted safe values, escaper results *)
  world_ok wd ok ae T ->
  (forall w t w', wr w t = Some w' -> Wok w -> clean ok t = true -> T t -> Wok w') ->
  (forall v, value_is_safe v = true -> T (w_format wd v)) ->
  (forall v, value_is_safe v = false -> T (w_escape wd (w_format wd v))) ->
  forall fuel tpl depth ch ip s o,
  tpl_okP ok ae T tpl ->
  chunk_okP ok T ch ->                    (* chunk_ok ok ch = true /\ bodies_from_capture ch = true /\ T of every WriteText *)
  cmatch (the_table ch) ip s ->           (* the state is one the checked table allows at ip (any state at ip = 0) *)
  SInv ok T s -> OInv W ok Wok o ->
  match run W wr wd fuel tpl ae depth ch ip s o with
  | RDone s' o' => SInv ok T s' /\ OInv W ok Wok o'
  | _ => True
  end.
Proof. exact run_inv. Qed.

(* at a RenderBodyComponent of a checked chunk the slot under the kwargs holds a flagged string:
   mark_safe changes nothing there, the body is clean by the invariant *)
Theorem C01_body_operand_is_minted : forall ch ip n s kw b rest,
  bodies_from_capture ch = true -> nth_error ch ip = Some (RenderBodyComponent n) ->
  cmatch (the_table ch) ip s -> stack s = kw :: b :: rest -> exists x, b = VStr x true.
Proof. exact body_operand_flagged. Qed.

(* every state matches the entry of a checked chunk *)
Theorem C01_any_state_enters : forall c s, bodies_from_capture c = true -> cmatch (the_table c) 0 s.
Proof. intros c s H. exact (cmatch_entry c (the_table c) s H). Qed.

Theorem C01_no_raw_data_when_autoescape_on :
  forall (wd : world) (fp : spec_float -> str),
  (* default escaper; Value::format with a clean float printer *)
  w_escape wd = escape_html -> w_format wd = format_with fp -> (forall f, clean ok_html (fp f) = true) ->
  (* no use of safe: filters and functions do not hand out dirty flagged strings *)
  (forall n v k sc r sf, w_filter wd n v k sc = Some (ROk r, sf) ->
      vok ok_html v = true -> kw_ok ok_html k = true -> scope_ok ok_html sc = true ->
      vok ok_html (if sf then mark_safe r else r) = true) ->
  (forall n k sc r sf, w_function wd n k sc = Some (ROk r, sf) ->
      kw_ok ok_html k = true -> scope_ok ok_html sc = true -> vok ok_html (if sf then mark_safe r else r) = true) ->
  (* arithmetic, map lookup, attribute lookup, component argument binding only pass values on *)
  (forall i a b c, w_math wd i a b = ROk c -> vok ok_html a = true -> vok ok_html b = true -> vok ok_html c = true) ->
  (forall a c, w_negate wd a = ROk c -> vok ok_html a = true -> vok ok_html c = true) ->
  (forall m k x, w_map_get wd m k = Some x -> kw_ok ok_html m = true -> vok ok_html x = true) ->
  (forall v a x, w_get_attr wd v a = Some x -> vok ok_html v = true -> vok ok_html x = true) ->
  (forall n d ch, assoc_get (w_components wd) n = Some (d, ch) ->
      forall k b c, w_build_ctx wd d k b = ROk c -> kw_ok ok_html k = true ->
      obody_ok ok_html b = true -> ctx_ok ok_html c = true) ->
  (* every chunk that can run: clean literal text, no dirty flagged constant, bodies minted; every
     template autoescaped *)
  (forall n d c, assoc_get (w_components wd) n = Some (d, c) ->
      chunk_ok ok_html c = true /\ bodies_from_capture c = true) ->
  (forall n t, assoc_get (w_templates wd) n = Some t -> tpl_ok ok_html t = true /\ tpl_bodies_ok t = true) ->
  forall fuel tpl block c g,
  tpl_ok ok_html tpl = true -> tpl_bodies_ok tpl = true ->
  (* the data: arbitrary, as long as no string ALREADY flagged safe by the Rust API is dirty *)
  ctx_ok ok_html c = true -> ctx_ok ok_html g = true ->
  match render_to str wr_str wd fuel tpl block c g [] with
  | RDone _ (SinkTop out) => clean ok_html out = true
  | _ => True
  end.
Proof. exact no_raw_data_when_autoescape_on. Qed.

(* render_component(name, ctx, body, autoescape = true) *)
Theorem C01_render_component_clean :
  forall (wd : world) (fp : spec_float -> str),
  w_escape wd = escape_html -> w_format wd = format_with fp -> (forall f, clean ok_html (fp f) = true) ->
  (forall n v k sc r sf, w_filter wd n v k sc = Some (ROk r, sf) ->
      vok ok_html v = true -> kw_ok ok_html k = true -> scope_ok ok_html sc = true ->
      vok ok_html (if sf then mark_safe r else r) = true) ->
  (forall n k sc r sf, w_function wd n k sc = Some (ROk r, sf) ->
      kw_ok ok_html k = true -> scope_ok ok_html sc = true -> vok ok_html (if sf then mark_safe r else r) = true) ->
  (forall i a b c, w_math wd i a b = ROk c -> vok ok_html a = true -> vok ok_html b = true -> vok ok_html c = true) ->
  (forall a c, w_negate wd a = ROk c -> vok ok_html a = true -> vok ok_html c = true) ->
  (forall m k x, w_map_get wd m k = Some x -> kw_ok ok_html m = true -> vok ok_html x = true) ->
  (forall v a x, w_get_attr wd v a = Some x -> vok ok_html v = true -> vok ok_html x = true) ->
  (forall n d ch, assoc_get (w_components wd) n = Some (d, ch) ->
      forall k b c, w_build_ctx wd d k b = ROk c -> kw_ok ok_html k = true ->
      obody_ok ok_html b = true -> ctx_ok ok_html c = true) ->
  (forall n d c, assoc_get (w_components wd) n = Some (d, c) ->
      chunk_ok ok_html c = true /\ bodies_from_capture c = true) ->
  (forall n t, assoc_get (w_templates wd) n = Some t -> tpl_chunks_ok ok_html t = true /\ tpl_bodies_ok t = true) ->
  forall fuel tpl cchunk cctx,
  tpl_chunks_ok ok_html tpl = true -> tpl_bodies_ok tpl = true ->
  chunk_ok ok_html cchunk = true -> bodies_from_capture cchunk = true -> ctx_ok ok_html cctx = true ->
  match run str wr_str wd fuel tpl (Some true) 0 cchunk 0 (new_state cctx) (SinkTop []) with
  | RDone _ (SinkTop out) => clean ok_html out = true
  | _ => True
  end.
Proof. exact render_component_clean. Qed.

(* the unconditional statement is false for instruction sequences the compiler never emits: every
   hypothesis but bodies_from_capture holds and the raw poison comes out; the check refuses this
   chunk and accepts the compiled form of the same call *)
Theorem C01_body_mint_needs_capture :
  tpl_ok ok_html bad_tpl = true /\ ctx_ok ok_html [(s_p, VStr poison0 false)] = true /\
  render_to str wr_str (world1 false fp_placeholder [(s_p, bad_tpl)] bad_comps) 50 bad_tpl None
            [(s_p, VStr poison0 false)] [] []
  = RDone (new_state_with_global [(s_p, VStr poison0 false)] []) (SinkTop poison0) /\
  clean ok_html poison0 = false /\
  bodies_from_capture bad_chunk = false /\ bodies_from_capture good_chunk = true.
Proof. exact body_mint_needs_capture. Qed.

(* the world used by the correspondence (default/upper/length/escape_html filters, real component
   binding, no `safe`) meets every world hypothesis above *)
Theorem C01_world1_satisfies_hypotheses : forall fp tpls comps,
  (forall n d c, assoc_get comps n = Some (d, c) -> def_ok ok_html d = true) ->
  let wd := world1 false fp tpls comps in
  w_escape wd = escape_html /\ w_format wd = format_with fp /\
  (forall n v k sc r sf, w_filter wd n v k sc = Some (ROk r, sf) ->
      vok ok_html v = true -> kw_ok ok_html k = true -> scope_ok ok_html sc = true ->
      vok ok_html (if sf then mark_safe r else r) = true) /\
  (forall n k sc r sf, w_function wd n k sc = Some (ROk r, sf) ->
      kw_ok ok_html k = true -> scope_ok ok_html sc = true -> vok ok_html (if sf then mark_safe r else r) = true) /\
  (forall i a b c, w_math wd i a b = ROk c -> vok ok_html a = true -> vok ok_html b = true -> vok ok_html c = true) /\
  (forall a c, w_negate wd a = ROk c -> vok ok_html a = true -> vok ok_html c = true) /\
  (forall m k x, w_map_get wd m k = Some x -> kw_ok ok_html m = true -> vok ok_html x = true) /\
  (forall v a x, w_get_attr wd v a = Some x -> vok ok_html v = true -> vok ok_html x = true) /\
  (forall n d ch, assoc_get (w_components wd) n = Some (d, ch) ->
      forall k b c, w_build_ctx wd d k b = ROk c -> kw_ok ok_html k = true ->
      obody_ok ok_html b = true -> ctx_ok ok_html c = true).
Proof. exact world1_satisfies_hypotheses. Qed.

(* ---------- the escape function is a parameter (Tera::set_escape_fn) ---------- *)

(* The invariant above never looks inside w_escape. Two corollaries make that explicit.

   (a) ANY escape function and ANY character set it avoids: the statement of
   C01_no_raw_data_when_autoescape_on with `escape_html`/`ok_html` replaced by an arbitrary pair. *)
Theorem C01_no_raw_data_any_escaper :
  forall (wd : world) (ok : N -> bool),
  (forall s, clean ok (w_escape wd s) = true) ->
  (forall v, value_is_safe v = true -> vok ok v = true -> clean ok (w_format wd v) = true) ->
  (forall n v k sc r sf, w_filter wd n v k sc = Some (ROk r, sf) ->
      vok ok v = true -> kw_ok ok k = true -> scope_ok ok sc = true -> vok ok (if sf then mark_safe r else r) = true) ->
  (forall n k sc r sf, w_function wd n k sc = Some (ROk r, sf) ->
      kw_ok ok k = true -> scope_ok ok sc = true -> vok ok (if sf then mark_safe r else r) = true) ->
  (forall i a b c, w_math wd i a b = ROk c -> vok ok a = true -> vok ok b = true -> vok ok c = true) ->
  (forall a c, w_negate wd a = ROk c -> vok ok a = true -> vok ok c = true) ->
  (forall m k x, w_map_get wd m k = Some x -> kw_ok ok m = true -> vok ok x = true) ->
  (forall v a x, w_get_attr wd v a = Some x -> vok ok v = true -> vok ok x = true) ->
  (forall n d ch, assoc_get (w_components wd) n = Some (d, ch) ->
      forall k b c, w_build_ctx wd d k b = ROk c -> kw_ok ok k = true -> obody_ok ok b = true -> ctx_ok ok c = true) ->
  (forall n d c, assoc_get (w_components wd) n = Some (d, c) -> chunk_ok ok c = true /\ bodies_from_capture c = true) ->
  (forall n t, assoc_get (w_templates wd) n = Some t -> tpl_ok ok t = true /\ tpl_bodies_ok t = true) ->
  forall fuel tpl block c g,
  tpl_ok ok tpl = true -> tpl_bodies_ok tpl = true -> ctx_ok ok c = true -> ctx_ok ok g = true ->
  match render_to str wr_str wd fuel tpl block c g [] with
  | RDone _ (SinkTop out) => clean ok out = true
  | _ => True
  end.
Proof. exact no_raw_data_any_escaper. Qed.

(* an instance that is not HTML: the xNN-style JS-string escaper the harness installs *)
Theorem C01_js_escaper_clean : forall s, clean ok_js (escape_js s) = true.
Proof. exact escape_js_clean. Qed.

(* (b) THE MARKER FORM. The top-level writer records every write_all as one piece. Whatever the
   escape function, the filters and the data are -- the only hypotheses are about the chunks
   (autoescape on, bodies minted, WriteText carries literal text `Lit`) -- every piece is
   literal text, a SAFE value as formatted, or the escape function applied to the formatted value
   of a value that is NOT safe: the escaper is called on exactly the unsafe writes, once each,
   and nothing else reaches the output. (Text captured earlier is such a safe value: its own
   pieces were subject to the same statement when they were written into the buffer -- that is
   the invariant. A constant string printed by `{{ "lit" }}` is an unsafe value: an optimiser
   that turns it into WriteText makes `Lit` false of that chunk, which is how seeded change S82
   shows up.) *)
Theorem C01_writes_are_pieces :
  forall (wd : world) (ae : option bool) (Lit : str -> Prop),
  (forall n t, assoc_get (w_templates wd) n = Some t -> tpl_okP allok ae (piece wd Lit) t) ->
  (forall n d c, assoc_get (w_components wd) n = Some (d, c) -> chunk_okP allok (piece wd Lit) c) ->
  forall fuel tpl depth ch ip s w,
  tpl_okP allok ae (piece wd Lit) tpl -> chunk_okP allok (piece wd Lit) ch -> cmatch (the_table ch) ip s ->
  blocks_okP allok (piece wd Lit) (blocks s) -> Forall (piece wd Lit) w ->
  match run (list str) wr_pieces wd fuel tpl ae depth ch ip s (SinkTop w) with
  | RDone _ (SinkTop w') => Forall (piece wd Lit) w'
  | _ => True
  end.
Proof. exact writes_are_pieces. Qed.

(* ---------- (B) the sinks and the mint points ---------- *)

(* every WriteTop / WritePath write is one event: ERaw v (text = format v) or EEsc v (text = escape (format v)) *)
Theorem C01_write_is_event : forall W wr wd a s o v,
  write_value W wr wd a s o v = emit W wr s o (event_text wd (write_event a v)).
Proof. exact write_value_is_event. Qed.

Theorem C01_raw_only_if_safe : forall v, write_event true v = ERaw v -> value_is_safe v = true.
Proof. exact raw_only_if_safe. Qed.

Theorem C01_escaped_unless_safe : forall v, value_is_safe v = false -> write_event true v = EEsc v.
Proof. exact escaped_unless_safe. Qed.

(* safe = a flagged string or a non-string scalar; containers are never written raw *)
Theorem C01_safe_values : forall v,
  value_is_safe v = true <-> (exists s, v = VStr s true) \/
                             (match v with VStr _ _ | VArr _ | VMap _ | VBytes _ => False | _ => True end).
Proof. exact safe_values. Qed.

Theorem C01_autoescape_off_writes_verbatim : forall W wr wd s o v,
  write_value W wr wd false s o v = emit W wr s o (w_format wd v).
Proof. exact autoescape_off_writes_verbatim. Qed.

Theorem C01_safe_value_bypasses_escaper : forall W wr wd a s o v,
  value_is_safe v = true -> write_value W wr wd a s o v = emit W wr s o (w_format wd v).
Proof. exact safe_value_bypasses_escaper. Qed.

(* a captured body printed as is is written as captured: the escaper is not applied a second time *)
Theorem C01_no_double_escape : forall W wr wd fuel tpl ae depth s o c t,
  caps s = c :: t ->
  run W wr wd (S (S (S fuel))) tpl ae depth [EndCapture; WriteTop] 0 s o =
  match emit W wr (upd_stack (upd_caps s t) (stack s)) o (w_format wd (VStr c true)) with
  | Some (s2, o2) => RDone s2 o2
  | None => RFail ErrIo
  end.
Proof. exact no_double_escape. Qed.

(* origin (ii): EndCapture flags exactly the text of the buffer it closes *)
Theorem C01_end_capture_mints : forall W wr wd fuel tpl ae depth ch ip s o c t,
  nth_error ch ip = Some EndCapture -> caps s = c :: t ->
  run W wr wd (S fuel) tpl ae depth ch ip s o =
  run W wr wd fuel tpl ae depth ch (S ip) (push (upd_caps s t) (VStr c true)) o.
Proof. exact end_capture_mints. Qed.

(* ~ never keeps a flag *)
Theorem C01_str_concat_is_normal : forall W wr wd fuel tpl ae depth ch ip s o a b st,
  nth_error ch ip = Some StrConcat -> stack s = b :: a :: st ->
  exists r, run W wr wd (S fuel) tpl ae depth ch ip s o =
            run W wr wd fuel tpl ae depth ch (S ip) (push (upd_stack s st) (VStr r false)) o.
Proof. exact str_concat_is_normal. Qed.

(* origin (iv): index and slice keep the flag and only select characters of the receiver *)
Theorem C01_index_slice_keep_flag_sublist :
  (forall s fl item c fl', get_item_seq (VStr s fl) item = ROk (VStr c fl') -> fl' = fl /\ incl c s) /\
  (forall s fl a b st r fl', value_slice (VStr s fl) a b st = ROk (VStr r fl') -> fl' = fl /\ incl r s).
Proof. exact index_slice_keep_flag_sublist. Qed.

(* NOT proved as one reachability statement: safe_flag_origin ("every flagged string of a reachable
   state descends from the initial context, a mint point, an is_safe filter/function or an
   index/slice of such"). What is proved instead: the invariant above (whose only cases that
   CREATE a flag are exactly EndCapture, component result/body, super(), w_filter/w_function with
   the flag, index/slice, flagged constants) and the four local statements just given. *)

(* ---------- autoescape flag by name suffix ---------- *)

Theorem C01_ends_with_spec : forall s suf, ends_with s suf = true <-> exists p, s = p ++ suf.
Proof. exact ends_with_spec. Qed.

(* set_templates_auto_escape runs at the end of every finalize and in autoescape_on: after any
   non-empty history the flag of every template is "name ends with one of the CURRENT suffixes" *)
Theorem C01_autoescape_flag_by_suffix : forall ops r, ops <> [] ->
  let r' := fold_left apply_op ops r in
  forall n t, In (n, t) (r_templates r') ->
    t_autoescape t = existsb (ends_with n) (r_suffixes r') /\
    (t_autoescape t = true <-> exists suf p, In suf (r_suffixes r') /\ n = p ++ suf).
Proof. exact autoescape_flag_by_suffix. Qed.

Print Assumptions C01_safe_flag_invariant.
Print Assumptions C01_no_raw_data_when_autoescape_on.
Print Assumptions C01_render_component_clean.
Print Assumptions C01_default_escaper_clean.
Print Assumptions C01_autoescape_flag_by_suffix.
Print Assumptions C01_writes_are_pieces.
Print Assumptions C01_no_raw_data_any_escaper.

(* ---------- non-vacuity ---------- *)

(* {% set s %}[{{ p }}]{% endset %}{{ s }}|{{ s[1:3] }}|{{ p }}  with p = the six specials, as the real
   compiler emits it (fused WritePath), in world1: hypotheses hold, output is escaped once *)
Definition ex_chunk : list instr :=
  [Capture; WriteText [91]%N; WritePath [s_p]; WriteText [93]%N; EndCapture; SetI [115]%N;
   WritePath [[115]%N]; WriteText [124]%N;
   LoadName [115]%N; LoadConst (VInt U64 1); LoadConst (VInt U64 3); LoadConst VNone; Slice; WriteTop;
   WriteText [124]%N; WritePath [s_p]].
Definition ex_tpl : template :=
  {| t_name := s_p; t_chunk := ex_chunk; t_root_chunk := ex_chunk; t_lineage := []; t_autoescape := true |}.

Example C01_ex_hypotheses :
  tpl_ok ok_html ex_tpl = true /\ tpl_bodies_ok ex_tpl = true /\ ctx_ok ok_html [(s_p, VStr poison0 false)] = true.
Proof. vm_compute. repeat split; reflexivity. Qed.

Example C01_ex_render :
  match render_to str wr_str (world1 false fp_placeholder [(s_p, ex_tpl)] []) 200 ex_tpl None
                  [(s_p, VStr poison0 false)] [] [] with
  | RDone _ (SinkTop out) =>
      clean ok_html out = true /\
      out = [91] ++ escape_html poison0 ++ [93;124] ++ firstn 2 (skipn 1 ([91] ++ escape_html poison0)) ++ [124]
            ++ escape_html poison0
  | _ => False
  end%N.
Proof. vm_compute. split; reflexivity. Qed.

(* the same program under the marker escaper, with the piece-recording writer: literal, escaped
   unsafe value, literal, RAW safe capture, ... -- and the literal-expression case of S82 *)
Example C01_ex_pieces :
  match render_to (list str) wr_pieces (with_escape (world1 false fp_placeholder [(s_p, ex_tpl)] []) escape_marker) 200 ex_tpl None
                  [(s_p, VStr poison0 false)] [] [] with
  | RDone _ (SinkTop w) =>
      w = [ [91] ++ escape_marker poison0 ++ [93];          (* the capture, printed as is: one raw piece *)
            [124];
            firstn 2 (skipn 1 ([91] ++ escape_marker poison0));   (* slice of the capture: still raw *)
            [124];
            escape_marker poison0 ]
  | _ => False
  end%N.
Proof. vm_compute. reflexivity. Qed.

Example C01_ex_literal_expression_is_escaped :
  let lit := [122; 167; 47]%N in
  let ch := [LoadConst (VStr lit false); WriteTop] in
  match render_to (list str) wr_pieces
          (with_escape (world1 false fp_placeholder [] []) escape_marker) 20
          {| t_name := s_p; t_chunk := ch; t_root_chunk := ch; t_lineage := []; t_autoescape := true |} None [] [] [] with
  | RDone _ (SinkTop w) => w = [escape_marker lit]
  | _ => False
  end.
Proof. vm_compute. reflexivity. Qed.

(* with autoescape off the same program writes the poison verbatim *)
Example C01_ex_render_off :
  match render_to str wr_str (world1 false fp_placeholder [] []) 200
                  {| t_name := s_p; t_chunk := [WritePath [s_p]]; t_root_chunk := [WritePath [s_p]];
                     t_lineage := []; t_autoescape := false |} None
                  [(s_p, VStr poison0 false)] [] [] with
  | RDone _ (SinkTop out) => out = poison0
  | _ => False
  end.
Proof. vm_compute. reflexivity. Qed.
