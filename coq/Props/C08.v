(* C08 — Template text is reproduced verbatim except whitespace next to `-` markers.
   Only statements, each closed by `exact`; proofs live in Proofs/Utf8Proofs.v,
   Proofs/WsFilterProofs.v and Proofs/LexerProofs.v.

   Quantification: every document (list of items of any length; texts, comment bodies, raw
   bodies and expression sources are arbitrary byte lists), every placement of the `-` markers,
   every delimiter set accepted by `validate` (six arbitrary 2-byte strings with pairwise
   distinct start delimiters).  `wf_doc` (Spec/Doc.v) is the property's side condition "the
   delimiters do not occur in the text": no start delimiter begins inside a text, the first
   comment end is the real one, no block start inside a raw body begins an endraw tag, and the
   interior of an expression/tag is something whose end the lexer finds where the document says
   it is (`inside_ends_model`: expressions are opaque for this property).

   The model describes lexer.rs WITH fixes/D6-comment-resets-trim.patch (Model/Lexer.v,
   `comment_flag_fixed = true`); for the pinned code the central statement is false, see
   C08_ws_filter_spec_refuted_pinned. *)
From TeraV Require Import Model.Value Model.Utf8Lex Model.Lexer Spec.Doc Model.LexerDoc
  Proofs.Utf8Proofs Proofs.WsFilterProofs Proofs.LexerProofs Proofs.LexerSpans Proofs.LexerLocal.
Require Import Coq.Strings.String Coq.Strings.Ascii.

(* validate accepts exactly: six 2-byte strings, the three start delimiters pairwise distinct *)
Theorem C08_validate_spec : forall dl,
  validate dl = ROk tt <-> spelling_ok (spelling_of dl).
Proof. exact validate_spec_lemma. Qed.

(* the lexer model cuts the spelling of a well-formed document exactly at its item boundaries,
   with the markers as written and raw bodies verbatim (trimmed by their own inner markers) *)
Theorem C08_lex_print : forall dl dc,
  validate dl = ROk tt ->
  wf_doc (spelling_of dl) inside_ends_model dc ->
  template_items dl (print (spelling_of dl) dc) = ROk (items_of dc).
Proof.
  exact (fun dl dc V => lex_print_items dl (proj1 (validate_spec_lemma dl) V) dc).
Qed.

(* whitespace_filter followed by the parser's drop-empty-text rule is the adjacency
   specification — for EVERY document (no side condition): each text / raw body loses leading
   White_Space iff the directly preceding item ends with `-`, trailing iff the directly following
   item starts with `-`, raw bodies additionally by their inner markers, comments vanish,
   nothing else changes *)
Theorem C08_ws_filter_spec : forall dc,
  drop_empty (ws_filter (items_of dc)) = spec_toks dc.
Proof. exact wsf_fixed_spec. Qed.

(* D6: with the comment arm of the pinned lexer.rs (`if end_ws { remove_leading_ws = true }`,
   flag otherwise kept) the statement above is false; witness  A {{ 1 -}}{# c #}  B *)
Theorem C08_ws_filter_spec_refuted_pinned :
  exists dc, drop_empty (wsf false false (items_of dc)) <> spec_toks dc.
Proof. exact wsf_pinned_refuted. Qed.

(* the filter may equally be run on the full token stream (interiors of tags included), as the
   real code does: on the lexer's output it commutes with the template-level view *)
Theorem C08_parser_view_spec : forall dl dc,
  validate dl = ROk tt ->
  wf_doc (spelling_of dl) inside_ends_model dc ->
  parser_view dl (print (spelling_of dl) dc) = ROk (spec_toks dc).
Proof.
  exact (fun dl dc V => parser_view_spec dl (proj1 (validate_spec_lemma dl) V) dc).
Qed.

(* end to end: source bytes -> lexer -> filter -> drop empty -> inert rendering = specification *)
Theorem C08_render_print_spec : forall dl out_of dc,
  validate dl = ROk tt ->
  wf_doc (spelling_of dl) inside_ends_model dc ->
  render_source out_of dl (print (spelling_of dl) dc) = ROk (spec_render out_of dc).
Proof.
  exact (fun dl out_of dc V => render_print_spec dl (proj1 (validate_spec_lemma dl) V) out_of dc).
Qed.

(* a source with no start-delimiter window is one Content token (none when empty) and renders
   to itself, byte for byte *)
Theorem C08_no_start_delimiter_renders_itself : forall dl out_of src,
  validate dl = ROk tt ->
  (forall p, ~ start_at (spelling_of dl) src p) ->
  template_items dl src = ROk (match src with [] => [] | _ => [TContent src] end)
  /\ render_source out_of dl src = ROk src.
Proof.
  exact (fun dl out_of src V => no_start_renders_itself dl (proj1 (validate_spec_lemma dl) V) out_of src).
Qed.

(* re-spelling a document with another accepted delimiter set does not change what it renders *)
Theorem C08_delimiter_respelling_invariant : forall dl1 dl2 out_of dc,
  validate dl1 = ROk tt -> validate dl2 = ROk tt ->
  wf_doc (spelling_of dl1) inside_ends_model dc ->
  wf_doc (spelling_of dl2) inside_ends_model dc ->
  render_source out_of dl1 (print (spelling_of dl1) dc)
  = render_source out_of dl2 (print (spelling_of dl2) dc).
Proof. exact respelling_invariant. Qed.

(* the trimming functions remove White_Space characters only, and compose as the
   specification composes them *)
Theorem C08_trim_removes_only_white_space : forall s,
  (exists w, ws_run w /\ s = w ++ trim_start s) /\ (exists w, ws_run w /\ s = trim_end s ++ w).
Proof. exact (fun s => conj (trim_start_removes_ws s) (trim_end_removes_ws s)). Qed.

Theorem C08_trim_algebra : forall s,
  trim_start (trim_start s) = trim_start s /\ trim_end (trim_end s) = trim_end s
  /\ trim_start (trim_end s) = trim_end (trim_start s).
Proof. exact (fun s => conj (trim_start_idem s) (conj (trim_end_idem s) (trim_start_end_comm s))). Qed.

(* the byte patterns matched by the trimming functions are exactly the UTF-8 encodings of the 25
   White_Space code points (checked for every code point below U+3100; none lies above) *)
Theorem C08_ws_patterns_are_white_space : forall cp, (cp <? 0x3100)%N = true ->
  is_ws_cp cp = match ws_strip (utf8_encode_cp cp) with Some (_, []) => true | _ => false end.
Proof. exact ws_patterns_are_white_space. Qed.

(* the expression/tag side condition of wf_doc is local: it can be established by running the
   interior scanner on the item alone (source, marker, end delimiter), whatever follows — except
   for the one end delimiter `--`, after which a further `-` changes the reading *)
Theorem C08_inside_ends_by_item : forall e src r tail,
  List.length e = 2%nat -> e <> [dash; dash] ->
  inside_ends_model e (src ++ mk r ++ e) r [] ->
  inside_ends_model e (src ++ mk r ++ e ++ tail) r tail.
Proof. exact inside_ends_by_item. Qed.

(* ---- about the full token stream (reused by C06 / C12) *)

(* the span bookkeeping of `advance!` (line, column in characters, byte) is the line/column
   function of the source at the cumulative token offsets: line = 1 + newlines before the offset,
   column = characters since the last newline *)
Theorem C08_spans_are_linecol : forall src ts,
  spans_from src loc0 ts
  = map (fun '(t, (s, e)) => (t, (linecol src s, linecol src e)))
        (combine (map tok_of ts) (offsets 0 ts)).
Proof. exact spans_are_linecol. Qed.

(* every byte range of a successful run is well-ordered and lies inside the source *)
Theorem C08_token_ranges_in_source : forall dl src pt s e,
  validate dl = ROk tt -> lex_ptoks dl src = ROk pt -> In (s, e) (offsets 0 pt) ->
  (s <= e /\ e <= List.length src)%nat.
Proof. exact token_ranges_in_source. Qed.

(* every iteration consumes at least one byte: the token stream is finite and the model never
   runs out of fuel (ErrPanic is what the model would report for it); the nested scanners'
   results do not depend on their fuel either *)
Theorem C08_lexer_total : forall dl src,
  validate dl = ROk tt -> lex_ptoks dl src <> RErr ErrPanic.
Proof. exact lex_ptoks_total. Qed.

Theorem C08_scan_inside_fuel_irrelevant : forall f1 f2 e s,
  (List.length s < f1)%nat -> (List.length s < f2)%nat -> scan_inside f1 e s = scan_inside f2 e s.
Proof. exact scan_inside_fuel. Qed.

Print Assumptions C08_validate_spec.
Print Assumptions C08_lex_print.
Print Assumptions C08_ws_filter_spec.
Print Assumptions C08_ws_filter_spec_refuted_pinned.
Print Assumptions C08_render_print_spec.
Print Assumptions C08_no_start_delimiter_renders_itself.
Print Assumptions C08_delimiter_respelling_invariant.
Print Assumptions C08_inside_ends_by_item.
Print Assumptions C08_spans_are_linecol.
Print Assumptions C08_lexer_total.
Print Assumptions C08_token_ranges_in_source.

(* ---------------------------------------------------------------- non-vacuity *)

Definition b (s : string) : bytes := map (fun a => N_of_ascii a) (list_ascii_of_string s).

(* a document with every item kind, markers, a raw body containing delimiters and an expression
   whose string contains the end delimiter; it is well-formed under two delimiter sets *)
Definition ex_doc : doc :=
  [Text (b "A  "); Expr true (b " 1 ") true; Comment false (b " c ") false; Text (b "  B }");
   Raw false true (b "  {{ x }} {% if %} ") false true; Text (b "  C ");
   Tag true (b " set x = 1 ") false; Expr false (b " ""a"" ") false].

Definition alt_delims : delims :=
  mkDelims (b "<%") (b "%>") (b "<<") (b ">>") (b "<#") (b "#>").

Example C08_ex_validate : validate default_delims = ROk tt /\ validate alt_delims = ROk tt.
Proof. split; reflexivity. Qed.

(* decidable parts of wf_doc are checked by running the model; the run also shows the lexer
   reading the printed document back *)
Example C08_ex_reads_back :
  template_items default_delims (print (spelling_of default_delims) ex_doc) = ROk (items_of ex_doc)
  /\ template_items alt_delims (print (spelling_of alt_delims) ex_doc) = ROk (items_of ex_doc).
Proof. split; vm_compute; reflexivity. Qed.

Example C08_ex_render :
  render_source (fun k => match k with O => b "1" | _ => b "a" end) default_delims
    (print (spelling_of default_delims) ex_doc)
  = ROk (b "A1  B }{{ x }} {% if %} Ca")
  /\ spec_render (fun k => match k with O => b "1" | _ => b "a" end) ex_doc
     = b "A1  B }{{ x }} {% if %} Ca".
Proof. split; vm_compute; reflexivity. Qed.

(* the D6 witness under the fixed rule: the text after the comment keeps its blanks *)
Example C08_ex_d6_fixed :
  render_source (fun _ => b "1") default_delims (b "A {{ 1 -}}{# c #}  B") = ROk (b "A 1  B")
  /\ render_source (fun _ => b "1") default_delims (b "A {{ 1 -}}{# c -#}  B") = ROk (b "A 1B").
Proof. split; vm_compute; reflexivity. Qed.

(* wf_doc is satisfiable for a document with an expression, a comment and a text *)
Example C08_ex_wf :
  wf_doc (spelling_of default_delims) inside_ends_model
    [Expr false (b " 1 ") true; Comment false (b " c ") false; Text (b "  B")].
Proof.
  cbn [wf_doc wf_item]. repeat split; try discriminate; try exact I.
  - exists [(TInteger 1, 1, 1)%nat], 1%nat. vm_compute. reflexivity.
  - intros p Hp. cbn in Hp. unfold occurs.
    do 3 (destruct p as [|p]; [vm_compute; discriminate|]). lia.
  - intros p Hp. cbn in Hp. unfold start_at, occurs.
    do 3 (destruct p as [|p]; [vm_compute; intros [H|[H|H]]; discriminate|]). lia.
Qed.
