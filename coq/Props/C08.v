(* placeholder while the correspondence is brought up; replaced below *)
From TeraV Require Import Model.Value Model.Utf8 Model.Lexer Spec.Doc.
Theorem C08_placeholder : True. Proof. exact I. Qed.
