(* C18 — Output channels agree, write failures surface, rendering is pure (and, observed only:
   thread-safe). Statements only; proofs in Proofs/WriterProofs.v.

   Vocabulary (Model/Writer.v, Model/VM.v):
   * `run W wr wd fuel tpl ae depth ch ip s o` is interpret(); `render_to W wr ...` is
     VirtualMachine::render_to; `tera_render_to / tera_render_block_to / tera_render_component_to /
     tera_render_str_to` are the public `_to` functions of tera.rs, `tera_render / ..._block /
     ..._component / ..._str / tera_one_off` the String-returning ones (a fresh Vec<u8>, the `_to`
     variant, String::from_utf8).
   * a writer is a total step `pw : W -> str -> W * bool` (state after the call, whole text taken?);
     `wr_of pw` is what the VM sees through `write_all(..)?`; `sticky pw` is the same writer watched
     from outside: it lets the run go on but is frozen from its first failed call, so its final
     state is the state the real writer is left in when render_to returns Err(Io). `pw_lawful pw acc`
     says the step appends to the observation `acc` a prefix of the text, all of it on success.
   * `wr_str` is Vec<u8> (infallible), `wr_log` records the sequence of write_all calls.

   PARTIAL BY NATURE (DESIGN §10): the concurrency half of C18 — thread interleavings on one shared
   instance and the Send/Sync bounds — is not a statement about a Gallina function; it is observed
   and compile-checked by harness/src/bin/c18.rs on every run. What is proved here: the writer half
   (for every program, state, writer and failure point) and purity on the model.
   Not expressible on Model/VM.v: "the text accepted before the failure is a prefix of what the
   infallible run had written when the TEMPLATE ITSELF failed" — `RFail` carries no sink; that case
   is covered by the implementation-side oracle (the error class part is clause (b)). *)
From TeraV Require Import Model.Value Model.Instr Model.VFormat Model.VM Model.World0 Model.Writer
                          Proofs.WriterProofs.
Local Open Scope nat_scope.

(* 1. failing_writer_prefix — for every world, template, block, context, fuel, writer, start state *)
Theorem C18_failing_writer_prefix :
  forall (W : Type) (pw : pwriter W) (acc : W -> str), pw_lawful pw acc ->
  forall wd fuel tpl block c g w0,
  let gen := render_to W (wr_of pw) wd fuel tpl block c g w0 in
  let obs := render_to (W * bool)%type (sticky pw) wd fuel tpl block c g (w0, true) in
  let inf := render_to str wr_str wd fuel tpl block c g [] in
  (forall s w, gen = RDone s (SinkTop w) ->
     exists out, inf = RDone s (SinkTop out) /\ acc w = acc w0 ++ out /\ obs = RDone s (SinkTop (w, true))) /\
  (forall e, gen = RFail e -> inf = RFail e \/ e = ErrIo) /\
  (forall s out, inf = RDone s (SinkTop out) ->
     exists w live p, obs = RDone s (SinkTop (w, live)) /\ acc w = acc w0 ++ p /\ prefix p out /\
       (if live then gen = RDone s (SinkTop w) /\ p = out else gen = RFail ErrIo)) /\
  (gen = ROutOfFuel -> inf = ROutOfFuel).
Proof.
  exact (fun W pw acc Hl wd fuel tpl block c g w0 =>
    failing_writer_prefix _ (render_to_simulable wd fuel tpl block c g) W pw acc Hl w0).
Qed.

(* the same for interpret() on any chunk from any state (includes, blocks, components start here) *)
Theorem C18_failing_writer_prefix_run :
  forall (W : Type) (pw : pwriter W) (acc : W -> str), pw_lawful pw acc ->
  forall wd fuel tpl ae depth ch ip st w0,
  let gen := run W (wr_of pw) wd fuel tpl ae depth ch ip st (SinkTop w0) in
  let obs := run (W * bool)%type (sticky pw) wd fuel tpl ae depth ch ip st (SinkTop (w0, true)) in
  let inf := run str wr_str wd fuel tpl ae depth ch ip st (SinkTop []) in
  (forall s w, gen = RDone s (SinkTop w) ->
     exists out, inf = RDone s (SinkTop out) /\ acc w = acc w0 ++ out /\ obs = RDone s (SinkTop (w, true))) /\
  (forall e, gen = RFail e -> inf = RFail e \/ e = ErrIo) /\
  (forall s out, inf = RDone s (SinkTop out) ->
     exists w live p, obs = RDone s (SinkTop (w, live)) /\ acc w = acc w0 ++ p /\ prefix p out /\
       (if live then gen = RDone s (SinkTop w) /\ p = out else gen = RFail ErrIo)) /\
  (gen = ROutOfFuel -> inf = ROutOfFuel).
Proof.
  exact (fun W pw acc Hl wd fuel tpl ae depth ch ip st w0 =>
    failing_writer_prefix _ (run_simulable wd fuel tpl ae depth ch ip st) W pw acc Hl w0).
Qed.

(* the task's formulation: an arbitrary VM-level writer with an observation of the accepted text *)
Theorem C18_accepting_writer_agrees :
  forall (W : Type) (wr : W -> str -> option W) (acc : W -> str),
  (forall w t w', wr w t = Some w' -> acc w' = acc w ++ t) ->
  forall wd fuel tpl block c g w0 s w,
  render_to W wr wd fuel tpl block c g w0 = RDone s (SinkTop w) ->
  exists out, render_to str wr_str wd fuel tpl block c g [] = RDone s (SinkTop out) /\ acc w = acc w0 ++ out.
Proof.
  exact (fun W wr acc Ha wd fuel tpl block c g w0 s w =>
    accepting_writer_agrees _ (render_to_simulable wd fuel tpl block c g) W wr acc Ha w0 s w).
Qed.

(* the writers the correspondence uses are lawful *)
Theorem C18_model_writers_lawful :
  pw_lawful budget_writer acc_pair /\ pw_lawful failing_at_call acc_pair /\ pw_lawful pw_str acc_str.
Proof. exact (conj budget_writer_lawful (conj failing_at_call_lawful pw_str_lawful)). Qed.

(* 4. write_calls_are_ordered — the calls any writer receives are exactly the write_all calls of
   the infallible run at empty capture stack (the log), in that order, up to its first failure *)
Theorem C18_write_calls_are_ordered :
  forall wd fuel tpl block c g (W : Type) (pw : pwriter W) (w0 : W) (out0 : str) s l,
  render_to (list str) wr_log wd fuel tpl block c g [] = RDone s (SinkTop l) ->
  render_to str wr_str wd fuel tpl block c g out0 = RDone s (SinkTop (out0 ++ concat l)) /\
  render_to (W * bool)%type (sticky pw) wd fuel tpl block c g (w0, true)
    = RDone s (SinkTop (fold_left (sticky_step pw) l (w0, true))) /\
  render_to W (wr_of pw) wd fuel tpl block c g w0
    = match feed (wr_of pw) w0 l with Some w => RDone s (SinkTop w) | None => RFail ErrIo end.
Proof.
  exact (fun wd fuel tpl block c g W pw w0 out0 s l =>
    write_calls_are_ordered _ (render_to_simulable wd fuel tpl block c g) W pw w0 out0 s l).
Qed.

Theorem C18_write_calls_failing_run :
  forall wd fuel tpl block c g (W : Type) (wr : W -> str -> option W) (w0 : W),
  let log := render_to (list str) wr_log wd fuel tpl block c g [] in
  let gen := render_to W wr wd fuel tpl block c g w0 in
  (forall e, log = RFail e -> gen = RFail e \/ gen = RFail ErrIo) /\
  (log = ROutOfFuel -> gen = ROutOfFuel \/ gen = RFail ErrIo).
Proof.
  exact (fun wd fuel tpl block c g W wr w0 =>
    write_calls_failing_run _ (render_to_simulable wd fuel tpl block c g) W wr w0).
Qed.

(* 2. render_eq_render_to — each String-returning API function against its `_to` variant run on
   an arbitrary accepting writer: same text; same error class or ErrIo; and a Vec<u8> that already
   holds `h` receives exactly `h ++` what the String variant returns *)
Definition agrees (F : runner) (string_result : res str) : Prop :=
  (forall (W : Type) (wr : W -> str -> option W) (acc : W -> str),
     (forall w t w', wr w t = Some w' -> acc w' = acc w ++ t) ->
     forall w0 s w, F W wr w0 = RDone s (SinkTop w) ->
     exists out, string_result = ROk out /\ acc w = acc w0 ++ out) /\
  (forall (W : Type) (wr : W -> str -> option W) w0 e,
     F W wr w0 = RFail e -> string_result = RErr e \/ e = ErrIo) /\
  (forall h, F str wr_str h = shift h (F str wr_str [])).

Theorem C18_render_eq_render_to : forall wd fuel name c g,
  agrees (fun W wr w => tera_render_to W wr wd fuel name c g w) (tera_render wd fuel name c g).
Proof. exact (fun wd fuel name c g => string_variant_agrees _ (tera_render_to_simulable wd fuel name c g)). Qed.

Theorem C18_render_block_eq_render_block_to : forall wd fuel name block c g,
  agrees (fun W wr w => tera_render_block_to W wr wd fuel name block c g w)
         (tera_render_block wd fuel name block c g).
Proof. exact (fun wd fuel name block c g => string_variant_agrees _ (tera_render_block_to_simulable wd fuel name block c g)). Qed.

Theorem C18_render_component_eq_render_component_to : forall wd fuel comp src supplied body ae,
  agrees (fun W wr w => tera_render_component_to W wr wd fuel comp src supplied body ae w)
         (tera_render_component wd fuel comp src supplied body ae).
Proof. exact (fun wd fuel comp src supplied body ae => string_variant_agrees _ (tera_render_component_to_simulable wd fuel comp src supplied body ae)). Qed.

Theorem C18_render_str_eq_render_str_to : forall wd fuel one_off ae c g,
  agrees (fun W wr w => tera_render_str_to W wr wd fuel one_off ae c g w)
         (tera_render_str wd fuel one_off ae c g).
Proof. exact (fun wd fuel one_off ae c g => string_variant_agrees _ (tera_render_str_to_simulable wd fuel one_off ae c g)). Qed.

(* both channels of render_component run the component chunk at component_recursion_depth 0, so
   they reach MAX_COMPONENT_RECURSION_DEPTH at the same nesting (w_max_depth is consulted in `run`
   with `S depth`) *)
Theorem C18_component_channels_same_depth :
  forall wd fuel comp src supplied body ae def cchunk cctx,
  assoc_get (w_components wd) comp = Some (def, cchunk) ->
  w_build_ctx wd def supplied (option_map (fun b => VStr b true) body) = ROk cctx ->
  (forall (W : Type) (wr : W -> str -> option W) (w : W),
     tera_render_component_to W wr wd fuel comp src supplied body ae w
     = run W wr wd fuel src (Some ae) 0 cchunk 0 (new_state cctx) (SinkTop w)) /\
  tera_render_component wd fuel comp src supplied body ae
  = res_of_run (run str wr_str wd fuel src (Some ae) 0 cchunk 0 (new_state cctx) (SinkTop [])).
Proof. exact component_channels_same_depth. Qed.

(* Tera::one_off is render_str on a default instance with an empty global context *)
Theorem C18_one_off_eq_render_str_to : forall default_world fuel one_off ae c,
  agrees (fun W wr w => tera_render_str_to W wr default_world fuel one_off ae c [] w)
         (tera_one_off default_world fuel one_off ae c).
Proof. exact (fun default_world fuel one_off ae c => string_variant_agrees _ (tera_render_str_to_simulable default_world fuel one_off ae c [])). Qed.

(* the block variant: everything is rendered into io::sink(), then block_buffer is written:
   the writer receives exactly block_buffer of the final state *)
Theorem C18_render_block_two_step : forall wd fuel tpl b c g h s out,
  render_to str wr_str wd fuel tpl (Some b) c g h = RDone s (SinkTop out) ->
  out = h ++ block_buffer s /\
  exists discarded,
    run str wr_str wd fuel tpl None 0 (t_root_chunk tpl) 0
        {| stack := []; loops := []; setvars := []; caps := []; blocks := []; cur_block := None;
           parent := None; context := c; global := Some g; capture_block := Some b; block_buffer := [] |}
        (SinkBuf []) = RDone s discarded.
Proof. exact render_block_two_step. Qed.

(* 3. render_pure — render_to is a Gallina function of (world, template, block, context, global,
   writer state): the world and the contexts are arguments, not results, and no other state exists.
   The two statements with content: the result does not depend on what the buffer already holds
   (nothing written earlier is ever read back), and renders performed one after another into one
   buffer equal the same renders performed independently *)
Theorem C18_render_pure_history : forall wd fuel tpl block c g h,
  render_to str wr_str wd fuel tpl block c g h = shift h (render_to str wr_str wd fuel tpl block c g []).
Proof. exact (fun wd fuel tpl block c g h => buffer_history_irrelevant _ (render_to_simulable wd fuel tpl block c g) h). Qed.

Theorem C18_render_pure_sequence : forall reqs, Forall simulable reqs -> forall h,
  render_seq reqs h = option_map (fun os => h ++ concat os) (render_each reqs).
Proof. exact render_seq_independent. Qed.

Theorem C18_render_requests_simulable : forall wd fuel tpl block c g,
  simulable (fun W wr w => render_to W wr wd fuel tpl block c g w).
Proof. exact render_to_simulable. Qed.

(* render_pure, the data side: interpret() never writes the context or the global context (they
   are behind `&` in Rust; here: the fields of the final state equal those of the initial one, for
   every instruction, nested run, writer and failure point), and render_to hands back exactly
   what it was given. The world `wd` (the engine: templates, components, filters) is an argument
   of `run` and not part of any result, so there is nothing to state for it. *)
Theorem C18_interpret_leaves_context_unchanged :
  forall (W : Type) (wr : W -> str -> option W) wd fuel tpl ae depth ch ip s o s' o',
  run W wr wd fuel tpl ae depth ch ip s o = RDone s' o' ->
  context s' = context s /\ global s' = global s.
Proof. exact run_same_ctx_eq. Qed.

Theorem C18_render_leaves_context_unchanged :
  forall (W : Type) (wr : W -> str -> option W) wd fuel tpl block c g w s o,
  render_to W wr wd fuel tpl block c g w = RDone s o -> context s = c /\ global s = Some g.
Proof. exact render_to_same_ctx. Qed.

(* render_pure over histories (the definition behind the purity-history oracle): whatever renders
   are interleaved with registrations / configuration changes, the engine afterwards is the one
   the registrations alone produce, and each render returns what it returns on the engine built
   by the registrations before it. By construction of the model (render takes the world, returns
   only a result); the engine side is harness/src/c18_history.rs. *)
Theorem C18_history_renders_leave_no_trace :
  forall (req : Type) (render : world -> req -> res str) (h : list (hop req)) (wd : world),
  fst (run_history req render wd h) = fst (run_history req render wd (strip_renders req h)) /\
  snd (run_history req render wd (strip_renders req h)) = [].
Proof.
  exact (fun req render h wd => conj (history_world_ignores_renders req render h wd)
                                     (history_no_renders_no_outputs req render h wd)).
Qed.

Theorem C18_history_render_result :
  forall (req : Type) (render : world -> req -> res str) (h1 : list (hop req)) (r : req) (h2 : list (hop req)) (wd : world),
  nth_error (snd (run_history req render wd (h1 ++ HRender req r :: h2)))
            (length (filter (fun o => negb (is_reg req o)) h1))
  = Some (render (fst (run_history req render wd (strip_renders req h1))) r).
Proof. exact history_render_result. Qed.

Print Assumptions C18_failing_writer_prefix.
Print Assumptions C18_interpret_leaves_context_unchanged.
Print Assumptions C18_failing_writer_prefix_run.
Print Assumptions C18_write_calls_are_ordered.
Print Assumptions C18_render_eq_render_to.
Print Assumptions C18_render_pure_sequence.

(* ---------- non-vacuity: `ab{{ x }}c` with x = "<", autoescape on ---------- *)
Definition ex_tpl : template :=
  {| t_name := [116%N]; t_chunk := [WriteText [97;98]%N; LoadName [120%N]; WriteTop; WriteText [99%N]];
     t_root_chunk := [WriteText [97;98]%N; LoadName [120%N]; WriteTop; WriteText [99%N]];
     t_lineage := []; t_autoescape := true |}.
Definition ex_ctx : ctx := [([120%N], VStr [60%N] false)].
Definition ex_world := world0 [([116%N], ex_tpl)].

(* infallible: "ab&lt;c"; three write_all calls at model granularity *)
Example C18_ex_full :
  exists s, render_to str wr_str ex_world 100 ex_tpl None ex_ctx [] [] = RDone s (SinkTop [97;98;38;108;116;59;99]%N)
         /\ render_to (list str) wr_log ex_world 100 ex_tpl None ex_ctx [] []
            = RDone s (SinkTop [[97;98]; [38;108;116;59]; [99]]%N).
Proof. eexists. vm_compute. split; reflexivity. Qed.

(* a writer failing at its second call: ErrIo, and it is left holding "ab" *)
Example C18_ex_fail_at_call :
  render_to _ (wr_of failing_at_call) ex_world 100 ex_tpl None ex_ctx [] ([], 1) = RFail ErrIo /\
  exists s k, render_to _ (sticky failing_at_call) ex_world 100 ex_tpl None ex_ctx [] (([], 1), true)
              = RDone s (SinkTop (([97;98]%N, k), false)).
Proof. split; [vm_compute; reflexivity|]. eexists. eexists. vm_compute. reflexivity. Qed.

(* a budget of 4 characters: ErrIo, left holding "ab&l" (the short write inside the second call) *)
Example C18_ex_budget :
  render_to _ (wr_of budget_writer) ex_world 100 ex_tpl None ex_ctx [] ([], 4) = RFail ErrIo /\
  exists s k, render_to _ (sticky budget_writer) ex_world 100 ex_tpl None ex_ctx [] (([], 4), true)
              = RDone s (SinkTop (([97;98;38;108]%N, k), false)).
Proof. split; [vm_compute; reflexivity|]. eexists. eexists. vm_compute. reflexivity. Qed.

(* a budget that suffices: success, same text *)
Example C18_ex_budget_enough :
  exists s, render_to _ (wr_of budget_writer) ex_world 100 ex_tpl None ex_ctx [] ([], 7)
            = RDone s (SinkTop ([97;98;38;108;116;59;99]%N, 0)).
Proof. eexists. vm_compute. reflexivity. Qed.
