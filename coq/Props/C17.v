(* C17 — Every built-in filter, test and function is total and honours its contract.
   Only statements, each closed by `exact`; proofs live in Proofs/BuiltinNumProofs.v and
   Proofs/BuiltinProofs.v.  Quantification: every string (list of scalar values), every integer
   in every representation, every float (spec_float), every value, every kwargs list.
   Totality over the kind x kwarg matrix is a finite enumeration against this model (T-corr). *)
From Coq Require Import String.
From TeraV Require Import Model.Value Model.StrOps Model.Builtins Spec.BuiltinLaws Gen.Tables Gen.Builtins
  Proofs.BuiltinNumProofs Proofs.BuiltinProofs.
Open Scope list_scope.
Open Scope Z_scope.

(* ---------------------------------------------------------------- coverage of the registration lists *)

(* every name registered in tera.rs (re-extracted on every run) has a model entry or is listed as
   oracle-only; a new built-in re-opens this *)
Theorem C17_builtins_covered :
  covered builtin_filters modelled_filters oracle_only_filters = true /\
  covered builtin_tests modelled_tests oracle_only_tests = true /\
  covered builtin_functions modelled_functions oracle_only_functions = true.
Proof. exact builtins_covered. Qed.

(* ---------------------------------------------------------------- truncate *)

(* short inputs unchanged; otherwise exactly the first `length` characters plus the end marker *)
Theorem C17_truncate_spec : forall s n e,
  let endm := match e with Some x => x | None => ellipsis end in
  ((length s <= n)%nat -> str_truncate s n e = VStr s false) /\
  ((n < length s)%nat -> str_truncate s n e = VStr (firstn n s ++ endm) false /\
                          length (text_of (str_truncate s n e)) = (n + length endm)%nat) /\
  (length (text_of (str_truncate s n e)) <= n + length endm)%nat /\
  is_prefix (firstn n s) (text_of (str_truncate s n e)).
Proof. exact truncate_spec. Qed.

(* the filter: wrong receiver kind -> InvalidArgument, no `length` -> MissingArgument, `length`
   converted as usize (InvalidArgument / OutOfRange), `end` must be a string *)
Theorem C17_truncate_filter : forall kw v,
  f_truncate kw v =
    match v with
    | VStr s _ =>
        match kw_find (s2l "length") kw with
        | None => BErr EMissingArg
        | Some l =>
            match arg_int TUsize l with
            | BErr e => BErr e
            | BOk n =>
                match kw_find (s2l "end") kw with
                | None => BOk (str_truncate s (Z.to_nat n) None)
                | Some (VStr e _) => BOk (str_truncate s (Z.to_nat n) (Some e))
                | Some _ => BErr EInvalidArg
                end
            end
        end
    | _ => BErr EInvalidArg
    end.
Proof. exact f_truncate_spec. Qed.

(* ---------------------------------------------------------------- trim family *)

(* white space = the 25 White_Space code points; the result is the input minus a white-space
   prefix and/or suffix and does not begin/end with white space *)
Theorem C17_is_ws_is_White_Space : forall c, is_ws c = true <-> ws c.
Proof. exact is_ws_iff. Qed.

Theorem C17_trim_spec : forall s,
  trimmed s (trim_ws s) /\ trimmed_start s (trim_start_ws s) /\ trimmed_end s (trim_end_ws s).
Proof. exact (fun s => conj (trim_spec s) (conj (trim_start_spec s) (trim_end_spec s))). Qed.

Theorem C17_trim_idempotent : forall s,
  trim_ws (trim_ws s) = trim_ws s /\ trim_start_ws (trim_start_ws s) = trim_start_ws s /\
  trim_end_ws (trim_end_ws s) = trim_end_ws s.
Proof. exact trim_idempotent. Qed.

(* with `pat`: only whole copies of the pattern are removed, as many as there are *)
Theorem C17_trim_pat_spec : forall p s, p <> [] ->
  pat_trimmed_start p s (trim_start_matches p s) /\ pat_trimmed_end p s (trim_end_matches p s).
Proof. exact (fun p s H => conj (trim_start_matches_spec p s H) (trim_end_matches_spec p s H)). Qed.

Theorem C17_trim_pat_idempotent : forall p s,
  trim_start_matches p (trim_start_matches p s) = trim_start_matches p s /\
  trim_end_matches p (trim_end_matches p s) = trim_end_matches p s /\
  trim_start_matches [] s = s /\ trim_end_matches [] s = s.
Proof.
  exact (fun p s => conj (trim_start_matches_idempotent p s)
                     (conj (trim_end_matches_idempotent p s) (trim_matches_empty s))).
Qed.

(* the `trim` filter with `pat` is trim_end(pat) after trim_start(pat) — whole occurrences of the
   pattern string, never "any character of pat" *)
Theorem C17_trim_filter_is_end_after_start : forall kw s b p b',
  kw_find (s2l "pat") kw = Some (VStr p b') ->
  f_trim kw (VStr s b) = BOk (vstr (trim_end_matches p (trim_start_matches p s))) /\
  f_trim_start kw (VStr s b) = BOk (vstr (trim_start_matches p s)) /\
  f_trim_end kw (VStr s b) = BOk (vstr (trim_end_matches p s)).
Proof. exact f_trim_pat. Qed.

(* s = pat^i ++ result ++ pat^j, and the result neither starts nor ends with pat *)
Theorem C17_trim_pat_both_ends : forall p s, p <> [] ->
  exists i j, s = copies i p ++ trim_end_matches p (trim_start_matches p s) ++ copies j p /\
              ~ is_prefix p (trim_end_matches p (trim_start_matches p s)) /\
              ~ is_suffix p (trim_end_matches p (trim_start_matches p s)).
Proof. exact trim_both_matches_spec. Qed.

(* ---------------------------------------------------------------- replace *)

(* the text is cut at the leftmost non-overlapping occurrences of `from`; the pieces are kept
   verbatim and joined with `to` *)
Theorem C17_replace_spec : forall from to s, from <> [] ->
  exists pieces, split_at from s pieces /\ join_with from pieces = s /\
                 str_replace from to s = join_with to pieces.
Proof. exact replace_spec. Qed.

Theorem C17_replace_absent : forall from to s,
  from <> [] -> ~ is_infix from s -> str_replace from to s = s.
Proof. exact replace_absent. Qed.

Theorem C17_replace_same : forall from s, from <> [] -> str_replace from from s = s.
Proof. exact replace_same. Qed.

Theorem C17_replace_empty_pattern : forall to s,
  str_replace [] to s = to ++ flat_map (fun c => c :: to) s.
Proof. exact replace_empty_pattern. Qed.

(* ---------------------------------------------------------------- newlines_to_br, indent *)

Theorem C17_newlines_to_br_spec : forall s, newlines_to_br s = nl2br s.
Proof. exact newlines_to_br_spec. Qed.

(* indent inserts nothing but the pad: with width 0 the text comes back unchanged (as long as it
   has no carriage return: str::lines drops the "\r" of a "\r\n") *)
Theorem C17_indent_width0_identity : forall s fi bl,
  ~ In CR s -> str_indent s 0 fi bl = s.
Proof. exact indent_width0_identity. Qed.

(* PARTIAL w.r.t. the property: a "\r\n" line end comes back as "\n" — an undocumented change *)
Theorem C17_indent_keeps_text_refuted : exists s, str_indent s 0 false false <> s.
Proof. exact indent_drops_cr. Qed.

(* ---------------------------------------------------------------- escape_html / escape_xml *)

(* every character with a table entry becomes its entity, every other character is copied *)
Theorem C17_escape_spec : forall s,
  escaped_by escape_html_map s (escape_html s) /\ escaped_by doc_escape_xml s (escape_xml s).
Proof.
  exact (fun s => conj (escape_with_spec escape_html_map s)
                       (eq_ind _ (fun t => escaped_by t s (escape_xml s)) (escape_with_spec xml_map s) _ xml_matches_doc)).
Qed.

(* the output contains no raw less-than, greater-than, double or single quote (and an ampersand only where an entity starts: see C17_escape_spec) *)
Theorem C17_escape_no_raw_specials : forall s c,
  (In c (escape_html s) -> ~ html_special c) /\ (In c (escape_xml s) -> ~ html_special c).
Proof.
  exact (fun s c => conj (escape_no_specials _ html_table_sound s c) (escape_no_specials _ xml_table_sound s c)).
Qed.

(* byte-wise escaping (utils.rs) coincides with character-wise escaping: keys and entities are ASCII *)
Theorem C17_escape_html_table_ascii :
  forallb (fun e => N.ltb (fst e) 128 && forallb (fun c => N.ltb c 128) (snd e)) escape_html_map = true.
Proof. exact html_table_ascii. Qed.

(* documented table vs code: identical except the entity of the apostrophe (docs: &#x27;, code: &#39;) *)
Theorem C17_escape_html_matches_doc_partial : forall s,
  ~ In 39%N s -> escape_html s = escape_with doc_escape_html s.
Proof. exact html_matches_doc_but_apostrophe. Qed.

Theorem C17_escape_html_matches_doc_refuted : exists s, escape_html s <> escape_with doc_escape_html s.
Proof. exact html_doc_mismatch. Qed.

(* ---------------------------------------------------------------- case filters (relative to the oracle) *)

(* whatever std's case mapping is, each filter replaces every character by itself, its upper-case
   or its lower-case mapping (capital sigma: one of the two small sigmas) and touches nothing else *)
Theorem C17_case_filters_only_change_case_partial :
  forall (upper_of lower_of : N -> list N) (final_sigma : str -> nat -> bool) s,
  case_only upper_of lower_of s (str_upper upper_of s) /\
  case_only upper_of lower_of s (str_lower lower_of final_sigma s) /\
  case_only upper_of lower_of s (str_capitalize upper_of lower_of final_sigma s) /\
  case_only upper_of lower_of s (str_title upper_of lower_of s).
Proof.
  exact (fun u l f s => conj (upper_case_only u l s) (conj (lower_case_only u l f s)
           (conj (capitalize_case_only u l f s) (title_case_only u l s)))).
Qed.

(* text made of characters the oracle leaves alone is returned unchanged by all four *)
Theorem C17_case_filters_fix_caseless_partial :
  forall (upper_of lower_of : N -> list N) (final_sigma : str -> nat -> bool) s,
  Forall (caseless upper_of lower_of) s ->
  str_upper upper_of s = s /\ str_lower lower_of final_sigma s = s /\
  str_capitalize upper_of lower_of final_sigma s = s /\ str_title upper_of lower_of s = s.
Proof. exact caseless_fixed. Qed.

Theorem C17_case_filter_shapes_partial :
  forall (upper_of lower_of : N -> list N) (final_sigma : str -> nat -> bool) s,
  str_upper upper_of s = flat_map upper_of s /\
  (forall c t, s = c :: t ->
     str_capitalize upper_of lower_of final_sigma s = upper_of c ++ str_lower lower_of final_sigma t) /\
  (~ In sigma_cap s -> str_lower lower_of final_sigma s = flat_map lower_of s).
Proof. exact case_filter_shapes. Qed.

(* ---------------------------------------------------------------- conversions *)

(* abs: exact |z| in a representation that holds it; the only failure is |i128::MIN| (an error,
   not a wrapped value) *)
Theorem C17_abs_exact_or_fails : forall kw r z,
  rep_ok r z = true ->
  match f_abs kw (VInt r z) with
  | BOk (VInt r' z') => z' = Z.abs z /\ rep_ok r' z' = true
  | BErr e => e = EOther /\ r = I128 /\ z = i128_min
  | _ => False
  end.
Proof. exact abs_int_spec. Qed.

Theorem C17_int_of_int_exact : forall r z,
  rep_ok r z = true ->
  exists r', f_int [] (VInt r z) = Some (BOk (VInt r' z)) /\ rep_ok r' z = true.
Proof. exact int_of_int_spec. Qed.

(* a float converts exactly when it is an integer inside i128 (sf_int f = FInt z <-> z is the
   exact value of f: C17_float_exact_int), otherwise it fails *)
Theorem C17_int_of_float_exact_or_fails : forall f,
  f_int [] (VFloat f) =
    Some (match sf_int f with
          | FInt z => if (i128_min <=? z) && (z <? two127) then BOk (VInt I128 z) else BErr EOther
          | _ => BErr EOther
          end).
Proof. exact int_of_float_spec. Qed.

Theorem C17_float_exact_int : forall f z, sf_int f = FInt z <-> sf_exact_int f z.
Proof. exact sf_int_exact. Qed.

(* str prints an integer in decimal; int reads decimal text with i128::from_str_radix; the two are
   inverse on i128 and a numeral outside i128 is refused *)
Theorem C17_str_int_roundtrip : forall kw r z,
  f_str kw (VInt r z) = Some (BOk (VStr (dec_of_Z z) false)) /\
  (i128_min <= z <= i128_max -> from_str_radix 10 (dec_of_Z z) = Some z) /\
  (~ (i128_min <= z <= i128_max) -> from_str_radix 10 (dec_of_Z z) = None).
Proof.
  exact (fun kw r z => conj (str_of_int_spec kw r z) (conj (dec_roundtrip z) (dec_out_of_range z))).
Qed.

Theorem C17_int_of_string : forall s b,
  f_int [] (VStr s b) =
    match from_str_radix 10 (trim_ws s) with
    | Some z => Some (BOk (VInt I128 z))
    | None => if has_dot (trim_ws s) then None else Some (BErr EOther)
    end.
Proof. exact int_of_string_spec. Qed.

(* round/ceil/floor with precision 0 pick the right integer (the value is x / 2^-e, x = +-m).
   PARTIAL: the conversion of that integer back to f64 and the scaling by 10^precision are
   SpecFloat operations / a std oracle, tied by the correspondence run only *)
Theorem C17_round_integer_partial : forall (md : rmode) (s : bool) (m : positive) (e : Z),
  e < 0 ->
  let k := 2 ^ (- e) in
  let x := if s then - Z.pos m else Z.pos m in
  let r := round_int md s m e in
  match md with
  | RFloor => k * r <= x < k * (r + 1)
  | RCeil => k * (r - 1) < x <= k * r
  | RRound => 2 * k * Z.abs r - k <= 2 * Z.pos m < 2 * k * Z.abs r + k /\ (r < 0 <-> (s = true /\ r <> 0))
  end.
Proof. exact round_int_spec. Qed.

(* known class round:non-finite-result: with a precision whose power of ten is infinite (what
   powi returns for 400) the finite number 2.5 is "rounded" to NaN instead of 2.5 or an error *)
Theorem C17_round_finite_stays_finite_refuted :
  exists (pow10 : Z -> spec_float) kw v,
    pow10 400 = S754_infinity false /\
    v = VFloat (S754_finite false 5629499534213120 (-51)) /\
    f_round pow10 kw v = BOk (VFloat S754_nan).
Proof. exact round_non_finite_witness. Qed.

(* ---------------------------------------------------------------- default *)

Theorem C17_default_spec : forall kw v d,
  kw_find (s2l "value") kw = Some d ->
  (kw_find (s2l "boolean") kw = None \/ kw_find (s2l "boolean") kw = Some (VBool false) ->
     f_default kw v = BOk (match v with VUndef => d | _ => v end)) /\
  (kw_find (s2l "boolean") kw = Some (VBool true) ->
     f_default kw v = BOk (if is_truthy v then v else d)).
Proof. exact default_spec. Qed.

Theorem C17_default_errors : forall kw v,
  (kw_find (s2l "value") kw = None -> f_default kw v = BErr EMissingArg) /\
  (forall d b, kw_find (s2l "value") kw = Some d -> kw_find (s2l "boolean") kw = Some b ->
               is_bool b = false -> f_default kw v = BErr EInvalidArg).
Proof. exact default_errors. Qed.

(* ---------------------------------------------------------------- range *)

(* range_count really counts the terms before `end` *)
Theorem C17_range_count_is_the_number_of_terms : forall start end_ step i, 0 <= i ->
  (0 < step -> (start + i * step < end_ <-> i < range_count start end_ step)) /\
  (step < 0 -> (end_ < start + i * step <-> i < range_count start end_ step)).
Proof.
  exact (fun s e st i Hi => conj (fun H => range_count_pos s e st i H Hi) (fun H => range_count_neg s e st i H Hi)).
Qed.

(* outside the known class: exactly the progression, an error iff step = 0, start > end with a
   positive step, or more than MAX_RANGE_LEN terms; no intermediate value leaves i128 (the model
   returns EPanic where a debug build would panic, and the result here is never that) *)
Theorem C17_range_spec : forall start end_ step,
  fits_i128 start -> fits_i128 end_ -> fits_i128 step ->
  ~ range_overflow_class start end_ step ->
  range_core start end_ step =
    if (step =? 0) || ((end_ <? start) && (0 <? step)) then BErr EOther
    else if max_range_len <? range_count start end_ step then BErr EOther
    else BOk (VArr (map (VInt I128) (progression start step (Z.to_nat (range_count start end_ step))))).
Proof. exact range_core_spec. Qed.

Theorem C17_range_never_overflows : forall start end_ step,
  fits_i128 start -> fits_i128 end_ -> fits_i128 step ->
  range_core start end_ step <> BErr EPanic.
Proof. exact range_core_never_panics. Qed.

(* the known class: a representable progression of two terms is refused with an overflow error *)
Theorem C17_range_exact_or_cap_refuted :
  exists start end_ step,
    fits_i128 start /\ fits_i128 end_ /\ fits_i128 step /\
    range_overflow_class start end_ step /\
    range_count start end_ step = 2 /\
    Forall fits_i128 (progression start step 2) /\
    range_core start end_ step = BErr EOther.
Proof. exact range_overflow_witness. Qed.

(* ---------------------------------------------------------------- type tests *)

Theorem C17_type_tests_partition : forall v,
  xorb (is_integer v) (is_float v) = is_number v /\
  is_defined v = negb (is_undefined v) /\
  (b2n (is_undefined v) + b2n (is_none v) + b2n (is_bool v) + b2n (is_number v) + b2n (is_string v)
   + b2n (is_array v) + b2n (is_map v) + b2n (is_bytes v) = 1)%nat /\
  is_iterable v = (is_string v || is_array v || is_map v || is_bytes v) /\
  (is_integer v = true -> is_number v = true) /\ (is_float v = true -> is_number v = true) /\
  (is_integer v && is_float v = false).
Proof. exact type_tests_partition. Qed.

Theorem C17_odd_even_spec : forall kw r z,
  i128_min <= z <= i128_max ->
  t_odd kw (VInt r z) = BOk (VBool (Z.odd z)) /\ t_even kw (VInt r z) = BOk (VBool (Z.even z)).
Proof. exact odd_even_spec. Qed.

Theorem C17_divisible_by_spec : forall kw r z d,
  i128_min <= z <= i128_max ->
  kw_find (s2l "divisor") kw = Some (VInt I128 d) -> i128_min <= d <= i128_max ->
  t_divisible_by kw (VInt r z) = BOk (VBool (negb (d =? 0) && (z mod d =? 0))).
Proof. exact divisible_by_spec. Qed.

(* ---------------------------------------------------------------- argument conversions *)

(* an integer target accepts exactly the integers that fit it, of every representation, and the
   integral floats that fit it and lie in [-2^127, 2^127) *)
Theorem C17_arg_int_accepts_exactly : forall t v z,
  arg_int t v = BOk z <->
  (exists r, v = VInt r z /\ ity_min t <= z <= ity_max t) \/
  (exists f, v = VFloat f /\ sf_exact_int f z /\ ity_min t <= z <= ity_max t /\ i128_min <= z < two127).
Proof. exact arg_int_ok. Qed.

Theorem C17_arg_int_invalid_iff_wrong_kind : forall t v,
  arg_int t v = BErr EInvalidArg <->
  match v with
  | VInt _ _ => False
  | VFloat f => sf_int f = FNotInt
  | _ => True
  end.
Proof. exact arg_int_invalid. Qed.

Theorem C17_arg_int_out_of_range_iff_does_not_fit : forall t v,
  arg_int t v = BErr EOutOfRange <->
  match v with
  | VInt _ z => ~ (ity_min t <= z <= ity_max t)
  | VFloat f =>
      match sf_int f with
      | FInt z => ~ (ity_min t <= z <= ity_max t /\ i128_min <= z < two127)
      | FInf => True
      | FNotInt => False
      end
  | _ => False
  end.
Proof. exact arg_int_out_of_range. Qed.

Theorem C17_arg_int_no_other_error : forall t v,
  arg_int t v <> BErr EMissingArg /\ arg_int t v <> BErr EOther /\ arg_int t v <> BErr EPanic.
Proof. exact arg_int_never_other. Qed.

Theorem C17_kwargs_get_must_get : forall (A : Type) (conv : value -> bres A) k kw,
  kw_get conv k kw = match kw_find (s2l k) kw with
                     | None => BOk None
                     | Some v => match conv v with BOk a => BOk (Some a) | BErr e => BErr e end
                     end /\
  kw_must conv k kw = match kw_find (s2l k) kw with
                      | None => BErr EMissingArg
                      | Some v => conv v
                      end.
Proof. exact (fun A conv k kw => conj (kw_get_spec conv k kw) (kw_must_spec conv k kw)). Qed.

Print Assumptions C17_builtins_covered.
Print Assumptions C17_trim_spec.
Print Assumptions C17_replace_spec.
Print Assumptions C17_escape_spec.
Print Assumptions C17_case_filters_only_change_case_partial.
Print Assumptions C17_str_int_roundtrip.
Print Assumptions C17_range_spec.
Print Assumptions C17_arg_int_accepts_exactly.

(* non-vacuity *)
Example C17_ex_range :
  fn_range [(s2l "start", VInt U64 10); (s2l "end", VInt I64 1); (s2l "step_by", VInt I64 (-4))]
  = BOk (VArr [VInt I128 10; VInt I128 6; VInt I128 2]).
Proof. vm_compute. reflexivity. Qed.

Example C17_ex_range_cap :
  fn_range [(s2l "end", VInt U64 100001)] = BErr EOther /\
  fn_range [(s2l "end", VInt I128 i128_max); (s2l "start", VInt I128 (i128_max - 2))]
  = BOk (VArr [VInt I128 (i128_max - 2); VInt I128 (i128_max - 1)]).
Proof. vm_compute. split; reflexivity. Qed.

Example C17_ex_truncate :
  f_truncate [(s2l "length", VFloat (S754_finite false 4503599627370496 (-51)))] (VStr [26085; 26412; 35486]%N false)
  = BOk (VStr [26085; 26412; 8230]%N false).
Proof. vm_compute. reflexivity. Qed.

Example C17_ex_abs_min : f_abs [] (VInt I128 i128_min) = BErr EOther /\ f_abs [] (VInt I64 (- two63)) = BOk (VInt I128 two63).
Proof. vm_compute. split; reflexivity. Qed.

Example C17_ex_trim_pat_whole_occurrences :
  trim_end_matches (s2l "xy") (trim_start_matches (s2l "xy") (s2l "yxhixy")) = s2l "yxhi" /\
  trim_end_matches (s2l "->") (trim_start_matches (s2l "->") (s2l "--> a-b <--")) = s2l "--> a-b <--".
Proof. vm_compute. split; reflexivity. Qed.

Example C17_ex_replace : str_replace (s2l "aa") (s2l "b") (s2l "aaaa a aaa") = s2l "bb a ba".
Proof. vm_compute. reflexivity. Qed.
