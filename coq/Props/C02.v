(* C02 — Expressions follow the documented operators, precedence and undefined rules.
   Only statements, each closed by `exact`; proofs live in Proofs/PrattProofs.v (parsing half)
   and Proofs/ExprSemProofs.v (evaluation half).

   Parsing half.  `parse` is the Gallina port of parse_expr_bp / parse_ident / parse_subscript /
   parse_kwargs / parse_filter / parse_test (Model/Pratt.v); its recursion-depth argument IS
   MAX_RECURSION_DEPTH; `print` inserts exactly the parentheses the DOCUMENTED precedence table
   (levels `lvl_bin`, `lvl_un`, checked against the re-extracted documentation rows by
   C02_doc_levels) demands; `gen_bp` is the binding-power table re-extracted from parser.rs on
   every run.  Quantification: every surface tree (every expression tree, with every placement
   of redundant parentheses and both spellings `not in`/`is not` vs explicit negation), every
   depth and bracket budget, every continuation `rest` that starts with a token ending an
   expression, every binding-power table that is well-formed w.r.t. the documented levels. *)
From TeraV Require Import Model.Value Model.Pratt Model.PrattSide Proofs.PrattProofs.
From TeraV Require Import Spec.ExprSem Proofs.ExprSemProofs.
From Coq Require Import String.
Open Scope string_scope.
Open Scope nat_scope.

(* the binding powers in parser.rs order the operators exactly as the documented table does,
   row by row (unary operators placed by their right power), and no operator is missing *)
Theorem C02_bp_matches_docs : bp_matches_docs_b gen_bp BpTables.doc_prec_rows = true.
Proof. exact bp_matches_docs. Qed.

(* the levels the printer parenthesises by are the row numbers of the documented table *)
Theorem C02_doc_levels : doc_levels_b BpTables.doc_prec_rows = true.
Proof. exact doc_levels_match. Qed.

(* the table of the current parser.rs is well-formed: every min_bp the parser passes down cuts
   the operators at a documented level *)
Theorem C02_gen_bp_wf : wf_bp gen_bp = true /\ gen_rows_complete = true.
Proof. exact gen_bp_wf. Qed.

(* PARTIAL w.r.t. the full property grammar only in this: `printable` excludes array/map
   literals and list comprehensions (their bracket structure is parsed by dedicated functions,
   not by the binding-power loop; they are atoms for precedence and are covered by the
   correspondence run).  Everything else — constants, variables, `.`/`?.`/`[]`/`?[` chains,
   subscripts and slices `x[a:b:c]` on any base, unary `-`/`not`, the 17 infix operators, `not in`, `is`/`is not` tests and `|` filters
   with keyword arguments, function calls, the ternary, parentheses anywhere — is covered, for
   every well-formed binding-power table. *)
Theorem C02_pratt_roundtrip_partial : forall bp, wf_bp bp = true ->
  forall maxb maxdim s d c rest,
  printable s = true -> need s <= d -> fst c + needb s <= maxb -> closerL rest = true ->
  parse bp maxb maxdim d c 0 (print s ++ rest) = Some (desugar s, rest).
Proof. exact pratt_roundtrip_gen. Qed.

(* the same, from the AST: the parser's grouping IS the documented grouping and associativity *)
Theorem C02_pratt_roundtrip_ast_partial : forall bp, wf_bp bp = true ->
  forall maxb maxdim e d c rest,
  printable (embed e) = true -> need (embed e) <= d -> fst c + needb (embed e) <= maxb ->
  closerL rest = true ->
  parse bp maxb maxdim d c 0 (print (embed e) ++ rest) = Some (e, rest).
Proof. exact pratt_roundtrip_ast. Qed.

(* instantiated at the current parser.rs: a top-level `{{ s }}` within the nesting limits *)
Theorem C02_pratt_roundtrip_top_partial : forall s,
  printable s = true -> need s <= top_depth -> needb s <= max_brackets ->
  parse_top gen_bp (print s ++ [TVarEnd]) = Some (desugar s).
Proof. exact pratt_roundtrip_top. Qed.

(* redundant parentheses and the `not in` / `is not` spellings never change the tree *)
Theorem C02_pratt_decorations_partial : forall bp, wf_bp bp = true ->
  forall maxb maxdim e s d c rest,
  desugar s = e ->
  printable s = true -> need s <= d -> fst c + needb s <= maxb -> closerL rest = true ->
  parse bp maxb maxdim d c 0 (print s ++ rest) = Some (e, rest).
Proof. exact pratt_roundtrip_decorated. Qed.

Theorem C02_pratt_redundant_parens_partial : forall bp, wf_bp bp = true ->
  forall maxb maxdim s d c rest,
  printable s = true -> S (need s) <= d -> fst c + needb s <= maxb -> closerL rest = true ->
  parse bp maxb maxdim d c 0 (TLParen :: print s ++ TRParen :: rest) = Some (desugar s, rest).
Proof. exact pratt_redundant_parens. Qed.

(* ---------------------------------------------------------------- evaluation half
   `eval` (Spec/ExprSem.v) is the big-step evaluator written from the documentation; it is tied
   to the engine by the correspondence run (family `eval`), the bytecode-level theorem
   compile_expr_correct is stated over the VM model (Model/VM.v) elsewhere. *)

(* and/or evaluate left to right, stop at the deciding operand and yield it: the result does
   not depend on the other operand at all (it may be `throw(..)`) *)
Theorem C02_short_circuit_and_or : forall g a v,
  eval g a = Val v ->
  (is_truthy v = false -> forall b, eval g (EBin OAnd a b) = Val v) /\
  (is_truthy v = true -> forall b, eval g (EBin OOr a b) = Val v) /\
  (is_truthy v = true -> forall b, eval g (EBin OAnd a b) = eval g b) /\
  (is_truthy v = false -> forall b, eval g (EBin OOr a b) = eval g b).
Proof. exact short_circuit_and_or. Qed.

(* the branch of a ternary that is not taken is not evaluated *)
Theorem C02_ternary_lazy : forall g c v,
  eval g c = Val v ->
  (is_truthy v = true -> forall t f f', eval g (ETern c t f) = eval g t /\ eval g (ETern c t f) = eval g (ETern c t f')) /\
  (is_truthy v = false -> forall t t' f, eval g (ETern c t f) = eval g f /\ eval g (ETern c t f) = eval g (ETern c t' f)).
Proof. exact ternary_lazy. Qed.

(* exactly one level of undefined *)
Theorem C02_one_level_undefined : forall g e,
  eval g e = Val VUndef ->
  eval g (ETest e (s_ "defined") []) = Val (VBool false) /\
  eval g (ETest e (s_ "undefined") []) = Val (VBool true) /\
  eval g (EUn UNot e) = Val (VBool true) /\
  (forall b, eval g (EBin OOr e b) = eval g b) /\
  (forall b, eval g (EBin OAnd e b) = Val VUndef) /\
  (forall t f, eval g (ETern e t f) = eval g f) /\
  (forall d dv, eval g d = Val dv -> eval g (EFilter e (s_ "default") [(s_ "value", d)]) = Val dv) /\
  (forall a, eval g (EAttr e a true) = Val VUndef) /\
  (forall i iv, eval g i = Val iv -> eval g (EItem e i true) = Val VUndef) /\
  printed (eval g e) = Err /\
  (forall a, eval g (EAttr e a false) = Err) /\
  (forall i iv, eval g i = Val iv -> eval g (EItem e i false) = Err) /\
  (forall b iv, eval g b = Val (VArr iv) -> eval g (EItem b e false) = Err) /\
  eval g (EUn UMinus e) = Err /\
  (forall o b bv, arith_op o = true -> eval g b = Val bv ->
     eval g (EBin o e b) = Err /\ eval g (EBin o b e) = Err) /\
  (forall b bv, eval g b = Val bv -> eval g (EBin OIn b e) = Err) /\
  eval g (EFilter e (s_ "length") []) = Err.
Proof. exact one_level_undefined. Qed.

(* the undefined value comes from a missing variable, a missing last field, or an optional
   access on none *)
Theorem C02_undefined_sources : forall g x m a,
  (forall v, ~ In (x, v) g) -> lookup_var x g = VUndef ->
  eval g (EVar x) = Val VUndef /\
  (forall b, eval g b = Val (VMap m) -> map_get m a = VUndef -> eval g (EAttr b a false) = Val VUndef) /\
  (forall b, eval g b = Val VNone -> eval g (EAttr b a true) = Val VUndef).
Proof. exact undefined_sources. Qed.

Theorem C02_unbound_is_undefined : forall x g, (forall v, ~ In (x, v) g) -> lookup_var x g = VUndef.
Proof. exact lookup_unbound. Qed.

(* operations on unsupported operand kinds are errors, not coerced results *)
Theorem C02_no_coercion : forall a b,
  (forall o, arith_op o = true -> (is_number a && is_number b = false) -> binop o a b = Err) /\
  (forall o, order_op o = true -> N.eqb (kind_class a) (kind_class b) = false -> binop o a b = Err) /\
  (match b with VArr _ | VStr _ _ | VMap _ => False | _ => True end -> binop OIn a b = Err) /\
  (match b with VInt _ _ | VStr _ _ | VUndef => False | VBool _ => (match a with VMap _ => False | _ => True end) | _ => True end ->
   a <> VUndef -> get_item a b false = Err) /\
  (match a with VInt _ _ | VFloat _ => False | _ => True end ->
   forall g e, eval g e = Val a -> eval g (EUn UMinus e) = Err).
Proof. exact no_coercion. Qed.

Print Assumptions C02_bp_matches_docs.
Print Assumptions C02_pratt_roundtrip_partial.
Print Assumptions C02_pratt_roundtrip_top_partial.
Print Assumptions C02_one_level_undefined.
Print Assumptions C02_no_coercion.

(* non-vacuity *)
Definition v_ (s : String.string) : sx := SVar (s2l s).
(* a - b - c  is  (a - b) - c;   a ** b ** c  is  a ** (b ** c);   -a ** b  is  (-a) ** b *)
Example C02_ex_assoc :
  option_map display (parse_top gen_bp (print (SBin OMinus (SBin OMinus (v_ "a") (v_ "b")) (v_ "c")) ++ [TVarEnd]))
    = Some (s2l "(- (- a b) c)")
  /\ print (SBin OMinus (v_ "a") (SBin OMinus (v_ "b") (v_ "c")))
     = [TIdent (s2l "a"); TMinus; TLParen; TIdent (s2l "b"); TMinus; TIdent (s2l "c"); TRParen]
  /\ option_map display (parse_top gen_bp [TIdent (s2l "a"); TPower; TIdent (s2l "b"); TPower; TIdent (s2l "c"); TVarEnd])
    = Some (s2l "(** a (** b c))")
  /\ option_map display (parse_top gen_bp [TMinus; TIdent (s2l "a"); TPower; TIdent (s2l "b"); TVarEnd])
    = Some (s2l "(** (- a) b)").
Proof. vm_compute. repeat split; reflexivity. Qed.

Example C02_ex_printable :
  let s := STern (SBin OOr (v_ "a") (v_ "b"))
                 (SFilter (SUn UMinus (v_ "x")) (s2l "abs") [(s2l "k", SConst (CInt 3))])
                 (STest (SNotIn (v_ "a") (SItem (SAttr (v_ "m") (s2l "f") true) (SConst (CInt 0)) false))
                        (s2l "defined") [] true) in
  printable s = true /\ (need s <= top_depth) /\
  parse_top gen_bp (print s ++ [TVarEnd]) = Some (desugar s).
Proof. vm_compute. repeat split; try reflexivity. repeat constructor. Qed.

(* the parser's own restriction: `a ~ (-b)` is rejected although parenthesised *)
Example C02_ex_concat_unary :
  parse_top gen_bp (print (SBin OConcat (v_ "a") (SParen (SUn UMinus (v_ "b")))) ++ [TVarEnd]) = None.
Proof. vm_compute. reflexivity. Qed.

(* evaluation: `false and throw(..)` is false, `throw(..) if none else 2` is 2, `nope or 1` is 1,
   `nope.x or 1` is an error *)
Example C02_ex_eval :
  eval [] (EBin OAnd (EConst (CBool false)) (ECall (s2l "throw") [(s2l "message", EConst (CStr (s2l "b")))]))
    = Val (VBool false)
  /\ eval [] (ETern (EConst CNone) (ECall (s2l "throw") []) (EConst (CInt 2))) = Val (VInt I64 2%Z)
  /\ eval [] (EBin OOr (EVar (s2l "nope")) (EConst (CInt 1))) = Val (VInt I64 1%Z)
  /\ eval [] (EBin OOr (EAttr (EVar (s2l "nope")) (s2l "x") false) (EConst (CInt 1))) = Err
  /\ eval [] (EBin OPlus (EConst (CStr (s2l "1"))) (EConst (CInt 1))) = Err.
Proof. vm_compute. repeat split; reflexivity. Qed.
