(* C02 — Expressions follow the documented operators, precedence and undefined rules.
   Only statements, each closed by `exact`; proofs live in Proofs/PrattProofs.v (parsing half)
   and Proofs/ExprSemProofs.v (evaluation half).

   Parsing half.  `parse` is the Gallina port of parse_expr_bp / parse_ident / parse_subscript /
   parse_kwargs / parse_filter / parse_test / parse_array / parse_map / parse_list_comprehension
   (Model/Pratt.v); its recursion-depth argument IS
   MAX_RECURSION_DEPTH; `print` inserts exactly the parentheses the DOCUMENTED precedence table
   (levels `lvl_bin`, `lvl_un`, checked against the re-extracted documentation rows by
   C02_doc_levels) demands; `gen_bp` is the binding-power table re-extracted from parser.rs on
   every run.  Quantification: every surface tree (every expression tree, with every placement
   of redundant parentheses and both spellings `not in`/`is not` vs explicit negation), every
   depth and bracket budget, every continuation `rest` that starts with a token ending an
   expression, every binding-power table that is well-formed w.r.t. the documented levels. *)
From TeraV Require Import Model.Value Model.Pratt Model.PrattSide Proofs.PrattProofs.
From TeraV Require Import Spec.ExprSem Proofs.ExprSemProofs.
From Coq Require Import String.
Open Scope string_scope.
Open Scope nat_scope.

(* the binding powers in parser.rs order the operators exactly as the documented table does,
   row by row (unary operators placed by their right power), and no operator is missing *)
Theorem C02_bp_matches_docs : bp_matches_docs_b gen_bp BpTables.doc_prec_rows = true.
Proof. exact bp_matches_docs. Qed.

(* the levels the printer parenthesises by are the row numbers of the documented table *)
Theorem C02_doc_levels : doc_levels_b BpTables.doc_prec_rows = true.
Proof. exact doc_levels_match. Qed.

(* the table of the current parser.rs is well-formed: every min_bp the parser passes down cuts
   the operators at a documented level *)
Theorem C02_gen_bp_wf : wf_bp gen_bp = true /\ gen_rows_complete = true.
Proof. exact gen_bp_wf. Qed.

(* The whole expression grammar of the property is covered: constants, variables,
   `.`/`?.`/`[]`/`?[` chains, subscripts and slices `x[a:b:c]` on any base, unary `-`/`not`, the 17
   infix operators, `not in`, `is`/`is not` tests and `|` filters with keyword arguments, function
   calls, the ternary, parentheses anywhere, array literals `[a, ...b, c]` and map literals
   `{k: v, ...m}` (any number of elements, spreads at any position, nested, empty, with or without a
   trailing comma, literal-only ones folded into a constant as parse_array / parse_map do) and list
   comprehensions `[e for x in xs]`, `[e for k, v in m if c]` — for every well-formed binding-power
   table.  The literal forms are parsed by the ported dedicated loops (array_loop / map_loop /
   parse_comp in Model/Pratt.v), elements at min_bp 0 one recursion level down, target and condition
   of a comprehension at TERNARY_L_BP + 1 (printed parenthesised exactly when they are ternaries).
   Side conditions are the parser's own limits and rules: `need` (MAX_RECURSION_DEPTH), `needb`
   (MAX_NUM_LEFT_BRACKETS), `needa` (MAX_DIMENSION_ARRAY: nesting of array literals and
   comprehensions through any other construct), and `printable`: no unary right operand of `~`,
   `[,]` / `{,}` rejected, comprehension variables not reserved names, names not keywords.
   Not in the model (assumption, see tools/propcfg/C02.py): MAX_EXPRESSION_DEPTH (the D11 repair:
   more than 256 loop-built links on one spine are rejected by the real parser) and the inline
   component call `<Name .../>`. *)
Theorem C02_pratt_roundtrip : forall bp, wf_bp bp = true ->
  forall maxb maxdim s d c rest,
  printable s = true -> need s <= d -> fst c + needb s <= maxb -> snd c + needa s <= maxdim ->
  closerL rest = true ->
  parse bp maxb maxdim d c 0 (print s ++ rest) = Some (desugar s, rest).
Proof. exact pratt_roundtrip_gen. Qed.

(* the same, from the AST: the parser's grouping IS the documented grouping and associativity.
   `embed` writes an AST as the surface tree without sugar or parentheses (a folded literal-only
   container constant as the literal it was folded from); `normal e` says e is a tree the parser
   can build: an EArr / EMap node has a non-constant or spread item (otherwise parse_array /
   parse_map would have folded it) and a folded map constant has distinct keys (it is a HashMap). *)
Theorem C02_pratt_roundtrip_ast : forall bp, wf_bp bp = true ->
  forall maxb maxdim e d c rest,
  normal e = true ->
  printable (embed e) = true -> need (embed e) <= d -> fst c + needb (embed e) <= maxb ->
  snd c + needa (embed e) <= maxdim ->
  closerL rest = true ->
  parse bp maxb maxdim d c 0 (print (embed e) ++ rest) = Some (e, rest).
Proof. exact pratt_roundtrip_ast. Qed.

(* instantiated at the current parser.rs: a top-level `{{ s }}` within the nesting limits *)
Theorem C02_pratt_roundtrip_top : forall s,
  printable s = true -> need s <= top_depth -> needb s <= max_brackets -> needa s <= max_dim ->
  parse_top gen_bp (print s ++ [TVarEnd]) = Some (desugar s).
Proof. exact pratt_roundtrip_top. Qed.

(* redundant parentheses, the `not in` / `is not` spellings and trailing commas never change the tree *)
Theorem C02_pratt_decorations : forall bp, wf_bp bp = true ->
  forall maxb maxdim e s d c rest,
  desugar s = e ->
  printable s = true -> need s <= d -> fst c + needb s <= maxb -> snd c + needa s <= maxdim ->
  closerL rest = true ->
  parse bp maxb maxdim d c 0 (print s ++ rest) = Some (e, rest).
Proof. exact pratt_roundtrip_decorated. Qed.

Theorem C02_pratt_redundant_parens : forall bp, wf_bp bp = true ->
  forall maxb maxdim s d c rest,
  printable s = true -> S (need s) <= d -> fst c + needb s <= maxb -> snd c + needa s <= maxdim ->
  closerL rest = true ->
  parse bp maxb maxdim d c 0 (TLParen :: print s ++ TRParen :: rest) = Some (desugar s, rest).
Proof. exact pratt_redundant_parens. Qed.

(* `[a, b,]` is `[a, b]` and `{k: v,}` is `{k: v}` (non-empty literals; nested literals may carry
   their own trailing commas through `printable`) *)
Theorem C02_pratt_trailing_comma : forall bp, wf_bp bp = true ->
  forall maxb maxdim d c rest,
  (forall items, items <> [] ->
     printable (SArr items false) = true -> need (SArr items false) <= d ->
     fst c + needb (SArr items false) <= maxb -> snd c + needa (SArr items false) <= maxdim ->
     closerL rest = true ->
     parse bp maxb maxdim d c 0 (print (SArr items true) ++ rest) = Some (desugar (SArr items false), rest)) /\
  (forall es, es <> [] ->
     printable (SMap es false) = true -> need (SMap es false) <= d ->
     fst c + needb (SMap es false) <= maxb -> snd c + needa (SMap es false) <= maxdim ->
     closerL rest = true ->
     parse bp maxb maxdim d c 0 (print (SMap es true) ++ rest) = Some (desugar (SMap es false), rest)).
Proof. exact pratt_trailing_comma. Qed.

(* ---------------------------------------------------------------- evaluation half
   `eval` (Spec/ExprSem.v) is the big-step evaluator written from the documentation; it is tied
   to the engine by the correspondence run (family `eval`), the bytecode-level theorem
   compile_expr_correct is stated over the VM model (Model/VM.v) elsewhere. *)

(* and/or evaluate left to right, stop at the deciding operand and yield it: the result does
   not depend on the other operand at all (it may be `throw(..)`) *)
Theorem C02_short_circuit_and_or : forall g a v,
  eval g a = Val v ->
  (is_truthy v = false -> forall b, eval g (EBin OAnd a b) = Val v) /\
  (is_truthy v = true -> forall b, eval g (EBin OOr a b) = Val v) /\
  (is_truthy v = true -> forall b, eval g (EBin OAnd a b) = eval g b) /\
  (is_truthy v = false -> forall b, eval g (EBin OOr a b) = eval g b).
Proof. exact short_circuit_and_or. Qed.

(* the branch of a ternary that is not taken is not evaluated *)
Theorem C02_ternary_lazy : forall g c v,
  eval g c = Val v ->
  (is_truthy v = true -> forall t f f', eval g (ETern c t f) = eval g t /\ eval g (ETern c t f) = eval g (ETern c t f')) /\
  (is_truthy v = false -> forall t t' f, eval g (ETern c t f) = eval g f /\ eval g (ETern c t f) = eval g (ETern c t' f)).
Proof. exact ternary_lazy. Qed.

(* exactly one level of undefined *)
Theorem C02_one_level_undefined : forall g e,
  eval g e = Val VUndef ->
  eval g (ETest e (s_ "defined") []) = Val (VBool false) /\
  eval g (ETest e (s_ "undefined") []) = Val (VBool true) /\
  eval g (EUn UNot e) = Val (VBool true) /\
  (forall b, eval g (EBin OOr e b) = eval g b) /\
  (forall b, eval g (EBin OAnd e b) = Val VUndef) /\
  (forall t f, eval g (ETern e t f) = eval g f) /\
  (forall d dv, eval g d = Val dv -> eval g (EFilter e (s_ "default") [(s_ "value", d)]) = Val dv) /\
  (forall a, eval g (EAttr e a true) = Val VUndef) /\
  (forall i iv, eval g i = Val iv -> eval g (EItem e i true) = Val VUndef) /\
  printed (eval g e) = Err /\
  (forall a, eval g (EAttr e a false) = Err) /\
  (forall i iv, eval g i = Val iv -> eval g (EItem e i false) = Err) /\
  (forall b iv, eval g b = Val (VArr iv) -> eval g (EItem b e false) = Err) /\
  eval g (EUn UMinus e) = Err /\
  (forall o b bv, arith_op o = true -> eval g b = Val bv ->
     eval g (EBin o e b) = Err /\ eval g (EBin o b e) = Err) /\
  (forall b bv, eval g b = Val bv -> eval g (EBin OIn b e) = Err) /\
  eval g (EFilter e (s_ "length") []) = Err.
Proof. exact one_level_undefined. Qed.

(* the undefined value comes from a missing variable, a missing last field, or an optional
   access on none *)
Theorem C02_undefined_sources : forall g x m a,
  (forall v, ~ In (x, v) g) -> lookup_var x g = VUndef ->
  eval g (EVar x) = Val VUndef /\
  (forall b, eval g b = Val (VMap m) -> map_get m a = VUndef -> eval g (EAttr b a false) = Val VUndef) /\
  (forall b, eval g b = Val VNone -> eval g (EAttr b a true) = Val VUndef).
Proof. exact undefined_sources. Qed.

Theorem C02_unbound_is_undefined : forall x g, (forall v, ~ In (x, v) g) -> lookup_var x g = VUndef.
Proof. exact lookup_unbound. Qed.

(* operations on unsupported operand kinds are errors, not coerced results *)
Theorem C02_no_coercion : forall a b,
  (forall o, arith_op o = true -> (is_number a && is_number b = false) -> binop o a b = Err) /\
  (forall o, order_op o = true -> N.eqb (kind_class a) (kind_class b) = false -> binop o a b = Err) /\
  (match b with VArr _ | VStr _ _ | VMap _ => False | _ => True end -> binop OIn a b = Err) /\
  (match b with VInt _ _ | VStr _ _ | VUndef => False | VBool _ => (match a with VMap _ => False | _ => True end) | _ => True end ->
   a <> VUndef -> get_item a b false = Err) /\
  (match a with VInt _ _ | VFloat _ => False | _ => True end ->
   forall g e, eval g e = Val a -> eval g (EUn UMinus e) = Err).
Proof. exact no_coercion. Qed.

(* list comprehensions (Spec/ExprSem.v, from "similar to the ones in Python ... syntax sugar for a
   `for` loop"): over an array target the result is `map f (filter p target)` in order, where the
   condition (when present) is evaluated for every element with the loop variable bound to it -
   shadowing any outer variable of that name - and the element expression only for the elements
   the condition keeps: for skipped elements it is not evaluated at all (it may be `throw(..)`) *)
Theorem C02_comprehension_filter_map : forall g e v target cond l (f : value -> value) (p : value -> bool),
  eval g target = Val (VArr l) ->
  (forall x, In x l ->
     match cond with
     | Some c => exists cv, eval ((v, x) :: g) c = Val cv /\ is_truthy cv = p x
     | None => p x = true
     end) ->
  (forall x, In x l -> p x = true -> eval ((v, x) :: g) e = Val (f x) /\ f x <> VUndef) ->
  eval g (EComp e None v target cond) = Val (VArr (map f (filter p l))).
Proof. exact comprehension_filter_map. Qed.

(* an error in the condition / element for the first element is the result *)
Theorem C02_comprehension_error : forall g e v target cond x r,
  eval g target = Val (VArr (x :: r)) ->
  (match cond with Some c => eval ((v, x) :: g) c = Err
                 | None => eval ((v, x) :: g) e = Err end) ->
  eval g (EComp e None v target cond) = Err.
Proof. exact comprehension_error. Qed.

Print Assumptions C02_comprehension_filter_map.
Print Assumptions C02_comprehension_error.
Print Assumptions C02_bp_matches_docs.
Print Assumptions C02_pratt_roundtrip.
Print Assumptions C02_pratt_roundtrip_ast.
Print Assumptions C02_pratt_roundtrip_top.
Print Assumptions C02_pratt_decorations.
Print Assumptions C02_pratt_redundant_parens.
Print Assumptions C02_pratt_trailing_comma.
Print Assumptions C02_one_level_undefined.
Print Assumptions C02_no_coercion.

(* non-vacuity *)
Definition v_ (s : String.string) : sx := SVar (s2l s).
(* a - b - c  is  (a - b) - c;   a ** b ** c  is  a ** (b ** c);   -a ** b  is  (-a) ** b *)
Example C02_ex_assoc :
  option_map display (parse_top gen_bp (print (SBin OMinus (SBin OMinus (v_ "a") (v_ "b")) (v_ "c")) ++ [TVarEnd]))
    = Some (s2l "(- (- a b) c)")
  /\ print (SBin OMinus (v_ "a") (SBin OMinus (v_ "b") (v_ "c")))
     = [TIdent (s2l "a"); TMinus; TLParen; TIdent (s2l "b"); TMinus; TIdent (s2l "c"); TRParen]
  /\ option_map display (parse_top gen_bp [TIdent (s2l "a"); TPower; TIdent (s2l "b"); TPower; TIdent (s2l "c"); TVarEnd])
    = Some (s2l "(** a (** b c))")
  /\ option_map display (parse_top gen_bp [TMinus; TIdent (s2l "a"); TPower; TIdent (s2l "b"); TVarEnd])
    = Some (s2l "(** (- a) b)").
Proof. vm_compute. repeat split; reflexivity. Qed.

Example C02_ex_printable :
  let s := STern (SBin OOr (v_ "a") (v_ "b"))
                 (SFilter (SUn UMinus (v_ "x")) (s2l "abs") [(s2l "k", SConst (CInt 3))])
                 (STest (SNotIn (v_ "a") (SItem (SAttr (v_ "m") (s2l "f") true) (SConst (CInt 0)) false))
                        (s2l "defined") [] true) in
  printable s = true /\ (need s <= top_depth) /\
  parse_top gen_bp (print s ++ [TVarEnd]) = Some (desugar s).
Proof. vm_compute. repeat split; try reflexivity. repeat constructor. Qed.

(* the parser's own restriction: `a ~ (-b)` is rejected although parenthesised *)
Example C02_ex_concat_unary :
  parse_top gen_bp (print (SBin OConcat (v_ "a") (SParen (SUn UMinus (v_ "b")))) ++ [TVarEnd]) = None.
Proof. vm_compute. reflexivity. Qed.

(* literals and comprehensions: spreads at every position, nesting, a trailing comma, a folded
   literal-only array inside a map, a comprehension with key, ternary target (parenthesised by the
   printer) and condition; all inside operators / a filter / a ternary *)
Example C02_ex_literals :
  let arr := SArr [(true, v_ "xs"); (false, SBin OPlus (v_ "a") (SConst (CInt 1)));
                   (false, SArr [(false, SConst (CInt 1)); (false, SConst (CInt 2))] true); (true, v_ "ys")] true in
  let mp := SMap [(None, v_ "base"); (Some (MKStr (s2l "k")), STern (v_ "c") (v_ "a") (v_ "b"));
                  (Some (MKInt 3%Z), arr); (Some (MKBool true), SMap [] false); (None, v_ "more")] false in
  let cmp := SComp (SBin OMul (v_ "x") (v_ "x")) (Some (s2l "k")) (s2l "x")
                   (STern (v_ "c") (v_ "m") mp) (Some (SBin OGt (v_ "x") (SConst (CInt 0)))) in
  let s := STern (SBin OIn (v_ "a") arr) (SFilter cmp (s2l "length") []) (SItem mp (SConst (CStr (s2l "k"))) false) in
  printable s = true /\ (need s <= top_depth) /\ (needb s <= max_brackets) /\ (needa s <= max_dim) /\
  (parse_top gen_bp (print s ++ [TVarEnd]) = Some (desugar s)) /\
  (desugar (SArr [(false, SConst (CInt 1)); (false, SConst (CInt 2))] true) = EConst (CArr [CInt 1; CInt 2])).
Proof. vm_compute. repeat split; try reflexivity; repeat constructor. Qed.

(* from the AST, with folded constants inside: `a in [1, "x"] and {"k": [2], true: none}[k]` *)
Example C02_ex_ast_folded :
  let e := EBin OAnd (EBin OIn (EVar (s2l "a")) (EConst (CArr [CInt 1; CStr (s2l "x")])))
                     (EItem (EConst (CMap [(MKStr (s2l "k"), CArr [CInt 2]); (MKBool true, CNone)])) (EVar (s2l "k")) false) in
  normal e = true /\ printable (embed e) = true /\
  parse_top gen_bp (print (embed e) ++ [TVarEnd]) = Some e.
Proof. vm_compute. repeat split; reflexivity. Qed.

(* the parser's own rules: `[,]` is rejected, a third array dimension is rejected, a reserved
   comprehension variable is rejected *)
Example C02_ex_literal_limits :
  parse_top gen_bp [TLBracket; TComma; TRBracket; TVarEnd] = None
  /\ printable (SArr [] true) = false
  /\ (let a3 := SArr [(false, SArr [(false, SArr [(false, v_ "a")] false)] false)] false in
      needa a3 = 3 /\ parse_top gen_bp (print a3 ++ [TVarEnd]) = None)
  /\ (let c := SComp (v_ "x") None (s2l "loop") (v_ "xs") None in
      printable c = false /\ parse_top gen_bp (print c ++ [TVarEnd]) = None).
Proof. vm_compute. repeat split; reflexivity. Qed.

(* `[x * x for x in [1, 2, 3] if x > 1]` is `[4, 9]` with an outer x untouched; the element is not
   evaluated for skipped items; spreads splice a comprehension's result *)
Example C02_ex_comprehension :
  let xs := EConst (CArr [CInt 1; CInt 2; CInt 3]) in
  let x := EVar (s2l "x") in
  eval [(s2l "x", VInt I64 100%Z)]
       (EArr [(false, EComp (EBin OMul x x) None (s2l "x") xs (Some (EBin OGt x (EConst (CInt 1))))); (false, x)])
    = Val (VArr [VArr [VInt I64 4%Z; VInt I64 9%Z]; VInt I64 100%Z])
  /\ eval [] (EComp (ECall (s2l "throw") []) None (s2l "x") xs (Some (EConst (CBool false)))) = Val (VArr [])
  /\ eval [] (EComp (ECall (s2l "throw") []) None (s2l "x") xs None) = Err
  /\ eval [] (EArr [(true, EComp x None (s2l "x") xs None); (false, EConst (CInt 0))])
    = Val (VArr [VInt I64 1%Z; VInt I64 2%Z; VInt I64 3%Z; VInt I64 0%Z]).
Proof. vm_compute. repeat split; reflexivity. Qed.

(* evaluation: `false and throw(..)` is false, `throw(..) if none else 2` is 2, `nope or 1` is 1,
   `nope.x or 1` is an error *)
Example C02_ex_eval :
  eval [] (EBin OAnd (EConst (CBool false)) (ECall (s2l "throw") [(s2l "message", EConst (CStr (s2l "b")))]))
    = Val (VBool false)
  /\ eval [] (ETern (EConst CNone) (ECall (s2l "throw") []) (EConst (CInt 2))) = Val (VInt I64 2%Z)
  /\ eval [] (EBin OOr (EVar (s2l "nope")) (EConst (CInt 1))) = Val (VInt I64 1%Z)
  /\ eval [] (EBin OOr (EAttr (EVar (s2l "nope")) (s2l "x") false) (EConst (CInt 1))) = Err
  /\ eval [] (EBin OPlus (EConst (CStr (s2l "1"))) (EConst (CInt 1))) = Err.
Proof. vm_compute. repeat split; reflexivity. Qed.
