(* C20 — tera-contrib codecs are lossless and emit only their target alphabet.
   Only statements, each closed by `exact`; proofs live in Proofs/Codec*.v.
   Quantification: every string of Unicode scalar values (any length), every value tree (any depth and
   width, every kind, every key kind), both layouts, all four (url_safe, padded) combinations.
   The theorems are about the Gallina models of the filters AND of the third-party crates behind them
   (base64, percent-encoding, serde_json, slug: modelled from their source/RFCs, tied to the real
   code only by the correspondence run).  Tables (`b64_encode_table`, `b64_decode_table`,
   `urlencode_chain`, `urlencode_strict_chain`, `json_pretty_table`) are Gen.CodecTables,
   re-extracted from tera-contrib on every run. *)
From TeraV Require Import Model.Value Model.Utf8 Gen.CodecTables Model.Codec Spec.Codec
  Proofs.CodecProofs Proofs.CodecB64Proofs Proofs.CodecJsonProofs.
From Coq Require Import List NArith.
Import ListNotations.
Open Scope N_scope.

(* ---- base64 ---- *)

(* b64_decode(b64_encode(s)) = s for each of the four option combinations (decoder called with the
   same url_safe; it never sees `padded`) *)
Theorem C20_b64_roundtrip : forall u p s,
  scalars s ->
  exists t, b64_encode_filter u p s = ROk t /\ b64_decode_filter u t = ROk s.
Proof. exact b64_filter_roundtrip. Qed.

(* byte level, every byte string (not only UTF-8): Engine::decode (indifferent padding, trailing bits
   rejected) inverts each of the four engines *)
Theorem C20_b64_bytes_roundtrip : forall e l,
  bytes l ->
  b64_decode_bytes (alphabet_of (fst (engine_cfg e))) Indifferent false (b64_encode_engine e l) = DOk l.
Proof. exact b64_engine_roundtrip. Qed.

(* the encoded text is body ++ "=" * k with body in the engine's alphabet, k <= 2, k = 0 when not
   padded, total length a multiple of 4 when padded *)
Theorem C20_b64_alphabet : forall e l,
  bytes l ->
  exists body k,
    b64_encode_engine e l = body ++ repeat 61 k /\
    Forall (fun c => is_b64_char (url_of (fst (engine_cfg e))) c = true) body /\
    (k <= 2)%nat /\ (snd (engine_cfg e) = false -> k = 0%nat) /\
    (snd (engine_cfg e) = true -> (length (b64_encode_engine e l) mod 4 = 0)%nat).
Proof. exact b64_engine_shape. Qed.

(* any character outside the alphabet (other than "=") anywhere in the input makes the decoder fail,
   in every padding mode, with or without tolerated trailing bits *)
Theorem C20_b64_decode_invalid_is_err : forall a mode allow_trailing x l,
  is_b64_char (url_of a) x = false -> x <> 61 -> In x l ->
  exists e, b64_decode_bytes (alphabet_of a) mode allow_trailing l = DErr e.
Proof. exact b64_invalid_gen. Qed.

(* SOUNDNESS of the decoder used by the filter (indifferent padding, trailing bits rejected): every text
   it accepts is the canonical unpadded encoding of the bytes it returns, followed only by "=" signs.
   With the round trip this characterises the accepted texts; in particular a foreign character, a
   misplaced "=", a length of 1 mod 4 and non-zero trailing bits are all errors. *)
Theorem C20_b64_decode_sound : forall a l bs,
  b64_decode_bytes (alphabet_of a) Indifferent false l = DOk bs ->
  exists k, l = b64_encode_engine (no_pad_engine a) bs ++ repeat 61 k /\ bytes bs.
Proof. exact b64_decode_sound_engine. Qed.

(* encoding block by block: cutting the input after a multiple of 3 bytes gives the same text (every
   block but the last encoded without padding); cutting elsewhere does not - the pieces' encodings
   concatenated differ from the encoding of the whole and do not decode back to it.  (This is the
   periodicity the harness uses to print long texts in run-length form, and the class of defect
   "encoder fed in blocks of 4096 bytes".) *)
Theorem C20_b64_blockwise : forall e l1 l2,
  (length l1 mod 3 = 0)%nat ->
  b64_encode_engine e (l1 ++ l2) =
  b64_encode_engine (no_pad_engine (fst (engine_cfg e))) l1 ++ b64_encode_engine e l2.
Proof. exact encode_blockwise. Qed.

Theorem C20_b64_blockwise_needs_multiple_of_3 :
  exists e l1 l2, b64_encode_engine e (l1 ++ l2) <> b64_encode_engine e l1 ++ b64_encode_engine e l2 /\
                  b64_decode_bytes (alphabet_of (fst (engine_cfg e))) Indifferent false
                                   (b64_encode_engine e l1 ++ b64_encode_engine e l2) <> DOk (l1 ++ l2).
Proof. exact encode_blockwise_needs_3. Qed.

(* a text of length 1 mod 4 is never accepted *)
Theorem C20_b64_decode_bad_length_is_err : forall al mode allow_trailing l,
  (length l mod 4 = 1)%nat -> exists e, b64_decode_bytes al mode allow_trailing l = DErr e.
Proof. exact b64_bad_length. Qed.

(* the filter returns a string only when the decoded bytes are well-formed UTF-8 (otherwise an error) *)
Theorem C20_b64_decode_ok_is_utf8 : forall u s t,
  b64_decode_filter u s = ROk t ->
  exists a mode tr bs, lookup_bool b64_decode_table u = Some (a, mode, tr) /\
    b64_decode_bytes (alphabet_of a) mode tr (utf8_encode s) = DOk bs /\ utf8_decode bs = Some t.
Proof. exact b64_decode_ok_utf8. Qed.

(* ---- urlencode / urlencode_strict ---- *)

(* percent-decoding the output gives back the UTF-8 bytes of s, which decode to s *)
Theorem C20_pct_roundtrip : forall s,
  scalars s ->
  pct_decode (urlencode_filter s) = Some (utf8_encode s) /\
  pct_decode (urlencode_strict_filter s) = Some (utf8_encode s) /\
  utf8_decode (utf8_encode s) = Some s.
Proof. exact pct_roundtrip_filters. Qed.

(* only unreserved characters (plus "/" for the non-strict form) and %XX escapes *)
Theorem C20_pct_alphabet : forall s,
  scalars s ->
  pct_shape (fun c => c =? 47) (urlencode_filter s) = true /\
  pct_shape (fun _ => false) (urlencode_strict_filter s) = true.
Proof. exact pct_alphabet_filters. Qed.

(* the sets are exact: the python-compatible set leaves precisely unreserved + "/" unescaped, the
   strict set precisely letters and digits (so "-._~" are escaped by urlencode_strict) *)
Theorem C20_pct_sets_exact : forall b,
  (should_percent_encode urlencode_chain b = false <-> is_unreserved b || (b =? 47) = true) /\
  (is_alnum b = true -> should_percent_encode urlencode_strict_chain b = false) /\
  (should_percent_encode urlencode_strict_chain b = false -> is_unreserved b || false = true).
Proof. exact pct_sets_exact. Qed.

(* ---- json_encode ---- *)

(* For every value tree (non-finite floats included: they are written as null and canon maps them to
   null), both layouts: the output is well-formed JSON (the RFC 8259 reference reader accepts it,
   consuming all of it) and reads back as the data `canon ft v`.
   FLOATS ARE AN ORACLE: `ft` is the text serde_json prints for a float; the hypothesis `floats_ok`
   says that for each finite float in v that text is a JSON number token, not an integer token,
   whose exact decimal value rounds (to nearest, ties to even) to the float.  The correspondence
   run checks this hypothesis on every float text the implementation produced. *)
Theorem C20_json_roundtrip : forall ft p v,
  floats_ok ft v ->
  exists text, json_encode_filter ft p v = ROk text /\ json_read text = Some (canon ft v).
Proof. exact json_filter_roundtrip. Qed.

(* objects as data: looking a member up by the key's text finds exactly that entry's value, provided
   the keys of the map stay pairwise distinct once written as member names ... *)
Theorem C20_json_object_faithful : forall ft m,
  NoDup (member_names m) ->
  forall k x, In (k, x) m ->
  exists ms, canon ft (VMap m) = JObj ms /\ In (key_text k, canon ft x) ms /\
             forall j, In (key_text k, j) ms -> j = canon ft x.
Proof. exact json_object_faithful. Qed.

(* ... which distinct tera keys need not do: 1 and "1" (known finding
   json:map-keys-collide-after-stringify; the harness reproduces it on the real filter) *)
Theorem C20_json_distinct_keys_refuted :
  exists m : list (key * value), NoDup (map fst m) /\ ~ NoDup (member_names m).
Proof. exact json_key_collision_refuted. Qed.

(* ---- slug ---- *)

(* for ANY transliteration oracle (ASCII or not): only [a-z0-9-], no leading, trailing or doubled hyphen *)
Theorem C20_slug_alphabet : forall deunicode_char s,
  let out := slugify deunicode_char s in
  Forall (fun c => is_slug_char c = true) out /\ hd 0 out <> 45 /\ last out 0 <> 45 /\
  (forall l1 l2, out <> l1 ++ 45 :: 45 :: l2).
Proof. exact slug_alphabet_gen. Qed.

(* ---- UTF-8 (used by all of the above) ---- *)
Theorem C20_utf8_roundtrip : forall s, scalars s -> utf8_decode (utf8_encode s) = Some s.
Proof. exact utf8_roundtrip. Qed.

Print Assumptions C20_b64_roundtrip.
Print Assumptions C20_b64_alphabet.
Print Assumptions C20_pct_roundtrip.
Print Assumptions C20_json_roundtrip.
Print Assumptions C20_slug_alphabet.
Print Assumptions C20_json_object_faithful.
Print Assumptions C20_b64_decode_invalid_is_err.
Print Assumptions C20_b64_decode_sound.
Print Assumptions C20_b64_blockwise.

(* non-vacuity *)
Example C20_ex_b64 :
  b64_encode_filter true false [60; 60; 63; 63; 62; 62; 233] = ROk [80; 68; 119; 95; 80; 122; 52; 45; 119; 54; 107]
  /\ b64_decode_filter true [80; 68; 119; 95; 80; 122; 52; 45; 119; 54; 107] = ROk [60; 60; 63; 63; 62; 62; 233].
Proof. vm_compute. split; reflexivity. Qed.

Example C20_ex_b64_trailing_bits : b64_decode_filter false [90; 104] = RErr ErrMsg      (* "Zh" *)
  /\ b64_decode_filter false [90; 103] = ROk [102]                                      (* "Zg" *)
  /\ b64_decode_filter false [90; 103; 61] = ROk [102].                                 (* "Zg=" *)
Proof. vm_compute. repeat split; reflexivity. Qed.

Example C20_ex_url : urlencode_filter [97; 47; 98; 63; 126; 233] = [97; 47; 98; 37; 51; 70; 126; 37; 67; 51; 37; 65; 57]
  /\ urlencode_strict_filter [97; 47; 126] = [97; 37; 50; 70; 37; 55; 69].
Proof. vm_compute. split; reflexivity. Qed.

Example C20_ex_json :
  let ft := fun _ : spec_float => [49; 46; 53] in
  let v := VMap [(KInt I64 (-5), VArr [VFloat (S754_finite false 6755399441055744 (-52)); VStr [34; 10; 233] false; VNone])] in
  floats_ok ft v /\
  json_read (json_write ft true 0 v) = Some (canon ft v) /\
  canon ft v = JObj [([45; 53], JArr [JNum (JN false 15 (-1) false); JStr [34; 10; 195; 169]; JNull])].
Proof. vm_compute. repeat split; try reflexivity. repeat constructor. Qed.

(* what "the same data" cannot mean: map keys of different kinds collide once stringified *)
Example C20_json_key_kinds_collide :
  let ft := fun _ : spec_float => [] in
  canon ft (VMap [(KInt U64 1, VNone); (KStr [49] false, VNone)]) = JObj [([49], JNull); ([49], JNull)].
Proof. vm_compute. reflexivity. Qed.

Example C20_ex_slug : slugify (fun _ => Some [65; 69]) [32; 72; 198; 108; 108; 111; 32; 33; 87; 45] = [104; 97; 101; 108; 108; 111; 45; 119].
Proof. vm_compute. reflexivity. Qed.
