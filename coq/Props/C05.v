(* C05 — Components: arguments checked and bound, scope isolated, recursion bounded.
   Only statements, each closed by `exact`; proofs live in Proofs/ComponentProofs.v.
   Quantification: every signature (any number of parameters, typed or not, with or without
   defaults, with or without a rest parameter), every supplied argument map, every body, every
   list of definitions in every order, every sequence of calls / includes / returns. *)
From Coq Require Import Permutation.
From TeraV Require Import Model.Value Model.Instr Gen.Tables Gen.TypeTables Model.Component
  Spec.ComponentSpec Corr.CorrC05 Proofs.ComponentProofs.

(* ---------------------------------------------------------------- parameter types (Gen.TypeTables) *)

(* the generated arms of Type::matches_value / Type::from_value mean what the documentation
   says; a changed arm re-opens these *)
Theorem C05_type_matches_is_documented : forall t v, type_matches t v = doc_matches t v.
Proof. exact type_matches_doc. Qed.

Theorem C05_type_inference_is_documented : forall v, type_from_value v = doc_infer v.
Proof. exact type_from_value_doc. Qed.

Theorem C05_inferred_type_admits_its_default : forall v t,
  type_from_value v = Some t -> type_matches t v = true.
Proof. exact inferred_type_admits_default. Qed.

(* ---------------------------------------------------------------- build_context *)

(* accepted iff (no undeclared argument or a rest parameter) and every parameter without a
   default is supplied and every supplied declared value has the declared-or-inferred type *)
Theorem C05_build_context_spec : forall d s body,
  (exists c, build_context_of d s body = ROk c) <-> accepts d s.
Proof. exact build_context_accepts. Qed.

(* ... and then the context binds EXACTLY: each parameter to the supplied value else its
   default; the rest name (iff declared) to the map of the undeclared supplied pairs; `body` iff
   a body was given; nothing else (the domain is stated exactly) *)
Theorem C05_build_context_binds_exactly : forall d s body c,
  wf_def d -> build_context_of d s body = ROk c ->
  (forall p, In p (def_params d) -> ctx_get c (p_name p) = bound_value s p) /\
  (forall r, def_rest d = Some r -> exists m, ctx_get c r = Some (VMap m) /\ is_rest_map d s m) /\
  ctx_get c body_name = body /\
  (forall n, ctx_get c n <> None <-> visible d body n) /\
  NoDup (ctx_keys c).
Proof. exact build_context_binds. Qed.

(* a rejected call is an error value (a message), never the `unreachable!()` *)
Theorem C05_build_context_rejects_with_error : forall d s body e,
  build_context_of d s body = RErr e -> e = ErrOther.
Proof. exact build_context_of_err. Qed.

(* what a call site hands to build_context is build_context_of on the string-keyed entries of
   the attribute map: an entry under a non-string key (possible through a spread) is dropped *)
Theorem C05_call_site_uses_string_keyed_arguments : forall d m body,
  build_context d (str_keys m) (kw_get m) body = build_context_of d (str_entries m) body.
Proof. exact vm_call_is_build_context_of. Qed.

(* ---------------------------------------------------------------- isolation *)

(* the callee's state is State::new_with_chunk(&context, chunk): a name resolves to what the
   built context holds and to nothing else — no loops, no set variables, no includer, no global
   context; the same holds in a template included from the component body; and
   `__tera_context` shows exactly the built context *)
Theorem C05_component_state_isolated : forall c n,
  get_value (state_new c) n = ctx_value c n /\
  get_value (state_include (state_new c)) n = ctx_value c n /\
  (NoDup (ctx_keys c) -> ctx_get (dump_context (state_new c)) n = ctx_get c n).
Proof.
  exact (fun c n => conj (get_value_state_new c n)
                     (conj (get_value_include_of_new c n) (dump_context_state_new c n))).
Qed.

Theorem C05_callee_sees_only_its_arguments : forall d s body c,
  wf_def d -> build_context_of d s body = ROk c ->
  forall n, (get_value (state_new c) n <> VUndef \/ get_value (state_include (state_new c)) n <> VUndef) ->
            visible d body n.
Proof. exact callee_sees_only_visible. Qed.

(* ---------------------------------------------------------------- priority *)

(* an accepted set: per name the kept definition was offered, has the minimal priority index,
   and is the only definition at that index; names never offered are absent *)
Theorem C05_priority_selection : forall (A : Type) (l : list (str * nat * A)) t,
  select_components l = ROk t ->
  forall n,
    match ct_get t n with
    | Some (a, p) =>
        In (n, p, a) l /\ (forall p' a', In (n, p', a') l -> (p <= p')%nat) /\
        (forall a', In (n, p, a') l -> a' = a) /\ count_np n p l = 1%nat
    | None => forall p a, ~ In (n, p, a) l
    end.
Proof. exact @priority_selection_ok. Qed.

(* the table is independent of the order in which the templates are visited *)
Theorem C05_priority_order_independent : forall (A : Type) (l l' : list (str * nat * A)) t t',
  Permutation l l' -> select_components l = ROk t -> select_components l' = ROk t' ->
  forall n, ct_get t n = ct_get t' n.
Proof. exact @priority_order_independent. Qed.

(* two definitions of a name at its best priority are rejected in every order *)
Theorem C05_priority_duplicate_rejected : forall (A : Type) (l : list (str * nat * A)) n p a a' l1 l2 l3,
  l = l1 ++ (n, p, a) :: l2 ++ (n, p, a') :: l3 ->
  (forall p' x, In (n, p', x) l -> (p <= p')%nat) ->
  select_components l = RErr ErrMsg.
Proof. exact @priority_duplicate_rejected. Qed.

(* which definition a call site runs: the priority-selected table entry whenever the table has
   the name — whatever template the call stands in, also one that itself holds a lower-priority
   definition of that name; a template-local definition is used only when the table lacks the
   name (one-off templates) *)
Theorem C05_call_site_lookup_is_table_entry : forall (A : Type) (t : ctable A) local n a p,
  ct_get t n = Some (a, p) -> lookup_component t local n = ROk a.
Proof. exact @lookup_component_table. Qed.

Theorem C05_call_site_lookup_falls_back_to_local : forall (A : Type) (t : ctable A) local n,
  ct_get t n = None ->
  lookup_component t local n = match local_get local n with Some a => ROk a | None => RErr ErrPanic end.
Proof. exact @lookup_component_fallback. Qed.

Theorem C05_call_site_runs_best_priority : forall (A : Type) (l : list (str * nat * A)) (t : ctable A) local n p0 a0,
  select_components l = ROk t -> In (n, p0, a0) l ->
  exists a p, lookup_component t local n = ROk a /\ In (n, p, a) l /\
              (forall p' a', In (n, p', a') l -> (p <= p')%nat) /\ (forall a', In (n, p, a') l -> a' = a).
Proof. exact @call_site_runs_best_priority. Qed.

(* "equal priority => rejection, whatever the order" is FALSE of the code as it is for
   duplicates that are shadowed by a better definition: whether they are rejected depends on
   the visiting order (sorted template names). The kept definition is unaffected. *)
Theorem C05_priority_rejection_order_independent_refuted :
  exists l l' : list (str * nat * nat),
    Permutation l l' /\ (exists t, select_components l = ROk t) /\ select_components l' = RErr ErrMsg.
Proof. exact priority_rejection_depends_on_order. Qed.

Theorem C05_template_priority_is_first_matching_prefix : forall prefixes name,
  match get_template_priority prefixes name with
  | O => forall p, In p prefixes -> starts_with name p = false
  | S k => exists j p, k = (0 + j)%nat /\ nth_error prefixes j = Some p /\ starts_with name p = true /\
                       forall j' p', (j' < j)%nat -> nth_error prefixes j' = Some p' -> starts_with name p' = false
  end.
Proof. exact (fun prefixes name => priority_from_spec prefixes name 0%nat). Qed.

(* ---------------------------------------------------------------- recursion depth *)

(* in every execution (any sequence of calls, includes and returns from either entry point) the
   number of live called components is at most the limit, the running frame's counter is that
   number, and the number of live component frames is at most the limit (+1 for the component
   rendered through the API, which runs at counter 0) *)
Theorem C05_depth_bounded : forall api evs st,
  run (init_stack api) evs = ROk st ->
  (live_calls st <= Z.to_nat max_component_recursion_depth)%nat /\
  (live_components st <= Z.to_nat max_component_recursion_depth + (if api then 1 else 0))%nat /\
  depth_of st = live_calls st.
Proof. exact depth_bounded_run. Qed.

(* the (limit+1)-th nested call is the error; below the limit a call goes through *)
Theorem C05_call_at_limit_is_error : forall api evs st,
  run (init_stack api) evs = ROk st -> st <> [] ->
  step st ECall = if (live_calls st <? max_depth)%nat then ROk ((FComp, S (live_calls st)) :: st) else RErr ErrMsg.
Proof. exact call_at_limit. Qed.

(* the counter is carried unchanged through an include, and a return restores the caller *)
Theorem C05_include_keeps_depth : forall k d rest,
  step ((k, d) :: rest) EInclude = ROk ((FIncl, d) :: (k, d) :: rest).
Proof. exact include_keeps_depth. Qed.

Theorem C05_return_restores : forall f st, step (f :: st) EReturn = ROk st.
Proof. exact return_restores. Qed.

(* self- or mutual recursion, directly or through includes: any nesting with more calls than the
   limit allows ends in the error *)
Theorem C05_recursion_stops_with_error : forall evs k d rest,
  no_return evs -> (max_depth < d + count_calls evs)%nat -> (d <= max_depth)%nat ->
  run ((k, d) :: rest) evs = RErr ErrMsg.
Proof. exact nesting_over_limit_fails. Qed.

(* ---------------------------------------------------------------- API entry = call site *)

(* render_component_to builds the same context by the same function and runs the same chunk.
   The differences, exactly: a rejected call is Error::message instead of a rendering error;
   the API frame runs at recursion counter 0 (a call site at caller + 1, and it can hit the
   limit); the API sets the autoescape override, a call site inherits the caller's; the API
   mints the given body string safe as is, a call site mints the text its body rendered to. *)
Theorem C05_api_equals_call : forall (A : Type) d (ch : A) supplied body depth ovr ae o,
  match api_component_call d ch supplied body ae,
        vm_component_call d ch (VMap (kwargs_of o supplied)) (option_map (fun s => VStr s false) body) depth ovr with
  | ROk fa, ROk fv =>
      fr_ctx fa = fr_ctx fv /\ fr_chunk fa = fr_chunk fv /\
      fr_depth fa = 0%nat /\ fr_depth fv = S depth /\ fr_override fa = Some ae /\ fr_override fv = ovr
  | ROk _, RErr e => e = ErrMsg /\ (max_depth < S depth)%nat
  | RErr ea, RErr ev => ea = ErrMsg /\ ev = ErrRender
  | RErr _, ROk _ => False
  end.
Proof. exact api_equals_call_lemma. Qed.

(* ---------------------------------------------------------------- call-site shape *)

(* PARTIAL with respect to "body rendered in the caller's scope and escaping mode, result not
   escaped again": this is the instruction-shape half (a chunk that passes the decidable check
   has, before every RenderBodyComponent and in the SAME chunk, a Capture ... EndCapture followed
   only by expression instructions). What is missing is the VM semantics of Capture/EndCapture
   and of the safe-string result; those are checked at render level by the harness oracle
   (wrapped body vs the same body in place, both escaping modes). *)
Theorem C05_body_compiled_in_caller_chunk_partial : forall c,
  call_sites_ok c = true ->
  forall l1 n l2, map fst c = l1 ++ RenderBodyComponent n :: l2 ->
  exists a b, l1 = a ++ EndCapture :: b /\ (forall i, In i b -> is_output_instr i = false) /\ In Capture a.
Proof. exact call_sites_ok_spec. Qed.

Print Assumptions C05_build_context_spec.
Print Assumptions C05_build_context_binds_exactly.
Print Assumptions C05_priority_selection.
Print Assumptions C05_priority_order_independent.
Print Assumptions C05_depth_bounded.
Print Assumptions C05_api_equals_call.

(* ---------------------------------------------------------------- non-vacuity *)

Definition ex_a : str := [97]%N.
Definition ex_b : str := [98]%N.
Definition ex_rest : str := [114; 101; 115; 116]%N.
Definition ex_x : str := [120]%N.
(* component C(a: string, b = 7, ...rest) *)
Definition ex_def : comp_def :=
  {| def_params := [ {| p_name := ex_a; p_declared := Some TString; p_default := None |};
                     {| p_name := ex_b; p_declared := None; p_default := Some (VInt I64 7) |} ];
     def_rest := Some ex_rest |}.

Example ex_wf : wf_def ex_def.
Proof.
  unfold wf_def, is_param. cbn. repeat split.
  - repeat constructor; cbn; intuition discriminate.
  - intuition discriminate.
  - discriminate.
  - intros r E. inversion E; subst. intuition discriminate.
Qed.

Example ex_bind :
  build_context_of ex_def [(ex_a, VStr [104]%N false); (ex_x, VBool true)] (Some (VStr [66]%N true)) =
  ROk [(body_name, VStr [66]%N true); (ex_rest, VMap [(KStr ex_x true, VBool true)]);
       (ex_b, VInt I64 7); (ex_a, VStr [104]%N false)].
Proof. vm_compute. reflexivity. Qed.

Example ex_reject_type : build_context_of ex_def [(ex_a, VInt I64 1)] None = RErr ErrOther.
Proof. vm_compute. reflexivity. Qed.
Example ex_reject_inferred_type : build_context_of ex_def [(ex_a, VStr [] false); (ex_b, VStr [] false)] None = RErr ErrOther.
Proof. vm_compute. reflexivity. Qed.
Example ex_reject_missing : build_context_of ex_def [(ex_b, VInt U64 1)] None = RErr ErrOther.
Proof. vm_compute. reflexivity. Qed.
Example ex_reject_unknown :
  build_context_of {| def_params := def_params ex_def; def_rest := None |} [(ex_a, VStr [] false); (ex_x, VNone)] None = RErr ErrOther.
Proof. vm_compute. reflexivity. Qed.

Example ex_depth_limit_ok : exists st, run (init_stack false) (repeat ECall 20) = ROk st /\ live_calls st = 20%nat.
Proof. eexists. vm_compute. split; reflexivity. Qed.
Example ex_depth_limit_err : run (init_stack false) (repeat ECall 21) = RErr ErrMsg.
Proof. vm_compute. reflexivity. Qed.
Example ex_depth_through_includes :
  run (init_stack true) (EInclude :: repeat ECall 10 ++ [EInclude; EInclude] ++ repeat ECall 11) = RErr ErrMsg.
Proof. vm_compute. reflexivity. Qed.

Example ex_priority :
  select_components [([66]%N, 2%nat, 20%nat); ([66]%N, 0%nat, 0%nat); ([67]%N, 1%nat, 11%nat); ([66]%N, 1%nat, 10%nat)]
  = ROk [([67]%N, (11%nat, 1%nat)); ([66]%N, (0%nat, 0%nat))].
Proof. vm_compute. reflexivity. Qed.
