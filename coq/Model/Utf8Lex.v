(* Model/Utf8.v — bytes, UTF-8 encoding of code points, character boundaries, the Unicode
   White_Space set as used by Rust's `str::trim_start` / `trim_end` / `char::is_whitespace`,
   and the ASCII classes of `u8::is_ascii_*`.  Executable definitions only.

   MODELLED, NOT VERIFIED (trusted base): Rust `std`'s `char::is_whitespace` is the Unicode
   White_Space property, 25 code points in Unicode 15/16:
     U+0009..U+000D, U+0020, U+0085, U+00A0, U+1680, U+2000..U+200A, U+2028, U+2029,
     U+202F, U+205F, U+3000.
   `trim_start`/`trim_end` remove the maximal run of such characters at one end.  On valid
   UTF-8 a byte pattern of an encoded White_Space character matched at a character boundary
   is that character; lead bytes (C2, E1, E2, E3, ASCII) never occur inside another
   character, so matching byte patterns left-to-right is the same as matching characters. *)
From Coq Require Export List NArith Bool Lia.
Export ListNotations.

Definition byte := N.
Definition bytes := list N.

Local Open Scope N_scope.

(* ---------------------------------------------------------------- encoding *)

Definition is_scalar (cp : N) : bool :=
  (cp <? 0xD800) || ((0xE000 <=? cp) && (cp <=? 0x10FFFF)).

(* char::encode_utf8 *)
Definition utf8_encode_cp (cp : N) : bytes :=
  if cp <? 0x80 then [cp]
  else if cp <? 0x800 then [0xC0 + cp / 64; 0x80 + cp mod 64]
  else if cp <? 0x10000 then [0xE0 + cp / 4096; 0x80 + (cp / 64) mod 64; 0x80 + cp mod 64]
  else [0xF0 + cp / 262144; 0x80 + (cp / 4096) mod 64; 0x80 + (cp / 64) mod 64; 0x80 + cp mod 64].

Definition utf8_encode (s : list N) : bytes := flat_map utf8_encode_cp s.

Definition is_cont (b : byte) : bool := (0x80 <=? b) && (b <? 0xC0).

(* str::is_char_boundary: 0, len, or a byte that is not a continuation byte *)
Definition is_char_boundary (s : bytes) (i : nat) : bool :=
  match i with
  | O => true
  | _ => match nth_error s i with
         | Some b => negb (is_cont b)
         | None => Nat.eqb i (length s)
         end
  end.

(* strict decoder (what `str::from_utf8` accepts): shortest form, no surrogates, <= 10FFFF *)
Fixpoint utf8_decode_fuel (fuel : nat) (s : bytes) : option (list N) :=
  match fuel with
  | O => match s with [] => Some [] | _ => None end
  | S f =>
    match s with
    | [] => Some []
    | b1 :: t1 =>
      if b1 <? 0x80 then option_map (cons b1) (utf8_decode_fuel f t1)
      else if (0xC2 <=? b1) && (b1 <? 0xE0) then
        match t1 with
        | b2 :: t2 =>
          if is_cont b2 then
            option_map (cons ((b1 - 0xC0) * 64 + (b2 - 0x80))) (utf8_decode_fuel f t2)
          else None
        | _ => None
        end
      else if (0xE0 <=? b1) && (b1 <? 0xF0) then
        match t1 with
        | b2 :: b3 :: t3 =>
          let cp := (b1 - 0xE0) * 4096 + (b2 - 0x80) * 64 + (b3 - 0x80) in
          if is_cont b2 && is_cont b3 && (0x800 <=? cp) && is_scalar cp then
            option_map (cons cp) (utf8_decode_fuel f t3)
          else None
        | _ => None
        end
      else if (0xF0 <=? b1) && (b1 <? 0xF5) then
        match t1 with
        | b2 :: b3 :: b4 :: t4 =>
          let cp := (b1 - 0xF0) * 262144 + (b2 - 0x80) * 4096 + (b3 - 0x80) * 64 + (b4 - 0x80) in
          if is_cont b2 && is_cont b3 && is_cont b4 && (0x10000 <=? cp) && (cp <=? 0x10FFFF) then
            option_map (cons cp) (utf8_decode_fuel f t4)
          else None
        | _ => None
        end
      else None
    end
  end.
Definition utf8_decode (s : bytes) : option (list N) := utf8_decode_fuel (length s) s.
Definition utf8_valid (s : bytes) : bool :=
  match utf8_decode s with Some _ => true | None => false end.

(* ---------------------------------------------------------------- White_Space *)

Definition is_ws_cp (cp : N) : bool :=
  ((0x09 <=? cp) && (cp <=? 0x0D)) || (cp =? 0x20) || (cp =? 0x85) || (cp =? 0xA0)
  || (cp =? 0x1680) || ((0x2000 <=? cp) && (cp <=? 0x200A)) || (cp =? 0x2028) || (cp =? 0x2029)
  || (cp =? 0x202F) || (cp =? 0x205F) || (cp =? 0x3000).

(* the UTF-8 encodings of those 25 code points, by length *)
Definition is_ws1 (b : byte) : bool := ((0x09 <=? b) && (b <=? 0x0D)) || (b =? 0x20).
Definition is_ws2 (b1 b2 : byte) : bool := (b1 =? 0xC2) && ((b2 =? 0x85) || (b2 =? 0xA0)).
Definition is_ws3 (b1 b2 b3 : byte) : bool :=
  ((b1 =? 0xE1) && (b2 =? 0x9A) && (b3 =? 0x80))
  || ((b1 =? 0xE2) && (b2 =? 0x80)
      && (((0x80 <=? b3) && (b3 <=? 0x8A)) || (b3 =? 0xA8) || (b3 =? 0xA9) || (b3 =? 0xAF)))
  || ((b1 =? 0xE2) && (b2 =? 0x81) && (b3 =? 0x9F))
  || ((b1 =? 0xE3) && (b2 =? 0x80) && (b3 =? 0x80)).

(* one encoded White_Space character at the front: Some (its bytes, the rest) *)
Definition ws_strip (s : bytes) : option (bytes * bytes) :=
  match s with
  | [] => None
  | b1 :: t1 =>
    if is_ws1 b1 then Some ([b1], t1)
    else match t1 with
         | [] => None
         | b2 :: t2 =>
           if is_ws2 b1 b2 then Some ([b1; b2], t2)
           else match t2 with
                | [] => None
                | b3 :: t3 => if is_ws3 b1 b2 b3 then Some ([b1; b2; b3], t3) else None
                end
         end
  end.

(* str::trim_start: drop leading White_Space characters *)
Fixpoint trim_start (s : bytes) : bytes :=
  match s with
  | [] => []
  | b1 :: t1 =>
    if is_ws1 b1 then trim_start t1
    else match t1 with
         | [] => s
         | b2 :: t2 =>
           if is_ws2 b1 b2 then trim_start t2
           else match t2 with
                | [] => s
                | b3 :: t3 => if is_ws3 b1 b2 b3 then trim_start t3 else s
                end
         end
  end.

(* str::trim_end: drop the maximal all-White_Space suffix.  Written as a left-to-right scan:
   a White_Space character is kept iff something is kept after it. *)
Definition keep_if_more (p r : bytes) : bytes :=
  match r with [] => [] | _ => p ++ r end.

Fixpoint trim_end (s : bytes) : bytes :=
  match s with
  | [] => []
  | b1 :: t1 =>
    if is_ws1 b1 then keep_if_more [b1] (trim_end t1)
    else match t1 with
         | [] => b1 :: trim_end t1
         | b2 :: t2 =>
           if is_ws2 b1 b2 then keep_if_more [b1; b2] (trim_end t2)
           else match t2 with
                | [] => b1 :: trim_end t1
                | b3 :: t3 =>
                  if is_ws3 b1 b2 b3 then keep_if_more [b1; b2; b3] (trim_end t3)
                  else b1 :: trim_end t1
                end
         end
  end.

Definition trim (s : bytes) : bytes := trim_end (trim_start s).

(* on code points (used to relate the byte patterns to the set above) *)
Fixpoint trim_start_cps (s : list N) : list N :=
  match s with c :: t => if is_ws_cp c then trim_start_cps t else s | [] => [] end.
Definition trim_end_cps (s : list N) : list N := rev (trim_start_cps (rev s)).

(* ---------------------------------------------------------------- ASCII classes *)

(* u8::is_ascii_whitespace / char::is_ascii_whitespace: SP, HT, LF, FF, CR (not VT) *)
Definition is_ascii_ws (b : byte) : bool :=
  (b =? 0x20) || (b =? 0x09) || (b =? 0x0A) || (b =? 0x0C) || (b =? 0x0D).
Definition is_ascii_digit (b : byte) : bool := (0x30 <=? b) && (b <=? 0x39).
Definition is_ascii_alpha (b : byte) : bool :=
  ((0x41 <=? b) && (b <=? 0x5A)) || ((0x61 <=? b) && (b <=? 0x7A)).
Definition is_ascii_alnum (b : byte) : bool := is_ascii_alpha b || is_ascii_digit b.

Fixpoint bytes_eqb (a b : bytes) : bool :=
  match a, b with
  | [], [] => true
  | x :: a', y :: b' => (x =? y) && bytes_eqb a' b'
  | _, _ => false
  end.

Definition dash : byte := 0x2D.
