(* A small concrete world for running Model/VM.v in the correspondence checks: the handful of
   built-ins the template generators use, equality/containment on the value kinds they use,
   no arithmetic (C13 owns Model/Number.v) and no components (C05). Anything outside this
   subset makes the model answer ErrOther, which the harness never generates. *)
From TeraV Require Import Model.Value Model.Instr Model.VFormat Model.VM Gen.Tables.
Local Open Scope nat_scope.

Fixpoint veq0 (a b : value) {struct a} : bool :=
  match a, b with
  | VUndef, VUndef | VNone, VNone => true
  | VBool x, VBool y => Bool.eqb x y
  | VInt _ x, VInt _ y => Z.eqb x y
  | VStr x _, VStr y _ => str_eqb x y
  | VBytes x, VBytes y => list_eqb N.eqb x y
  | VArr l, VArr l' =>
      (fix go (l l' : list value) : bool :=
         match l, l' with
         | [], [] => true
         | x :: t, y :: t' => veq0 x y && go t t'
         | _, _ => false
         end) l l'
  | VMap m, VMap m' =>
      Nat.eqb (length m) (length m') &&
      (fix go (m : list (key * value)) : bool :=
         match m with
         | [] => true
         | (k, x) :: t =>
             match map_get m' k with
             | Some y => veq0 x y && go t
             | None => false
             end
         end) m
  | _, _ => false
  end.

Definition vcmp0 (a b : value) : option comparison :=
  match a, b with
  | VInt _ x, VInt _ y => Some (Z.compare x y)
  | VStr x _, VStr y _ => Some (str_cmp x y)
  | VBool x, VBool y => Some (match x, y with false, true => Lt | true, false => Gt | _, _ => Eq end)
  | VUndef, VUndef | VNone, VNone => Some Eq
  | _, _ => None
  end.

Fixpoint is_prefix (p s : str) : bool :=
  match p, s with
  | [], _ => true
  | x :: p', y :: s' => N.eqb x y && is_prefix p' s'
  | _, [] => false
  end.
Fixpoint is_substr (p s : str) : bool :=
  is_prefix p s || match s with [] => false | _ :: s' => is_substr p s' end.

Definition contains0 (container needle : value) : res bool :=
  match container with
  | VArr l => ROk (existsb (fun x => veq0 x needle) l)
  | VStr s _ => ROk (match needle with VStr p _ => is_substr p s | _ => false end)
  | VMap m => ROk (match as_key needle with
                   | Some k => match map_get m k with Some _ => true | None => false end
                   | None => false end)
  | _ => RErr ErrMsg
  end.

Definition kw_get (k : kwargs) (name : str) : option value := map_get k (KStr name false).

Definition ascii_upper (c : N) : N := if ((97 <=? c) && (c <=? 122))%N then (c - 32)%N else c.

Definition n_default : str := [100;101;102;97;117;108;116]%N.
Definition n_value : str := [118;97;108;117;101]%N.
Definition n_boolean : str := [98;111;111;108;101;97;110]%N.
Definition n_upper : str := [117;112;112;101;114]%N.
Definition n_safe : str := [115;97;102;101]%N.
Definition n_length : str := [108;101;110;103;116;104]%N.
Definition n_defined : str := [100;101;102;105;110;101;100]%N.
Definition n_undefined : str := [117;110;100;101;102;105;110;101;100]%N.

Definition filter0 (name : str) (v : value) (k : kwargs) (_ : scope) : option (res value * bool) :=
  if str_eqb name n_default then
    Some (match kw_get k n_value with
          | None => RErr ErrMsg
          | Some d =>
              match kw_get k n_boolean with
              | Some (VBool true) => ROk (if is_truthy v then v else d)
              | Some (VBool false) | None => ROk (if is_undefined v then d else v)
              | Some _ => RErr ErrMsg
              end
          end, false)
  else if str_eqb name n_upper then
    Some (match v with VStr s _ => ROk (VStr (map ascii_upper s) false) | _ => RErr ErrMsg end, false)
  else if str_eqb name n_safe then
    Some (match v with VStr s _ => ROk (VStr s true) | _ => RErr ErrMsg end, true)
  else if str_eqb name n_length then
    Some (match v with
          | VStr s _ => ROk (VInt U64 (Z.of_nat (length s)))
          | VArr l => ROk (VInt U64 (Z.of_nat (length l)))
          | VMap m => ROk (VInt U64 (Z.of_nat (length m)))
          | VBytes b => ROk (VInt U64 (Z.of_nat (length b)))
          | _ => RErr ErrMsg end, false)
  else None.

Definition test0 (name : str) (v : value) (_ : kwargs) : option (res bool) :=
  if str_eqb name n_defined then Some (ROk (negb (is_undefined v)))
  else if str_eqb name n_undefined then Some (ROk (is_undefined v))
  else None.

Definition world0 (tpls : list (str * template)) : world :=
  {| w_templates := tpls;
     w_components := [];
     w_build_ctx := fun _ _ _ => RErr ErrOther;
     w_filter := filter0;
     w_test := test0;
     w_function := fun _ _ _ => None;
     w_escape := escape_html;
     w_format := format_value;
     w_math := fun _ _ _ => RErr ErrOther;
     w_negate := fun _ => RErr ErrOther;
     w_cmp := vcmp0;
     w_eq := veq0;
     w_contains := contains0;
     w_as_key := as_key;
     w_map_get := map_get;
     w_get_attr := get_attr;
     w_max_depth := Z.to_nat max_component_recursion_depth |}.

(* the infallible string writer *)
Definition wr_str (w : str) (t : str) : option str := Some (w ++ t).
