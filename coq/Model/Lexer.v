(* Model/Lexer.v — byte-level port of tera/src/parsing/lexer.rs (basic_tokenize, skip_tag,
   memstr, find_start_marker, whitespace_filter), tera/src/delimiters.rs (validate) and the
   drop-empty-text rule of parser.rs:1661-1666.  Executable definitions only; no proofs.

   Strings are byte lists (Rust `&str` contents).  Every `rest.get(a..b) == Some(delim)` of the
   Rust code is a byte-prefix test here: a delimiter accepted by `validate` is a valid 2-byte
   UTF-8 string, so whenever the bytes are equal the slice ends lie on character boundaries
   (which is what `get` additionally tests; proved: Proofs/LexerBoundary.v get2_is_window).
   `advance!`/`split_at` and `&s[a..b]` panic on a non-boundary; the functions of this file do
   not carry that test: the offsets they cut at are listed by Model/LexerSlices.v, and
   Proofs/LexerBoundary.v proves every one of them a character boundary of the source (the
   harness also checks every reported span on the implementation side).

   The `stack` of lexer states only ever holds [Template] or [Template; Variable|Tag]; the
   port makes that explicit: `lex_loop` is the Template state and calls `scan_inside` for the
   Variable/Tag state, which returns when it has popped the state (end delimiter), hit the
   end of input, or failed.

   Each token is emitted with (pre, len): the number of ASCII-whitespace bytes skipped before
   it (inside tags) and its own byte length; `spans` turns these into the Span values the Rust
   code computes incrementally with `advance!`. *)
From TeraV Require Import Model.Value Model.Utf8Lex.
Local Open Scope N_scope.

(* ---------------------------------------------------------------- delimiters.rs *)

Record delims := mkDelims {
  d_bs : bytes; d_be : bytes; d_vs : bytes; d_ve : bytes; d_cs : bytes; d_ce : bytes }.

Definition default_delims : delims :=
  mkDelims [0x7B; 0x25] [0x25; 0x7D] [0x7B; 0x7B] [0x7D; 0x7D] [0x7B; 0x23] [0x23; 0x7D].

(* Delimiters::validate (delimiters.rs 39-99): six length checks in this order, then the three
   start-delimiter conflicts.  Every failure is Error::message. *)
Definition validate (d : delims) : res unit :=
  if negb (Nat.eqb (length (d_bs d)) 2) then RErr ErrMsg
  else if negb (Nat.eqb (length (d_be d)) 2) then RErr ErrMsg
  else if negb (Nat.eqb (length (d_vs d)) 2) then RErr ErrMsg
  else if negb (Nat.eqb (length (d_ve d)) 2) then RErr ErrMsg
  else if negb (Nat.eqb (length (d_cs d)) 2) then RErr ErrMsg
  else if negb (Nat.eqb (length (d_ce d)) 2) then RErr ErrMsg
  else if bytes_eqb (d_bs d) (d_vs d) then RErr ErrMsg
  else if bytes_eqb (d_bs d) (d_cs d) then RErr ErrMsg
  else if bytes_eqb (d_vs d) (d_cs d) then RErr ErrMsg
  else ROk tt.

(* ---------------------------------------------------------------- tokens *)

Inductive op :=
| OMul | ODiv | OFloorDiv | OMod | OPlus | OMinus | OPower
| OLt | OClosingTagStart | OGt | OLte | OGte | OEq | ONe
| OTilde | OPipe | OAssign
| ODot | OQDot | OQLBracket | OComma | OColon | OBang
| OLBracket | ORBracket | OLParen | ORParen | OLBrace | ORBrace | OSpread.

Inductive tok :=
| TContent (s : bytes)
| TRaw (l : bool) (s : bytes) (r : bool)        (* Token::RawContent(ws_start, body, ws_end) *)
| TVarStart (ws : bool) | TVarEnd (ws : bool)
| TTagStart (ws : bool) | TTagEnd (ws : bool)
| TComment (l r : bool)
| TIdent (s : bytes)
| TString (s : bytes)                            (* Token::String and Token::Str (same Debug) *)
| TInteger (z : Z)
| TFloat (src : bytes)                           (* the value is `src.parse::<f64>()`: not modelled *)
| TBool (b : bool)
| TOp (o : op).

(* token, whitespace bytes skipped before it, its length in bytes *)
Definition ptok := (tok * nat * nat)%type.

(* ---------------------------------------------------------------- helpers *)

(* lexer.rs 9-13: haystack.windows(needle.len()).position(|w| w == needle); needle is a
   2-byte delimiter at every call site *)
Definition starts_with (p s : bytes) : bool := bytes_eqb (firstn (length p) s) p.

Fixpoint memstr (h needle : bytes) : option nat :=
  match h with
  | [] => None
  | _ :: t => if starts_with needle h then Some O else option_map S (memstr t needle)
  end.

(* `rest.get(..2) == Some(d)` *)
Definition starts2 (d rest : bytes) : bool :=
  match rest with
  | b1 :: b2 :: _ => bytes_eqb [b1; b2] d
  | _ => false
  end.

(* lexer.rs 43-51 *)
Definition is_start_window (dl : delims) (b1 b2 : byte) : bool :=
  bytes_eqb [b1; b2] (d_vs dl) || bytes_eqb [b1; b2] (d_bs dl) || bytes_eqb [b1; b2] (d_cs dl).

Fixpoint find_start_marker (dl : delims) (s : bytes) : option nat :=
  match s with
  | b1 :: t =>
    match t with
    | b2 :: _ => if is_start_window dl b1 b2 then Some O
                 else option_map S (find_start_marker dl t)
    | [] => None
    end
  | [] => None
  end.

(* check_ws_start! (282-292): called with rest starting with a 2-byte start delimiter *)
Definition check_ws_start (rest : bytes) : bool * bytes :=
  match nth_error rest 2 with
  | Some b => if b =? dash then (true, skipn 3 rest) else (false, skipn 2 rest)
  | None => (false, skipn 2 rest)
  end.

Fixpoint skip_ascii_ws (s : bytes) : bytes :=
  match s with
  | b :: t => if is_ascii_ws b then skip_ascii_ws t else s
  | [] => []
  end.

Definition strip_prefix (p s : bytes) : option bytes :=
  if starts_with p s then Some (skipn (length p) s) else None.

Definition name_raw : bytes := [0x72; 0x61; 0x77].                         (* "raw" *)
Definition name_endraw : bytes := [0x65; 0x6E; 0x64; 0x72; 0x61; 0x77].    (* "endraw" *)

(* skip_tag (15-40): `-? ws* name ws* -? block_end`; Some (bytes consumed, outer_ws) *)
Definition skip_tag (block_str name block_end : bytes) : option (nat * bool) :=
  let p0 := match block_str with b :: t => if b =? dash then t else block_str | [] => [] end in
  let p1 := skip_ascii_ws p0 in
  match strip_prefix name p1 with
  | None => None
  | Some p2 =>
    let p3 := skip_ascii_ws p2 in
    let '(outer_ws, p4) :=
      match p3 with
      | b :: t => if b =? dash then (true, t) else (false, p3)
      | [] => (false, p3)
      end in
    match strip_prefix block_end p4 with
    | None => None
    | Some p5 => Some ((length block_str - length p5)%nat, outer_ws)
    end
  end.

Definition byte_at_is (s : bytes) (i : nat) (b : byte) : bool :=
  match nth_error s i with Some x => x =? b | None => false end.

(* the `while let Some(block) = memstr(&rest[offset..], block_start)` loop (426-452).
   Some (body after inner trimming, ws_end, bytes to advance) or None = "unexpected end of
   raw block".  fuel: every iteration moves offset forward by at least 2. *)
Fixpoint raw_loop (fuel : nat) (dl : delims) (rest : bytes) (body_start offset : nat)
         (end_ws_start_tag : bool) : option (bytes * bool * nat) :=
  match fuel with
  | O => None
  | S f =>
    match memstr (skipn offset rest) (d_bs dl) with
    | None => None
    | Some block =>
      let body_end := (offset + block)%nat in
      let offset' := (offset + block + 2)%nat in
      let start_ws_end_tag := byte_at_is rest offset' dash in
      match skip_tag (skipn offset' rest) name_endraw (d_be dl) with
      | Some (endraw, ws_end) =>
        let result := firstn (body_end - body_start) (skipn body_start rest) in
        let result := if end_ws_start_tag then trim_start result else result in
        let result := if start_ws_end_tag then trim_end result else result in
        Some (result, ws_end, (offset' + endraw)%nat)
      | None => raw_loop f dl rest body_start offset' end_ws_start_tag
      end
    end
  end.

(* ---------------------------------------------------------------- inside {{ }} / {% %} *)

Definition op2_of (b1 b2 : byte) : option op :=
  if (b1 =? 0x2F) && (b2 =? 0x2F) then Some OFloorDiv
  else if (b1 =? 0x2A) && (b2 =? 0x2A) then Some OPower
  else if (b1 =? 0x3D) && (b2 =? 0x3D) then Some OEq
  else if (b1 =? 0x21) && (b2 =? 0x3D) then Some ONe
  else if (b1 =? 0x3E) && (b2 =? 0x3D) then Some OGte
  else if (b1 =? 0x3C) && (b2 =? 0x3D) then Some OLte
  else if (b1 =? 0x3C) && (b2 =? 0x2F) then Some OClosingTagStart
  else if (b1 =? 0x3F) && (b2 =? 0x2E) then Some OQDot
  else if (b1 =? 0x3F) && (b2 =? 0x5B) then Some OQLBracket
  else None.

Definition op1_of (b : byte) : option op :=
  if b =? 0x2B then Some OPlus else if b =? 0x2D then Some OMinus
  else if b =? 0x2A then Some OMul else if b =? 0x2F then Some ODiv
  else if b =? 0x25 then Some OMod else if b =? 0x21 then Some OBang
  else if b =? 0x2E then Some ODot else if b =? 0x2C then Some OComma
  else if b =? 0x3A then Some OColon else if b =? 0x7E then Some OTilde
  else if b =? 0x7C then Some OPipe else if b =? 0x3D then Some OAssign
  else if b =? 0x3E then Some OGt else if b =? 0x3C then Some OLt
  else if b =? 0x28 then Some OLParen else if b =? 0x29 then Some ORParen
  else if b =? 0x5B then Some OLBracket else if b =? 0x5D then Some ORBracket
  else if b =? 0x7B then Some OLBrace else if b =? 0x7D then Some ORBrace
  else None.

Definition is_quote (b : byte) : bool := (b =? 0x27) || (b =? 0x22) || (b =? 0x60).
Definition backslash : byte := 0x5C.

(* lex_string! (331-398): the take_while over rest[1..] with its `escaped` flag *)
Fixpoint str_scan (s : bytes) (delim : byte) (escaped : bool) : nat * bool :=
  match s with
  | [] => (O, false)
  | c :: t =>
    if escaped then let '(n, h) := str_scan t delim false in (S n, h)
    else if c =? backslash then let '(n, _) := str_scan t delim true in (S n, true)
    else if c =? delim then (O, false)
    else let '(n, h) := str_scan t delim false in (S n, h)
  end.

(* "Basic unescaping" (368-391); None = syntax error *)
Fixpoint unescape (s : bytes) : option bytes :=
  match s with
  | [] => Some []
  | c :: t =>
    if c =? backslash then
      match t with
      | [] => None
      | c2 :: t2 =>
        let out :=
          if (c2 =? 0x22) || (c2 =? 0x27) || (c2 =? 0x2F) || (c2 =? 0x5C) then Some c2
          else if c2 =? 0x6E then Some 0x0A
          else if c2 =? 0x74 then Some 0x09
          else if c2 =? 0x72 then Some 0x0D
          else None in
        match out with
        | None => None
        | Some o => option_map (cons o) (unescape t2)
        end
      end
    else option_map (cons c) (unescape t)
  end.

Definition lex_string (rest : bytes) (delim : byte) : option (tok * nat) :=
  let '(str_len, has_escapes) := str_scan (tl rest) delim false in
  if negb (byte_at_is rest (str_len + 1) delim) then None
  else
    let content := firstn str_len (tl rest) in
    if has_escapes then
      match unescape content with
      | None => None
      | Some out => Some (TString out, (str_len + 2)%nat)
      end
    else Some (TString content, (str_len + 2)%nat).

(* lex_number! (294-329) *)
Fixpoint num_scan (s : bytes) (is_float : bool) : nat * bool :=
  match s with
  | [] => (O, is_float)
  | c :: t =>
    if negb is_float && (c =? 0x2E) then let '(n, f) := num_scan t true in (S n, f)
    else if is_ascii_digit c then let '(n, f) := num_scan t is_float in (S n, f)
    else (O, is_float)
  end.

Definition digits_val (s : bytes) : Z :=
  fold_left (fun acc c => (acc * 10 + Z.of_N (c - 0x30))%Z) s 0%Z.

Definition lex_number (rest : bytes) : option (tok * nat) :=
  let '(num_len, is_float) := num_scan rest false in
  let num := firstn num_len rest in
  if is_float then Some (TFloat num, num_len)          (* digits with one '.' always parse *)
  else
    let v := digits_val num in
    if (v <=? 9223372036854775807)%Z then Some (TInteger v, num_len) else None.

Fixpoint ident_scan (s : bytes) (first : bool) : nat :=
  match s with
  | [] => O
  | c :: t =>
    if (c =? 0x5F) || (if first then is_ascii_alpha c else is_ascii_alnum c)
    then S (ident_scan t false) else O
  end.

Definition kw_true : bytes := [0x74; 0x72; 0x75; 0x65].
Definition kw_True : bytes := [0x54; 0x72; 0x75; 0x65].
Definition kw_false : bytes := [0x66; 0x61; 0x6C; 0x73; 0x65].
Definition kw_False : bytes := [0x46; 0x61; 0x6C; 0x73; 0x65].

(* one token inside a tag, after whitespace and the end-delimiter checks (549-635).
   None = syntax error *)
Definition inner_token (rest : bytes) : option (tok * nat) :=
  match rest with
  | [] => None
  | b1 :: t1 =>
    if starts_with [0x2E; 0x2E; 0x2E] rest then Some (TOp OSpread, 3%nat)
    else
      match (match t1 with b2 :: _ => op2_of b1 b2 | [] => None end) with
      | Some o => Some (TOp o, 2%nat)
      | None =>
        match op1_of b1 with
        | Some o => Some (TOp o, 1%nat)
        | None =>
          if is_quote b1 then lex_string rest b1
          else if is_ascii_digit b1 then lex_number rest
          else
            let n := ident_scan rest true in
            match n with
            | O => None
            | _ =>
              let ident := firstn n rest in
              if bytes_eqb ident kw_true || bytes_eqb ident kw_True then Some (TBool true, n)
              else if bytes_eqb ident kw_false || bytes_eqb ident kw_False then Some (TBool false, n)
              else Some (TIdent ident, n)
            end
        end
      end
  end.

Inductive inside_res :=
| IEnd (toks : list ptok) (ws : bool) (pre : nat) (rest : bytes)
| IEof (toks : list ptok)
| IErr.

Definition ires_cons (t : ptok) (r : inside_res) : inside_res :=
  match r with
  | IEnd toks ws pre rest => IEnd (t :: toks) ws pre rest
  | IEof toks => IEof (t :: toks)
  | IErr => IErr
  end.

(* State::Variable | State::Tag (493-636) until the state is popped; `e` is the end delimiter
   of the current state *)
Fixpoint scan_inside (fuel : nat) (e : bytes) (rest : bytes) : inside_res :=
  match fuel with
  | O => IErr
  | S f =>
    let rest1 := skip_ascii_ws rest in
    let pre := (length rest - length rest1)%nat in
    match rest1 with
    | [] => IEof []
    | b0 :: t0 =>
      if (b0 =? dash) && starts2 e t0 then IEnd [] true pre (skipn 3 rest1)
      else if starts2 e rest1 then IEnd [] false pre (skipn 2 rest1)
      else
        match inner_token rest1 with
        | None => IErr
        | Some (t, len) => ires_cons (t, pre, len) (scan_inside f e (skipn len rest1))
        end
    end
  end.

(* ---------------------------------------------------------------- State::Template *)

Definition res_cons {A} (l : list A) (r : res (list A)) : res (list A) :=
  match r with ROk l' => ROk (l ++ l') | RErr e => RErr e end.

Definition mlen (ws : bool) : nat := if ws then 3%nat else 2%nat.

(* basic_tokenize (227-641); syntax errors are RErr ErrOther; running out of fuel (impossible:
   every iteration consumes at least one byte) is RErr ErrPanic *)
Fixpoint lex_loop (fuel : nat) (dl : delims) (rest : bytes) : res (list ptok) :=
  match fuel with
  | O => RErr ErrPanic
  | S f =>
    match rest with
    | [] => ROk []
    | _ =>
      if starts2 (d_vs dl) rest then
        let '(ws, rest1) := check_ws_start rest in
        match scan_inside (S (length rest1)) (d_ve dl) rest1 with
        | IEnd toks w pre rest2 =>
          res_cons ((TVarStart ws, O, mlen ws) :: toks ++ [(TVarEnd w, pre, mlen w)])
                   (lex_loop f dl rest2)
        | IEof toks => ROk ((TVarStart ws, O, mlen ws) :: toks)
        | IErr => RErr ErrOther
        end
      else if starts2 (d_bs dl) rest then
        let '(ws, rest1) := check_ws_start rest in
        match skip_tag rest1 name_raw (d_be dl) with
        | Some (offset, end_ws_start_tag) =>
          match raw_loop (S (length rest1)) dl rest1 offset offset end_ws_start_tag with
          | Some (result, ws_end, adv) =>
            res_cons [(TRaw ws result ws_end, O, (mlen ws + adv)%nat)]
                     (lex_loop f dl (skipn adv rest1))
          | None => RErr ErrOther
          end
        | None =>
          match scan_inside (S (length rest1)) (d_be dl) rest1 with
          | IEnd toks w pre rest2 =>
            res_cons ((TTagStart ws, O, mlen ws) :: toks ++ [(TTagEnd w, pre, mlen w)])
                     (lex_loop f dl rest2)
          | IEof toks => ROk ((TTagStart ws, O, mlen ws) :: toks)
          | IErr => RErr ErrOther
          end
        end
      else if starts2 (d_cs dl) rest then
        let '(ws_start, rest1) := check_ws_start rest in
        match memstr rest1 (d_ce dl) with
        | Some end_pos =>
          let ws_end := match end_pos with
                        | O => false
                        | S p => byte_at_is rest1 p dash
                        end in
          res_cons [(TComment ws_start ws_end, O, (mlen ws_start + end_pos + 2)%nat)]
                   (lex_loop f dl (skipn (end_pos + 2) rest1))
        | None => RErr ErrOther
        end
      else
        match find_start_marker dl rest with
        | Some start =>
          res_cons [(TContent (firstn start rest), O, start)] (lex_loop f dl (skipn start rest))
        | None => ROk [(TContent rest, O, length rest)]
        end
    end
  end.

Definition lex_ptoks (dl : delims) (src : bytes) : res (list ptok) :=
  lex_loop (S (length src)) dl src.

Definition res_map {A B} (f : A -> B) (r : res A) : res B :=
  match r with ROk a => ROk (f a) | RErr e => RErr e end.

Definition tok_of (p : ptok) : tok := fst (fst p).

(* verif::lex(src, dl, false) without spans *)
Definition lex_tokens (dl : delims) (src : bytes) : res (list tok) :=
  res_map (map tok_of) (lex_ptoks dl src).

(* template-level view: the tokens of the Template state and the start/end markers *)
Definition is_template_tok (t : tok) : bool :=
  match t with
  | TContent _ | TRaw _ _ _ | TVarStart _ | TVarEnd _ | TTagStart _ | TTagEnd _ | TComment _ _ => true
  | _ => false
  end.

Definition template_items (dl : delims) (src : bytes) : res (list tok) :=
  res_map (filter is_template_tok) (lex_tokens dl src).

(* ---------------------------------------------------------------- whitespace_filter *)

(* the `matches!(iter.peek(), …)` of handle_content_tokens! (660-666) *)
Definition peek_trims {A} (next : list (tok * A)) : bool :=
  match next with
  | (TVarStart true, _) :: _ | (TTagStart true, _) :: _ | (TComment true _, _) :: _
  | (TRaw true _ _, _) :: _ => true
  | _ => false
  end.

(* What a Comment token does to the carried `remove_leading_ws` flag.
   lexer.rs 685-691 as pinned:   if end_ws { remove_leading_ws = true; }      (flag kept otherwise)
   with fixes/D6-comment-resets-trim.patch:  remove_leading_ws = end_ws;
   `comment_flag_fixed` selects which of the two the model describes. *)
Definition comment_flag (fixed : bool) (flag end_ws : bool) : bool :=
  if fixed then end_ws else (if end_ws then true else flag).

(* whitespace_filter (644-697) over a finished token list; `flag` = remove_leading_ws.
   The annotation A (span data) is carried along unchanged. *)
Fixpoint ws_filter_gen {A} (fixed : bool) (flag : bool) (ts : list (tok * A)) : list (tok * A) :=
  match ts with
  | [] => []
  | (t, a) :: rest =>
    match t with
    | TContent data =>
      let data := if flag then trim_start data else data in
      let data := if peek_trims rest then trim_end data else data in
      (TContent data, a) :: ws_filter_gen fixed false rest
    | TRaw _ data ws_end =>
      let data := if flag then trim_start data else data in
      let data := if peek_trims rest then trim_end data else data in
      (TContent data, a) :: ws_filter_gen fixed ws_end rest
    | TVarEnd true | TTagEnd true => (t, a) :: ws_filter_gen fixed true rest
    | TComment _ end_ws => (TContent [], a) :: ws_filter_gen fixed (comment_flag fixed flag end_ws) rest
    | _ => (t, a) :: ws_filter_gen fixed false rest
    end
  end.

(* Which code the model describes: true = lexer.rs with fixes/D6-comment-resets-trim.patch applied
   (the comment arm reads `remove_leading_ws = end_ws;`), false = the pinned code. *)
Definition comment_flag_fixed : bool := true.

Definition ws_filter (ts : list tok) : list tok :=
  map fst (ws_filter_gen comment_flag_fixed false (map (fun t => (t, tt)) ts)).

(* verif::lex(src, dl, true) without spans *)
Definition lex_filtered (dl : delims) (src : bytes) : res (list tok) :=
  res_map ws_filter (lex_tokens dl src).

(* parser.rs 1661-1666: empty Content tokens are ignored *)
Definition is_empty_content (t : tok) : bool :=
  match t with TContent [] => true | _ => false end.
Definition drop_empty (ts : list tok) : list tok := filter (fun t => negb (is_empty_content t)) ts.

(* what the parser sees at template level *)
Definition parser_view (dl : delims) (src : bytes) : res (list tok) :=
  res_map (fun ts => drop_empty (filter is_template_tok ts)) (lex_filtered dl src).

(* Rendering of a document whose expressions and tags are inert: Content is written as is,
   a `{{ … }}` writes `eval_var k` and a `{% … %}` nothing, where k counts the expressions from
   the left (the harness knows what each of its inert expressions prints). *)
Fixpoint render_text_from (out_of : nat -> bytes) (k : nat) (ts : list tok) : bytes :=
  match ts with
  | [] => []
  | TContent s :: r => s ++ render_text_from out_of k r
  | TVarStart _ :: r => out_of k ++ render_text_from out_of (S k) r
  | _ :: r => render_text_from out_of k r
  end.
Definition render_text (out_of : nat -> bytes) (ts : list tok) : bytes := render_text_from out_of O ts.

Definition render_source (out_of : nat -> bytes) (dl : delims) (src : bytes) : res bytes :=
  res_map (render_text out_of) (parser_view dl src).

(* ---------------------------------------------------------------- spans *)

(* (current_line, current_col, current_byte) and advance! (264-280); one step per character =
   per non-continuation byte *)
Definition loc := (nat * nat * nat)%type.
Definition loc0 : loc := (1%nat, O, O).

Fixpoint advance_loc (skipped : bytes) (l : loc) : loc :=
  match skipped with
  | [] => l
  | b :: t =>
    let '(line, col, byte) := l in
    let l' := if is_cont b then (line, col, S byte)
              else if b =? 0x0A then (S line, O, S byte)
              else (line, S col, S byte) in
    advance_loc t l'
  end.

(* Span { start_line, start_col, end_line, end_col, range } *)
Definition span := (loc * loc)%type.

Fixpoint spans_from (src : bytes) (l : loc) (ts : list ptok) : list (tok * span) :=
  match ts with
  | [] => []
  | (t, pre, len) :: r =>
    let l1 := advance_loc (firstn pre src) l in
    let src1 := skipn pre src in
    let l2 := advance_loc (firstn len src1) l1 in
    (t, (l1, l2)) :: spans_from (skipn len src1) l2 r
  end.

(* verif::lex(src, dl, false) with spans *)
Definition lex_spanned (dl : delims) (src : bytes) : res (list (tok * span)) :=
  res_map (spans_from src loc0) (lex_ptoks dl src).

(* verif::lex(src, dl, true) with spans: the filter keeps every token's span *)
Definition lex_filtered_spanned (dl : delims) (src : bytes) : res (list (tok * span)) :=
  res_map (ws_filter_gen comment_flag_fixed false) (lex_spanned dl src).
