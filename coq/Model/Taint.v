(* C01 — definitions for the autoescaping argument over Model/VM.v. Executable definitions only.

   `ok : N -> bool` is an arbitrary set of characters (the harmless characters). A string is
   `clean` when all its characters are ok. The instance used by the property is
   ok_html c := c is none of the four characters less-than, greater-than, double quote,
   apostrophe (the specials of the default escaper other than the ampersand).

   The invariant (Proofs/AutoescapeProofs.v) says: every string that carries the safe flag
   anywhere in a VM state is clean, every capture buffer is clean, the output is clean. *)
From TeraV Require Import Model.Value Model.Instr Model.Slice Model.VFormat Model.VM Gen.Tables Gen.SafeTables.
Local Open Scope nat_scope.

(* the four characters the property names (utils.rs escape_html also maps &) *)
Definition special (c : N) : bool := ((c =? 60) || (c =? 62) || (c =? 34) || (c =? 39))%N.
Definition ok_html (c : N) : bool := negb (special c).

Section Ok.
  Variable ok : N -> bool.

  Definition clean (s : str) : bool := forallb ok s.

  (* every safe-flagged string inside v is clean *)
  Fixpoint vok (v : value) : bool :=
    match v with
    | VStr s true => clean s
    | VArr l => (fix go (l : list value) : bool :=
                   match l with [] => true | x :: t => vok x && go t end) l
    | VMap m => (fix go (m : list (key * value)) : bool :=
                   match m with [] => true | (_, x) :: t => vok x && go t end) m
    | _ => true
    end.

  Definition ctx_ok (c : ctx) : bool := forallb (fun kv => vok (snd kv)) c.
  Definition kw_ok (k : kwargs) : bool := forallb (fun kv => vok (snd kv)) k.
  Definition octx_ok (c : option ctx) : bool := match c with Some c => ctx_ok c | None => true end.
  Definition pair_ok (p : option value * value) : bool :=
    match fst p with Some k => vok k | None => true end && vok (snd p).
  Definition lf_ok (f : loop_frame) : bool :=
    forallb pair_ok (lf_rest f) && ctx_ok (lf_context f) && pair_ok (lf_current f).

  Fixpoint scope_ok (sc : scope) : bool :=
    match sc with
    | Scope loops setvars parent context global =>
        forallb lf_ok loops && ctx_ok setvars
        && match parent with Some p => scope_ok p | None => true end
        && ctx_ok context && octx_ok global
    end.
  Definition oscope_ok (p : option scope) : bool := match p with Some p => scope_ok p | None => true end.

  (* what a chunk may contain: literal text without non-ok characters; constants whose
     safe-flagged strings (the real compiler never emits any: Value::from(String) is Normal) are clean *)
  Definition instr_ok (i : instr) : bool :=
    match i with
    | WriteText t => clean t
    | LoadConst v => vok v
    | _ => true
    end.
  Definition chunk_ok (ch : list instr) : bool := forallb instr_ok ch.

  Definition is_body_comp (i : instr) : bool := match i with RenderBodyComponent _ => true | _ => false end.
  Definition has_body_comp (ch : list instr) : bool := existsb is_body_comp ch.

  (* a finalized template whose every chunk is chunk_ok and that is autoescaped by its own flag *)
  Definition tpl_ok (t : template) : bool :=
    t_autoescape t && chunk_ok (t_chunk t) && chunk_ok (t_root_chunk t)
    && forallb (fun bl => forallb chunk_ok (snd bl)) (t_lineage t).
  (* the same without looking at the flag (renders with an autoescape override) *)
  Definition tpl_chunks_ok (t : template) : bool :=
    chunk_ok (t_chunk t) && chunk_ok (t_root_chunk t)
    && forallb (fun bl => forallb chunk_ok (snd bl)) (t_lineage t).
  Definition tpl_has_body_comp (t : template) : bool :=
    has_body_comp (t_chunk t) || has_body_comp (t_root_chunk t)
    || existsb (fun bl => existsb has_body_comp (snd bl)) (t_lineage t).

  Definition obody_ok (b : option value) : bool := match b with Some v => vok v | None => true end.

  (* The body operand of RenderBodyComponent is marked safe by the VM whatever it is
     (interpreter.rs:158 `state.stack.pop().0.mark_safe()`): safe only because the compiler always
     emits Capture ... EndCapture in front (compiler.rs:312-317). A world whose build_context
     refuses a body that became dirty-but-flagged makes that dependency explicit. *)
  Definition guard_bodies (wd : world) : world :=
    {| w_templates := w_templates wd; w_components := w_components wd;
       w_build_ctx := fun d k b => if obody_ok b then w_build_ctx wd d k b else RErr ErrOther;
       w_filter := w_filter wd; w_test := w_test wd; w_function := w_function wd;
       w_escape := w_escape wd; w_format := w_format wd; w_math := w_math wd;
       w_negate := w_negate wd; w_cmp := w_cmp wd; w_eq := w_eq wd; w_contains := w_contains wd;
       w_as_key := w_as_key wd; w_map_get := w_map_get wd; w_get_attr := w_get_attr wd;
       w_max_depth := w_max_depth wd |}.
End Ok.

(* Value::is_safe re-derived from the generated arms (Gen/SafeTables.v) *)
Definition str_flag (v : value) : bool := match v with VStr _ f => f | _ => false end.
Definition is_safe_gen (v : value) : bool :=
  match is_safe_arm (kind_of v) with
  | SafeAlways => true
  | SafeNever => false
  | SafeIfFlagged => str_flag v
  end.

Definition all_kinds : list vkind :=
  [KUndefined; KNone; KBoolK; KU64; KI64; KU128; KI128; KF64; KString; KArray; KMap; KBytes].
Definition vkind_eqb (a b : vkind) : bool :=
  match a, b with
  | KUndefined, KUndefined | KNone, KNone | KBoolK, KBoolK | KU64, KU64 | KI64, KI64 | KU128, KU128
  | KI128, KI128 | KF64, KF64 | KString, KString | KArray, KArray | KMap, KMap | KBytes, KBytes => true
  | _, _ => false
  end.
(* one representative per kind and flag: value_is_safe only looks at the kind and the flag *)
Definition kind_witness (k : vkind) (flag : bool) : value :=
  match k with
  | KUndefined => VUndef | KNone => VNone | KBoolK => VBool flag | KU64 => VInt U64 0 | KI64 => VInt I64 0
  | KU128 => VInt U128 0 | KI128 => VInt I128 0 | KF64 => VFloat (S754_zero false)
  | KString => VStr [] flag | KArray => VArr [] | KMap => VMap [] | KBytes => VBytes []
  end.
Definition is_safe_arms_agree : bool :=
  forallb (fun k => forallb (fun fl => Bool.eqb (value_is_safe (kind_witness k fl)) (is_safe_gen (kind_witness k fl)))
                            [true; false]) all_kinds.

(* ---------- the default escaper ---------- *)

(* decidable check over the generated table: every replacement is free of specials and every special is a key *)
Definition escape_map_ok (tbl : list (N * list N)) : bool :=
  forallb (fun kr => forallb ok_html (snd kr)) tbl
  && forallb (fun c => existsb (fun kr => (fst kr =? c)%N) tbl) [60; 62; 34; 39]%N.

(* entity rule for &: every & in the escaper's output starts one of the table's replacements *)
Definition amp : N := 38%N.
Definition escape_map_amp_ok (tbl : list (N * list N)) : bool :=
  existsb (fun kr => (fst kr =? amp)%N) tbl
  && forallb (fun kr => match snd kr with
                        | a :: r => (a =? amp)%N && negb (existsb (N.eqb amp) r)
                        | [] => false
                        end) tbl.

(* a format function whose float printer is a parameter (the f64 Display of Rust is an oracle) *)
Definition format_with (fp : spec_float -> str) (v : value) : str :=
  match v with VFloat f => fp f | _ => format_value v end.

(* ---------- provenance events (formulation B) ---------- *)

Inductive event :=
| ELit (t : str)            (* WriteText *)
| EEsc (v : value)          (* value written through the escaper *)
| ERaw (v : value).         (* value written as formatted *)

(* what the shared tail of WriteTop/WritePath does, as an event *)
Definition write_event (autoescape : bool) (v : value) : event :=
  if negb autoescape || value_is_safe v then ERaw v else EEsc v.
Definition event_text (wd : world) (e : event) : str :=
  match e with
  | ELit t => t
  | EEsc v => w_escape wd (w_format wd v)
  | ERaw v => w_format wd v
  end.

(* where a safe flag may come from *)
Inductive origin :=
| OContext                   (* present in the initial context / a constant of the chunk *)
| OMint                      (* EndCapture, component result, component body, super() *)
| OWorld                     (* result of a filter/function that declared is_safe *)
| OSub (o : origin).         (* index / slice of such a string *)

(* ---------- set_templates_auto_escape (tera.rs 176-208, 724) ---------- *)

Definition ends_with (s suf : str) : bool :=
  (length suf <=? length s) && str_eqb (skipn (length s - length suf) s) suf.

Definition autoescape_of (suffixes : list str) (name : str) : bool := existsb (ends_with name) suffixes.

Record registry := { r_suffixes : list str; r_templates : list (str * template) }.

Definition set_ae (t : template) (b : bool) : template :=
  {| t_name := t_name t; t_chunk := t_chunk t; t_root_chunk := t_root_chunk t;
     t_lineage := t_lineage t; t_autoescape := b |}.

(* for (tpl_name, tpl) in templates: tpl.autoescape_enabled = suffixes.any(|s| tpl_name.ends_with(s)) *)
Definition set_templates_auto_escape (r : registry) : registry :=
  {| r_suffixes := r_suffixes r;
     r_templates := map (fun nt => (fst nt, set_ae (snd nt) (autoescape_of (r_suffixes r) (fst nt)))) (r_templates r) |}.

(* Tera::autoescape_on *)
Definition autoescape_on (r : registry) (suffixes : list str) : registry :=
  set_templates_auto_escape {| r_suffixes := suffixes; r_templates := r_templates r |}.

(* finalize_templates ends with set_templates_auto_escape (tera.rs:724); new templates arrive with
   whatever flag Template::new gave them *)
Definition finalize_with (r : registry) (added : list (str * template)) : registry :=
  set_templates_auto_escape
    {| r_suffixes := r_suffixes r;
       r_templates := added ++ filter (fun nt => negb (existsb (fun a => str_eqb (fst a) (fst nt)) added)) (r_templates r) |}.

Inductive reg_op := OpAutoescapeOn (s : list str) | OpFinalize (added : list (str * template)).
Definition apply_op (r : registry) (o : reg_op) : registry :=
  match o with OpAutoescapeOn s => autoescape_on r s | OpFinalize a => finalize_with r a end.
