(* Model of the component machinery (C05).  Executable definitions only; no proofs here.

   Ported from
     tera/src/parsing/ast.rs      674-735  Type::matches_value / from_value (arms: Gen/TypeTables.v),
                                           ComponentArgument::type_matches
                                  761-849  ComponentDefinition::build_context
     tera/src/parsing/parser.rs  1281-1368 what a parameter declaration becomes (type inference)
     tera/src/vm/interpreter.rs   146-187  the `component!` macro (call from a template)
                                  391-438  BuildMap / BuildMapWithSpreads (the attribute map)
                                  949-971  render_component (depth check, fresh state)
                                  973-995  render_include (depth carried, include_parent)
     tera/src/vm/state.rs          49-148  State::new, get_value, dump_context
     tera/src/tera.rs             584-639  component table by priority (finalize_templates)
                                  936-943  get_template_priority
                                 1259-1296 render_component_to (the API entry point) *)
From TeraV Require Import Model.Value Gen.Tables Gen.TypeTables.

(* ------------------------------------------------------------------ strings *)

Definition body_name : str := [98; 111; 100; 121]%N.   (* "body" *)

(* lexicographic order on scalar values = Rust's `str` order (byte order of UTF-8) *)
Fixpoint str_ltb (a b : str) : bool :=
  match a, b with
  | [], [] => false
  | [], _ :: _ => true
  | _ :: _, [] => false
  | x :: a', y :: b' => if N.ltb x y then true else if N.eqb x y then str_ltb a' b' else false
  end.

(* str::starts_with *)
Fixpoint starts_with (s p : str) : bool :=
  match p, s with
  | [], _ => true
  | _ :: _, [] => false
  | y :: p', x :: s' => N.eqb x y && starts_with s' p'
  end.

(* ------------------------------------------------------------------ parameter types *)

Definition vkind_eqb (a b : vkind) : bool :=
  match a, b with
  | KUndefined, KUndefined | KNone, KNone | KBoolK, KBoolK | KU64, KU64 | KI64, KI64
  | KU128, KU128 | KI128, KI128 | KF64, KF64 | KString, KString | KArray, KArray
  | KMap, KMap | KBytes, KBytes => true
  | _, _ => false
  end.

(* Type::matches_value: the arms are Gen.TypeTables.type_matches_kinds *)
Definition type_matches (t : ctype) (v : value) : bool :=
  existsb (vkind_eqb (kind_of v)) (type_matches_kinds t).

(* Type::from_value: the arms are Gen.TypeTables.type_from_kind *)
Definition type_from_value (v : value) : option ctype := type_from_kind (kind_of v).

(* One declared parameter `name [: T] [= literal]` as written in the source. *)
Record param := { p_name : str; p_declared : option ctype; p_default : option value }.

(* parser.rs 1283-1366: ComponentArgument.typ = the declared type, else the type inferred from
   the default (only when a default is given), else none.  A declared type is NOT checked
   against the default. *)
Definition effective_type (p : param) : option ctype :=
  match p_declared p with
  | Some t => Some t
  | None => match p_default p with Some v => type_from_value v | None => None end
  end.

(* ComponentArgument::type_matches (ast.rs 732-734) *)
Definition arg_type_matches (p : param) (v : value) : bool :=
  match effective_type p with Some t => type_matches t v | None => true end.

(* ComponentDefinition: kwargs is a BTreeMap (iterated in key order: the list is taken in that
   order; only which of several errors is met first depends on it), rest_param_name. *)
Record comp_def := { def_params : list param; def_rest : option str }.

Definition declared (d : comp_def) (k : str) : bool :=
  existsb (fun p => str_eqb (p_name p) k) (def_params d).

(* ------------------------------------------------------------------ Context (BTreeMap<String, Value>) *)

Definition ctx := list (str * value).

Fixpoint ctx_get (c : ctx) (k : str) : option value :=
  match c with
  | [] => None
  | (k', v) :: t => if str_eqb k' k then Some v else ctx_get t k
  end.

Fixpoint ctx_remove (k : str) (c : ctx) : ctx :=
  match c with
  | [] => []
  | (k', v) :: t => if str_eqb k' k then ctx_remove k t else (k', v) :: ctx_remove k t
  end.

(* Context::insert_value = BTreeMap::insert: replaces *)
Definition ctx_insert (k : str) (v : value) (c : ctx) : ctx := (k, v) :: ctx_remove k c.

Definition ctx_keys (c : ctx) : list str := map fst c.

(* ------------------------------------------------------------------ value::Map (HashMap<Key, Value>) *)

Definition kmap := list (key * value).

(* Key equality: Str/String by content, integers by value whatever the width (key.rs 83-141) *)
Definition key_eqb (a b : key) : bool :=
  match a, b with
  | KBool x, KBool y => Bool.eqb x y
  | KInt _ x, KInt _ y => Z.eqb x y
  | KStr s _, KStr s' _ => str_eqb s s'
  | _, _ => false
  end.

Fixpoint kmap_get (m : kmap) (k : key) : option value :=
  match m with
  | [] => None
  | (k', v) :: t => if key_eqb k' k then Some v else kmap_get t k
  end.

Fixpoint kmap_remove (k : key) (m : kmap) : kmap :=
  match m with
  | [] => []
  | (k', v) :: t => if key_eqb k' k then kmap_remove k t else (k', v) :: kmap_remove k t
  end.

(* HashMap::insert *)
Definition kmap_insert (k : key) (v : value) (m : kmap) : kmap := kmap_remove k m ++ [(k, v)].

(* entry(k).or_insert(v) *)
Definition kmap_or_insert (k : key) (v : value) (m : kmap) : kmap :=
  match kmap_get m k with Some _ => m | None => m ++ [(k, v)] end.

(* ------------------------------------------------------------------ build_context (ast.rs 761-849) *)

(* first loop (772-784): unknown keys go to the rest map when a rest parameter is declared,
   otherwise they are remembered for the error *)
Fixpoint collect_unknown (d : comp_def) (keys : list str) (get : str -> option value)
         (rest_map : kmap) (unknown : list str) : res (kmap * list str) :=
  match keys with
  | [] => ROk (rest_map, unknown)
  | k :: t =>
      if declared d k then collect_unknown d t get rest_map unknown
      else
        match def_rest d with
        | Some _ =>
            match get k with
            | Some v => collect_unknown d t get (kmap_insert (KStr k true) v rest_map) unknown
            | None => RErr ErrPanic      (* unreachable!() *)
            end
        | None => collect_unknown d t get rest_map (k :: unknown)
        end
  end.

(* second loop (811-836).  A `String` error is RErr ErrOther here: the two callers wrap it. *)
Fixpoint bind_params (ps : list param) (get : str -> option value) (c : ctx) : res ctx :=
  match ps with
  | [] => ROk c
  | p :: t =>
      match get (p_name p) with
      | Some v =>
          if arg_type_matches p v then bind_params t get (ctx_insert (p_name p) v c)
          else RErr ErrOther              (* does not match expected type *)
      | None =>
          match p_default p with
          | Some dv => bind_params t get (ctx_insert (p_name p) dv c)
          | None => RErr ErrOther         (* Argument missing *)
          end
      end
  end.

Definition build_context (d : comp_def) (keys : list str) (get : str -> option value)
           (body : option value) : res ctx :=
  match collect_unknown d keys get [] [] with
  | RErr e => RErr e
  | ROk (rest_map, unknown) =>
      match unknown with
      | _ :: _ => RErr ErrOther           (* Unknown argument(s) *)
      | [] =>
          match bind_params (def_params d) get [] with
          | RErr e => RErr e
          | ROk c =>
              let c1 := match def_rest d with
                        | Some r => ctx_insert r (VMap rest_map) c
                        | None => c
                        end in
              let c2 := match body with
                        | Some b => ctx_insert body_name b c1
                        | None => c1
                        end in
              ROk c2
          end
      end
  end.

(* the usual instance: the supplied arguments as an association list with distinct keys *)
Definition build_context_of (d : comp_def) (supplied : ctx) (body : option value) : res ctx :=
  build_context d (ctx_keys supplied) (ctx_get supplied) body.

(* ------------------------------------------------------------------ State (state.rs) *)

(* for_loops (innermost last), set_variables, include_parent, context, global_context *)
Inductive vstate :=
  VState (loops : list ctx) (sets : ctx) (parent : option vstate) (context : ctx) (global : option ctx).

(* State::new / new_with_chunk (49-74): what render_component and render_component_to build *)
Definition state_new (c : ctx) : vstate := VState [] [] None c None.

(* render_to (1032-1033) *)
Definition state_top (c g : ctx) : vstate := VState [] [] None c (Some g).

Definition st_context (s : vstate) : ctx := match s with VState _ _ _ c _ => c end.

(* render_include (988-989) *)
Definition state_include (parent : vstate) : vstate := VState [] [] (Some parent) (st_context parent) None.

Fixpoint find_loops (rloops : list ctx) (n : str) : option value :=
  match rloops with
  | [] => None
  | l :: t => match ctx_get l n with Some v => Some v | None => find_loops t n end
  end.

(* State::get_value (94-124) *)
Fixpoint get_value (s : vstate) (n : str) : value :=
  match s with
  | VState loops sets parent context global =>
      match find_loops (rev loops) n with
      | Some v => v
      | None =>
          match ctx_get sets n with
          | Some v => v
          | None =>
              let pv := match parent with Some p => get_value p n | None => VUndef end in
              if negb (is_undefined pv) then pv
              else
                match ctx_get context n with
                | Some v => v
                | None =>
                    match global with
                    | Some g => match ctx_get g n with Some v => v | None => VUndef end
                    | None => VUndef
                    end
                end
          end
      end
  end.

(* State::dump_context (142-160): global, then context, then set_variables, then the loops *)
Definition ctx_extend (base over : ctx) : ctx :=
  fold_left (fun acc kv => ctx_insert (fst kv) (snd kv) acc) over base.

Definition dump_context (s : vstate) : ctx :=
  match s with
  | VState loops sets _ context global =>
      let c0 := match global with Some g => ctx_extend [] g | None => [] end in
      let c1 := ctx_extend c0 context in
      let c2 := ctx_extend c1 sets in
      fold_left ctx_extend loops c2
  end.

(* ------------------------------------------------------------------ recursion depth *)

Definition max_depth : nat := Z.to_nat max_component_recursion_depth.

(* render_component 950-955: the callee's counter, or the error *)
Definition enter_component (d : nat) : res nat :=
  let depth := (d + 1)%nat in
  if (max_depth <? depth)%nat then RErr ErrMsg else ROk depth.

(* render_include 984: the counter is copied *)
Definition enter_include (d : nat) : nat := d.

(* The call stack as a transition system.  A frame is one running `interpret`: the top-level
   render (FTop, counter 0), the component rendered through the API (FApi, counter 0:
   new_with_autoescape), a component called from a template (FComp), an include (FIncl). *)
Inductive fkind := FTop | FApi | FComp | FIncl.
Definition frame := (fkind * nat)%type.
Inductive event := ECall | EInclude | EReturn.

Definition step (st : list frame) (e : event) : res (list frame) :=
  match st with
  | [] => RErr ErrOther                          (* nothing is running: not an execution *)
  | (k, d) :: rest =>
      match e with
      | ECall => match enter_component d with
                 | ROk d' => ROk ((FComp, d') :: st)
                 | RErr e => RErr e
                 end
      | EInclude => ROk ((FIncl, enter_include d) :: st)
      | EReturn => ROk rest
      end
  end.

Fixpoint run (st : list frame) (evs : list event) : res (list frame) :=
  match evs with
  | [] => ROk st
  | e :: t => match step st e with ROk st' => run st' t | RErr x => RErr x end
  end.

Definition init_stack (api : bool) : list frame := [((if api then FApi else FTop), 0%nat)].

Definition is_component_frame (f : frame) : bool :=
  match fst f with FComp | FApi => true | _ => false end.
Definition is_called_frame (f : frame) : bool :=
  match fst f with FComp => true | _ => false end.
Definition live_components (st : list frame) : nat := length (filter is_component_frame st).
Definition live_calls (st : list frame) : nat := length (filter is_called_frame st).

(* ------------------------------------------------------------------ the two ways into a component *)

(* the attribute list of a call site: name=value (shorthand `name` is name={name}) or {...expr} *)
Inductive attr := AKv (k : str) (v : value) | ASpread (v : value).

(* BuildMap / BuildMapWithSpreads (391-438): the rightmost occurrence of a key wins; a spread
   operand that is not a map is a rendering error.  Processes the reversed list. *)
Fixpoint build_kwargs_rev (rattrs : list attr) (acc : kmap) : res kmap :=
  match rattrs with
  | [] => ROk acc
  | AKv k v :: t => build_kwargs_rev t (kmap_or_insert (KStr k true) v acc)
  | ASpread (VMap m) :: t =>
      build_kwargs_rev t (fold_left (fun a kv => kmap_or_insert (fst kv) (snd kv) a) m acc)
  | ASpread _ :: _ => RErr ErrRender
  end.
Definition build_kwargs (attrs : list attr) : res kmap := build_kwargs_rev (rev attrs) [].

(* kwargs.keys().filter_map(|k| k.as_str()) : non-string keys are dropped *)
Fixpoint str_keys (m : kmap) : list str :=
  match m with
  | [] => []
  | (KStr s _, _) :: t => s :: str_keys t
  | _ :: t => str_keys t
  end.

(* kwargs.get(&Key::Str(key)) *)
Definition kw_get (m : kmap) (k : str) : option value := kmap_get m (KStr k false).

(* Value::mark_safe (mod.rs 687-694) *)
Definition mark_safe (v : value) : value :=
  match v with VStr s _ => VStr s true | v => v end.

(* what a component is run with: the fresh state's context, the chunk, the callee VM's
   recursion counter and autoescape override *)
Record cframe (A : Type) := {
  fr_ctx : ctx; fr_chunk : A; fr_depth : nat; fr_override : option bool }.
Arguments fr_ctx {A}. Arguments fr_chunk {A}. Arguments fr_depth {A}. Arguments fr_override {A}.

Definition wrap_err {A} (e : errc) (r : res A) : res A :=
  match r with
  | RErr ErrPanic => RErr ErrPanic
  | RErr _ => RErr e
  | ROk a => ROk a
  end.

(* the `component!` macro: kwargs popped, body popped and marked safe, context built (a
   failure is a rendering error), then render_component (depth check, State::new_with_chunk) *)
Definition vm_component_call {A} (d : comp_def) (ch : A) (kwargs : value) (body : option value)
           (depth : nat) (ovr : option bool) : res (cframe A) :=
  match kwargs with
  | VMap m =>
      match wrap_err ErrRender (build_context d (str_keys m) (kw_get m) (option_map mark_safe body)) with
      | RErr e => RErr e
      | ROk c =>
          match enter_component depth with
          | RErr e => RErr e
          | ROk dep => ROk {| fr_ctx := c; fr_chunk := ch; fr_depth := dep; fr_override := ovr |}
          end
      end
  | _ => RErr ErrPanic                 (* expect("to have kwargs") *)
  end.

(* a call site: the body (if any) was captured first (EndCapture pushes a safe string of the
   captured text), then the attribute map is built *)
Definition vm_call_site {A} (d : comp_def) (ch : A) (attrs : list attr) (body : option str)
           (depth : nat) (ovr : option bool) : res (cframe A) :=
  match build_kwargs attrs with
  | RErr e => RErr e
  | ROk m => vm_component_call d ch (VMap m) (option_map (fun s => VStr s true) body) depth ovr
  end.

(* Tera::render_component_to: keys and values come from the caller's Context, the body string
   is minted safe as is, a build_context failure is Error::message, the VM starts at counter 0
   with the autoescape override set *)
Definition api_component_call {A} (d : comp_def) (ch : A) (context : ctx) (body : option str)
           (autoescape : bool) : res (cframe A) :=
  match wrap_err ErrMsg (build_context d (ctx_keys context) (ctx_get context)
                           (option_map (fun s => VStr s true) body)) with
  | RErr e => RErr e
  | ROk c => ROk {| fr_ctx := c; fr_chunk := ch; fr_depth := 0%nat; fr_override := Some autoescape |}
  end.

(* ------------------------------------------------------------------ component table by priority *)

(* get_template_priority (936-943) *)
Fixpoint priority_from (prefixes : list str) (name : str) (i : nat) : nat :=
  match prefixes with
  | [] => 0%nat
  | p :: t => if starts_with name p then S i else priority_from t name (S i)
  end.
Definition get_template_priority (prefixes : list str) (name : str) : nat :=
  priority_from prefixes name 0%nat.

(* component_sources: component name -> (what defines it, priority) *)
Definition ctable (A : Type) := list (str * (A * nat)).

Fixpoint ct_get {A} (t : ctable A) (n : str) : option (A * nat) :=
  match t with
  | [] => None
  | (n', x) :: r => if str_eqb n' n then Some x else ct_get r n
  end.
Fixpoint ct_remove {A} (n : str) (t : ctable A) : ctable A :=
  match t with
  | [] => []
  | (n', x) :: r => if str_eqb n' n then ct_remove n r else (n', x) :: ct_remove n r
  end.
Definition ct_insert {A} (n : str) (x : A * nat) (t : ctable A) : ctable A := (n, x) :: ct_remove n t.

(* the loop body 595-619 for one (component name, priority, definition) *)
Definition select_step {A} (t : ctable A) (e : str * nat * A) : res (ctable A) :=
  let '(n, prio, a) := e in
  match ct_get t n with
  | Some (_, existing) =>
      if (prio <? existing)%nat then ROk (ct_insert n (a, prio) t)
      else if (existing <? prio)%nat then ROk t
      else RErr ErrMsg                 (* defined in both ... *)
  | None => ROk (ct_insert n (a, prio) t)
  end.

Fixpoint select_from {A} (l : list (str * nat * A)) (t : ctable A) : res (ctable A) :=
  match l with
  | [] => ROk t
  | e :: r => match select_step t e with ROk t' => select_from r t' | RErr x => RErr x end
  end.

(* entries in the order in which finalize_templates meets them *)
Definition select_components {A} (l : list (str * nat * A)) : res (ctable A) := select_from l [].

(* finalize_templates 589-619: templates visited in sorted name order; each contributes its
   components (HashMap order: the list order of the model) at the template's priority; the
   definition is identified by the template that holds it *)
Fixpoint insert_sorted (x : str * list str) (l : list (str * list str)) : list (str * list str) :=
  match l with
  | [] => [x]
  | y :: t => if str_ltb (fst y) (fst x) then y :: insert_sorted x t else x :: l
  end.
Definition sort_templates (l : list (str * list str)) : list (str * list str) :=
  fold_right insert_sorted [] l.

Definition template_entries (prefixes : list str) (tpls : list (str * list str)) : list (str * nat * str) :=
  flat_map (fun tc => map (fun cn => (cn, get_template_priority prefixes (fst tc), fst tc)) (snd tc))
           (sort_templates tpls).

Definition component_table (prefixes : list str) (tpls : list (str * list str)) : res (ctable str) :=
  select_components (template_entries prefixes tpls).

(* ------------------------------------------------------------------ which definition a call site runs *)

(* the `component!` macro 150-154: `self.tera.components.get(name)` — the global, priority-built
   table — FIRST; `self.template.components[name]` (the components of the template the VM runs
   for: only a one-off `render_str` template can hold one the table lacks) as the fallback;
   indexing a missing name would panic *)
Fixpoint local_get {A} (l : list (str * A)) (n : str) : option A :=
  match l with
  | [] => None
  | (n', a) :: t => if str_eqb n' n then Some a else local_get t n
  end.

Definition lookup_component {A} (table : ctable A) (local : list (str * A)) (n : str) : res A :=
  match ct_get table n with
  | Some (a, _) => ROk a
  | None => match local_get local n with Some a => ROk a | None => RErr ErrPanic end
  end.
