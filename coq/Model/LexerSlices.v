(* Model/LexerSlices.v — the SLICING SITES of tera/src/parsing/lexer.rs `basic_tokenize`, made
   explicit next to the token model of Model/Lexer.v.  Executable definitions only; no proofs.

   Every place where the Rust code cuts the `&str` it is reading is listed with the absolute byte
   offset (into the whole source) it cuts at; a `str` cut off a character boundary is a panic
   (`split_at`, `Index<Range..>`), so "no slicing panic" is "every listed offset is a character
   boundary of the source" (Proofs/LexerBoundary.v, Props/C06.v).  The functions follow
   lex_loop / scan_inside / raw_loop of Model/Lexer.v step by step and, unlike those, keep what
   was cut BEFORE a syntax error: the offsets of a run that ends in Err are listed as well.

   Sites (lexer.rs line numbers):
     advance!(n)            264-280  rest.split_at(n)            -> pos + n
       check_ws_start!      285/288  n = 3 | 2
       raw block            446      n = offset + endraw
       comment              469      n = end_pos + 2
       text                 488/489  n = start | rest.len()
       whitespace in a tag  502/506  n = offset | rest.len()   (not executed when offset = 0)
       end delimiter        519/524/534/539  n = 3 | 2
       spread / operators   551/569/603      n = 3 | 2 | 1
       lex_number!          310      n = num_len        (before the i64 range test)
       lex_string!          365      n = str_len + 2    (before unescaping)
       identifiers          623      n = ident_len
     &s[1..s.len() - 1]     366      lex_string!: pos + 1 and pos + str_len + 1
     &rest.as_bytes()[offset..] 427  raw block: byte slice, needs offset <= len only
     &rest[offset..]        436      raw block, once per candidate `{%`
     &rest[body_start_offset..body_end_offset]  438   raw block, on success
   `rest.get(a..b)` (410, 515-516, 522, 530-531, 537) is the CHECKED form: it returns None off a
   boundary instead of panicking.  Model/Lexer.v renders `rest.get(a..a+2) == Some(delim)` as a
   byte comparison; `get2` below is the checked slice itself, and Proofs/LexerBoundary.v proves
   the two agree on valid UTF-8 (get2_is_window).  `strip_prefix` (skip_tag) and `trim_*` are std
   functions that cannot cut off a boundary. *)
From TeraV Require Import Model.Value Model.Utf8Lex Model.Lexer.
From TeraV Require Spec.Utf8Chars Model.Report.
Local Open Scope nat_scope.

(* `rest.get(a..a+2)` *)
Definition get2 (rest : bytes) (a : nat) : option bytes := Report.str_slice rest a (a + 2).

(* one token inside a tag (lexer.rs 549-635): offsets, relative to `rest`, of what is cut while
   lexing it, whether or not the token is accepted in the end *)
Definition inner_slices (rest : bytes) : list nat :=
  match rest with
  | [] => []
  | b1 :: t1 =>
    if starts_with [0x2E; 0x2E; 0x2E]%N rest then [3]
    else
      match (match t1 with b2 :: _ => op2_of b1 b2 | [] => None end) with
      | Some _ => [2]
      | None =>
        match op1_of b1 with
        | Some _ => [1]
        | None =>
          if is_quote b1 then
            let '(str_len, _) := str_scan (tl rest) b1 false in
            if negb (byte_at_is rest (str_len + 1) b1) then []      (* syntax error before advance! *)
            else [str_len + 2; 1; str_len + 1]                       (* advance!, &s[1..len-1] *)
          else if is_ascii_digit b1 then [fst (num_scan rest false)]
          else match ident_scan rest true with O => [] | n => [n] end
        end
      end
  end.

(* State::Variable | State::Tag from position `o` (= offset of `rest` in the source) *)
Fixpoint inside_slices (fuel : nat) (e rest : bytes) (o : nat) : list nat :=
  match fuel with
  | O => []
  | S f =>
    let rest1 := skip_ascii_ws rest in
    let pre := length rest - length rest1 in
    let o1 := o + pre in
    (if Nat.eqb pre 0 then [] else [o1]) ++
    match rest1 with
    | [] => []
    | b0 :: t0 =>
      if (b0 =? dash)%N && starts2 e t0 then [o1 + 3]
      else if starts2 e rest1 then [o1 + 2]
      else
        map (Nat.add o1) (inner_slices rest1) ++
        match inner_token rest1 with
        | None => []
        | Some (_, len) => inside_slices f e (skipn len rest1) (o1 + len)
        end
    end
  end.

(* the raw-block loop (426-452); offsets relative to `rest` (the text after `{%` / `{%-`) are
   made absolute with `o` *)
Fixpoint raw_slices (fuel : nat) (dl : delims) (rest : bytes) (body_start offset o : nat) : list nat :=
  match fuel with
  | O => []
  | S f =>
    (o + offset) ::                                            (* &rest.as_bytes()[offset..] *)
    match memstr (skipn offset rest) (d_bs dl) with
    | None => []
    | Some block =>
      let body_end := offset + block in
      let offset' := offset + block + 2 in
      (o + offset') ::                                         (* &rest[offset..] *)
      match skip_tag (skipn offset' rest) name_endraw (d_be dl) with
      | Some (endraw, _) =>
        [o + body_start; o + body_end;                         (* &rest[body_start..body_end] *)
         o + (offset' + endraw)]                               (* advance!(offset + endraw) *)
      | None => raw_slices f dl rest body_start offset' o
      end
    end
  end.

(* basic_tokenize from position `o` *)
Fixpoint loop_slices (fuel : nat) (dl : delims) (rest : bytes) (o : nat) : list nat :=
  match fuel with
  | O => []
  | S f =>
    match rest with
    | [] => []
    | _ =>
      if starts2 (d_vs dl) rest then
        let '(ws, rest1) := check_ws_start rest in
        let o1 := o + mlen ws in
        o1 :: inside_slices (S (length rest1)) (d_ve dl) rest1 o1 ++
        match scan_inside (S (length rest1)) (d_ve dl) rest1 with
        | IEnd _ _ _ rest2 => loop_slices f dl rest2 (o1 + (length rest1 - length rest2))
        | _ => []
        end
      else if starts2 (d_bs dl) rest then
        let '(ws, rest1) := check_ws_start rest in
        let o1 := o + mlen ws in
        o1 ::
        match skip_tag rest1 name_raw (d_be dl) with
        | Some (offset, w) =>
          raw_slices (S (length rest1)) dl rest1 offset offset o1 ++
          match raw_loop (S (length rest1)) dl rest1 offset offset w with
          | Some (_, _, adv) => loop_slices f dl (skipn adv rest1) (o1 + adv)
          | None => []
          end
        | None =>
          inside_slices (S (length rest1)) (d_be dl) rest1 o1 ++
          match scan_inside (S (length rest1)) (d_be dl) rest1 with
          | IEnd _ _ _ rest2 => loop_slices f dl rest2 (o1 + (length rest1 - length rest2))
          | _ => []
          end
        end
      else if starts2 (d_cs dl) rest then
        let '(ws, rest1) := check_ws_start rest in
        let o1 := o + mlen ws in
        o1 ::
        match memstr rest1 (d_ce dl) with
        | Some end_pos =>
          (o1 + (end_pos + 2)) :: loop_slices f dl (skipn (end_pos + 2) rest1) (o1 + (end_pos + 2))
        | None => []
        end
      else
        match find_start_marker dl rest with
        | Some start => (o + start) :: loop_slices f dl (skipn start rest) (o + start)
        | None => [o + length rest]
        end
    end
  end.

(* every offset into `src` the run of the lexer cuts at, in order *)
Definition slice_offsets (dl : delims) (src : bytes) : list nat :=
  loop_slices (S (length src)) dl src 0.

(* what `Delimiters` guarantees beyond validate: the six fields are `Cow<'static, str>`, so each
   is valid UTF-8 (type invariant of str); with the 2-byte length that validate checks a delimiter
   is two ASCII characters or one 2-byte character, never a fragment of a character *)
Definition delims_utf8 (dl : delims) : Prop :=
  Utf8Chars.valid_utf8 (d_bs dl) /\ Utf8Chars.valid_utf8 (d_be dl) /\
  Utf8Chars.valid_utf8 (d_vs dl) /\ Utf8Chars.valid_utf8 (d_ve dl) /\
  Utf8Chars.valid_utf8 (d_cs dl) /\ Utf8Chars.valid_utf8 (d_ce dl).

(* the end of every token range is one of the listed offsets (or 0): executable cross-check used
   by Corr/CorrC06.v *)
Fixpoint mem_nat (n : nat) (l : list nat) : bool :=
  match l with [] => false | x :: t => Nat.eqb n x || mem_nat n t end.
