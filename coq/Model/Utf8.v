(* UTF-8 (RFC 3629 / Unicode Table 3-7) between the code-point strings of Model/Value.v and the
   byte strings the tera-contrib codecs work on (`val.as_bytes()`, `String::from_utf8`).
   Executable definitions only.  Rust std is MODELLED here, not translated. *)
From TeraV Require Import Model.Value.
Open Scope N_scope.

(* a Unicode scalar value (what a Rust `char` can hold) *)
Definition is_scalar (c : N) : bool := (c <? 55296) || ((57343 <? c) && (c <? 1114112)).

(* char::encode_utf8 *)
Definition utf8_encode_char (c : N) : list N :=
  if c <? 128 then [c]
  else if c <? 2048 then [192 + c / 64; 128 + c mod 64]
  else if c <? 65536 then [224 + c / 4096; 128 + (c / 64) mod 64; 128 + c mod 64]
  else [240 + c / 262144; 128 + (c / 4096) mod 64; 128 + (c / 64) mod 64; 128 + c mod 64].

(* str::as_bytes of a string given as its chars *)
Definition utf8_encode (s : list N) : list N := flat_map utf8_encode_char s.

Definition is_cont (b : N) : bool := (128 <=? b) && (b <=? 191).
Definition in_range (lo hi b : N) : bool := (lo <=? b) && (b <=? hi).

(* admissible second byte after a 3-byte lead (Table 3-7: E0 A0..BF, ED 80..9F, otherwise 80..BF) *)
Definition second3_ok (b0 b1 : N) : bool :=
  if b0 =? 224 then in_range 160 191 b1
  else if b0 =? 237 then in_range 128 159 b1
  else is_cont b1.

(* admissible second byte after a 4-byte lead (F0 90..BF, F4 80..8F, F1..F3 80..BF) *)
Definition second4_ok (b0 b1 : N) : bool :=
  if b0 =? 240 then in_range 144 191 b1
  else if b0 =? 244 then in_range 128 143 b1
  else is_cont b1.

(* String::from_utf8: None = Err(FromUtf8Error).  Well-formed byte sequences only: no overlong
   forms (C0, C1, E0 80..9F, F0 80..8F), no surrogates (ED A0..BF), nothing above U+10FFFF
   (F4 90.., F5..FF), no stray continuation byte, no truncated sequence. *)
Fixpoint utf8_decode (l : list N) : option (list N) :=
  match l with
  | [] => Some []
  | b0 :: t =>
      if b0 <? 128 then option_map (cons b0) (utf8_decode t)
      else if in_range 194 223 b0 then
        match t with
        | b1 :: t1 =>
            if is_cont b1
            then option_map (cons ((b0 - 192) * 64 + (b1 - 128))) (utf8_decode t1)
            else None
        | _ => None
        end
      else if in_range 224 239 b0 then
        match t with
        | b1 :: b2 :: t2 =>
            if second3_ok b0 b1 && is_cont b2
            then option_map (cons ((b0 - 224) * 4096 + (b1 - 128) * 64 + (b2 - 128))) (utf8_decode t2)
            else None
        | _ => None
        end
      else if in_range 240 244 b0 then
        match t with
        | b1 :: b2 :: b3 :: t3 =>
            if second4_ok b0 b1 && is_cont b2 && is_cont b3
            then option_map (cons ((b0 - 240) * 262144 + (b1 - 128) * 4096 + (b2 - 128) * 64 + (b3 - 128)))
                            (utf8_decode t3)
            else None
        | _ => None
        end
      else None
  end.

Definition is_byte (b : N) : bool := b <? 256.
Definition is_ascii (b : N) : bool := b <? 128.
