(* Port of the statement/expression compiler tera/src/parsing/compiler.rs (compile_expr 112-419,
   compile_kwargs 61-72, compile_node 463-635, end_branch 443-454, get_current_loop 456-461) for
   the statement language of Spec/Stmt.v.  Same instruction shapes, same order; the Rust code
   emits jumps with target 0 and back-patches them when the end of the construct is known
   (`end_branch`, `*jump_target = loop_end`): here the target is computed from the lengths of the
   sub-sequences, which is the same number.  `base` is `self.chunk.len()` when the node is
   compiled; `lp` is the `Loop(start_idx)` entry that get_current_loop() would find.
   The result is the chunk BEFORE Chunk::optimize (C09 relates the two).
   Executable definitions only. *)
From TeraV Require Import Model.Value Model.Instr Model.Slice Model.VM Spec.Stmt Gen.Tables.
Local Open Scope nat_scope.

(* parser.rs 323-330: loop.<field> inside a for is rewritten to a reserved variable name *)
Definition loop_field_name (f : loop_field) : str :=
  match f with
  | LIndex => s_loop_index
  | LIndex0 => s_loop_index0
  | LFirst => s_loop_first
  | LLast => s_loop_last
  | LLength => s_loop_length
  end.

(* compile_expr 352-369: the instruction of a binary operator *)
Definition binop_instr (op : binop) : instr :=
  match op with
  | BMul => Mul | BDiv => Div | BFloorDiv => FloorDiv | BMod => Mod
  | BPlus => Plus | BMinus => Minus | BPower => Power
  | BLt => LessThan | BGt => GreaterThan | BLe => LessThanOrEqual | BGe => GreaterThanOrEqual
  | BNe => NotEqual | BConcat => StrConcat | BIn => InOp
  end.

(* compile_kwargs: LoadConst key; value ... ; BuildMap n   (kwargs in list order) *)
Definition compile_kws (ce : nat -> expr -> list instr) : nat -> list (str * expr) -> list instr :=
  fix go base kw :=
    match kw with
    | [] => []
    | (k, e) :: t => let c := LoadConst (VStr k false) :: ce (S base) e in c ++ go (base + length c) t
    end.

(* the entries of an array literal (compile_expr 122-157): every entry's expression, in order *)
Definition compile_items (ce : nat -> expr -> list instr) : nat -> list (bool * expr) -> list instr :=
  fix go base l :=
    match l with
    | [] => []
    | (_, e) :: t => let c := ce base e in c ++ go (base + length c) t
    end.

(* compile_map_entries 74-110: LoadConst key; value for a pair, the expression for a spread *)
Definition compile_entries (ce : nat -> expr -> list instr)
  : nat -> list (option value * expr) -> list instr :=
  fix go base l :=
    match l with
    | [] => []
    | (Some k, e) :: t => let c := LoadConst k :: ce (S base) e in c ++ go (base + length c) t
    | (None, e) :: t => let c := ce base e in c ++ go (base + length c) t
    end.

Definition is_spread (e : option value * expr) : bool :=
  match fst e with None => true | Some _ => false end.

Fixpoint compile_expr (base : nat) (e : expr) {struct e} : list instr :=
  match e with
  | EConst v => [LoadConst v]
  | EVar n => [LoadName n]
  | ELoop f => [LoadName (loop_field_name f)]
  | EAttr e1 a => compile_expr base e1 ++ [LoadAttr a]
  | ENot e1 => compile_expr base e1 ++ [Not]
  | EAnd a b =>
      let ca := compile_expr base a in
      let cb := compile_expr (base + length ca + 1) b in
      ca ++ [JumpIfFalseOrPop (base + length ca + 1 + length cb)] ++ cb
  | EOr a b =>
      let ca := compile_expr base a in
      let cb := compile_expr (base + length ca + 1) b in
      ca ++ [JumpIfTrueOrPop (base + length ca + 1 + length cb)] ++ cb
  | EEq a b =>
      let ca := compile_expr base a in
      ca ++ compile_expr (base + length ca) b ++ [Equal]
  | ETest e1 name =>
      compile_expr base e1 ++ [BuildMap 0; RunTest name]
  | EFilter e1 name kw =>
      let c1 := compile_expr base e1 in
      c1 ++ compile_kws compile_expr (base + length c1) kw ++ [BuildMap (length kw); ApplyFilter name]
  | EBin op a b =>                     (* 414-416: left; right; the operator *)
      let ca := compile_expr base a in
      ca ++ compile_expr (base + length ca) b ++ [binop_instr op]
  | ENeg e1 => compile_expr base e1 ++ [Negative]
  | ETernary c a b =>                  (* 243-254: cond; PopJumpIfFalse else; true; Jump end; else: false; end: *)
      let cc := compile_expr base c in
      let b1 := base + length cc + 1 in
      let ca := compile_expr b1 a in
      let b2 := b1 + length ca + 1 in
      let cb := compile_expr b2 b in
      cc ++ [PopJumpIfFalse b2] ++ ca ++ [Jump (b2 + length cb)] ++ cb
  | EAttrOpt e1 a => compile_expr base e1 ++ [LoadAttrOpt a]          (* 175-184 *)
  | ESub opt e1 i =>                                                  (* 185-194 *)
      let c1 := compile_expr base e1 in
      c1 ++ compile_expr (base + length c1) i ++ [if opt then BinarySubscriptOpt else BinarySubscript]
  | ESlice opt e1 a b c =>             (* 195-221: absent start/end load none, an absent step loads 1 *)
      let c1 := compile_expr base e1 in
      let b1 := base + length c1 in
      let ca := match a with Some x => compile_expr b1 x | None => [LoadConst VNone] end in
      let b2 := b1 + length ca in
      let cb := match b with Some x => compile_expr b2 x | None => [LoadConst VNone] end in
      let b3 := b2 + length cb in
      let cc := match c with Some x => compile_expr b3 x | None => [LoadConst (VInt I64 1)] end in
      c1 ++ ca ++ cb ++ cc ++ [if opt then SliceOpt else Slice]
  | ECall name kw =>                                                  (* 334-343 *)
      compile_kws compile_expr base kw ++ [BuildMap (length kw); CallFunction name]
  | EArr items =>                                                     (* 122-157 *)
      compile_items compile_expr base items
        ++ [if existsb fst items then BuildListWithSpreads (map fst items) else BuildList (length items)]
  | EMap entries =>                                                   (* 118-121, 74-110 *)
      compile_entries compile_expr base entries
        ++ [if existsb is_spread entries then BuildMapWithSpreads (map is_spread entries)
            else BuildMap (length entries)]
  end.

Definition compile_kwargs (base : nat) (kw : list (str * expr)) : list instr :=
  compile_kws compile_expr base kw ++ [BuildMap (length kw)].

(* the filters of a set block: kwargs; ApplyFilter *)
Fixpoint compile_filters (base : nat) (fs : list filter_call) : list instr :=
  match fs with
  | [] => []
  | (name, kw) :: t =>
      let c := compile_kwargs base kw ++ [ApplyFilter name] in
      c ++ compile_filters (base + length c) t
  end.

Definition compile_seq (cn : nat -> option nat -> stmt -> list instr)
  : nat -> option nat -> list stmt -> list instr :=
  fix go base lp l :=
    match l with
    | [] => []
    | s :: t => let c := cn base lp s in c ++ go (base + length c) lp t
    end.

Definition is_some {A} (o : option A) : bool := match o with Some _ => true | None => false end.

Fixpoint compile_node (base : nat) (lp : option nat) (s : stmt) {struct s} : list instr :=
  match s with
  | SText t => [WriteText t]
  | SPrint e => compile_expr base e ++ [WriteTop]
  | SAssign g n e => compile_expr base e ++ [if g then SetGlobal n else SetI n]
  | SSetBlock g n body filters =>
      let cb := compile_seq compile_node (S base) lp body in
      let b1 := S base + length cb + 1 in
      [Capture] ++ cb ++ [EndCapture] ++ compile_filters b1 filters
        ++ [if g then SetGlobal n else SetI n]
  | SInclude name => [Include name]
  | SFor key val target body els =>
      let ct := compile_expr base target in
      let hdr := [StartIterate (is_some key); StoreLocal val]
                 ++ match key with Some k => [StoreLocal k] | None => [] end in
      let start := base + length ct + length hdr in           (* index of Iterate *)
      let cb := compile_seq compile_node (S start) (Some start) body in
      let loop_end := S start + length cb + 1 in               (* just after Jump start *)
      match els with
      | [] => ct ++ hdr ++ [Iterate loop_end] ++ cb ++ [Jump start; PopLoop]
      | _ =>
          let b2 := loop_end + 3 in
          let ce := compile_seq compile_node b2 lp els in
          ct ++ hdr ++ [Iterate loop_end] ++ cb
             ++ [Jump start; StoreDidNotIterate; PopLoop; PopJumpIfFalse (b2 + length ce)] ++ ce
      end
  | SBreak => [Break]
  | SContinue => match lp with Some idx => [Jump idx] | None => [] end   (* unwrap(): the parser only accepts it in a loop *)
  | SIf c body els =>
      let cc := compile_expr base c in
      let b1 := base + length cc + 1 in
      let cb := compile_seq compile_node b1 lp body in
      match els with
      | [] => cc ++ [PopJumpIfFalse (b1 + length cb)] ++ cb
      | _ =>
          let b2 := b1 + length cb + 1 in
          let ce := compile_seq compile_node b2 lp els in
          cc ++ [PopJumpIfFalse b2] ++ cb ++ [Jump (b2 + length ce)] ++ ce
      end
  | SFilter name kw body =>
      let cb := compile_seq compile_node (S base) lp body in
      let b1 := S base + length cb + 1 in
      [Capture] ++ cb ++ [EndCapture] ++ compile_kwargs b1 kw ++ [ApplyFilter name; WriteTop]
  end.

(* Compiler::compile on a fresh chunk *)
Definition compile (body : list stmt) : list instr := compile_seq compile_node 0 None body.

(* a library of statement-level templates as VM templates (no inheritance: root = own chunk) *)
Definition compile_tdef (t : tdef) : template :=
  let c := compile (td_body t) in
  {| t_name := td_name t; t_chunk := c; t_root_chunk := c; t_lineage := [];
     t_autoescape := td_autoescape t |}.

(* ---------- the built-ins of a VM world, as the reference interpreter sees them ---------- *)

(* what compile_kwargs + BuildMap leave on the stack for evaluated kwargs (keys are strings) *)
Definition kw_map (wd : world) (kws : list (str * value)) : kwargs :=
  map_of_pairs wd (map (fun kv => (KStr (fst kv) true, snd kv)) kws).

Definition no_scope : scope := Scope [] [] None [] None.

(* what the interpreter does for a binary operator on (a, b), b on top of the stack
   (interpreter.rs: math ops, comparisons, NotEqual, StrConcat, In), and for unary minus *)
Definition binop_result (wd : world) (op : binop) (a b : value) : res value :=
  match op with
  | BMul | BDiv | BFloorDiv | BMod | BMinus | BPower =>
      if negb (is_number a) then RErr ErrRender
      else if negb (is_number b) then RErr ErrRender
      else match w_math wd (binop_instr op) a b with ROk c => ROk c | RErr _ => RErr ErrRender end
  | BPlus =>
      if is_number a && is_number b
      then match w_math wd Plus a b with ROk c => ROk c | RErr _ => RErr ErrRender end
      else RErr ErrRender
  | BLt | BGt | BLe | BGe =>
      match w_cmp wd a b with
      | Some c => ROk (VBool (ord_result (binop_instr op) c))
      | None => RErr ErrRender
      end
  | BNe => ROk (VBool (negb (w_eq wd a b)))
  | BConcat =>
      ROk (VStr (match a, b with
                 | VStr x _, VStr y _ => x ++ y
                 | _, _ => w_format wd a ++ w_format wd b
                 end) false)
  | BIn => match w_contains wd b a with ROk r => ROk (VBool r) | RErr _ => RErr ErrRender end
  end.

Definition neg_result (wd : world) (a : value) : res value :=
  match w_negate wd a with ROk b => ROk b | RErr _ => RErr ErrRender end.

(* what BuildMap / BuildMapWithSpreads make of evaluated map-literal entries (source order) *)
Definition entry_flat (e : option value * value) : list value :=
  match e with (Some k, v) => [k; v] | (None, v) => [v] end.

Definition build_map_result (wd : world) (es : list (option value * value)) : res value :=
  let spread (e : option value * value) := match fst e with None => true | Some _ => false end in
  if existsb spread es
  then match build_map_spreads wd (rev (map spread es)) (rev (flat_map entry_flat es)) [] with
       | ROk (m, _) => ROk (VMap m)
       | RErr e => RErr e
       end
  else match build_map_pairs wd (flat_map entry_flat es) with
       | ROk pairs => ROk (VMap (map_of_pairs wd pairs))
       | RErr e => RErr e
       end.

Definition s_super : str := [115;117;112;101;114]%N.

Definition builtins_of_world (wd : world) : builtins :=
  {| b_get_attr := w_get_attr wd;
     b_eq := w_eq wd;
     b_test := fun name v => w_test wd name v [];
     b_filter := fun name v kws => w_filter wd name v (kw_map wd kws) no_scope;
     b_format := w_format wd;
     b_escape := w_escape wd;
     b_binop := binop_result wd;
     b_neg := neg_result wd;
     b_subscript := subscript wd;
     b_slice := vm_slice;
     b_function := fun name kws => w_function wd name (kw_map wd kws) no_scope;
     b_build_map := build_map_result wd |}.

(* ---------- what the parser guarantees about the trees it hands to the compiler ----------
   parser.rs 1585-1615: break/continue only inside a for body and not across a capture
   (set block, filter section); 323-330: `loop.<field>` is only rewritten lexically inside a
   for; identifiers are non-empty.  User variables are assumed not to use the engine's reserved
   names (`__tera_context`, `__tera_loop_*`).  `lex`: lexically inside some for (even across a
   capture); `brk`: break/continue allowed here. *)
Definition ordinary_name (n : str) : bool :=
  negb (str_eqb n magical_dump_var) && negb (str_eqb n s_loop_index) && negb (str_eqb n s_loop_index0)
  && negb (str_eqb n s_loop_first) && negb (str_eqb n s_loop_last) && negb (str_eqb n s_loop_length).

Fixpoint wf_expr (lex : bool) (e : expr) {struct e} : bool :=
  match e with
  | EConst _ => true
  | EVar n => ordinary_name n
  | ELoop _ => lex
  | EAttr e1 _ | ENot e1 | ETest e1 _ | ENeg e1 => wf_expr lex e1
  | EAnd a b | EOr a b | EEq a b | EBin _ a b => wf_expr lex a && wf_expr lex b
  | EFilter e1 _ kw => wf_expr lex e1 && forallb (fun ke => wf_expr lex (snd ke)) kw
  | ETernary c a b => wf_expr lex c && wf_expr lex a && wf_expr lex b
  | EAttrOpt e1 _ => wf_expr lex e1
  | ESub _ a b => wf_expr lex a && wf_expr lex b
  | ESlice _ e1 a b c =>
      wf_expr lex e1 && match a with Some x => wf_expr lex x | None => true end
      && match b with Some x => wf_expr lex x | None => true end
      && match c with Some x => wf_expr lex x | None => true end
  (* `super()` is not a registered function: it renders the parent block (C05 / C03 `vm` family) *)
  | ECall name kw => negb (str_eqb name s_super) && forallb (fun ke => wf_expr lex (snd ke)) kw
  (* array and map literals are compiled (and covered by C07's compile_always_checks, which does
     not look at wf_expr) but compile_correct (C03) is NOT proved for them: excluded here *)
  | EArr _ | EMap _ => false
  end.

Definition wf_kws (lex : bool) (kw : list (str * expr)) : bool :=
  forallb (fun ke => wf_expr lex (snd ke)) kw.

(* `okn`: the names an include may refer to (in a template library: the templates listed after
   this one, Spec/Stmt.v template_sem) *)
Fixpoint wf_stmt (okn : str -> bool) (lex brk : bool) (s : stmt) {struct s} : bool :=
  match s with
  | SText _ => true
  | SInclude n => okn n
  | SPrint e | SAssign _ _ e => wf_expr lex e
  | SIf c body els =>
      wf_expr lex c && forallb (wf_stmt okn lex brk) body && forallb (wf_stmt okn lex brk) els
  | SFor _ val target body els =>
      wf_expr lex target && match val with [] => false | _ => true end
      && forallb (wf_stmt okn true true) body && forallb (wf_stmt okn lex brk) els
  | SSetBlock _ _ body fs =>
      forallb (wf_stmt okn lex false) body && forallb (fun f => wf_kws lex (snd f)) fs
  | SFilter _ kw body => wf_kws lex kw && forallb (wf_stmt okn lex false) body
  | SBreak | SContinue => brk
  end.

Definition wf_body (okn : str -> bool) (body : list stmt) : bool := forallb (wf_stmt okn false false) body.

(* the part of wf_stmt about the control structure alone -- where break / continue may stand
   (parser.rs 1585-1615) -- with no condition on expressions, names or includes: what C07's
   compile_always_checks needs *)
Fixpoint brk_stmt (brk : bool) (s : stmt) {struct s} : bool :=
  match s with
  | SText _ | SInclude _ | SPrint _ | SAssign _ _ _ => true
  | SIf _ body els => forallb (brk_stmt brk) body && forallb (brk_stmt brk) els
  | SFor _ _ _ body els => forallb (brk_stmt true) body && forallb (brk_stmt brk) els
  | SSetBlock _ _ body _ | SFilter _ _ body => forallb (brk_stmt false) body
  | SBreak | SContinue => brk
  end.

Definition brk_body (body : list stmt) : bool := forallb (brk_stmt false) body.
