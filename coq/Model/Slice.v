(* Model of indexing and slicing:
   value/mod.rs  resolve_index (377-391), get_item (917-956, array/string arms), slice (959-1027)
   vm/interpreter.rs  BinarySubscript(Opt) (204-244), Slice(Opt) (246-318). *)
From TeraV Require Import Model.Value.

Definition sat_add (a b : Z) : Z := Z.max i128_min (Z.min i128_max (a + b)).

(* Ord::clamp (lo <= hi is asserted by std; it always holds at the call sites, lemma lo_le_hi) *)
Definition clamp (x lo hi : Z) : Z := if x <? lo then lo else if hi <? x then hi else x.

Definition bounds (len step : Z) : Z * Z := if 0 <? step then (0, len) else (-1, len - 1).

Definition resolve_param (len lo hi : Z) (p : option Z) (default : Z) : Z :=
  match p with
  | None => default
  | Some p => clamp (if p <? 0 then sat_add p len else p) lo hi
  end.

(* the `while` loop; fuel = len + 1 iterations are always enough (lemma slice_loop_fuel) *)
Fixpoint slice_loop (fuel : nat) (i e step : Z) : list Z :=
  match fuel with
  | O => []
  | S f =>
      if (if 0 <? step then i <? e else e <? i)
      then i :: slice_loop f (sat_add i step) e step
      else []
  end.

Definition slice_indices (len : Z) (start stop : option Z) (step : Z) : list Z :=
  let '(lo, hi) := bounds len step in
  let s := resolve_param len lo hi start (if 0 <? step then lo else hi) in
  let e := resolve_param len lo hi stop (if 0 <? step then hi else lo) in
  slice_loop (S (Z.to_nat len)) s e step.

(* `items[i as usize]`: None = the index expression would panic *)
Definition index_usize {A} (items : list A) (i : Z) : option A :=
  if i <? 0 then None else nth_error items (Z.to_nat i).

Fixpoint collect {A} (items : list A) (idx : list Z) : option (list A) :=
  match idx with
  | [] => Some []
  | i :: t =>
      match index_usize items i, collect items t with
      | Some x, Some r => Some (x :: r)
      | _, _ => None
      end
  end.

Definition slice_items {A} (items : list A) (start stop : option Z) (step : Z) : option (list A) :=
  collect items (slice_indices (Z.of_nat (length items)) start stop step).

(* Value::slice *)
Definition value_slice (v : value) (start stop step : option Z) : res value :=
  let step := match step with None => 1 | Some s => s end in
  if step =? 0 then RErr ErrMsg else
  match v with
  | VArr l =>
      match slice_items l start stop step with
      | Some r => ROk (VArr r) | None => RErr ErrPanic end
  | VStr s safe =>
      match slice_items s start stop step with
      | Some r => ROk (VStr r safe) | None => RErr ErrPanic end
  | _ => RErr ErrMsg
  end.

(* operand validation of Instruction::Slice: none = absent, undefined = error, else as_i128;
   a u128 above i128::MAX saturates (it is beyond every possible length) *)
Definition slice_operand (v : value) : res (option Z) :=
  if is_none v then ROk None
  else if is_undefined v then RErr ErrRender
  else match as_i128 v with
       | Some n => ROk (Some n)
       | None => if is_u128 v then ROk (Some i128_max) else RErr ErrRender
       end.

Definition vm_slice (optional : bool) (val start stop step : value) : res value :=
  if optional && (is_undefined val || is_none val) then ROk VUndef
  else if is_undefined val then RErr ErrRender
  else
    res_bind (slice_operand start) (fun s =>
    res_bind (slice_operand stop) (fun e =>
    res_bind (slice_operand step) (fun st =>
      match value_slice val s e st with
      | ROk v => ROk v
      | RErr ErrPanic => RErr ErrPanic
      | RErr _ => RErr ErrRender
      end))).

(* resolve_index: Ok(Some i) in range, Ok(None) out of range, Err for non-integers *)
Definition resolve_index (item : value) (len : Z) : res (option Z) :=
  match as_i128 item with
  | Some idx =>
      let n := if idx <? 0 then idx + len else idx in
      ROk (if (0 <=? n) && (n <? len) then Some n else None)
  | None => if is_u128 item then ROk None else RErr ErrMsg
  end.

(* get_item on arrays and strings; maps are modelled in Model/Order.v; every other receiver
   yields Undefined for a string/integer index and an error otherwise (commit of D15) *)
Definition get_item_seq (v item : value) : res value :=
  match v with
  | VArr l =>
      res_bind (resolve_index item (Z.of_nat (length l))) (fun r =>
        match r with
        | Some i => match index_usize l i with Some x => ROk x | None => RErr ErrPanic end
        | None => ROk VUndef
        end)
  | VStr s safe =>
      res_bind (resolve_index item (Z.of_nat (length s))) (fun r =>
        match r with
        | Some i => match index_usize s i with Some c => ROk (VStr [c] safe) | None => RErr ErrPanic end
        | None => ROk VUndef
        end)
  | VMap _ => RErr ErrOther
  | _ =>
      (* nothing to look up in a scalar, but the index must still be a string or an integer *)
      match item with
      | VStr _ _ | VInt _ _ => ROk VUndef
      | _ => RErr ErrMsg
      end
  end.

Definition vm_subscript (optional : bool) (val sub : value) : res value :=
  if optional && (is_undefined val || is_none val) then ROk VUndef
  else if is_undefined val then RErr ErrRender
  else if is_undefined sub then RErr ErrRender
  else match get_item_seq val sub with
       | ROk v => ROk v
       | RErr ErrPanic => RErr ErrPanic
       | RErr ErrOther => RErr ErrOther
       | RErr _ => RErr ErrRender
       end.
