(* Model of numeric arithmetic and numeric comparison:
     value/number.rs   Number, into_float/as_float/is_zero (51-101), math! add/sub/mul (118-148),
                       rem (150-178), div (180-193), floor_div (195-225), pow (227-264),
                       negate (266-292)
     value/mod.rs      as_number (635-644), cmp_f64_to_number / cmp_f64_to_i128 / cmp_f64_to_u128
                       (229-271), numeric arms of PartialEq (283-296) and PartialOrd (317-345)
     vm/interpreter.rs ordering_binop! (89-102), math_binop! (104-144), Plus (703-722),
                       Mul/Div/FloorDiv/Mod/Minus/Power (699-702, 723-724), comparisons (725-730),
                       Negative (757-767)
   Executable definitions only.  Integers are Z with explicit i128 range tests where the Rust code
   uses checked_* operations; f64 is SpecFloat.spec_float at binary64 (prec 53, emax 1024).
   `rem` is the code AFTER fixes/D3-rem-min-neg1.patch (wrapping_rem_euclid after the zero test);
   `rem_before_D3` keeps the unrepaired behaviour for the `_refuted` witness. *)
From TeraV Require Import Model.Value.

(* ---------------------------------------------------------------- f64 primitives *)

Definition f_add := SFadd 53 1024.
Definition f_sub := SFsub 53 1024.
Definition f_mul := SFmul 53 1024.
Definition f_div := SFdiv 53 1024.
Definition f_neg := SFopp.
Definition f_lt (a b : spec_float) : bool := SFltb a b.          (* a < b  *)
Definition f_ge (a b : spec_float) : bool := SFleb b a.          (* a >= b *)
Definition f_gt (a b : spec_float) : bool := SFltb b a.          (* a > b  *)
Definition f_eq (a b : spec_float) : bool := SFeqb a b.          (* a == b *)
Definition f_is_nan (a : spec_float) : bool := match a with S754_nan => true | _ => false end.

Definition f64_one : spec_float := S754_finite false 4503599627370496 (-52).

(* `n as f64` for an integer n: round to nearest, ties to even *)
Definition f64_of_Z (z : Z) : spec_float := binary_normalize 53 1024 z 0 false.

(* exact float for the integer ±p when p < 2^53 (the result of `floor` below 2^53) *)
Definition norm_int (s : bool) (p : positive) : spec_float :=
  let d := Zpos (digits2_pos p) in
  match Zpos p * 2 ^ (53 - d) with
  | Zpos m => S754_finite s m (d - 53)
  | _ => S754_nan
  end.

(* f64::floor *)
Definition f_floor (x : spec_float) : spec_float :=
  match x with
  | S754_finite s m e =>
      if 0 <=? e then x
      else
        let q := Z.shiftr (Zpos m) (- e) in
        let exact := Z.shiftl q (- e) =? Zpos m in
        let k := if s then (if exact then q else q + 1) else q in
        match k with
        | Z0 => S754_zero s
        | Zpos p => norm_int s p
        | Zneg _ => S754_nan
        end
  | _ => x
  end.

(* f64::trunc *)
Definition f_trunc (x : spec_float) : spec_float :=
  match x with
  | S754_finite s m e =>
      if 0 <=? e then x
      else match Z.shiftr (Zpos m) (- e) with
           | Zpos p => norm_int s p
           | _ => S754_zero s
           end
  | _ => x
  end.

Definition f_abs := SFabs.

(* `x % y` on f64 (C fmod): x - trunc(x/y)*y computed exactly; the sign of the result (also of a
   zero result) is the sign of x *)
Definition f_fmod (x y : spec_float) : spec_float :=
  match x, y with
  | S754_nan, _ | _, S754_nan => S754_nan
  | S754_infinity _, _ => S754_nan
  | _, S754_zero _ => S754_nan
  | _, S754_infinity _ => x
  | S754_zero _, _ => x
  | S754_finite sx mx ex, S754_finite _ my ey =>
      let k := Z.min ex ey in
      let r := (Zpos mx * 2 ^ (ex - k)) mod (Zpos my * 2 ^ (ey - k)) in
      match r with
      | Z0 => S754_zero sx
      | _ => binary_normalize 53 1024 (if sx then - r else r) k false
      end
  end.

(* f64::rem_euclid and f64::div_euclid as std writes them *)
Definition f_rem_euclid (x y : spec_float) : spec_float :=
  let r := f_fmod x y in
  if f_lt r (S754_zero false) then f_add r (f_abs y) else r.
Definition f_div_euclid (x y : spec_float) : spec_float :=
  let q := f_trunc (f_div x y) in
  if f_lt (f_fmod x y) (S754_zero false)
  then (if f_gt y (S754_zero false) then f_sub q f64_one else f_add q f64_one)
  else q.

(* f64::trunc as an integer (None for NaN / infinities) *)
Definition f_trunc_Z (x : spec_float) : option Z :=
  match x with
  | S754_zero _ => Some 0
  | S754_finite s m e =>
      let a := if 0 <=? e then Zpos m * 2 ^ e else Z.shiftr (Zpos m) (- e) in
      Some (if s then - a else a)
  | _ => None
  end.

(* `x as i128` / `x as u128`: saturating, NaN -> 0 *)
Definition f_as_int (lo hi : Z) (x : spec_float) : Z :=
  match x with
  | S754_nan => 0
  | S754_infinity s => if s then lo else hi
  | _ => match f_trunc_Z x with
         | Some t => Z.max lo (Z.min hi t)
         | None => 0
         end
  end.
Definition f_as_i128 := f_as_int i128_min i128_max.
Definition f_as_u128 := f_as_int 0 u128_max.

Definition f64_i128_min : spec_float := f64_of_Z i128_min.   (* -2^127 exactly *)
Definition f64_i128_max : spec_float := f64_of_Z i128_max.   (* rounds UP to 2^127 *)
Definition f64_u128_max : spec_float := f64_of_Z u128_max.   (* rounds UP to 2^128 *)
Definition f64_zero : spec_float := S754_zero false.

(* ---------------------------------------------------------------- Number *)

Inductive number := NInt (z : Z) | NFloat (f : spec_float).

(* Value::as_number: integers only when they fit i128 *)
Definition as_number (v : value) : option number :=
  match v with
  | VInt _ _ => match as_i128 v with Some z => Some (NInt z) | None => None end
  | VFloat f => Some (NFloat f)
  | _ => None
  end.

Definition num_is_float (n : number) : bool := match n with NFloat _ => true | NInt _ => false end.
Definition into_float (n : number) : spec_float :=
  match n with NFloat f => f | NInt z => f64_of_Z z end.
(* Number::is_zero: `f.is_finite() && f == 0.0` *)
Definition num_is_zero (n : number) : bool :=
  match n with NFloat f => sf_is_zero f | NInt z => z =? 0 end.

Definition value_of_int (z : Z) : value := VInt I128 z.     (* Value::from(i128) *)

(* i128::checked_* : the exact result when it is representable *)
Definition checked (z : Z) : option Z := if in_i128 z then Some z else None.
Definition checked_add (a b : Z) := checked (a + b).
Definition checked_sub (a b : Z) := checked (a - b).
Definition checked_mul (a b : Z) := checked (a * b).
Definition checked_neg (a : Z) := checked (- a).
(* i128::checked_pow(a, e : u32) by its contract: the exact power when representable.  Written so
   that it evaluates without building a^e for huge e: |a| <= 1 is immediate, and for |a| >= 2 an
   exponent above 127 cannot fit (lemma checked_pow_spec: this equals `checked (a ^ e)`).
   Used by the proofs only; the model runs `checked_pow_loop` below. *)
Definition checked_pow (a e : Z) : option Z :=
  if Z.abs a <=? 1 then
    Some (if e =? 0 then 1 else if a =? -1 then (if Z.even e then 1 else -1) else a)
  else if 127 <? e then None
  else checked (a ^ e).

(* i128::checked_pow as std writes it (core/src/num/int_macros.rs): square-and-multiply with
   checked_mul, leaving as soon as a product overflows.
     if exp == 0 { return Some(1) }  let mut base = self; let mut acc = 1;
     loop { if exp & 1 == 1 { acc = acc.checked_mul(base)?; if exp == 1 { return Some(acc) } }
            exp /= 2; base = base.checked_mul(base)?; }
   fuel = 32 iterations are enough for a u32 exponent; outer None = out of fuel (never, lemma
   checked_pow_loop_spec), inner None = overflow. *)
Fixpoint pow_loop (fuel : nat) (base acc exp : Z) : option (option Z) :=
  match fuel with
  | O => None
  | S f =>
      if Z.odd exp then
        match checked_mul acc base with
        | None => Some None
        | Some acc' =>
            if exp =? 1 then Some (Some acc')
            else match checked_mul base base with
                 | None => Some None
                 | Some base' => pow_loop f base' acc' (exp / 2)
                 end
        end
      else
        match checked_mul base base with
        | None => Some None
        | Some base' => pow_loop f base' acc (exp / 2)
        end
  end.
Definition checked_pow_loop (a e : Z) : option (option Z) :=
  if e =? 0 then Some (Some 1) else pow_loop 32 a 1 e.

(* i128::div_euclid / rem_euclid as std writes them, `/` and `%` truncating (Z.quot / Z.rem) *)
Definition div_euclid (a b : Z) : Z :=
  let q := Z.quot a b in
  if Z.rem a b <? 0 then (if 0 <? b then q - 1 else q + 1) else q.
Definition rem_euclid (a b : Z) : Z :=
  let r := Z.rem a b in
  (* r.wrapping_add(rhs.wrapping_abs()): the wrapped sum equals r + |b| because the true sum
     lies in [0, 2^127) *)
  if r <? 0 then r + Z.abs b else r.
Definition checked_div_euclid (a b : Z) : option Z :=
  if (b =? 0) || ((a =? i128_min) && (b =? -1)) then None else Some (div_euclid a b).
Definition checked_rem_euclid (a b : Z) : option Z :=
  if (b =? 0) || ((a =? i128_min) && (b =? -1)) then None else Some (rem_euclid a b).
(* overflowing_rem_euclid(rhs).0 *)
Definition wrapping_rem_euclid (a b : Z) : Z := if b =? -1 then 0 else rem_euclid a b.

(* float results the model does not compute (f64::powf):
   None = "not modelled"; the harness sends those cases to the no-panic oracle only *)
Definition mres := option (res value).
Definition m_ok (v : value) : mres := Some (ROk v).
Definition m_err : mres := Some (RErr ErrMsg).
Definition m_unmodelled : mres := None.

(* arg_error for whichever operand is not usable *)
Definition with_numbers (a b : value) (k : number -> number -> mres) : mres :=
  match as_number a, as_number b with
  | Some l, Some r => k l r
  | _, _ => m_err
  end.

(* math!(name, checked_op, float_op) *)
Definition math (iop : Z -> Z -> option Z) (fop : spec_float -> spec_float -> spec_float)
           (a b : value) : mres :=
  with_numbers a b (fun l r =>
    if num_is_float l || num_is_float r
    then m_ok (VFloat (fop (into_float l) (into_float r)))
    else match l, r with
         | NInt x, NInt y =>
             match iop x y with Some z => m_ok (value_of_int z) | None => m_err end
         | _, _ => Some (RErr ErrPanic)       (* unreachable!() *)
         end).

Definition num_add := math checked_add f_add.
Definition num_sub := math checked_sub f_sub.
Definition num_mul := math checked_mul f_mul.

Definition num_div (a b : value) : mres :=
  with_numbers a b (fun l r =>
    if num_is_zero r then m_err
    else m_ok (VFloat (f_div (into_float l) (into_float r)))).

Definition num_floor_div (a b : value) : mres :=
  with_numbers a b (fun l r =>
    if num_is_zero r then m_err
    else if num_is_float l || num_is_float r
    then m_ok (VFloat (f_div_euclid (into_float l) (into_float r)))
    else match l, r with
         | NInt x, NInt y =>
             match checked_div_euclid x y with Some z => m_ok (value_of_int z) | None => m_err end
         | _, _ => Some (RErr ErrPanic)
         end).

Definition num_rem_with (irem : Z -> Z -> option Z) (a b : value) : mres :=
  with_numbers a b (fun l r =>
    if num_is_zero r then m_err
    else if num_is_float l || num_is_float r
    then m_ok (VFloat (f_rem_euclid (into_float l) (into_float r)))
    else match l, r with
         | NInt x, NInt y =>
             match irem x y with Some z => m_ok (value_of_int z) | None => m_err end
         | _, _ => Some (RErr ErrPanic)
         end).
(* after D3: `Value::from(a.wrapping_rem_euclid(b))` (b is non-zero here) *)
Definition num_rem := num_rem_with (fun x y => Some (wrapping_rem_euclid x y)).
(* before D3: `a.checked_rem_euclid(b)`, None -> "Unable to perform" *)
Definition num_rem_before_D3 := num_rem_with checked_rem_euclid.

Definition u32_max : Z := 4294967295.

Definition num_pow (a b : value) : mres :=
  with_numbers a b (fun l r =>
    let negative_int_exp := match r with NInt y => y <? 0 | _ => false end in
    if num_is_float l || num_is_float r || negative_int_exp then m_unmodelled   (* powf *)
    else match l, r with
         | NInt x, NInt y =>
             if (0 <=? y) && (y <=? u32_max)                      (* u32::try_from(b) *)
             then match checked_pow_loop x y with
                  | Some (Some z) => m_ok (value_of_int z)
                  | Some None => m_err
                  | None => Some (RErr ErrPanic)        (* out of fuel: unreachable *)
                  end
             else m_err
         | _, _ => Some (RErr ErrPanic)
         end).

Definition num_negate (v : value) : mres :=
  match as_number v with
  | Some (NFloat f) => m_ok (VFloat (f_neg f))
  | Some (NInt z) => match checked_neg z with Some n => m_ok (value_of_int n) | None => m_err end
  | None => m_err
  end.

(* ---------------------------------------------------------------- comparison *)

Definition cmp_f64_to_i128 (x : spec_float) (n : Z) : comparison :=
  if f_is_nan x then Gt
  else if f_lt x f64_i128_min then Lt
  else if f_ge x f64_i128_max then Gt
  else
    let fl := f_floor x in
    match Z.compare (f_as_i128 fl) n with
    | Eq => if f_gt x fl then Gt else Eq
    | o => o
    end.

Definition cmp_f64_to_u128 (x : spec_float) (n : Z) : comparison :=
  if f_is_nan x then Gt
  else if f_lt x f64_zero then Lt
  else if f_ge x f64_u128_max then Gt
  else
    let fl := f_floor x in
    match Z.compare (f_as_u128 fl) n with
    | Eq => if f_gt x fl then Gt else Eq
    | o => o
    end.

Definition cmp_f64_to_number (x : spec_float) (other : value) : option comparison :=
  match as_i128 other with
  | Some n => Some (cmp_f64_to_i128 x n)
  | None => match as_u128 other with
            | Some n => Some (cmp_f64_to_u128 x n)
            | None => None
            end
  end.

Definition is_eq (o : option comparison) : bool :=
  match o with Some Eq => true | _ => false end.

Definition opt_Z_eqb (a b : option Z) : bool :=
  match a, b with
  | Some x, Some y => x =? y
  | None, None => true
  | _, _ => false
  end.

(* PartialEq for Value, numeric arms (every other pair of kinds is outside C13: false here) *)
Definition num_eq (a b : value) : bool :=
  match a, b with
  | VFloat x, VFloat y => (f_is_nan x && f_is_nan y) || f_eq x y
  | VFloat x, _ => is_eq (cmp_f64_to_number x b)
  | _, VFloat y => is_eq (cmp_f64_to_number y a)
  | VInt _ _, VInt _ _ =>
      match as_u128 a, as_u128 b with
      | Some x, Some y => x =? y
      | None, None => opt_Z_eqb (as_i128 a) (as_i128 b)
      | _, _ => false
      end
  | _, _ => false
  end.

(* PartialOrd for Value, numeric arms *)
Definition num_partial_cmp (a b : value) : option comparison :=
  match a, b with
  | VFloat x, VFloat y =>
      Some (match SFcompare x y with
            | Some o => o
            | None => match f_is_nan x, f_is_nan y with
                      | false, true => Lt
                      | true, false => Gt
                      | _, _ => Eq
                      end
            end)
  | VFloat x, _ => cmp_f64_to_number x b
  | _, VFloat y => option_map CompOpp (cmp_f64_to_number y a)
  | VInt _ _, VInt _ _ =>
      match as_u128 a, as_u128 b with
      | Some x, Some y => Some (x ?= y)
      | Some _, None => Some Gt
      | None, Some _ => Some Lt
      | None, None =>
          match as_i128 a, as_i128 b with
          | Some x, Some y => Some (x ?= y)
          | _, _ => None
          end
      end
  | _, _ => None
  end.

(* ---------------------------------------------------------------- the VM instructions *)

Inductive binop := OpAdd | OpSub | OpMul | OpDiv | OpFloorDiv | OpRem | OpPow.
Inductive cmpop := OpEq | OpNe | OpLt | OpLe | OpGt | OpGe.

Definition num_binop (op : binop) : value -> value -> mres :=
  match op with
  | OpAdd => num_add | OpSub => num_sub | OpMul => num_mul | OpDiv => num_div
  | OpFloorDiv => num_floor_div | OpRem => num_rem | OpPow => num_pow
  end.

(* every error of number.rs is re-raised as a rendering error *)
Definition to_render (r : mres) : mres :=
  match r with
  | Some (ROk v) => Some (ROk v)
  | Some (RErr ErrPanic) => Some (RErr ErrPanic)
  | Some (RErr _) => Some (RErr ErrRender)
  | None => None
  end.

(* math_binop! and the Plus arm: both operands must be numbers, then number.rs *)
Definition vm_binop (op : binop) (a b : value) : mres :=
  if negb (is_number a) || negb (is_number b) then Some (RErr ErrRender)
  else to_render (num_binop op a b).

Definition vm_negative (a : value) : mres := to_render (num_negate a).

Definition ord_test (op : cmpop) (o : comparison) : bool :=
  match op, o with
  | OpLt, Lt => true
  | OpLe, (Lt | Eq) => true
  | OpGt, Gt => true
  | OpGe, (Gt | Eq) => true
  | _, _ => false
  end.

(* op_binop!(==), op_binop!(!=), ordering_binop! — on numeric operands *)
Definition vm_cmp (op : cmpop) (a b : value) : res value :=
  match op with
  | OpEq => ROk (VBool (num_eq a b))
  | OpNe => ROk (VBool (negb (num_eq a b)))
  | _ => match num_partial_cmp a b with
         | Some o => ROk (VBool (ord_test op o))
         | None => RErr ErrRender
         end
  end.
