(* Concrete model of the virtual machine: tera/src/vm/interpreter.rs (interpret, render_include,
   render_component, render_to), vm/state.rs (State: get_value scope chain, store_local/global,
   dump_context), vm/for_loop.rs (ForLoop and its iterators, loop.* counters).
   Executable definitions only. Spans and error messages are not modelled (C12); errors are
   classes: ErrRender (rendering_error!), ErrMsg (Error::message / `?` on as_key), ErrIo (writer),
   ErrPanic (what would be a Rust panic: empty-stack pop, missing lineage entry, ...).

   Everything the VM delegates elsewhere is a field of `world`: the filters/tests/functions
   (C17), arithmetic (C13), comparison/equality/containment and map lookup (C15), component
   argument binding (C05), the escape function, Value::format. *)
From TeraV Require Import Model.Value Model.Instr Model.Slice Gen.Tables.
Local Open Scope nat_scope.

Definition kwargs := list (key * value).
Definition ctx := list (str * value).             (* Context: BTreeMap<name, Value> *)

Fixpoint ctx_get (c : ctx) (n : str) : option value :=
  match c with
  | [] => None
  | (k, v) :: t => if str_eqb k n then Some v else ctx_get t n
  end.

Definition ctx_set (c : ctx) (n : str) (v : value) : ctx :=
  (n, v) :: filter (fun kv => negb (str_eqb (fst kv) n)) c.

(* ---------- loops (vm/for_loop.rs) ---------- *)

Record loop_frame := {
  lf_rest : list (option value * value);   (* what the iterator will still yield *)
  lf_index0 : nat; lf_first : bool; lf_last : bool; lf_length : nat;
  lf_end_ip : nat;
  lf_context : ctx;                         (* per-iteration assignments *)
  lf_value_name : str; lf_key_name : option str;
  lf_current : option value * value;
  lf_iterated : bool;
  lf_is_comp : bool }.

Definition key_to_value (k : key) : value :=
  match k with
  | KBool b => VBool b
  | KInt r z => VInt r z
  | KStr s _ => VStr s false
  end.

(* create_for_loop_iterator; maps iterate in the order of the association list (the real order
   is the HashMap's: arbitrary — theorems quantify over it, the harness avoids depending on it) *)
Definition iter_items (v : value) : option (list (option value * value)) :=
  match v with
  | VArr l => Some (map (fun x => (None, x)) l)
  | VMap m => Some (map (fun kv => (Some (key_to_value (fst kv)), snd kv)) m)
  | VStr s _ => Some (map (fun c => (None, VStr [c] false)) s)
  | VBytes b => Some (map (fun x => (None, VInt U64 (Z.of_N x))) b)
  | _ => None
  end.

Definition new_loop (items : list (option value * value)) (is_comp : bool) : loop_frame :=
  let len := length items in
  {| lf_rest := items; lf_index0 := 0; lf_first := true; lf_last := Nat.eqb len 1; lf_length := len;
     lf_end_ip := 0; lf_context := []; lf_value_name := []; lf_key_name := None;
     lf_current := (None, VUndef); lf_iterated := false; lf_is_comp := is_comp |}.

(* ForLoop::store_local *)
Definition lf_store_local (f : loop_frame) (n : str) : loop_frame :=
  match lf_key_name f, lf_value_name f with
  | None, _ :: _ =>
      {| lf_rest := lf_rest f; lf_index0 := lf_index0 f; lf_first := lf_first f; lf_last := lf_last f;
         lf_length := lf_length f; lf_end_ip := lf_end_ip f; lf_context := lf_context f;
         lf_value_name := lf_value_name f; lf_key_name := Some n; lf_current := lf_current f;
         lf_iterated := lf_iterated f; lf_is_comp := lf_is_comp f |}
  | _, _ =>
      {| lf_rest := lf_rest f; lf_index0 := lf_index0 f; lf_first := lf_first f; lf_last := lf_last f;
         lf_length := lf_length f; lf_end_ip := lf_end_ip f; lf_context := lf_context f;
         lf_value_name := n; lf_key_name := lf_key_name f; lf_current := lf_current f;
         lf_iterated := lf_iterated f; lf_is_comp := lf_is_comp f |}
  end.

(* ForLoop::advance followed by `for_loop.end_ip = end_ip` (Instruction::Iterate) *)
Definition lf_advance (f : loop_frame) (end_ip : nat) : loop_frame :=
  match lf_rest f with
  | [] => (* iterator exhausted: advance does nothing; end_ip still stored *)
      {| lf_rest := []; lf_index0 := lf_index0 f; lf_first := lf_first f; lf_last := lf_last f;
         lf_length := lf_length f; lf_end_ip := end_ip; lf_context := lf_context f;
         lf_value_name := lf_value_name f; lf_key_name := lf_key_name f; lf_current := lf_current f;
         lf_iterated := lf_iterated f; lf_is_comp := lf_is_comp f |}
  | kv :: rest =>
      let bump := negb (Nat.eqb (lf_end_ip f) 0) in
      let i0 := if bump then S (lf_index0 f) else lf_index0 f in
      {| lf_rest := rest; lf_index0 := i0;
         lf_first := if bump then false else lf_first f;
         lf_last := if bump then Nat.eqb (S i0) (lf_length f) else lf_last f;
         lf_length := lf_length f; lf_end_ip := end_ip;
         lf_context := if bump then [] else lf_context f;
         lf_value_name := lf_value_name f; lf_key_name := lf_key_name f; lf_current := kv;
         lf_iterated := true; lf_is_comp := lf_is_comp f |}
  end.

Definition lf_store (f : loop_frame) (n : str) (v : value) : loop_frame :=
  {| lf_rest := lf_rest f; lf_index0 := lf_index0 f; lf_first := lf_first f; lf_last := lf_last f;
     lf_length := lf_length f; lf_end_ip := lf_end_ip f; lf_context := ctx_set (lf_context f) n v;
     lf_value_name := lf_value_name f; lf_key_name := lf_key_name f; lf_current := lf_current f;
     lf_iterated := lf_iterated f; lf_is_comp := lf_is_comp f |}.

Definition s_loop_index : str := [95;95;116;101;114;97;95;108;111;111;112;95;105;110;100;101;120]%N.
Definition s_loop_index0 : str := s_loop_index ++ [48]%N.
Definition s_loop_first : str := [95;95;116;101;114;97;95;108;111;111;112;95;102;105;114;115;116]%N.
Definition s_loop_last : str := [95;95;116;101;114;97;95;108;111;111;112;95;108;97;115;116]%N.
Definition s_loop_length : str := [95;95;116;101;114;97;95;108;111;111;112;95;108;101;110;103;116;104]%N.

(* ForLoop::get *)
Definition lf_get (f : loop_frame) (n : str) : option value :=
  let special :=
    if lf_is_comp f then None
    else if str_eqb n s_loop_index then Some (VInt U64 (Z.of_nat (S (lf_index0 f))))
    else if str_eqb n s_loop_index0 then Some (VInt U64 (Z.of_nat (lf_index0 f)))
    else if str_eqb n s_loop_first then Some (VBool (lf_first f))
    else if str_eqb n s_loop_last then Some (VBool (lf_last f))
    else if str_eqb n s_loop_length then Some (VInt U64 (Z.of_nat (lf_length f)))
    else None in
  match special with
  | Some v => Some v
  | None =>
      match ctx_get (lf_context f) n with
      | Some v => Some v
      | None =>
          if str_eqb (lf_value_name f) n then Some (snd (lf_current f))
          else match lf_key_name f with
               | Some k => if str_eqb k n
                           then Some (match fst (lf_current f) with Some kv => kv | None => VNone end)
                           else None
               | None => None
               end
      end
  end.

(* ---------- scopes (vm/state.rs) ---------- *)

(* what get_value can see: loops, set_variables, the includer's scope, context, global context *)
Inductive scope :=
| Scope (loops : list loop_frame) (setvars : ctx) (parent : option scope) (context : ctx)
        (global : option ctx).

Fixpoint loops_get (ls : list loop_frame) (n : str) : option value :=
  match ls with   (* innermost first *)
  | [] => None
  | f :: t => match lf_get f n with Some v => Some v | None => loops_get t n end
  end.

Fixpoint scope_get (sc : scope) (n : str) : value :=
  match sc with
  | Scope loops setvars parent context global =>
      match loops_get loops n with
      | Some v => v
      | None =>
          match ctx_get setvars n with
          | Some v => v
          | None =>
              let from_parent := match parent with Some p => scope_get p n | None => VUndef end in
              if negb (is_undefined from_parent) then from_parent
              else match ctx_get context n with
                   | Some v => v
                   | None => match global with
                             | Some g => match ctx_get g n with Some v => v | None => VUndef end
                             | None => VUndef
                             end
                   end
          end
      end
  end.

Record state := {
  stack : list value;
  loops : list loop_frame;         (* innermost first *)
  setvars : ctx;
  caps : list str;                 (* capture buffers, innermost first *)
  blocks : list (str * list (list instr) * nat);   (* (block name, lineage, level), top first *)
  cur_block : option str;
  parent : option scope;           (* include_parent *)
  context : ctx;
  global : option ctx;
  capture_block : option str;
  block_buffer : str }.

Definition scope_of (s : state) : scope :=
  Scope (loops s) (setvars s) (parent s) (context s) (global s).

Definition get_value (s : state) (n : str) : value := scope_get (scope_of s) n.

Definition upd_stack (s : state) (st : list value) : state :=
  {| stack := st; loops := loops s; setvars := setvars s; caps := caps s; blocks := blocks s;
     cur_block := cur_block s; parent := parent s; context := context s; global := global s;
     capture_block := capture_block s; block_buffer := block_buffer s |}.
Definition upd_loops (s : state) (l : list loop_frame) : state :=
  {| stack := stack s; loops := l; setvars := setvars s; caps := caps s; blocks := blocks s;
     cur_block := cur_block s; parent := parent s; context := context s; global := global s;
     capture_block := capture_block s; block_buffer := block_buffer s |}.
Definition upd_setvars (s : state) (c : ctx) : state :=
  {| stack := stack s; loops := loops s; setvars := c; caps := caps s; blocks := blocks s;
     cur_block := cur_block s; parent := parent s; context := context s; global := global s;
     capture_block := capture_block s; block_buffer := block_buffer s |}.
Definition upd_caps (s : state) (c : list str) : state :=
  {| stack := stack s; loops := loops s; setvars := setvars s; caps := c; blocks := blocks s;
     cur_block := cur_block s; parent := parent s; context := context s; global := global s;
     capture_block := capture_block s; block_buffer := block_buffer s |}.
Definition upd_blocks (s : state) (b : list (str * list (list instr) * nat)) (cb : option str) : state :=
  {| stack := stack s; loops := loops s; setvars := setvars s; caps := caps s; blocks := b;
     cur_block := cb; parent := parent s; context := context s; global := global s;
     capture_block := capture_block s; block_buffer := block_buffer s |}.
Definition upd_block_buffer (s : state) (b : str) : state :=
  {| stack := stack s; loops := loops s; setvars := setvars s; caps := caps s; blocks := blocks s;
     cur_block := cur_block s; parent := parent s; context := context s; global := global s;
     capture_block := capture_block s; block_buffer := b |}.

Definition new_state (c : ctx) : state :=
  {| stack := []; loops := []; setvars := []; caps := []; blocks := []; cur_block := None;
     parent := None; context := c; global := None; capture_block := None; block_buffer := [] |}.

Definition push (s : state) (v : value) : state := upd_stack s (v :: stack s).

(* State::store_global / store_local *)
Definition store_global (s : state) (n : str) (v : value) : state := upd_setvars s (ctx_set (setvars s) n v).
Definition store_local (s : state) (n : str) (v : value) : state :=
  match loops s with
  | f :: t => upd_loops s (lf_store f n v :: t)
  | [] => store_global s n v
  end.

(* State::dump_context: later sources override earlier ones; returned as a map value whose
   entry order is unspecified (sorted by the harness before comparison) *)
Definition dump_context (s : state) : value :=
  let add (acc : ctx) (c : ctx) := fold_left (fun a kv => ctx_set a (fst kv) (snd kv)) (rev c) acc in
  let c0 := match global s with Some g => add [] g | None => [] end in
  let c1 := add c0 (context s) in
  let c2 := add c1 (setvars s) in
  let c3 := fold_left (fun a f => add a (lf_context f)) (rev (loops s)) c2 in
  VMap (map (fun kv => (KStr (fst kv) true, snd kv)) c3).

Definition load_name_v (s : state) (n : str) : value :=
  if str_eqb n magical_dump_var then dump_context s else get_value s n.

(* ---------- the world ---------- *)

Record comp_def := {
  cd_params : list (str * option str * option value);   (* name, declared type name, default *)
  cd_rest : option str }.

Record template := {
  t_name : str;
  t_chunk : list instr;                           (* own main chunk *)
  t_root_chunk : list instr;                      (* chunk of parents.first(), or own *)
  t_lineage : list (str * list (list instr));     (* block_lineage *)
  t_autoescape : bool }.

Record world := {
  w_templates : list (str * template);
  w_components : list (str * (comp_def * list instr));
  w_build_ctx : comp_def -> kwargs -> option value -> res ctx;      (* ComponentDefinition::build_context *)
  w_filter : str -> value -> kwargs -> scope -> option (res value * bool); (* result, is_safe; None = not registered *)
  w_test : str -> value -> kwargs -> option (res bool);
  w_function : str -> kwargs -> scope -> option (res value * bool);
  w_escape : str -> str;                              (* tera.escape_fn *)
  w_format : value -> str;                            (* Value::format *)
  w_math : instr -> value -> value -> res value;      (* value::number::{mul,div,...} *)
  w_negate : value -> res value;
  w_cmp : value -> value -> option comparison;        (* PartialOrd::partial_cmp *)
  w_eq : value -> value -> bool;                      (* PartialEq *)
  w_contains : value -> value -> res bool;            (* Value::contains *)
  w_as_key : value -> option key;                     (* Value::as_key *)
  w_map_get : list (key * value) -> key -> option value;   (* Map::get *)
  w_get_attr : value -> str -> option value;          (* Value::get_attr *)
  w_max_depth : nat }.

Fixpoint assoc_get {A} (l : list (str * A)) (n : str) : option A :=
  match l with [] => None | (k, v) :: t => if str_eqb k n then Some v else assoc_get t n end.

Definition mark_safe (v : value) : value :=
  match v with VStr s _ => VStr s true | v => v end.

(* Value::is_safe: what is written without passing through the escaper *)
Definition value_is_safe (v : value) : bool :=
  match v with
  | VStr _ safe => safe
  | VArr _ | VMap _ | VBytes _ => false
  | _ => true
  end.

(* ---------- results ---------- *)

(* where `output.write_all` goes: the caller's writer, or a fresh Vec<u8> of a nested interpret *)
Inductive sink (W : Type) :=
| SinkTop (w : W)
| SinkBuf (b : str).
Arguments SinkTop {W} w.
Arguments SinkBuf {W} b.

Inductive rres (W : Type) :=
| RDone (s : state) (o : sink W)
| RFail (e : errc)
| ROutOfFuel.
Arguments RDone {W} s o.
Arguments RFail {W} e.
Arguments ROutOfFuel {W}.

Section Run.
  Variable W : Type.                      (* the top-level sink *)
  Variable wr : W -> str -> option W.     (* write_all; None = io error *)
  Variable wd : world.

  (* write `text` to the innermost capture buffer if any, else to the sink *)
  Definition sink_write (o : sink W) (text : str) : option (sink W) :=
    match o with
    | SinkTop w => match wr w text with Some w' => Some (SinkTop w') | None => None end
    | SinkBuf b => Some (SinkBuf (b ++ text))
    end.

  Definition emit (s : state) (o : sink W) (text : str) : option (state * sink W) :=
    match caps s with
    | c :: t => Some (upd_caps s ((c ++ text) :: t), o)
    | [] => match sink_write o text with Some o' => Some (s, o') | None => None end
    end.

  (* the shared tail of WriteTop and WritePath *)
  Definition write_value (autoescape : bool) (s : state) (o : sink W) (v : value) : option (state * sink W) :=
    if negb autoescape || value_is_safe v then emit s o (w_format wd v)
    else emit s o (w_escape wd (w_format wd v)).

  Definition pop1 (s : state) : option (value * state) :=
    match stack s with v :: t => Some (v, upd_stack s t) | [] => None end.
  Definition pop2 (s : state) : option (value * value * state) :=   (* (a, b): b was on top *)
    match stack s with b :: a :: t => Some (a, b, upd_stack s t) | _ => None end.

  Fixpoint pop_n (n : nat) (st : list value) (acc : list value) : option (list value * list value) :=
    match n with
    | O => Some (acc, st)
    | S n' => match st with v :: t => pop_n n' t (v :: acc) | [] => None end
    end.

  (* BuildMap: n (key, value) pairs, keys via as_key (`?` => ErrMsg); later keys overwrite *)
  Fixpoint build_map_pairs (l : list value) : res (list (key * value)) :=
    match l with
    | k :: v :: t =>
        match w_as_key wd k with
        | Some key => res_bind (build_map_pairs t) (fun r => ROk ((key, v) :: r))
        | None => RErr ErrMsg
        end
    | [] => ROk []
    | _ => RErr ErrPanic
    end.

  Definition key_eqb_w (a b : key) : bool :=
    match w_map_get wd [(a, VNone)] b with Some _ => true | None => false end.

  (* collect into a map: a later insertion of an equal key replaces the value, keeping one entry *)
  Fixpoint map_insert (m : list (key * value)) (k : key) (v : value) : list (key * value) :=
    match m with
    | [] => [(k, v)]
    | (k', v') :: t => if key_eqb_w k' k then (k', v) :: t else (k', v') :: map_insert t k v
    end.
  Definition map_of_pairs (l : list (key * value)) : list (key * value) :=
    fold_left (fun m kv => map_insert m (fst kv) (snd kv)) l [].
  (* entry(k).or_insert(v): keep the existing binding *)
  Definition map_or_insert (m : list (key * value)) (k : key) (v : value) : list (key * value) :=
    match w_map_get wd m k with Some _ => m | None => m ++ [(k, v)] end.

  (* BuildMapWithSpreads: entry types processed right to left, or_insert *)
  Fixpoint build_map_spreads (flags : list bool) (st : list value) (acc : list (key * value))
    : res (list (key * value) * list value) :=
    match flags with   (* flags already reversed: rightmost entry first *)
    | [] => ROk (acc, st)
    | true :: fl =>
        match st with
        | VMap m :: t => build_map_spreads fl t (fold_left (fun a kv => map_or_insert a (fst kv) (snd kv)) m acc)
        | _ :: _ => RErr ErrRender
        | [] => RErr ErrPanic
        end
    | false :: fl =>
        match st with
        | v :: k :: t =>
            match w_as_key wd k with
            | Some key => build_map_spreads fl t (map_or_insert acc key v)
            | None => RErr ErrMsg
            end
        | _ => RErr ErrPanic
        end
    end.

  (* BuildListWithSpreads *)
  Fixpoint build_list_spreads (flags : list bool) (st : list value) (acc : list value)
    : res (list value * list value) :=
    match flags with   (* reversed flags; acc accumulates the final list front-to-back *)
    | [] => ROk (acc, st)
    | true :: fl =>
        match st with
        | VArr l :: t => build_list_spreads fl t (l ++ acc)
        | _ :: _ => RErr ErrRender
        | [] => RErr ErrPanic
        end
    | false :: fl =>
        match st with
        | v :: t => build_list_spreads fl t (v :: acc)
        | [] => RErr ErrPanic
        end
    end.

  Definition kwargs_of (v : value) : option kwargs :=
    match v with VMap m => Some m | _ => None end.

  (* get_item with maps handled through the world *)
  Definition get_item (v item : value) : res value :=
    match v with
    | VMap m =>
        match w_as_key wd item with
        | Some k => ROk (match w_map_get wd m k with Some x => x | None => VUndef end)
        | None => RErr ErrMsg
        end
    | _ => get_item_seq v item
    end.

  Definition subscript (optional : bool) (val sub : value) : res value :=
    if optional && (is_undefined val || is_none val) then ROk VUndef
    else if is_undefined val then RErr ErrRender
    else if is_undefined sub then RErr ErrRender
    else match get_item val sub with
         | ROk v => ROk v
         | RErr ErrPanic => RErr ErrPanic
         | RErr _ => RErr ErrRender
         end.

  Definition ord_result (i : instr) (c : comparison) : bool :=
    match i, c with
    | LessThan, Lt => true
    | GreaterThan, Gt => true
    | LessThanOrEqual, (Lt | Eq) => true
    | GreaterThanOrEqual, (Gt | Eq) => true
    | _, _ => false
    end.

  (* LoadPath / WritePath (interpreter.rs 769-868) *)
  Fixpoint path_walk_v (cur : value) (attrs : list str) : res value :=
    match attrs with
    | [] => ROk cur
    | a :: r =>
        if is_undefined cur then RErr ErrRender
        else match w_get_attr wd cur a with
             | Some next => path_walk_v next r
             | None => match r with [] => ROk VUndef | _ => RErr ErrRender end
             end
    end.

  Definition load_path_v (s : state) (path : list str) : res value :=
    match path with
    | [] => RErr ErrPanic
    | n :: attrs =>
        let val := match attrs with [] => load_name_v s n | _ => get_value s n end in
        match attrs with
        | [] => ROk val
        | _ => if is_undefined val then RErr ErrRender else path_walk_v val attrs
        end
    end.

  Fixpoint write_walk_v (cur : value) (attrs : list str) : res value :=
    match attrs with
    | [] => ROk cur
    | a :: r => match w_get_attr wd cur a with
                | Some next => write_walk_v next r
                | None => RErr ErrRender
                end
    end.

  Definition write_path_v (s : state) (path : list str) : res value :=
    match path with
    | [] => RErr ErrPanic
    | n :: attrs =>
        let root := match attrs with [] => load_name_v s n | _ => get_value s n end in
        if is_undefined root then RErr ErrRender
        else match write_walk_v root attrs with
             | ROk v => if is_undefined v then RErr ErrRender else ROk v
             | RErr e => RErr e
             end
    end.

  Definition fail {X} (e : errc) : rres X := RFail e.

  (* interpret. `tpl` is vm.template (decides autoescape and block lineage), `ae` the
     autoescape override, `depth` component_recursion_depth. *)
  Fixpoint run (fuel : nat) (tpl : template) (ae : option bool) (depth : nat)
               (ch : list instr) (ip : nat) (s : state) (o : sink W) {struct fuel} : rres W :=
    match fuel with
    | O => ROutOfFuel
    | S f =>
      let autoescape := match ae with Some b => b | None => t_autoescape tpl end in
      let next s' o' := run f tpl ae depth ch (S ip) s' o' in
      let goto t s' o' := run f tpl ae depth ch t s' o' in
      match nth_error ch ip with
      | None => RDone s o
      | Some i =>
        match i with
        | LoadConst v => next (push s v) o
        | LoadName n => next (push s (load_name_v s n)) o
        | LoadAttr a | LoadAttrOpt a =>
            match pop1 s with
            | None => fail ErrPanic
            | Some (v, s1) =>
                let optional := match i with LoadAttrOpt _ => true | _ => false end in
                if optional && (is_undefined v || is_none v) then next (push s1 VUndef) o
                else if is_undefined v then fail ErrRender
                else next (push s1 (match w_get_attr wd v a with Some x => x | None => VUndef end)) o
            end
        | BinarySubscript | BinarySubscriptOpt =>
            match pop2 s with
            | None => fail ErrPanic
            | Some (val, sub, s1) =>
                match subscript (match i with BinarySubscriptOpt => true | _ => false end) val sub with
                | ROk v => next (push s1 v) o
                | RErr e => fail e
                end
            end
        | Slice | SliceOpt =>
            match stack s with
            | step :: stop :: start :: val :: t =>
                match vm_slice (match i with SliceOpt => true | _ => false end) val start stop step with
                | ROk v => next (upd_stack s (v :: t)) o
                | RErr e => fail e
                end
            | _ => fail ErrPanic
            end
        | WriteText t =>
            match emit s o t with Some (s1, o1) => next s1 o1 | None => fail ErrIo end
        | WriteTop =>
            match pop1 s with
            | None => fail ErrPanic
            | Some (v, s1) =>
                if is_undefined v then fail ErrRender
                else match write_value autoescape s1 o v with
                     | Some (s2, o2) => next s2 o2
                     | None => fail ErrIo
                     end
            end
        | SetI n =>
            match pop1 s with Some (v, s1) => next (store_local s1 n v) o | None => fail ErrPanic end
        | SetGlobal n =>
            match pop1 s with Some (v, s1) => next (store_global s1 n v) o | None => fail ErrPanic end
        | Include name =>
            match assoc_get (w_templates wd) name with
            | None => fail ErrOther     (* must_get_template: TemplateNotFound *)
            | Some t2 =>
                (* like render_to, an included template that extends others runs from its root
                   ancestor's chunk (commit bb3c5f3) *)
                let inc := {| stack := []; loops := []; setvars := []; caps := []; blocks := [];
                              cur_block := None; parent := Some (scope_of s); context := context s;
                              global := None; capture_block := None; block_buffer := [] |} in
                (* the include writes into the includer's current sink: the innermost capture
                   buffer (taken out of the state for the duration) or the output *)
                match caps s with
                | [] =>
                    match run f t2 ae depth (t_root_chunk t2) 0 inc o with
                    | RDone _ o1 => next s o1
                    | RFail e => fail e
                    | ROutOfFuel => ROutOfFuel
                    end
                | c :: ct =>
                    match run f t2 ae depth (t_root_chunk t2) 0 inc (SinkBuf c) with
                    | RDone _ (SinkBuf c1) => next (upd_caps s (c1 :: ct)) o
                    | RDone _ (SinkTop _) => fail ErrPanic
                    | RFail e => fail e
                    | ROutOfFuel => ROutOfFuel
                    end
                end
            end
        | BuildMap n =>
            match pop_n (2 * n) (stack s) [] with
            | None => fail ErrPanic
            | Some (items, rest) =>
                match build_map_pairs items with
                | ROk pairs => next (upd_stack s (VMap (map_of_pairs pairs) :: rest)) o
                | RErr e => fail e
                end
            end
        | BuildList n =>
            match pop_n n (stack s) [] with
            | None => fail ErrPanic
            | Some (items, rest) => next (upd_stack s (VArr items :: rest)) o
            end
        | BuildMapWithSpreads flags =>
            match build_map_spreads (rev flags) (stack s) [] with
            | ROk (m, rest) => next (upd_stack s (VMap m :: rest)) o
            | RErr e => fail e
            end
        | BuildListWithSpreads flags =>
            match build_list_spreads (rev flags) (stack s) [] with
            | ROk (l, rest) => next (upd_stack s (VArr l :: rest)) o
            | RErr e => fail e
            end
        | CallFunction name =>
            match pop1 s with
            | None => fail ErrPanic
            | Some (kw, s1) =>
                if str_eqb name [115;117;112;101;114]%N then   (* "super" *)
                  match cur_block s1 with
                  | None => fail ErrRender
                  | Some cb =>
                      (* topmost entry for the current block name *)
                      let fix find (bs : list (str * list (list instr) * nat)) (pre : list (str * list (list instr) * nat)) :=
                        match bs with
                        | [] => None
                        | (bn, lin, lvl) :: t =>
                            if str_eqb bn cb then Some (rev pre, (bn, lin, lvl), t)
                            else find t ((bn, lin, lvl) :: pre)
                        end in
                      match find (blocks s1) [] with
                      | None => fail ErrPanic
                      | Some (pre, (bn, lin, lvl), post) =>
                          match nth_error lin (S lvl) with
                          | None => fail ErrRender     (* super() in the top level block *)
                          | Some bchunk =>
                              let s2 := upd_caps (upd_blocks s1 (pre ++ (bn, lin, S lvl) :: post) (cur_block s1)) [] in
                              match run f tpl ae depth bchunk 0 s2 (SinkBuf []) with
                              | ROutOfFuel => ROutOfFuel
                              | RFail e => fail e
                              | RDone _ (SinkTop _) => fail ErrPanic
                              | RDone s3 (SinkBuf text) =>
                                  (* same &mut State: what the block did to it persists; the capture
                                     buffers and the level are restored *)
                                  let s4 := upd_caps (upd_blocks s3 (pre ++ (bn, lin, lvl) :: post) (cur_block s3)) (caps s1) in
                                  next (push s4 (VStr text true)) o
                              end
                          end
                      end
                  end
                else
                  match kwargs_of kw with
                  | None => fail ErrPanic
                  | Some k =>
                      match w_function wd name k (scope_of s1) with
                      | None => fail ErrPanic
                      | Some (ROk v, safe) => next (push s1 (if safe then mark_safe v else v)) o
                      | Some (RErr _, _) => fail ErrRender
                      end
                  end
            end
        | ApplyFilter name =>
            match pop2 s with
            | None => fail ErrPanic
            | Some (v, kw, s1) =>
                match kwargs_of kw with
                | None => fail ErrPanic
                | Some k =>
                    match w_filter wd name v k (scope_of s1) with
                    | None => fail ErrPanic
                    | Some (ROk r, safe) => next (push s1 (if safe then mark_safe r else r)) o
                    | Some (RErr _, _) => fail ErrRender
                    end
                end
            end
        | RunTest name =>
            match pop2 s with
            | None => fail ErrPanic
            | Some (v, kw, s1) =>
                match kwargs_of kw with
                | None => fail ErrPanic
                | Some k =>
                    match w_test wd name v k with
                    | None => fail ErrPanic
                    | Some (ROk b) => next (push s1 (VBool b)) o
                    | Some (RErr _) => fail ErrRender
                    end
                end
            end
        | RenderInlineComponent name | RenderBodyComponent name =>
            let has_body := match i with RenderBodyComponent _ => true | _ => false end in
            match pop1 s with
            | None => fail ErrPanic
            | Some (kw, s1) =>
                match kwargs_of kw, assoc_get (w_components wd) name with
                | Some k, Some (def, cchunk) =>
                    let body_s := if has_body
                                  then match pop1 s1 with Some (b, s2) => Some (Some (mark_safe b), s2) | None => None end
                                  else Some (None, s1) in
                    match body_s with
                    | None => fail ErrPanic
                    | Some (body, s2) =>
                        match w_build_ctx wd def k body with
                        | RErr _ => fail ErrRender
                        | ROk cctx =>
                            if Nat.ltb (w_max_depth wd) (S depth) then fail ErrMsg
                            else match run f tpl ae (S depth) cchunk 0 (new_state cctx) (SinkBuf []) with
                                 | ROutOfFuel => ROutOfFuel
                                 | RFail e => fail e
                                 | RDone _ (SinkTop _) => fail ErrPanic
                                 | RDone _ (SinkBuf text) => next (push s2 (VStr text true)) o
                                 end
                        end
                    end
                | _, _ => fail ErrPanic
                end
            end
        | RenderBlock bname =>
            match assoc_get (t_lineage tpl) bname with
            | Some (bchunk :: lin_rest) =>
                let lin := bchunk :: lin_rest in
                let s1 := upd_blocks s ((bname, lin, 0) :: blocks s) (Some bname) in
                let is_captured := match capture_block s with Some cbn => str_eqb cbn bname | None => false end in
                if is_captured then
                  (* rendered into a fresh buffer that becomes block_buffer; the capture stack is
                     detached for the duration, as for super() (commit 3368fbc) *)
                  match run f tpl ae depth bchunk 0 (upd_caps s1 []) (SinkBuf []) with
                  | RDone s2 (SinkBuf text) =>
                      next (upd_block_buffer (upd_caps (upd_blocks s2 (tl (blocks s2)) (cur_block s)) (caps s)) text) o
                  | RDone _ (SinkTop _) => fail ErrPanic
                  | RFail e => fail e
                  | ROutOfFuel => ROutOfFuel
                  end
                else
                  match run f tpl ae depth bchunk 0 s1 o with
                  | RDone s2 o2 => next (upd_blocks s2 (tl (blocks s2)) (cur_block s)) o2
                  | RFail e => fail e
                  | ROutOfFuel => ROutOfFuel
                  end
            | _ => fail ErrMsg
            end
        | Jump t => goto t s o
        | PopJumpIfFalse t =>
            match pop1 s with
            | None => fail ErrPanic
            | Some (v, s1) => if is_truthy v then next s1 o else goto t s1 o
            end
        | JumpIfFalseOrPop t =>
            match pop1 s with
            | None => fail ErrPanic
            | Some (v, s1) => if is_truthy v then next s1 o else goto t s o
            end
        | JumpIfTrueOrPop t =>
            match pop1 s with
            | None => fail ErrPanic
            | Some (v, s1) => if is_truthy v then goto t s o else next s1 o
            end
        | Capture => next (upd_caps s ([] :: caps s)) o
        | EndCapture =>
            match caps s with
            | c :: t => next (push (upd_caps s t) (VStr c true)) o
            | [] => fail ErrPanic
            end
        | StartIterate kv | StartIterateComprehension kv =>
            match pop1 s with
            | None => fail ErrPanic
            | Some (container, s1) =>
                match iter_items container with
                | None => fail ErrRender
                | Some items =>
                    if kv && negb (is_map container) then fail ErrRender
                    else
                      let comp := match i with StartIterateComprehension _ => true | _ => false end in
                      next (upd_loops s1 (new_loop items comp :: loops s1)) o
                end
            end
        | StoreLocal n =>
            match loops s with
            | fr :: t => next (upd_loops s (lf_store_local fr n :: t)) o
            | [] => next s o
            end
        | Iterate end_ip =>
            match loops s with
            | fr :: t =>
                match lf_rest fr with
                | [] => goto end_ip s o
                | _ => next (upd_loops s (lf_advance fr end_ip :: t)) o
                end
            | [] => next s o
            end
        | StoreDidNotIterate =>
            match loops s with
            | fr :: _ => next (push s (VBool (negb (lf_iterated fr)))) o
            | [] => next s o
            end
        | Break =>
            match loops s with
            | fr :: _ => goto (lf_end_ip fr) s o
            | [] => next s o
            end
        | PopLoop => next (upd_loops s (tl (loops s))) o
        | AppendToList =>
            match stack s with
            | v :: VArr l :: t => next (upd_stack s (VArr (l ++ [v]) :: t)) o
            | _ => fail ErrPanic
            end
        | Mul | Div | FloorDiv | Mod | Minus | Power =>
            match pop2 s with
            | None => fail ErrPanic
            | Some (a, b, s1) =>
                if negb (is_number a) then fail ErrRender
                else if negb (is_number b) then fail ErrRender
                else match w_math wd i a b with
                     | ROk c => next (push s1 c) o
                     | RErr _ => fail ErrRender
                     end
            end
        | Plus =>
            match pop2 s with
            | None => fail ErrPanic
            | Some (a, b, s1) =>
                if is_number a && is_number b
                then match w_math wd Plus a b with
                     | ROk c => next (push s1 c) o
                     | RErr _ => fail ErrRender
                     end
                else fail ErrRender
            end
        | LessThan | GreaterThan | LessThanOrEqual | GreaterThanOrEqual =>
            match pop2 s with
            | None => fail ErrPanic
            | Some (a, b, s1) =>
                match w_cmp wd a b with
                | Some c => next (push s1 (VBool (ord_result i c))) o
                | None => fail ErrRender
                end
            end
        | Equal =>
            match pop2 s with
            | None => fail ErrPanic
            | Some (a, b, s1) => next (push s1 (VBool (w_eq wd a b))) o
            end
        | NotEqual =>
            match pop2 s with
            | None => fail ErrPanic
            | Some (a, b, s1) => next (push s1 (VBool (negb (w_eq wd a b)))) o
            end
        | StrConcat =>
            match pop2 s with
            | None => fail ErrPanic
            | Some (a, b, s1) =>
                let r := match a, b with
                         | VStr x _, VStr y _ => x ++ y
                         | _, _ => w_format wd a ++ w_format wd b
                         end in
                next (push s1 (VStr r false)) o
            end
        | InOp =>
            match pop2 s with
            | None => fail ErrPanic
            | Some (needle, container, s1) =>
                match w_contains wd container needle with
                | ROk b => next (push s1 (VBool b)) o
                | RErr _ => fail ErrRender
                end
            end
        | Not =>
            match pop1 s with
            | None => fail ErrPanic
            | Some (a, s1) => next (push s1 (VBool (negb (is_truthy a)))) o
            end
        | Negative =>
            match pop1 s with
            | None => fail ErrPanic
            | Some (a, s1) =>
                match w_negate wd a with
                | ROk b => next (push s1 b) o
                | RErr _ => fail ErrRender
                end
            end
        | LoadPath path =>
            match load_path_v s path with
            | ROk v => next (push s v) o
            | RErr e => fail e
            end
        | WritePath path =>
            match write_path_v s path with
            | RErr e => fail e
            | ROk v =>
                match write_value autoescape s o v with
                | Some (s1, o1) => next s1 o1
                | None => fail ErrIo
                end
            end
        end
      end
    end.

  (* ---------- entry points (VirtualMachine::render_to / Tera::render_component_to) ---------- *)

  (* render_to(block_name = None / Some b) *)
  Definition render_to (fuel : nat) (tpl : template) (block : option str) (c : ctx) (g : ctx) (w : W)
    : rres W :=
    let s0 := {| stack := []; loops := []; setvars := []; caps := []; blocks := []; cur_block := None;
                 parent := None; context := c; global := Some g; capture_block := block;
                 block_buffer := [] |} in
    match block with
    | None => run fuel tpl None 0 (t_root_chunk tpl) 0 s0 (SinkTop w)
    | Some _ =>
        (* rendered into io::sink(); then block_buffer is written to the real output *)
        match run fuel tpl None 0 (t_root_chunk tpl) 0 s0 (SinkBuf []) with
        | RDone s1 _ =>
            match wr w (block_buffer s1) with
            | Some w1 => RDone s1 (SinkTop w1)
            | None => RFail ErrIo
            end
        | r => r
        end
    end.

End Run.
