(* Model of tera::value::{Value, ValueInner, Key} (tera/src/value/mod.rs, key.rs).
   Executable definitions only; no proofs in Model/. *)
From Coq Require Export List ZArith NArith Bool Lia.
From Coq Require Export Floats.SpecFloat.
Export ListNotations.
Open Scope Z_scope.

(* Representation tag of an integer: which ValueInner variant carries it. *)
Inductive irep := U64 | I64 | U128 | I128.

(* Strings are lists of Unicode scalar values (what Rust's `chars()` yields). *)
Definition str := list N.

(* Key<'a>: Bool / U64 / I64 / U128 / I128 / String(Arc<str>) / Str(&str).
   The last two are merged with a flag `owned` (it must never matter: C15). *)
Inductive key :=
| KBool (b : bool)
| KInt (r : irep) (z : Z)
| KStr (s : str) (owned : bool).

Inductive value :=
| VUndef
| VNone
| VBool (b : bool)
| VInt (r : irep) (z : Z)
| VFloat (f : spec_float)
| VStr (s : str) (safe : bool)
| VArr (l : list value)
| VMap (m : list (key * value))
| VBytes (b : list N).

Definition two64 : Z := 18446744073709551616.
Definition two63 : Z := 9223372036854775808.
Definition two127 : Z := 170141183460469231731687303715884105728.
Definition two128 : Z := 340282366920938463463374607431768211456.
Definition i128_min : Z := - two127.
Definition i128_max : Z := two127 - 1.
Definition u128_max : Z := two128 - 1.

Definition in_i128 (z : Z) : bool := (i128_min <=? z) && (z <=? i128_max).
Definition in_u128 (z : Z) : bool := (0 <=? z) && (z <=? u128_max).
Definition in_i64 (z : Z) : bool := (- two63 <=? z) && (z <? two63).
Definition in_u64 (z : Z) : bool := (0 <=? z) && (z <? two64).

Definition rep_ok (r : irep) (z : Z) : bool :=
  match r with
  | U64 => in_u64 z | I64 => in_i64 z | U128 => in_u128 z | I128 => in_i128 z
  end.

(* Value::as_i128 / as_u128 (mod.rs 577-597) *)
Definition as_i128 (v : value) : option Z :=
  match v with
  | VInt _ z => if in_i128 z then Some z else None
  | _ => None
  end.

Definition as_u128 (v : value) : option Z :=
  match v with
  | VInt _ z => if in_u128 z then Some z else None
  | _ => None
  end.

Definition is_u128 (v : value) : bool :=
  match v with VInt U128 _ => true | _ => false end.
Definition is_undefined (v : value) : bool :=
  match v with VUndef => true | _ => false end.
Definition is_none (v : value) : bool :=
  match v with VNone => true | _ => false end.
Definition is_number (v : value) : bool :=
  match v with VInt _ _ | VFloat _ => true | _ => false end.
Definition is_map (v : value) : bool :=
  match v with VMap _ => true | _ => false end.
Definition is_array (v : value) : bool :=
  match v with VArr _ => true | _ => false end.

Definition sf_is_zero (f : spec_float) : bool :=
  match f with S754_zero _ => true | _ => false end.

(* Value::is_truthy (mod.rs 787-802); NaN != 0.0 is true *)
Definition is_truthy (v : value) : bool :=
  match v with
  | VUndef | VNone => false
  | VBool b => b
  | VInt _ z => negb (z =? 0)
  | VFloat f => negb (sf_is_zero f)
  | VStr s _ => match s with [] => false | _ => true end
  | VArr l => match l with [] => false | _ => true end
  | VMap m => match m with [] => false | _ => true end
  | VBytes b => match b with [] => false | _ => true end
  end.

(* Value::is_safe (mod.rs 677-683) — arms regenerated into Gen/Tables.v and compared there *)
Inductive vkind :=
  KUndefined | KNone | KBoolK | KU64 | KI64 | KU128 | KI128 | KF64
| KString | KArray | KMap | KBytes.

Definition kind_of (v : value) : vkind :=
  match v with
  | VUndef => KUndefined | VNone => KNone | VBool _ => KBoolK
  | VInt U64 _ => KU64 | VInt I64 _ => KI64 | VInt U128 _ => KU128 | VInt I128 _ => KI128
  | VFloat _ => KF64 | VStr _ _ => KString | VArr _ => KArray | VMap _ => KMap
  | VBytes _ => KBytes
  end.

(* results of fallible operations, errors reduced to classes *)
(* ErrPanic: the Rust code would panic (index out of bounds, overflow in debug, unwrap on None) *)
Inductive errc := ErrRender | ErrMsg | ErrIo | ErrOther | ErrPanic.
Inductive res (A : Type) := ROk (a : A) | RErr (e : errc).
Arguments ROk {A} a.
Arguments RErr {A} e.

Definition res_bind {A B} (r : res A) (f : A -> res B) : res B :=
  match r with ROk a => f a | RErr e => RErr e end.

(* decidable equality used by correspondence files: purely syntactic on the model terms *)
Definition irep_eqb (a b : irep) : bool :=
  match a, b with
  | U64, U64 | I64, I64 | U128, U128 | I128, I128 => true
  | _, _ => false
  end.

Fixpoint list_eqb {A} (eqb : A -> A -> bool) (a b : list A) : bool :=
  match a, b with
  | [], [] => true
  | x :: a', y :: b' => eqb x y && list_eqb eqb a' b'
  | _, _ => false
  end.

Definition str_eqb : str -> str -> bool := list_eqb N.eqb.

Definition sf_eqb_syn (a b : spec_float) : bool :=
  match a, b with
  | S754_zero s1, S754_zero s2 => Bool.eqb s1 s2
  | S754_infinity s1, S754_infinity s2 => Bool.eqb s1 s2
  | S754_nan, S754_nan => true
  | S754_finite s1 m1 e1, S754_finite s2 m2 e2 =>
      Bool.eqb s1 s2 && Pos.eqb m1 m2 && Z.eqb e1 e2
  | _, _ => false
  end.

Definition key_eqb_syn (a b : key) : bool :=
  match a, b with
  | KBool x, KBool y => Bool.eqb x y
  | KInt r x, KInt r' y => irep_eqb r r' && Z.eqb x y
  | KStr s o, KStr s' o' => str_eqb s s' && Bool.eqb o o'
  | _, _ => false
  end.

Fixpoint value_eqb_syn (a b : value) {struct a} : bool :=
  match a, b with
  | VUndef, VUndef | VNone, VNone => true
  | VBool x, VBool y => Bool.eqb x y
  | VInt r x, VInt r' y => irep_eqb r r' && Z.eqb x y
  | VFloat x, VFloat y => sf_eqb_syn x y
  | VStr s f, VStr s' f' => str_eqb s s' && Bool.eqb f f'
  | VArr l, VArr l' =>
      (fix go (l l' : list value) : bool :=
         match l, l' with
         | [], [] => true
         | x :: t, y :: t' => value_eqb_syn x y && go t t'
         | _, _ => false
         end) l l'
  | VMap m, VMap m' =>
      (fix go (m m' : list (key * value)) : bool :=
         match m, m' with
         | [], [] => true
         | (k, x) :: t, (k', y) :: t' => key_eqb_syn k k' && value_eqb_syn x y && go t t'
         | _, _ => false
         end) m m'
  | VBytes x, VBytes y => list_eqb N.eqb x y
  | _, _ => false
  end.

Definition errc_eqb (a b : errc) : bool :=
  match a, b with
  | ErrRender, ErrRender | ErrMsg, ErrMsg | ErrIo, ErrIo | ErrOther, ErrOther
  | ErrPanic, ErrPanic => true
  | _, _ => false
  end.

Definition res_eqb {A} (eqb : A -> A -> bool) (a b : res A) : bool :=
  match a, b with
  | ROk x, ROk y => eqb x y
  | RErr e, RErr e' => errc_eqb e e'
  | _, _ => false
  end.

(* indices of the cases on which f returns false (used by every Corr file) *)
Fixpoint mismatch_from {A} (f : A -> bool) (i : N) (l : list A) : list N :=
  match l with
  | [] => []
  | x :: t => if f x then mismatch_from f (N.succ i) t else i :: mismatch_from f (N.succ i) t
  end.
Definition mismatches {A} (f : A -> bool) (l : list A) : list N := mismatch_from f 0%N l.
