(* Port of Chunk::optimize (tera/src/parsing/instructions.rs 209-331): the peephole pass that
   fuses LoadName + LoadAttr* (+ WriteTop) into LoadPath / WritePath and re-targets jumps. *)
From TeraV Require Import Model.Value Model.Instr Gen.Tables.

(* is_jump_target[j] for j < len *)
Definition is_jump_target (p : chunk) (j : nat) : bool :=
  existsb (fun x => match target_of (fst x) with Some t => Nat.eqb t j | None => false end) p.

Definition is_magic (n : str) : bool := str_eqb n magical_dump_var.

(* the inner `while j < len` loop: consecutive LoadAttr that are not jump targets.
   Returns (attrs, their spans, remaining instructions, index of the first remaining one). *)
Fixpoint collect_attrs (jt : nat -> bool) (j : nat) (rest : chunk)
  : list str * list span_id * chunk * nat :=
  match rest with
  | (LoadAttr a, sp) :: rest' =>
      if jt j then ([], [], rest, j)
      else let '(attrs, sps, r, j') := collect_attrs jt (S j) rest' in
           (a :: attrs, sp ++ sps, r, j')
  | _ => ([], [], rest, j)
  end.

(* the outer `while i < len` loop. `olen` = optimized.len() so far; returns the optimized
   instructions (jump targets not yet re-mapped) and the index_map entries from i on,
   including the one-past-the-end entry. Fuel: one unit per outer iteration. *)
Fixpoint opt_go (fuel : nat) (jt : nat -> bool) (i olen : nat) (rest : chunk) : chunk * list nat :=
  match fuel with
  | O => ([], [])
  | S f =>
      match rest with
      | [] => ([], [olen])
      | (LoadName n, sp) :: rest' =>
          if is_magic n then
            let '(o, m) := opt_go f jt (S i) (S olen) rest' in ((LoadName n, sp) :: o, olen :: m)
          else
            let '(attrs, sps, r, j) := collect_attrs jt (S i) rest' in
            let k := length attrs in
            let no_write :=
              match attrs with
              | [] => let '(o, m) := opt_go f jt (S i) (S olen) rest' in
                      ((LoadName n, sp) :: o, olen :: m)
              | _ => let '(o, m) := opt_go f jt j (S olen) r in
                     ((LoadPath (n :: attrs), sp ++ sps) :: o, repeat olen (S k) ++ m)
              end in
            match r with
            | (WriteTop, _) :: r' =>
                if jt j then no_write
                else let '(o, m) := opt_go f jt (S j) (S olen) r' in
                     ((WritePath (n :: attrs), sp ++ sps) :: o, repeat olen (S (S k)) ++ m)
            | _ => no_write
            end
      | x :: rest' =>
          let '(o, m) := opt_go f jt (S i) (S olen) rest' in (x :: o, olen :: m)
      end
  end.

(* `*target = index_map[*target]` — None is an out-of-bounds panic *)
Definition retarget (m : list nat) (x : instr * list span_id) : option (instr * list span_id) :=
  match target_of (fst x) with
  | Some t => match nth_error m t with
              | Some t' => Some (set_target (fst x) t', snd x)
              | None => None
              end
  | None => Some x
  end.

Fixpoint map_opt {A B} (f : A -> option B) (l : list A) : option (list B) :=
  match l with
  | [] => Some []
  | x :: t => match f x, map_opt f t with
              | Some y, Some r => Some (y :: r)
              | _, _ => None
              end
  end.

Definition optimize_raw (p : chunk) : chunk * list nat :=
  opt_go (S (length p)) (is_jump_target p) 0 0 p.

Definition optimize (p : chunk) : option chunk :=
  let '(o, m) := optimize_raw p in map_opt (retarget m) o.
