(* C07 — a validator for compiled chunks (definitions only; soundness in Proofs/StackCheckProofs.v).

   check_chunk is an abstract interpretation of what Model/VM.v `run` does to the three stacks
   of the State (vm/state.rs 19-33): the value stack, the loop stack and the capture stack.

   Abstract state at an instruction:
     - the value stack as a list of slot kinds (top first): TMap / TArr where the VM relies on
       the kind of the slot (`kwargs.into_map().expect(..)`, interpreter.rs 150; the
       `unreachable!` arm of AppendToList, interpreter.rs 685-692), TAny otherwise;
     - the loop stack (innermost first): per frame `Some t` when the frame's `end_ip` is known
       to be `t` (after the fall-through edge of `Iterate t`), `None` when it is not known
       (after StartIterate: end_ip = 0) — `Break` jumps to `end_ip` (interpreter.rs 678-683), so
       it is only accepted under `Some t` and is then an edge to `t`;
     - the number of open capture buffers.
   Heights are relative to what was there when the chunk was entered (block chunks and
   super() run on the caller's State), so "empty" below means "as on entry".

   `astep` gives, per instruction, the out-edges (target ip, abstract state) — pops and pushes
   exactly as `run` performs them — or None when the instruction could underflow / meet the
   wrong kind. `check_table` verifies a table (ip -> abstract state) against every edge:
   in-range targets, one abstract state per reachable instruction (an incoming edge must be
   at least as precise as the table entry), the empty state at the exit. `infer` computes a
   candidate table by one forward pass; it is not trusted: only `check_table` is proved sound. *)
From TeraV Require Import Model.Value Model.Instr Model.VM.
Local Open Scope nat_scope.

Inductive aty := TAny | TMap | TArr.

Record astate := mkA { a_stack : list aty; a_loops : list (option nat); a_caps : nat }.

Definition a_empty : astate := mkA [] [] 0.

Definition aty_eqb (a b : aty) : bool :=
  match a, b with TAny, TAny | TMap, TMap | TArr, TArr => true | _, _ => false end.

(* a is at least as precise as b *)
Definition ty_sub (a b : aty) : bool := match b with TAny => true | _ => aty_eqb a b end.
Definition lp_sub (a b : option nat) : bool :=
  match b with
  | None => true
  | Some t => match a with Some t' => Nat.eqb t' t | None => false end
  end.

Fixpoint all2 {A} (f : A -> A -> bool) (l l' : list A) : bool :=
  match l, l' with
  | [], [] => true
  | x :: t, y :: t' => f x y && all2 f t t'
  | _, _ => false
  end.

Definition astate_sub (a b : astate) : bool :=
  all2 ty_sub (a_stack a) (a_stack b) && all2 lp_sub (a_loops a) (a_loops b)
  && Nat.eqb (a_caps a) (a_caps b).

Definition ty_of_value (v : value) : aty :=
  match v with VMap _ => TMap | VArr _ => TArr | _ => TAny end.

(* drop n slots; None = underflow *)
Fixpoint drop (n : nat) (st : list aty) : option (list aty) :=
  match n with
  | O => Some st
  | S n' => match st with _ :: t => drop n' t | [] => None end
  end.

(* slots consumed by Build{Map,List}WithSpreads (a spread is one slot, a key/value pair two) *)
Definition need_map (flags : list bool) : nat :=
  fold_right (fun (b : bool) acc => (if b then 1 else 2) + acc) 0 flags.
Definition need_list (flags : list bool) : nat := length flags.

Definition s_super : str := [115;117;112;101;114]%N.

Definition astep (i : instr) (ip : nat) (a : astate) : option (list (nat * astate)) :=
  let st := a_stack a in
  let lo := a_loops a in
  let ca := a_caps a in
  let nxt st' := Some [(S ip, mkA st' lo ca)] in
  let pop_push n t := match drop n st with Some r => nxt (t :: r) | None => None end in
  match i with
  | LoadConst v => nxt (ty_of_value v :: st)
  | LoadName _ => nxt (TAny :: st)
  | LoadAttr _ | LoadAttrOpt _ => pop_push 1 TAny
  | BinarySubscript | BinarySubscriptOpt => pop_push 2 TAny
  | Slice | SliceOpt => pop_push 4 TAny
  | WriteText _ => nxt st
  | WriteTop | SetI _ | SetGlobal _ => match drop 1 st with Some r => nxt r | None => None end
  | Include _ | RenderBlock _ => nxt st
  | BuildMap n => pop_push (2 * n) TMap
  | BuildList n => pop_push n TArr
  | BuildMapWithSpreads flags => pop_push (need_map flags) TMap
  | BuildListWithSpreads flags => pop_push (need_list flags) TArr
  | CallFunction _ | RenderInlineComponent _ =>
      match st with TMap :: r => nxt (TAny :: r) | _ => None end
  | ApplyFilter _ | RunTest _ | RenderBodyComponent _ =>
      match st with TMap :: _ :: r => nxt (TAny :: r) | _ => None end
  | Jump t => Some [(t, a)]
  | PopJumpIfFalse t =>
      match st with _ :: r => Some [(S ip, mkA r lo ca); (t, mkA r lo ca)] | [] => None end
  | JumpIfFalseOrPop t | JumpIfTrueOrPop t =>
      match st with _ :: r => Some [(S ip, mkA r lo ca); (t, a)] | [] => None end
  | Capture => Some [(S ip, mkA st lo (S ca))]
  | EndCapture => match ca with S c => Some [(S ip, mkA (TAny :: st) lo c)] | O => None end
  | StartIterate _ | StartIterateComprehension _ =>
      match st with _ :: r => Some [(S ip, mkA r (None :: lo) ca)] | [] => None end
  | StoreLocal _ => match lo with _ :: _ => nxt st | [] => None end
  | Iterate t =>
      match lo with
      | top :: rest => Some [(S ip, mkA st (Some t :: rest) ca); (t, a)]
      | [] => None
      end
  | StoreDidNotIterate => match lo with _ :: _ => nxt (TAny :: st) | [] => None end
  | Break => match lo with Some t :: _ => Some [(t, a)] | _ => None end
  | PopLoop => match lo with _ :: rest => Some [(S ip, mkA st rest ca)] | [] => None end
  | AppendToList => match st with _ :: TArr :: r => nxt (TArr :: r) | _ => None end
  | Mul | Div | FloorDiv | Mod | Plus | Minus | Power
  | LessThan | GreaterThan | LessThanOrEqual | GreaterThanOrEqual | Equal | NotEqual
  | StrConcat | InOp => pop_push 2 TAny
  | Not | Negative => pop_push 1 TAny
  | LoadPath p => match p with [] => None | _ => nxt (TAny :: st) end
  | WritePath p => match p with [] => None | _ => nxt st end
  end.

Definition table := list (option astate).

(* an edge into `t` carrying `a`: t must have a table entry that `a` refines *)
Definition edge_ok (tbl : table) (e : nat * astate) : bool :=
  match nth_error tbl (fst e) with
  | Some (Some b) => astate_sub (snd e) b
  | _ => false
  end.

Definition instr_ok (tbl : table) (ip : nat) (i : instr) : bool :=
  match nth_error tbl ip with
  | Some (Some a) =>
      match astep i ip a with
      | Some edges => forallb (edge_ok tbl) edges
      | None => false
      end
  | Some None => true          (* not reachable: no constraint *)
  | None => false
  end.

Fixpoint all_from (tbl : table) (ip : nat) (c : list instr) : bool :=
  match c with
  | [] => true
  | i :: t => instr_ok tbl ip i && all_from tbl (S ip) t
  end.

(* the table has one entry per instruction plus one for the exit (falling off the end), the
   entry state is `a0`, every instruction's edges are consistent with the table, and the exit —
   if reachable — is reached with everything the chunk pushed popped again *)
Definition check_table (c : list instr) (a0 : astate) (tbl : table) : bool :=
  Nat.eqb (length tbl) (S (length c)) &&
  match nth_error tbl 0 with Some (Some a) => astate_sub a0 a | _ => false end &&
  all_from tbl 0 c &&
  match nth_error tbl (length c) with
  | Some (Some a) => astate_sub a a_empty
  | Some None => true
  | None => false
  end.

(* ---------- table inference (untrusted) ---------- *)

Definition ty_join (a b : aty) : aty := if aty_eqb a b then a else TAny.
Definition lp_join (a b : option nat) : option nat :=
  match a, b with Some x, Some y => if Nat.eqb x y then a else None | _, _ => None end.

Fixpoint map2 {A} (f : A -> A -> A) (l l' : list A) : list A :=
  match l, l' with
  | x :: t, y :: t' => f x y :: map2 f t t'
  | _, _ => []
  end.

Definition astate_join (a b : astate) : option astate :=
  if Nat.eqb (length (a_stack a)) (length (a_stack b))
     && Nat.eqb (length (a_loops a)) (length (a_loops b))
     && Nat.eqb (a_caps a) (a_caps b)
  then Some (mkA (map2 ty_join (a_stack a) (a_stack b)) (map2 lp_join (a_loops a) (a_loops b)) (a_caps a))
  else None.

Fixpoint set_nth {A} (l : list A) (n : nat) (x : A) : list A :=
  match l, n with
  | [], _ => []
  | _ :: t, O => x :: t
  | y :: t, S n' => y :: set_nth t n' x
  end.

Definition arrive (tbl : table) (e : nat * astate) : table :=
  match nth_error tbl (fst e) with
  | Some None => set_nth tbl (fst e) (Some (snd e))
  | Some (Some b) =>
      match astate_join b (snd e) with
      | Some j => set_nth tbl (fst e) (Some j)
      | None => tbl          (* heights disagree: check_table will reject *)
      end
  | None => tbl
  end.

Fixpoint pass (c : list instr) (ip : nat) (tbl : table) : table :=
  match c with
  | [] => tbl
  | i :: t =>
      let tbl' :=
        match nth_error tbl ip with
        | Some (Some a) =>
            match astep i ip a with
            | Some edges => fold_left arrive edges tbl
            | None => tbl
            end
        | _ => tbl
        end in
      pass t (S ip) tbl'
  end.

Definition infer (c : list instr) (a0 : astate) : table :=
  let t0 := Some a0 :: repeat None (length c) in
  pass c 0 (pass c 0 t0).

Definition check_chunk_from (a0 : astate) (c : list instr) : bool := check_table c a0 (infer c a0).

(* top-level chunks, block chunks (relative to the caller), component chunks *)
Definition check_chunk (c : list instr) : bool := check_chunk_from a_empty c.

(* ---------- references ---------- *)

Inductive ref_kind := RFilter | RTest | RFunction | RComponent | RInclude | RBlock.

Definition ref_of (i : instr) : option (ref_kind * str) :=
  match i with
  | ApplyFilter n => Some (RFilter, n)
  | RunTest n => Some (RTest, n)
  | CallFunction n => Some (RFunction, n)
  | RenderInlineComponent n | RenderBodyComponent n => Some (RComponent, n)
  | Include n => Some (RInclude, n)
  | RenderBlock n => Some (RBlock, n)
  | _ => None
  end.

Fixpoint refs_of_chunk (c : list instr) : list (ref_kind * str) :=
  match c with
  | [] => []
  | i :: t => match ref_of i with Some r => r :: refs_of_chunk t | None => refs_of_chunk t end
  end.

(* the names the engine's registries hold (Tera.filters / testers / functions) *)
Record registry := { r_filters : list str; r_tests : list str; r_functions : list str }.

Definition mem_str (n : str) (l : list str) : bool := existsb (str_eqb n) l.

Definition has_key {A} (l : list (str * A)) (n : str) : bool :=
  match assoc_get l n with Some _ => true | None => false end.

(* `super` is resolved by the VM itself (interpreter.rs 448-500); blocks are resolved against
   the lineage of the template being rendered and fail with an error value, not a lookup *)
Definition ref_resolved (reg : registry) (wd : world) (r : ref_kind * str) : bool :=
  match r with
  | (RFilter, n) => mem_str n (r_filters reg)
  | (RTest, n) => mem_str n (r_tests reg)
  | (RFunction, n) => str_eqb n s_super || mem_str n (r_functions reg)
  | (RComponent, n) => has_key (w_components wd) n
  | (RInclude, n) => has_key (w_templates wd) n
  | (RBlock, _) => true
  end.

Definition refs_resolved (reg : registry) (wd : world) (c : list instr) : bool :=
  forallb (ref_resolved reg wd) (refs_of_chunk c).

(* ---------- a whole validated world ---------- *)

Definition chunk_good (reg : registry) (wd : world) (c : list instr) : bool :=
  check_chunk c && refs_resolved reg wd c.

Definition template_good (reg : registry) (wd : world) (t : template) : bool :=
  chunk_good reg wd (t_chunk t) && chunk_good reg wd (t_root_chunk t) &&
  forallb (fun bl => forallb (chunk_good reg wd) (snd bl)) (t_lineage t).

Definition world_checked (reg : registry) (wd : world) : bool :=
  forallb (fun nt => template_good reg wd (snd nt)) (w_templates wd) &&
  forallb (fun nc => chunk_good reg wd (snd (snd nc))) (w_components wd).
