(* Model of the template registry of Keats/tera: name resolution, parent walk, include-cycle
   walk, finalize, add_raw_templates with its undo list, autoescape_on, and the recursion
   structure of rendering (which chunk runs for render / include / RenderBlock / super() /
   component call).  Executable definitions only; no proofs in Model/.

   Ported from (pinned tree):
     tera/src/tera.rs      176-208  set_templates_auto_escape, autoescape_on
                           497-575  validate_template_references
                           579-726  finalize_templates
                           764-800  add_raw_templates (insert, undo list)
                           826-924  add_file, add_template_file, add_template_files (current tree)
                           921-958  set_fallback_prefixes, get_template_priority, resolve_template_name
                           995-1037 must_get_template, render
     tera/src/template.rs  44-141   Template::new (what a compiled template records)
                           149-180  check_include_cycles
                           184-209  find_parents
     tera/src/vm/interpreter.rs 146-187 component!, 370-390 Include, 476-512 super(),
                           565-594 RenderBlock, 938-984 render_component / render_include,
                           1007-1036 render_to
   Templates are abstracted to descriptors (`tdesc`): what the parser+compiler leave behind as
   far as the registry and the recursion of the VM are concerned.  `HashMap<String, _>` is
   modelled as an association list kept sorted by key (strictly increasing), which is a
   canonical representative of a finite map; the one place where the real code iterates a map
   in a *sorted* order (tera.rs:589-590, template.rs:158-159) is then the list order, and
   where it iterates in hash order (tera.rs:648, 698) the result is order-independent
   (collected errors are only compared by class; the lineage passes are the subject of C04).
   The model follows /repo with the repairs D9 (render_include), D10 (include walk) and D13
   (block lineage cycles) applied; `ev_fix_d10`/`ev_fix_d13` = false give the finalize of the
   pinned commit.
   The graph walks are generic in the successor function, so the theorems about them hold for
   every iteration order of the include names. *)
From Coq Require Import List NArith Bool Arith Lia.
Import ListNotations.

(* ------------------------------------------------------------------ names *)

(* A name is a string: the list of its Unicode scalar values.  Rust compares `String`s
   byte-wise, which on UTF-8 is the lexicographic order of scalar values. *)
Definition name := list N.

Fixpoint name_cmp (a b : name) : comparison :=
  match a, b with
  | [], [] => Eq
  | [], _ :: _ => Lt
  | _ :: _, [] => Gt
  | x :: a', y :: b' =>
      match N.compare x y with
      | Eq => name_cmp a' b'
      | c => c
      end
  end.

Definition name_eqb (a b : name) : bool :=
  match name_cmp a b with Eq => true | _ => false end.

Definition nmem (x : name) (l : list name) : bool := existsb (name_eqb x) l.

(* `str::starts_with` / `str::ends_with` *)
Fixpoint is_prefix (p n : name) : bool :=
  match p, n with
  | [], _ => true
  | _ :: _, [] => false
  | x :: p', y :: n' => N.eqb x y && is_prefix p' n'
  end.
Definition ends_with (n s : name) : bool := is_prefix (rev s) (rev n).

(* sorted insertion without duplicates: `keys().collect(); sort()` of a HashMap's keys *)
Fixpoint ninsert (x : name) (l : list name) : list name :=
  match l with
  | [] => [x]
  | y :: l' =>
      match name_cmp x y with
      | Lt => x :: y :: l'
      | Eq => y :: l'
      | Gt => y :: ninsert x l'
      end
  end.
Definition nsort (l : list name) : list name := fold_right ninsert [] l.

(* ------------------------------------------------------------------ finite maps *)

Section Maps.
  Context {V : Type}.
  Definition fmap := list (name * V).

  Fixpoint mfind (k : name) (m : fmap) : option V :=
    match m with
    | [] => None
    | (k', v) :: m' => if name_eqb k k' then Some v else mfind k m'
    end.

  (* HashMap::insert: replaces an existing entry *)
  Fixpoint minsert (k : name) (v : V) (m : fmap) : fmap :=
    match m with
    | [] => [(k, v)]
    | (k', v') :: m' =>
        match name_cmp k k' with
        | Lt => (k, v) :: (k', v') :: m'
        | Eq => (k, v) :: m'
        | Gt => (k', v') :: minsert k v m'
        end
    end.

  (* HashMap::remove *)
  Fixpoint mremove (k : name) (m : fmap) : fmap :=
    match m with
    | [] => []
    | (k', v') :: m' => if name_eqb k k' then m' else (k', v') :: mremove k m'
    end.

  Definition mkeys (m : fmap) : list name := map fst m.
  Definition mmem (k : name) (m : fmap) : bool :=
    match mfind k m with Some _ => true | None => false end.

  (* strictly increasing keys: the canonical form *)
  Fixpoint msorted (m : fmap) : Prop :=
    match m with
    | [] => True
    | (k, _) :: m' =>
        match m' with
        | [] => True
        | (k', _) :: _ => name_cmp k k' = Lt
        end /\ msorted m'
    end.
End Maps.
Arguments fmap V : clear implicits.

(* ------------------------------------------------------------------ descriptors *)

(* What matters of an instruction for the registry and for the recursion of the VM. *)
Inductive op :=
| OText (id : N)            (* WriteText: a piece of literal text, identified by a number *)
| OInclude (n : name)       (* Instruction::Include(name) *)
| OBlock (b : name)         (* Instruction::RenderBlock(name) *)
| OSuper                    (* CallFunction("super") followed by WriteTop *)
| OCall (c : name).         (* RenderInlineComponent / RenderBodyComponent *)
Definition chunk := list op.

(* Template::new, template.rs:44-141 *)
Record tdesc := {
  td_extends : option name;             (* `extends` target as written *)
  td_main : chunk;                      (* main chunk *)
  td_blocks : list (name * chunk);      (* `blocks`: every block, nested ones included *)
  td_top : list name;                   (* `block_name_spans`: top-level blocks only *)
  td_comps : list (name * chunk);       (* `components` defined here *)
  td_filters : list name;               (* `filter_calls` *)
  td_tests : list name;                 (* `test_calls` *)
  td_funcs : list name;                 (* `function_calls` other than super *)
  td_len : nat                          (* source.len() *)
}.

(* A source text either fails to parse (SyntaxError) or compiles to a descriptor. *)
Definition source := option tdesc.

Definition chunk_includes (c : chunk) : list name :=
  flat_map (fun o => match o with OInclude n => [n] | _ => [] end) c.
Definition chunk_calls (c : chunk) : list name :=
  flat_map (fun o => match o with OCall n => [n] | _ => [] end) c.
Definition calls_super (c : chunk) : bool :=
  existsb (fun o => match o with OSuper => true | _ => false end) c.

Definition td_chunks (t : tdesc) : list chunk :=
  td_main t :: map snd (td_blocks t) ++ map snd (td_comps t).
(* `include_calls`: main chunk, block chunks and component bodies merged (template.rs:86,
   107-109; compiler.rs:520-527); the walk sorts the keys (template.rs:158-159) *)
Definition td_includes (t : tdesc) : list name := nsort (flat_map chunk_includes (td_chunks t)).
Definition td_calls (t : tdesc) : list name := flat_map chunk_calls (td_chunks t).

Definition smap := fmap tdesc.

(* fixed configuration of an instance (cannot change once templates exist) *)
Record env := {
  ev_prefixes : list name;   (* fallback_prefixes, tera.rs:921-932 *)
  ev_filters : list name;    (* registered filters/tests/functions *)
  ev_tests : list name;
  ev_funcs : list name;
  ev_fix_d10 : bool;         (* false: pinned code; true: with fixes/D10-*.patch applied *)
  ev_fix_d13 : bool          (* false: pinned code; true: with fixes/D13-*.patch applied *)
}.

(* ------------------------------------------------------------------ results *)

Inductive ekind :=
| EkSyntax | EkMissingParent | EkCircularExtend | EkCircularInclude | EkMsg | EkNotFound
| EkPanic    (* the Rust code would panic (HashMap index on a missing key, unwrap on None) *)
| EkFuel.    (* the model ran out of fuel; excluded by every theorem *)
Inductive rres (A : Type) := Ok (a : A) | Err (e : ekind).
Arguments Ok {A} a.
Arguments Err {A} e.

Definition ekind_eqb (a b : ekind) : bool :=
  match a, b with
  | EkSyntax, EkSyntax | EkMissingParent, EkMissingParent | EkCircularExtend, EkCircularExtend
  | EkCircularInclude, EkCircularInclude | EkMsg, EkMsg | EkNotFound, EkNotFound
  | EkPanic, EkPanic | EkFuel, EkFuel => true
  | _, _ => false
  end.

(* ------------------------------------------------------------------ name resolution *)

(* tera.rs:947-958: exact name first, then each prefix in order *)
Fixpoint resolve_pre {V} (pre : list name) (m : fmap V) (n : name) : option name :=
  match pre with
  | [] => None
  | p :: pre' => if mmem (p ++ n) m then Some (p ++ n) else resolve_pre pre' m n
  end.
Definition resolve {V} (pre : list name) (m : fmap V) (n : name) : option name :=
  if mmem n m then Some n else resolve_pre pre m n.

(* tera.rs:936-943 *)
Fixpoint priority_from (i : nat) (pre : list name) (n : name) : nat :=
  match pre with
  | [] => 0
  | p :: pre' => if is_prefix p n then S i else priority_from (S i) pre' n
  end.
Definition priority (pre : list name) (n : name) : nat := priority_from 0 pre n.

(* ------------------------------------------------------------------ parent walk *)

(* template.rs:184-209.  `parents` is kept in push order and reversed at the end, as there.
   The recursion of the real function ends because `parents` only ever grows by templates not
   yet in it; the model uses fuel (number of templates + 1 suffices: RegistryProofs). *)
Fixpoint find_parents (fuel : nat) (pre : list name) (m : smap) (start : name)
         (cur : tdesc) (parents : list name) : rres (list name) :=
  match fuel with
  | 0 => Err EkFuel
  | S f =>
      match td_extends cur with
      | None => Ok (rev parents)
      | Some p =>
          match resolve pre m p with
          | None => Err EkMissingParent
          | Some r =>
              if name_eqb r start || nmem r parents then Err EkCircularExtend
              else match mfind r m with
                   | None => Err EkPanic
                   | Some pt => find_parents f pre m start pt (parents ++ [r])
                   end
          end
      end
  end.

Definition parents_of (pre : list name) (m : smap) (n : name) (t : tdesc) : rres (list name) :=
  find_parents (S (length m)) pre m n t [].

(* ------------------------------------------------------------------ cycle walk (generic) *)

(* template.rs:149-180, generic in the node type and in the successor function (already
   resolved, in the order in which the real loop meets them).  `stack` is the explicit
   stack (push = append, as `Vec::push`), `visited` the set of finished nodes (most recently
   finished first).  The inner `for` loop is `dfs_loop`; `stack.pop()` after the recursive
   call restores the stack, so the loop continues with the same `stack`. *)
Section DFS.
  Context {A : Type} (eqb : A -> A -> bool) (succ : A -> list A).

  Definition amem (x : A) (l : list A) : bool := existsb (eqb x) l.

  Fixpoint dfs_loop (rec : A -> list A -> list A -> rres (list A))
           (stack : list A) (ns : list A) (visited : list A) : rres (list A) :=
    match ns with
    | [] => Ok visited
    | r :: rest =>
        if amem r stack then Err EkCircularInclude
        else if amem r visited then dfs_loop rec stack rest visited
        else match rec r (stack ++ [r]) visited with
             | Err e => Err e
             | Ok v' => dfs_loop rec stack rest (r :: v')
             end
    end.

  Fixpoint dfs_walk (fuel : nat) (cur : A) (stack visited : list A) : rres (list A) :=
    match fuel with
    | 0 => Err EkFuel
    | S f => dfs_loop (dfs_walk f) stack (succ cur) visited
    end.

  (* check_include_cycles(tera, start) *)
  Definition dfs_check (fuel : nat) (start : A) : rres (list A) :=
    dfs_walk fuel start [start] [].

  (* longest path below a node, cut at `fuel` (used as a rank by the termination proof) *)
  Fixpoint height (fuel : nat) (x : A) : nat :=
    match fuel with
    | 0 => 0
    | S f => S (list_max (map (height f) (succ x)))
    end.
End DFS.

Fixpoint filter_map {A B} (f : A -> option B) (l : list A) : list B :=
  match l with
  | [] => []
  | x :: l' => match f x with Some y => y :: filter_map f l' | None => filter_map f l' end
  end.

(* include names of a template, resolved; unresolvable ones are skipped by the walk
   (template.rs:161-163) and reported later by validate_template_references *)
Definition own_includes (m : smap) (n : name) : list name :=
  match mfind n m with Some t => td_includes t | None => [] end.

Definition inc_succ_pinned (pre : list name) (m : smap) (n : name) : list name :=
  filter_map (resolve pre m) (own_includes m n).

(* D10 repair: rendering a template also runs chunks of its ancestors (the root's body, and
   any ancestor block reached through lineage / super()), so the include names to follow
   from `n` are those of `n` and of all of its parents *)
Definition inc_succ_fixed (pre : list name) (m : smap) (par : fmap (list name)) (n : name)
  : list name :=
  let ps := match mfind n par with Some ps => ps | None => [] end in
  filter_map (resolve pre m) (nsort (own_includes m n ++ flat_map (own_includes m) ps)).

Definition check_include_cycles (succ : name -> list name) (m : smap) (n : name) : rres unit :=
  match dfs_check name_eqb succ (S (length m)) n with
  | Ok _ => Ok tt
  | Err e => Err e
  end.

(* ------------------------------------------------------------------ finalize *)

(* derived data stored on a template: parents (root first), block lineage, size hint,
   autoescape flag (template.rs:28-38) *)
Record entry := {
  e_desc : tdesc;
  e_parents : list name;
  e_lineage : fmap (list chunk);
  e_size : nat;
  e_auto : bool
}.
Definition tmap := fmap entry.

Definition sources (m : tmap) : smap := map (fun p => (fst p, e_desc (snd p))) m.

(* component table: name -> (defining template, priority) during finalize, tera.rs:585-619 *)
Definition csrc := fmap (name * nat).

(* one template's components against the table; None = duplicate at equal priority *)
Fixpoint add_components (pre : list name) (tn : name) (cs : list name) (tab : csrc) : option csrc :=
  match cs with
  | [] => Some tab
  | c :: cs' =>
      let cur := priority pre tn in
      match mfind c tab with
      | None => add_components pre tn cs' (minsert c (tn, cur) tab)
      | Some (_, ex) =>
          if cur <? ex then add_components pre tn cs' (minsert c (tn, cur) tab)
          else if ex <? cur then add_components pre tn cs' tab
          else None
      end
  end.

Definition sum_sizes (m : smap) (ps : list name) : nat :=
  fold_right (fun p acc => (match mfind p m with Some t => td_len t | None => 0 end) + acc) 0 ps.

(* 1st loop (tera.rs:591-629), in sorted name order, stopping at the first error.
   `todo` is the remaining part of the sorted template list, `m` the whole map. *)
Fixpoint first_loop (ev : env) (m : smap) (todo : smap)
         (par : fmap (list name)) (sz : fmap nat) (tab : csrc)
  : rres (fmap (list name) * fmap nat * csrc) :=
  match todo with
  | [] => Ok (par, sz, tab)
  | (n, t) :: todo' =>
      match parents_of (ev_prefixes ev) m n t with
      | Err e => Err e
      | Ok ps =>
          match (if ev_fix_d10 ev then Ok tt
                 else check_include_cycles (inc_succ_pinned (ev_prefixes ev) m) m n) with
          | Err e => Err e
          | Ok _ =>
              match add_components (ev_prefixes ev) n (map fst (td_comps t)) tab with
              | None => Err EkMsg
              | Some tab' =>
                  first_loop ev m todo' (minsert n ps par)
                             (minsert n (td_len t + sum_sizes m ps) sz) tab'
              end
          end
      end
  end.

(* D10 repair: the include walk runs once every parent list is known *)
Fixpoint include_loop (succ : name -> list name) (m : smap) (todo : smap) : rres unit :=
  match todo with
  | [] => Ok tt
  | (n, _) :: todo' =>
      match check_include_cycles succ m n with
      | Err e => Err e
      | Ok _ => include_loop succ m todo'
      end
  end.

(* tera.rs:632-639 *)
Definition build_components (m : smap) (tab : csrc) : fmap chunk :=
  filter_map (fun p : name * (name * nat) =>
                match mfind (fst (snd p)) m with
                | Some t => match mfind (fst p) (td_comps t) with
                            | Some ch => Some (fst p, ch)
                            | None => None
                            end
                | None => None
                end) tab.

Definition all_in (xs known : list name) : bool := forallb (fun x => nmem x known) xs.

(* validate_template_references, tera.rs:497-575: true = no error *)
Definition refs_ok (ev : env) (m : smap) (comps : fmap chunk) (t : tdesc) : bool :=
  all_in (td_filters t) (ev_filters ev) &&
  all_in (td_tests t) (ev_tests ev) &&
  all_in (td_funcs t) (ev_funcs ev) &&
  forallb (fun c => mmem c comps) (td_calls t) &&
  forallb (fun i => match resolve (ev_prefixes ev) m i with Some _ => true | None => false end)
          (td_includes t).

(* tera.rs:656-676: every top-level block of a child exists in some parent *)
Definition blocks_ok (m : smap) (ps : list name) (t : tdesc) : bool :=
  match ps with
  | [] => true
  | _ => forallb (fun b => existsb (fun p => match mfind p m with
                                              | Some pt => mmem b (td_blocks pt)
                                              | None => false
                                              end) ps) (td_top t)
  end.

(* tera.rs:680-691: the chain of definitions of block `b` starting at `ch`, walking the
   parents nearest-first while the previous definition calls super() *)
Fixpoint lineage_up (m : smap) (b : name) (near_first : list name) : list chunk :=
  match near_first with
  | [] => []
  | p :: rest =>
      match mfind p m with
      | Some pt =>
          match mfind b (td_blocks pt) with
          | Some pch => pch :: (if calls_super pch then lineage_up m b rest else [])
          | None => lineage_up m b rest
          end
      | None => lineage_up m b rest
      end
  end.

Definition own_lineage (m : smap) (ps : list name) (t : tdesc) : fmap (list chunk) :=
  fold_right (fun bc acc =>
                minsert (fst bc)
                        (snd bc :: (if calls_super (snd bc) then lineage_up m (fst bc) (rev ps) else []))
                        acc)
             [] (td_blocks t).

(* tera.rs:698-707: inherit the lineages of the parents, nearest first, never overwriting *)
Definition or_insert_all (from into : fmap (list chunk)) : fmap (list chunk) :=
  fold_left (fun acc bl => if mmem (fst bl) acc then acc else minsert (fst bl) (snd bl) acc)
            from into.

Definition inherit_one (par : fmap (list name)) (tb : fmap (fmap (list chunk))) (n : name)
  : fmap (fmap (list chunk)) :=
  let ps := match mfind n par with Some ps => ps | None => [] end in
  fold_left (fun tb p =>
               match mfind p tb, mfind n tb with
               | Some pb, Some cb => minsert n (or_insert_all pb cb) tb
               | _, _ => tb
               end) (rev ps) tb.

(* block graph of one finalized template: node (b, level); RenderBlock b' leads to (b', 0),
   super() to (b, level+1).  Used by the D13 repair and by the termination measure. *)
Definition bnode := (name * nat)%type.
Definition bnode_eqb (x y : bnode) : bool := name_eqb (fst x) (fst y) && Nat.eqb (snd x) (snd y).
Definition chunk_blocks (c : chunk) : list name :=
  flat_map (fun o => match o with OBlock b => [b] | _ => [] end) c.
Definition blk_succ (lin : fmap (list chunk)) (x : bnode) : list bnode :=
  match mfind (fst x) lin with
  | None => []
  | Some chs =>
      match nth_error chs (snd x) with
      | None => []
      | Some ch =>
          filter_map (fun b => match mfind b lin with
                               | Some (_ :: _) => Some (b, 0)
                               | _ => None
                               end) (chunk_blocks ch)
          ++ (if calls_super ch && (S (snd x) <? length chs) then [(fst x, S (snd x))] else [])
      end
  end.
Definition blk_nodes (lin : fmap (list chunk)) : list bnode :=
  flat_map (fun bl => map (fun l => (fst bl, l)) (seq 0 (length (snd bl)))) lin.
Fixpoint blk_check_all (lin : fmap (list chunk)) (todo : list bnode) : bool :=
  match todo with
  | [] => true
  | x :: todo' =>
      match dfs_check bnode_eqb (blk_succ lin) (S (length (blk_nodes lin))) x with
      | Ok _ => blk_check_all lin todo'
      | Err _ => false
      end
  end.
Definition blocks_acyclic (lin : fmap (list chunk)) : bool := blk_check_all lin (blk_nodes lin).

Definition auto_on (sufs : list name) (n : name) : bool := existsb (ends_with n) sufs.

(* finalize_templates as a function of the (name, descriptor) map, the fixed configuration
   and the autoescape suffixes.  Nothing is read from previously derived fields: the real
   function reads only `extends`, `include_calls`, `components`, `blocks`,
   `block_name_spans`, the `*_calls` maps and `source.len()` of each template. *)
Definition finalize_src (ev : env) (sufs : list name) (m : smap) : rres (tmap * fmap chunk) :=
  match first_loop ev m m [] [] [] with
  | Err e => Err e
  | Ok (par, sz, tab) =>
      match (if ev_fix_d10 ev
             then include_loop (inc_succ_fixed (ev_prefixes ev) m par) m m
             else Ok tt) with
      | Err e => Err e
      | Ok _ =>
          let comps := build_components m tab in
          let ps_of n := match mfind n par with Some ps => ps | None => [] end in
          let ok := forallb (fun nt => refs_ok ev m comps (snd nt) &&
                                       blocks_ok m (ps_of (fst nt)) (snd nt)) m in
          let tb0 : fmap (fmap (list chunk)) :=
              map (fun nt => (fst nt, own_lineage m (ps_of (fst nt)) (snd nt))) m in
          let tb := fold_left (inherit_one par) (mkeys m) tb0 in
          let lin_of n := match mfind n tb with Some l => l | None => [] end in
          if negb ok then Err EkMsg
          else if ev_fix_d13 ev && negb (forallb (fun n => blocks_acyclic (lin_of n)) (mkeys m))
          then Err EkMsg
          else
            Ok (map (fun nt =>
                       (fst nt,
                        {| e_desc := snd nt;
                           e_parents := ps_of (fst nt);
                           e_lineage := lin_of (fst nt);
                           e_size := match mfind (fst nt) sz with Some s => s | None => 0 end;
                           e_auto := auto_on sufs (fst nt) |})) m,
                comps)
      end
  end.

(* ------------------------------------------------------------------ instance state *)

Record state := {
  st_sufs : list name;      (* autoescape_suffixes *)
  st_tpls : tmap;           (* templates *)
  st_comps : fmap chunk     (* components *)
}.

Definition finalize (ev : env) (s : state) : rres state :=
  match finalize_src ev (st_sufs s) (sources (st_tpls s)) with
  | Err e => Err e
  | Ok (tm, comps) => Ok {| st_sufs := st_sufs s; st_tpls := tm; st_comps := comps |}
  end.

(* Template::new on a parsed source: no parents, no lineage, size = own length, autoescape on *)
Definition new_entry (t : tdesc) : entry :=
  {| e_desc := t; e_parents := []; e_lineage := []; e_size := td_len t; e_auto := true |}.

(* the insertion loop of add_raw_templates (tera.rs:772-782) with its undo log
   `inserted: Vec<(String, Option<Template>)>`; stops at the first syntax error *)
Fixpoint insert_all (m : tmap) (b : list (name * source)) (log : list (name * option entry))
  : bool * tmap * list (name * option entry) :=
  match b with
  | [] => (true, m, log)
  | (n, None) :: _ => (false, m, log)
  | (n, Some t) :: b' => insert_all (minsert n (new_entry t) m) b' (log ++ [(n, mfind n m)])
  end.

(* tera.rs:786-798: `for (key, previous) in inserted.into_iter().rev()` *)
Definition undo_one (m : tmap) (kp : name * option entry) : tmap :=
  match snd kp with
  | Some old => minsert (fst kp) old m
  | None => mremove (fst kp) m
  end.
Definition undo (log : list (name * option entry)) (m : tmap) : tmap :=
  fold_left undo_one (rev log) m.

Definition with_tpls (s : state) (m : tmap) : state :=
  {| st_sufs := st_sufs s; st_tpls := m; st_comps := st_comps s |}.

(* add_raw_templates, tera.rs:764-800 *)
Definition add_batch (ev : env) (s : state) (b : list (name * source)) : rres unit * state :=
  match insert_all (st_tpls s) b [] with
  | (false, m1, log) => (Err EkSyntax, with_tpls s (undo log m1))
  | (true, m1, log) =>
      match finalize ev (with_tpls s m1) with
      | Ok s' => (Ok tt, s')
      | Err e => (Err e, with_tpls s (undo log m1))
      end
  end.

(* autoescape_on + set_templates_auto_escape, tera.rs:176-208 *)
Definition set_auto (sufs : list name) (m : tmap) : tmap :=
  map (fun ne => (fst ne,
                  {| e_desc := e_desc (snd ne); e_parents := e_parents (snd ne);
                     e_lineage := e_lineage (snd ne); e_size := e_size (snd ne);
                     e_auto := auto_on sufs (fst ne) |})) m.
Definition autoescape_on (s : state) (sufs : list name) : state :=
  {| st_sufs := sufs; st_tpls := set_auto sufs (st_tpls s); st_comps := st_comps s |}.

(* Tera::default(): suffixes .html .htm .xml are in the caller's hands *)
Definition init (sufs : list name) : state := {| st_sufs := sufs; st_tpls := []; st_comps := [] |}.

(* ---- registration from files: add_template_file / add_template_files, tera.rs:826-924

   One element of the iterator given to add_template_files, together with what the file system
   answers for it: the path as written, the outcome of reading it, and the optional explicit
   template name.  The three ways in which `add_file` can fail before the parser runs are kept
   apart (they are three different `?` exits, tera.rs:832-842); all three are
   `Error::message` / `Error::chain`, i.e. ErrorKind::Msg. *)
Inductive fread :=
| FBadPath                 (* path.to_str() is None: the path is not valid UTF-8 (832-834) *)
| FNoOpen                  (* File::open fails: missing, a directory opened for reading, no permission (837-838) *)
| FNoRead                  (* read_to_string fails: content is not UTF-8, or an I/O error (840-842) *)
| FRead (src : source).    (* content read; `src` = what Template::new makes of it (844-849) *)

Record fentry := { fe_path : name; fe_read : fread; fe_name : option name }.

(* `let tpl_name = name.unwrap_or(path_str)` (835); the key is `tpl_name.to_string()` (851) *)
Definition fe_key (f : fentry) : name :=
  match fe_name f with Some n => n | None => fe_path f end.

(* add_file, tera.rs:826-854: Ok (key, previous) and the map after the insert, or the error
   (nothing is inserted on any of the four error exits) *)
Definition add_file (m : tmap) (f : fentry) : rres (name * option entry) * tmap :=
  match fe_read f with
  | FBadPath => (Err EkMsg, m)
  | FNoOpen => (Err EkMsg, m)
  | FNoRead => (Err EkMsg, m)
  | FRead None => (Err EkSyntax, m)
  | FRead (Some t) =>
      let key := fe_key f in
      (Ok (key, mfind key m), minsert key (new_entry t) m)
  end.

(* the loop of add_template_files (tera.rs:903-907) with its undo log; `?` leaves the loop at
   the first error, keeping what was inserted so far in the log *)
Fixpoint insert_files (m : tmap) (fs : list fentry) (log : list (name * option entry))
  : option ekind * tmap * list (name * option entry) :=
  match fs with
  | [] => (None, m, log)
  | f :: fs' =>
      match add_file m f with
      | (Err e, _) => (Some e, m, log)
      | (Ok kp, m') => insert_files m' fs' (log ++ [kp])
      end
  end.

(* add_template_files, tera.rs:895-924 (add_template_file = a one-element iterator, 871-877):
   same shape as add_raw_templates -- finalize after the loop, undo in reverse on any error *)
Definition add_files (ev : env) (s : state) (fs : list fentry) : rres unit * state :=
  match insert_files (st_tpls s) fs [] with
  | (Some e, m1, log) => (Err e, with_tpls s (undo log m1))
  | (None, m1, log) =>
      match finalize ev (with_tpls s m1) with
      | Ok s' => (Ok tt, s')
      | Err e => (Err e, with_tpls s (undo log m1))
      end
  end.

(* the raw batch a list of file entries amounts to: (key, source) of every entry up to and
   including the first one that cannot be read or parsed (which, like a source that does not
   parse, contributes no template and ends the loop).  RegistryProofs.add_files_as_batch:
   add_files is add_batch on this batch, except for the kind of the error. *)
Fixpoint files_batch (fs : list fentry) : list (name * source) :=
  match fs with
  | [] => []
  | f :: fs' =>
      match fe_read f with
      | FRead (Some t) => (fe_key f, Some t) :: files_batch fs'
      | _ => [(fe_key f, None)]
      end
  end.

(* the error of the first entry that fails in the loop, if any *)
Fixpoint files_first_err (fs : list fentry) : option ekind :=
  match fs with
  | [] => None
  | f :: fs' =>
      match fe_read f with
      | FRead (Some _) => files_first_err fs'
      | FRead None => Some EkSyntax
      | _ => Some EkMsg
      end
  end.

(* a history of calls on one instance *)
Inductive call :=
| CAdd (b : list (name * source))
| CAuto (sufs : list name)
| CAddFiles (fs : list fentry).

Definition step (ev : env) (s : state) (c : call) : rres unit * state :=
  match c with
  | CAdd b => add_batch ev s b
  | CAuto sufs => (Ok tt, autoescape_on s sufs)
  | CAddFiles fs => add_files ev s fs
  end.

Fixpoint run (ev : env) (s : state) (h : list call) : list (rres unit) * state :=
  match h with
  | [] => ([], s)
  | c :: h' =>
      let '(r, s') := step ev s c in
      let '(rs, s'') := run ev s' h' in
      (r :: rs, s'')
  end.

(* ------------------------------------------------------------------ rendering: recursion *)

(* Which chunk runs, under which template's lineage (`self.template` of the VM):
     render(T)            -> main chunk of T's root ancestor (T's own if none), VM template T
                             (render_to, interpreter.rs:1015-1020)
     Include(n)           -> like render_to: main chunk of the included template's root ancestor
                             (its own if it extends nothing), VM template = the included
                             template, fresh State, same component depth (render_include, after
                             the D9 repair bb3c5f3; before it the included template's OWN main
                             chunk ran)
     RenderBlock(b)       -> VMtemplate.block_lineage[b][0]; error when absent/empty (565-594)
     super()              -> lineage[level+1] of the active block; error outside a block or at
                             the last level (476-512)
     component call       -> the component's chunk from the global table (else the VM
                             template's own), fresh State, depth+1, error above 20 (146-187,
                             938-960) *)
Inductive frame :=
| FMain (v w : name)            (* main chunk of w, VM template v *)
| FBlk (v b : name) (l : nat)   (* lineage[b][l] of v *)
| FComp (v c : name).           (* body of component c, VM template v *)

Definition frame_vm (f : frame) : name :=
  match f with FMain v _ => v | FBlk v _ _ => v | FComp v _ => v end.

Definition max_comp_depth : nat := 20.

Definition lineage_of (s : state) (v b : name) : option (list chunk) :=
  match mfind v (st_tpls s) with
  | Some e => mfind b (e_lineage e)
  | None => None
  end.

Definition comp_chunk (s : state) (v c : name) : option chunk :=
  match mfind c (st_comps s) with
  | Some ch => Some ch
  | None => match mfind v (st_tpls s) with
            | Some e => mfind c (td_comps (e_desc e))
            | None => None
            end
  end.

Definition frame_chunk (s : state) (f : frame) : option chunk :=
  match f with
  | FMain _ w => match mfind w (st_tpls s) with Some e => Some (td_main (e_desc e)) | None => None end
  | FBlk v b l => match lineage_of s v b with Some chs => nth_error chs l | None => None end
  | FComp v c => comp_chunk s v c
  end.

(* outcome of a render: the literal texts written, an error value, or out of fuel *)
Inductive rout := RText (t : list N) | RFail (e : ekind) | ROutOfFuel.

(* render_to / render_include: `tpl.parents.first()`, else the template itself *)
Definition root_of (s : state) (u : name) : name :=
  match mfind u (st_tpls s) with
  | Some e => match e_parents e with r :: _ => r | [] => u end
  | None => u
  end.

(* the frames a frame calls directly, with the component depth they run at; None = the
   instruction raises an error instead *)
Definition callee (pre : list name) (s : state) (d : nat) (f : frame) (o : op)
  : option (option (nat * frame)) :=
  match o with
  | OText _ => Some None
  | OInclude n =>
      match resolve pre (st_tpls s) n with
      | Some u => Some (Some (d, FMain u (root_of s u)))
      | None => None
      end
  | OBlock b =>
      match lineage_of s (frame_vm f) b with
      | Some (_ :: _) => Some (Some (d, FBlk (frame_vm f) b 0))
      | _ => None
      end
  | OSuper =>
      match f with
      | FBlk v b l =>
          match lineage_of s v b with
          | Some chs => if S l <? length chs then Some (Some (d, FBlk v b (S l))) else None
          | None => None
          end
      | _ => None
      end
  | OCall c =>
      if max_comp_depth <=? d then None
      else match comp_chunk s (frame_vm f) c with
           | Some _ => Some (Some (S d, FComp (frame_vm f) c))
           | None => None
           end
  end.

Fixpoint exec_ops (rec : nat -> frame -> rout) (pre : list name) (s : state) (d : nat)
         (f : frame) (ops : chunk) (acc : list N) : rout :=
  match ops with
  | [] => RText acc
  | o :: ops' =>
      match o with
      | OText i => exec_ops rec pre s d f ops' (acc ++ [i])
      | _ =>
          match callee pre s d f o with
          | None => RFail (match o with OCall _ => EkMsg | OInclude _ => EkNotFound | _ => EkMsg end)
          | Some None => exec_ops rec pre s d f ops' acc
          | Some (Some (d', f')) =>
              match rec d' f' with
              | RText t => exec_ops rec pre s d f ops' (acc ++ t)
              | r => r
              end
          end
      end
  end.

Fixpoint exec (fuel : nat) (pre : list name) (s : state) (d : nat) (f : frame) : rout :=
  match fuel with
  | 0 => ROutOfFuel
  | S k =>
      match frame_chunk s f with
      | None => RFail EkPanic
      | Some ch => exec_ops (exec k pre s) pre s d f ch []
      end
  end.

(* Tera::render(name): must_get_template, then the root ancestor's main chunk *)
Definition render (fuel : nat) (pre : list name) (s : state) (n : name) : rout :=
  match resolve pre (st_tpls s) n with
  | None => RFail EkNotFound
  | Some t =>
      match mfind t (st_tpls s) with
      | None => RFail EkPanic
      | Some e =>
          exec fuel pre s 0 (FMain t (match e_parents e with r :: _ => r | [] => t end))
      end
  end.

(* fuel that suffices for every render of an accepted set (RegistryProofs.render_fuel_suffices):
   (component depth 0..20) x (include rank of the VM template) x (rank in its block graph) *)
Definition max_blk_nodes (s : state) : nat :=
  list_max (map (fun ne : name * entry => length (blk_nodes (e_lineage (snd ne)))) (st_tpls s)).
Definition frame_span (s : state) : nat :=
  (length (st_tpls s) + 2) * (max_blk_nodes s + 3) + 1.
Definition render_fuel (s : state) : nat := S (S max_comp_depth * frame_span s).
