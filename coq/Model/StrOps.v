(* String operations by characters (C14): Value::len / Value::reverse on strings
   (value/mod.rs 808-848), filters::truncate (filters.rs 224-245), the string arm of the
   for-loop iterator with its loop.* bookkeeping (vm/for_loop.rs 54-76, 215-290). *)
From TeraV Require Import Model.Value.

Definition ellipsis : str := [8230%N].

Definition str_length (s : str) : value := VInt U64 (Z.of_nat (length s)).

(* Value::from(String): a normal (unsafe) string, whatever the input's flag was *)
Definition str_reverse (s : str) : value := VStr (rev s) false.

(* val.char_indices().nth(length): Some -> prefix + end, None -> unchanged *)
Definition str_truncate (s : str) (n : nat) (e : option str) : value :=
  let e := match e with Some e => e | None => ellipsis end in
  if Nat.ltb n (length s) then VStr (firstn n s ++ e) false else VStr s false.

(* the values bound to the loop variable, with (index0, length, first, last) *)
Fixpoint str_iter_from (s : str) (i len : nat) : list (value * (nat * nat * bool * bool)) :=
  match s with
  | [] => []
  | c :: t => (VStr [c] false, (i, len, Nat.eqb i 0, Nat.eqb (S i) len)) :: str_iter_from t (S i) len
  end.
Definition str_iter (s : str) := str_iter_from s 0 (length s).
