(* C01 — a decidable chunk-level side condition: "the body operand of every RenderBodyComponent
   was produced by a mint point" (in compiled code: the EndCapture the compiler emits in front of
   the kwargs, compiler.rs 312-317). Definitions only; soundness in Proofs/AutoescapeProofs.v.

   The idea is the one of Model/StackCheck.v (C07): an abstract interpretation of what `run` does
   to the value stack and the loop stack, checked against a table ip -> abstract state. The
   abstract state here is only KNOWLEDGE ABOUT THE TOP of the two stacks, over an arbitrary rest:
     c_stack: top first, `true` = this slot is known to hold a string carrying the safe flag
              (pushed by EndCapture, a component result, super(), or a flagged constant);
              `false` and everything below the list = nothing known;
     c_loops: innermost first, `LEnd t` = this loop frame exists and its end_ip is t (needed
              because Break jumps to end_ip), `LEx` = the frame exists, `LUnk` / below the list =
              nothing known.
   Popping below what is known is allowed (nothing is known about what comes up), so no stack
   heights are tracked and block chunks / super(), which run on the caller's state, simply
   start from "nothing known" and leave "nothing known" behind. The only instruction that can
   be refused is RenderBodyComponent when the slot under the kwargs is not known to be flagged. *)
From TeraV Require Import Model.Value Model.Instr Model.VM Model.StackCheck.
Local Open Scope nat_scope.

Inductive lk := LUnk | LEx | LEnd (t : nat).
Record cstate := mkC { c_stack : list bool; c_loops : list lk }.
Definition c_top : cstate := mkC [] [].

Definition cflag (v : value) : bool := match v with VStr _ f => f | _ => false end.

(* a knows at least what b claims *)
Definition stack_sub (a b : list bool) : bool :=
  forallb (fun i => implb (nth i b false) (nth i a false)) (seq 0 (length b)).
Definition lk_sub (a b : lk) : bool :=
  match b with
  | LUnk => true
  | LEx => match a with LUnk => false | _ => true end
  | LEnd t => match a with LEnd t' => Nat.eqb t' t | _ => false end
  end.
Definition loops_sub (a b : list lk) : bool :=
  forallb (fun i => lk_sub (nth i a LUnk) (nth i b LUnk)) (seq 0 (length b)).
Definition cstate_sub (a b : cstate) : bool :=
  stack_sub (c_stack a) (c_stack b) && loops_sub (c_loops a) (c_loops b).

(* `len` = length of the chunk: a Break whose frame is not known may land anywhere *)
Definition castep (len : nat) (i : instr) (ip : nat) (a : cstate) : option (list (nat * cstate)) :=
  let st := c_stack a in
  let lo := c_loops a in
  let nxt st' := Some [(S ip, mkC st' lo)] in
  let pp n b := nxt (b :: skipn n st) in
  match i with
  | LoadConst v => nxt (cflag v :: st)
  | LoadName _ | LoadPath _ => nxt (false :: st)
  | LoadAttr _ | LoadAttrOpt _ | Not | Negative => pp 1 false
  | BinarySubscript | BinarySubscriptOpt | ApplyFilter _ | RunTest _ | AppendToList
  | Mul | Div | FloorDiv | Mod | Plus | Minus | Power
  | LessThan | GreaterThan | LessThanOrEqual | GreaterThanOrEqual | Equal | NotEqual
  | StrConcat | InOp => pp 2 false
  | Slice | SliceOpt => pp 4 false
  | WriteText _ | WritePath _ | Include _ | Capture | StoreLocal _ => nxt st
  | WriteTop | SetI _ | SetGlobal _ => nxt (skipn 1 st)
  | BuildMap n => pp (2 * n) false
  | BuildList n => pp n false
  | BuildMapWithSpreads flags => pp (need_map flags) false
  | BuildListWithSpreads flags => pp (need_list flags) false
  | CallFunction n =>
      if str_eqb n s_super
      then Some [(S ip, mkC [true] [])]       (* the parent block ran on this state: nothing else known *)
      else pp 1 false
  | RenderInlineComponent _ => pp 1 true
  | RenderBodyComponent _ => if nth 1 st false then pp 2 true else None
  | RenderBlock _ => Some [(S ip, c_top)]
  | Jump t => Some [(t, a)]
  | PopJumpIfFalse t => Some [(S ip, mkC (skipn 1 st) lo); (t, mkC (skipn 1 st) lo)]
  | JumpIfFalseOrPop t | JumpIfTrueOrPop t => Some [(S ip, mkC (skipn 1 st) lo); (t, a)]
  | EndCapture => nxt (true :: st)
  | StartIterate _ | StartIterateComprehension _ => Some [(S ip, mkC (skipn 1 st) (LEnd 0 :: lo))]
  | Iterate t =>
      Some [(S ip, mkC st (match lo with (LEx | LEnd _) :: r => LEnd t :: r | _ => lo end)); (t, a)]
  | StoreDidNotIterate =>
      match lo with
      | (LEx | LEnd _) :: _ => nxt (false :: st)
      | _ => Some [(S ip, mkC [] lo)]          (* pushes only if a frame exists *)
      end
  | Break =>
      match lo with
      | LEnd t :: _ => Some [(t, a)]
      | _ => Some ((S ip, a) :: map (fun t => (t, a)) (seq 0 (S len)))
      end
  | PopLoop => Some [(S ip, mkC st (tl lo))]
  end.

Definition ctable := list (option cstate).

Definition cedge_ok (tbl : ctable) (e : nat * cstate) : bool :=
  match nth_error tbl (fst e) with
  | Some (Some b) => cstate_sub (snd e) b
  | Some None => false
  | None => true                 (* outside the chunk: run returns at once *)
  end.

Definition cinstr_ok (len : nat) (tbl : ctable) (ip : nat) (i : instr) : bool :=
  match nth_error tbl ip with
  | Some (Some a) =>
      match castep len i ip a with
      | Some edges => forallb (cedge_ok tbl) edges
      | None => false
      end
  | Some None => true
  | None => false
  end.

Fixpoint call_from (len : nat) (tbl : ctable) (ip : nat) (c : list instr) : bool :=
  match c with
  | [] => true
  | i :: t => cinstr_ok len tbl ip i && call_from len tbl (S ip) t
  end.

(* one entry per instruction plus the exit; the entry state claims nothing; every edge agrees *)
Definition cap_table_ok (c : list instr) (tbl : ctable) : bool :=
  Nat.eqb (length tbl) (S (length c)) &&
  match nth_error tbl 0 with Some (Some a) => cstate_sub c_top a | _ => false end &&
  call_from (length c) tbl 0 c.

(* ---------- table inference (untrusted) ---------- *)

Fixpoint join_stack (a b : list bool) : list bool :=
  match a, b with x :: a', y :: b' => (x && y) :: join_stack a' b' | _, _ => [] end.
Definition lk_join (x y : lk) : lk :=
  match x, y with
  | LEnd p, LEnd q => if Nat.eqb p q then LEnd p else LEx
  | LUnk, _ | _, LUnk => LUnk
  | _, _ => LEx
  end.
Fixpoint join_loops (a b : list lk) : list lk :=
  match a, b with
  | x :: a', y :: b' => lk_join x y :: join_loops a' b'
  | _, _ => []
  end.
Definition cjoin (a b : cstate) : cstate :=
  mkC (join_stack (c_stack a) (c_stack b)) (join_loops (c_loops a) (c_loops b)).

Definition carrive (tbl : ctable) (e : nat * cstate) : ctable :=
  match nth_error tbl (fst e) with
  | Some None => set_nth tbl (fst e) (Some (snd e))
  | Some (Some b) => set_nth tbl (fst e) (Some (cjoin b (snd e)))
  | None => tbl
  end.

Fixpoint cpass (len : nat) (c : list instr) (ip : nat) (tbl : ctable) : ctable :=
  match c with
  | [] => tbl
  | i :: t =>
      let tbl' :=
        match nth_error tbl ip with
        | Some (Some a) =>
            match castep len i ip a with
            | Some edges => fold_left carrive edges tbl
            | None => tbl
            end
        | _ => tbl
        end in
      cpass len t (S ip) tbl'
  end.

Definition cinfer (c : list instr) : ctable :=
  let t0 := Some c_top :: repeat None (length c) in
  cpass (length c) c 0 (cpass (length c) c 0 (cpass (length c) c 0 t0)).

(* nothing known anywhere: valid for every chunk without RenderBodyComponent *)
Definition ctop_table (c : list instr) : ctable := repeat (Some c_top) (S (length c)).

Definition the_table (c : list instr) : ctable :=
  if cap_table_ok c (cinfer c) then cinfer c else ctop_table c.

(* THE SIDE CONDITION: every RenderBodyComponent of the chunk pops a body that a mint point pushed *)
Definition bodies_from_capture (c : list instr) : bool := cap_table_ok c (the_table c).

(* the side condition for every chunk of a finalized template *)
Definition tpl_bodies_ok (t : template) : bool :=
  bodies_from_capture (t_chunk t) && bodies_from_capture (t_root_chunk t)
  && forallb (fun bl => forallb bodies_from_capture (snd bl)) (t_lineage t).
