(* C12 — executable model of the span bookkeeping and of the report printer.  Definitions only.
   Sources are byte strings (`list N`, every element < 256) that are valid UTF-8, as every Rust
   `&str` is; offsets, lines and columns are `nat` (Rust: usize).  A `None` result always stands
   for a panic of the Rust code (index out of bounds, slice not on a character boundary,
   `expect` on `None`, usize underflow).

   Ported from
     core::str::{is_char_boundary, chars, split_at, index}      (the std behaviour relied upon)
     tera/src/utils.rs 51-91            Span, Span::expand
     tera/src/parsing/lexer.rs 245-280  loc!, make_span!, advance!  (the only place where
                                        current_line / current_col / current_byte change)
     tera/src/parsing/parser.rs 167-176 Parser::eoi
     tera/src/parsing/instructions.rs 173-205  Chunk::{get_span, get_span_at, expand_span}
     tera/src/vm/stack.rs 8-12          combine_spans
     tera/src/reporting.rs 4-99         get_line_starts, SourceLocation::new, generate_report *)
From Coq Require Import List NArith Arith Bool.
From TeraV Require Import Spec.Utf8Chars Spec.LineCol.
Import ListNotations.

(* ------------------------------------------------------------------ std: str primitives *)

(* str::is_char_boundary (core/src/str/mod.rs): index 0 -> true; index >= len -> index == len;
   otherwise the byte is not a continuation byte ((b as i8) >= -0x40) *)
Definition is_char_boundary (s : list N) (i : nat) : bool :=
  if Nat.eqb i 0 then true
  else match nth_error s i with
       | None => Nat.eqb i (length s)
       | Some b => negb (is_cont b)
       end.

(* str::chars, each character represented by its encoding (so `c.len_utf8()` is `length c` and
   `c == '\n'` is `c = [10]`): every non-continuation byte starts a new character and takes the
   continuation bytes that follow it.  First component: continuation bytes before the first
   lead byte (empty for a valid string). *)
Fixpoint split_chars (l : list N) : list N * list (list N) :=
  match l with
  | [] => ([], [])
  | b :: t =>
      let (cs, gs) := split_chars t in
      if is_cont b then (b :: cs, gs) else ([], (b :: cs) :: gs)
  end.
Definition chars (l : list N) : list (list N) := snd (split_chars l).

(* &s[a..b]: panics unless a <= b <= len and both are character boundaries *)
Definition str_slice (s : list N) (a b : nat) : option (list N) :=
  if (a <=? b) && (b <=? length s) && is_char_boundary s a && is_char_boundary s b
  then Some (firstn (b - a) (skipn a s))
  else None.

(* s.split_at(n): panics unless n is a character boundary (n > len is not one) *)
Definition split_at (s : list N) (n : nat) : option (list N * list N) :=
  if is_char_boundary s n then Some (firstn n s, skipn n s) else None.

(* ------------------------------------------------------------------ utils.rs: Span *)

Record span := mkspan {
  start_line : nat;   (* 1-based *)
  start_col : nat;    (* 0-based, in characters *)
  end_line : nat;
  end_col : nat;
  rstart : nat;       (* range.start, bytes *)
  rend : nat          (* range.end *)
}.

(* Span::default() *)
Definition span_default : span := mkspan 0 0 0 0 0 0.

(* utils.rs 85-91: keeps the start of self, takes the end of other; no check of any kind *)
Definition expand (a b : span) : span :=
  mkspan (start_line a) (start_col a) (end_line b) (end_col b) (rstart a) (rend b).

(* ------------------------------------------------------------------ lexer.rs: bookkeeping *)

(* (current_line, current_col, current_byte); initial value (1, 0, 0) (lexer.rs 248-250) *)
Record loc := mkloc { l_line : nat; l_col : nat; l_byte : nat }.
Definition loc_init : loc := mkloc 1 0 0.

(* body of the `for c in skipped.chars()` loop of advance! (lexer.rs 270-279) *)
Definition advance_char (st : loc) (c : list N) : loc :=
  let byte' := l_byte st + length c in
  match c with
  | [10%N] => mkloc (S (l_line st)) 0 byte'
  | _ => mkloc (l_line st) (S (l_col st)) byte'
  end.

Definition advance_over (st : loc) (skipped : list N) : loc :=
  fold_left advance_char (chars skipped) st.

(* advance!(num_bytes): (new location, skipped, new rest); None = split_at panics *)
Definition advance (st : loc) (rest : list N) (num_bytes : nat) : option (loc * list N * list N) :=
  match split_at rest num_bytes with
  | None => None
  | Some (skipped, new_rest) => Some (advance_over st skipped, skipped, new_rest)
  end.

(* make_span!(start) evaluated at location `cur` (lexer.rs 259-268) *)
Definition make_span (start cur : loc) : span :=
  mkspan (l_line start) (l_col start) (l_line cur) (l_col cur) (l_byte start) (l_byte cur).

(* ------------------------------------------------------------------ parser.rs: eoi *)

(* parser.rs 167-176 as repaired by fixes/D12-eoi-range.patch: the end-of-input position is the
   END of the last token the parser consumed, for line/column and for the byte range alike *)
Definition eoi (current_span : span) : span :=
  mkspan (end_line current_span) (end_col current_span)
         (end_line current_span) (end_col current_span)
         (rend current_span) (rend current_span).

(* the same function on the pinned tree (before the repair): `range` is left untouched, so
   line/column name the end of the token and range.start its beginning (defect D12) *)
Definition eoi_unpatched (current_span : span) : span :=
  mkspan (end_line current_span) (end_col current_span)
         (end_line current_span) (end_col current_span)
         (rstart current_span) (rend current_span).

(* ------------------------------------------------------------------ instructions.rs, stack.rs *)

(* the span lists of a chunk's instructions, by instruction index *)
Definition span_table := list (list span).

(* Chunk::get_span: first span of instruction idx *)
Definition get_span (tbl : span_table) (idx : nat) : option span :=
  match nth_error tbl idx with
  | None => None
  | Some spans => hd_error spans
  end.

(* Chunk::get_span_at *)
Definition get_span_at (tbl : span_table) (idx k : nat) : option span :=
  match nth_error tbl idx with
  | None => None
  | Some spans => nth_error spans k
  end.

(* SpanRange = RangeInclusive<u32> of instruction indices *)
Definition span_range := (nat * nat)%type.

(* stack.rs 8-12 *)
Definition combine_spans (a b : span_range) : span_range :=
  (Nat.min (fst a) (fst b), Nat.max (snd a) (snd b)).

(* instructions.rs 189-205 *)
Definition expand_span (tbl : span_table) (r : span_range) : option span :=
  let (s, e) := r in
  match get_span tbl s with
  | None => None
  | Some start_span =>
      if Nat.eqb s e then Some start_span
      else match get_span tbl e with
           | None => None
           | Some end_span => Some (expand start_span end_span)
           end
  end.

(* what Chunk::optimize does to the span lists of a fused group (instructions.rs 257-283):
   the list of the LoadName followed by the lists of the absorbed LoadAttr, in path order *)
Definition collected_spans (group : list (list span)) : list span := concat group.

(* ------------------------------------------------------------------ interpreter.rs: report_target *)

(* interpreter.rs 917-925: the (name, source) an error raised while running `chunk` is reported
   against.  `templates` is the registry (name -> (name, source) of the stored Template);
   `tera.templates[&chunk.name]` panics when the name is not registered: None. *)
Definition report_target (tpl_name tpl_source chunk_name : list N)
    (templates : list N -> option (list N * list N)) : option (list N * list N) :=
  if list_eq_dec N.eq_dec tpl_name chunk_name then Some (tpl_name, tpl_source)
  else templates chunk_name.

(* ------------------------------------------------------------------ reporting.rs *)

(* positions of the '\n' bytes of l, counted from i *)
Fixpoint nl_positions (i : nat) (l : list N) : list nat :=
  match l with
  | [] => []
  | b :: t => if N.eqb b 10%N then i :: nl_positions (S i) t else nl_positions (S i) t
  end.

(* reporting.rs 4-8: once(0).chain(match_indices('\n').map(|(i, _)| i + 1)); a '\r' gets no
   special treatment (reporting.rs 109-122 pins "bar\r\n" as one line of 5 bytes) *)
Definition get_line_starts (source : list N) : list nat := 0 :: map S (nl_positions 0 source).

(* str::trim_end_matches('\n') *)
Fixpoint drop_leading_nl (l : list N) : list N :=
  match l with
  | b :: t => if N.eqb b 10%N then drop_leading_nl t else l
  | [] => []
  end.
Definition trim_end_nl (l : list N) : list N := rev (drop_leading_nl (rev l)).

Record source_location := mksl {
  sl_line : list N;
  sl_underline : list N;
  sl_start_line : nat;
  sl_start_col : nat
}.

(* reporting.rs 17-51.  `start_line - 1` with start_line = 0 is a usize underflow (panic in a
   debug build, index usize::MAX out of bounds in a release build): None either way. *)
Definition source_location_new (source : list N) (sp : span) : option source_location :=
  let line_starts := get_line_starts source in
  let sline := start_line sp in
  let scol := start_col sp in
  match sline with
  | 0 => None
  | S k =>
      let raw :=
        if Nat.eqb sline (length line_starts) then
          match nth_error line_starts k with
          | None => None
          | Some a => str_slice source a (length source)
          end
        else
          match nth_error line_starts k, nth_error line_starts sline with
          | Some a, Some b => str_slice source a b
          | _, _ => None
          end in
      match raw with
      | None => None
      | Some raw =>
          let line := trim_end_nl raw in
          let pad := map (fun c => match c with [9%N] => 9%N | _ => 32%N end)
                         (firstn scol (chars line)) in
          let width := if scol <? end_col sp then end_col sp - scol else 1 in
          Some (mksl line (pad ++ repeat 94%N width) sline scol)
      end
  end.

(* usize::to_string *)
Fixpoint dec_fuel (fuel : nat) (n : N) (acc : list N) : list N :=
  match fuel with
  | O => acc
  | S f =>
      let acc' := (48 + N.modulo n 10)%N :: acc in
      if N.eqb (N.div n 10) 0 then acc' else dec_fuel f (N.div n 10) acc'
  end.
Definition dec (n : nat) : list N :=
  let m := N.of_nat n in dec_fuel (S (N.to_nat (N.log2 m))) m [].

Record note := mknote {
  n_label : list N; n_filename : list N; n_source : list N; n_span : span }.

Record report_error := mkreport {
  r_message : list N; r_filename : list N; r_source : list N; r_span : span;
  r_notes : list note }.

Definition sp_ : list N := [32%N].
Definition nl_ : list N := [10%N].
Definition colon_ : list N := [58%N].
Definition bar_ : list N := [32; 124]%N.          (* " |" *)
Definition bar_sp : list N := [32; 124; 32]%N.     (* " | " *)

(* "error: "  "--> "  "note: " *)
Definition s_error : list N := [101; 114; 114; 111; 114; 58; 32]%N.
Definition s_arrow : list N := [45; 45; 62; 32]%N.
Definition s_note : list N := [110; 111; 116; 101; 58; 32]%N.

(* the three lines every location prints: "{pad} |\n{line_no} | {line}\n{pad} | {underline}" *)
Definition location_block (l : source_location) : list N :=
  let num := dec (sl_start_line l) in
  let padding := repeat 32%N (length num) in
  padding ++ bar_ ++ nl_ ++
  num ++ bar_sp ++ sl_line l ++ nl_ ++
  padding ++ bar_sp ++ sl_underline l.

Definition note_text (n : note) : option (list N) :=
  match source_location_new (n_source n) (n_span n) with
  | None => None
  | Some l =>
      Some (nl_ ++ nl_ ++ s_note ++ n_label n ++ sp_ ++ n_filename n ++ colon_ ++
            dec (sl_start_line l) ++ colon_ ++ dec (sl_start_col l + 1) ++ nl_ ++
            location_block l)
  end.

Fixpoint notes_text (ns : list note) : option (list N) :=
  match ns with
  | [] => Some []
  | n :: t =>
      match note_text n with
      | None => None
      | Some a => match notes_text t with None => None | Some b => Some (a ++ b) end
      end
  end.

(* reporting.rs 54-99 *)
Definition generate_report (e : report_error) : option (list N) :=
  match source_location_new (r_source e) (r_span e) with
  | None => None
  | Some l =>
      let padding := repeat 32%N (length (dec (sl_start_line l))) in
      let head :=
        s_error ++ r_message e ++ nl_ ++
        padding ++ s_arrow ++ r_filename e ++ colon_ ++ dec (sl_start_line l) ++ colon_ ++
        dec (sl_start_col l + 1) ++ nl_ ++
        location_block l in
      match notes_text (r_notes e) with
      | None => None
      | Some t => Some (head ++ t)
      end
  end.

(* ------------------------------------------------------------------ what C12 asks of a span *)

(* "a span that lies within that source on character boundaries, whose reported line and column
   designate a real position of that source consistent with the span's byte range" *)
Definition span_wf (src : list N) (sp : span) : Prop :=
  rstart sp <= rend sp /\ rend sp <= length src /\
  is_char_boundary src (rstart sp) = true /\ is_char_boundary src (rend sp) = true /\
  (start_line sp, start_col sp) = linecol src (rstart sp) /\
  (end_line sp, end_col sp) = linecol src (rend sp).

Definition pair_eqb (a b : nat * nat) : bool := Nat.eqb (fst a) (fst b) && Nat.eqb (snd a) (snd b).

Definition span_wfb (src : list N) (sp : span) : bool :=
  (rstart sp <=? rend sp) && (rend sp <=? length src) &&
  is_char_boundary src (rstart sp) && is_char_boundary src (rend sp) &&
  pair_eqb (start_line sp, start_col sp) (linecol src (rstart sp)) &&
  pair_eqb (end_line sp, end_col sp) (linecol src (rend sp)).

(* executable validity check (Spec.Utf8Chars.valid_utf8) through the model's `chars` *)
Definition valid_utf8b (l : list N) : bool :=
  match fst (split_chars l) with [] => forallb wf_charb (chars l) | _ => false end.

(* a lexer location agrees with the reference line/column of its byte offset *)
Definition loc_ok (src : list N) (st : loc) : Prop :=
  l_byte st <= length src /\ is_char_boundary src (l_byte st) = true /\
  (l_line st, l_col st) = linecol src (l_byte st).

(* ------------------------------------------------------------------ the same predicate, evaluated fast *)

(* one left-to-right pass giving the line/column of every offset 0..=|src| (what the lexer's
   advance! computes incrementally); Proofs.ReportProofs.span_wfb_tbl_ok shows that checking a span
   against this table is span_wfb *)
Definition scan_byte (lc : nat * nat) (b : N) : nat * nat :=
  if N.eqb b 10 then (S (fst lc), 0)
  else if is_cont b then lc else (fst lc, S (snd lc)).

Fixpoint scan_table (lc : nat * nat) (l : list N) : list (nat * nat) :=
  lc :: match l with [] => [] | b :: t => scan_table (scan_byte lc b) t end.

Definition span_wfb_tbl (src : list N) (tbl : list (nat * nat)) (sp : span) : bool :=
  (rstart sp <=? rend sp) && (rend sp <=? length src) &&
  is_char_boundary src (rstart sp) && is_char_boundary src (rend sp) &&
  match nth_error tbl (rstart sp), nth_error tbl (rend sp) with
  | Some s, Some e =>
      pair_eqb (start_line sp, start_col sp) s && pair_eqb (end_line sp, end_col sp) e
  | _, _ => false
  end.

Definition spans_wfb (src : list N) (sps : list span) : bool :=
  let tbl := scan_table (1, 0) src in forallb (span_wfb_tbl src tbl) sps.
