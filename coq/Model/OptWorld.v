(* C09, whole-world level: the fusion pass applied to every chunk a render can reach.
   Tera::finalize_templates / add_raw_template run Chunk::optimize (parsing/instructions.rs
   209-331, ported in Model/Optimize.v) on every compiled chunk: the template's own chunk, the
   chunk of its root ancestor, every chunk of every block lineage, every component chunk.
   `opt_world` is that operation on the `world` of Model/VM.v. Executable definitions only. *)
From TeraV Require Import Model.Value Model.Instr Model.Optimize Model.VM.
Local Open Scope nat_scope.

(* Model/VM.v chunks carry no spans; the pass only concatenates spans, so they are irrelevant
   to the instructions it produces *)
Definition with_spans (c : list instr) : chunk := map (fun i => (i, @nil span_id)) c.

(* the pass as an option: None = `index_map[target]` out of bounds (a Rust panic) *)
Definition opt_chunk_opt (c : list instr) : option (list instr) :=
  match optimize (with_spans c) with
  | Some o => Some (map fst o)
  | None => None
  end.

(* total version used to build the optimised world. The `None` arm is never taken for chunks
   with in-range jump targets (Proofs/OptWorldProofs.v `opt_chunk_defined`); `opt_world_defined`
   below is the executable check that it was not taken anywhere. *)
Definition opt_chunk (c : list instr) : list instr :=
  match opt_chunk_opt c with Some o => o | None => c end.

Definition opt_lineage (l : list (str * list (list instr))) : list (str * list (list instr)) :=
  map (fun e => (fst e, map opt_chunk (snd e))) l.

Definition opt_tpl (t : template) : template :=
  {| t_name := t_name t;
     t_chunk := opt_chunk (t_chunk t);
     t_root_chunk := opt_chunk (t_root_chunk t);
     t_lineage := opt_lineage (t_lineage t);
     t_autoescape := t_autoescape t |}.

Definition opt_world (wd : world) : world :=
  {| w_templates := map (fun e => (fst e, opt_tpl (snd e))) (w_templates wd);
     w_components := map (fun e => (fst e, (fst (snd e), opt_chunk (snd (snd e))))) (w_components wd);
     w_build_ctx := w_build_ctx wd;
     w_filter := w_filter wd;
     w_test := w_test wd;
     w_function := w_function wd;
     w_escape := w_escape wd;
     w_format := w_format wd;
     w_math := w_math wd;
     w_negate := w_negate wd;
     w_cmp := w_cmp wd;
     w_eq := w_eq wd;
     w_contains := w_contains wd;
     w_as_key := w_as_key wd;
     w_map_get := w_map_get wd;
     w_get_attr := w_get_attr wd;
     w_max_depth := w_max_depth wd |}.

(* every chunk of a template / of a world *)
Definition chunks_of_tpl (t : template) : list (list instr) :=
  t_chunk t :: t_root_chunk t :: flat_map (fun e => snd e) (t_lineage t).

Definition world_chunks (wd : world) : list (list instr) :=
  flat_map (fun e => chunks_of_tpl (snd e)) (w_templates wd) ++
  map (fun e => snd (snd e)) (w_components wd).

Definition opt_defined (c : list instr) : bool :=
  match opt_chunk_opt c with Some _ => true | None => false end.

Definition opt_world_defined (wd : world) : bool := forallb opt_defined (world_chunks wd).
