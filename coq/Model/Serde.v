(* The serde bridge (C19).
   - `ty`/`sval`: the serde data model as far as the property speaks of it: what a Rust type's
     `Serialize` impl calls on a Serializer (sval) and what its `Deserialize` impl asks of a
     Deserializer (ty).
   - `ser`/`ser_key`: port of ValueSerializer and MapKeySerializer (value/ser.rs 9-541).
   - `de`: port of the three Deserializer impls of value/de.rs (ValueDeserializer 18-105 with
     EnumDeserializer/VariantDeserializer 107-183, `Value` 193-226, `&Value` 228-241) composed
     with the ACCEPTANCE TABLE of serde's own visitors for the std types and for derived
     structs/enums (serde_core 1.0.228 de/impls.rs, serde_derive): which `visit_*` call each
     target type accepts.  That table is modelled, not verified: it is tied to the crates only by
     the correspondence run (Corr/CorrC19.v).
   - `Context::{from_serialize, insert, insert_value}` (context.rs 25-68).
   Executable definitions only; no proofs here.

   Code versions: `Fixed` is the code with the repairs D7 (`&Value` gets deserialize_option /
   deserialize_enum / deserialize_newtype_struct) and D14 (ValueDeserializer hands a newtype
   struct to `visit_newtype_struct` instead of forwarding to deserialize_any) applied; `Pinned`
   is the tree before them.  The theorems are about `Fixed`; `Pinned` is kept for the refutation
   lemmas and for replays. *)
From TeraV Require Import Model.Value Model.Format.
From TeraV Require Model.Utf8.   (* not imported: it opens N_scope *)

(* ------------------------------------------------------------------ data model *)

Inductive vkind := VKUnit | VKNewtype | VKTuple | VKStruct.

(* An enum variant is (name, (shape, payload type)): payload TUnit for a unit variant, the
   wrapped type for a newtype variant, `TTuple ts` for a tuple variant, `TStruct fs` for a struct
   variant (`shape_ok` below).  Tuple structs are `TTuple`; `usize`/`isize` are 64-bit. *)
Inductive ty :=
| TUnit | TUnitStruct | TBool
| TInt (signed : bool) (bits : N)
| TFloat (bits : N)
| TChar | TString
| TOption (t : ty)
| TNewtype (t : ty)
| TSeq (t : ty)
| TTuple (ts : list ty)
| TMap (k v : ty)
| TStruct (fs : list (str * ty))
| TEnum (vs : list (str * (vkind * ty))).

(* smart constructors for variants, in the vocabulary of the design *)
Definition VUnit (n : str) : str * (vkind * ty) := (n, (VKUnit, TUnit)).
Definition VNewtype (n : str) (t : ty) : str * (vkind * ty) := (n, (VKNewtype, t)).
Definition VTuple (n : str) (ts : list ty) : str * (vkind * ty) := (n, (VKTuple, TTuple ts)).
Definition VStruct (n : str) (fs : list (str * ty)) : str * (vkind * ty) := (n, (VKStruct, TStruct fs)).

(* values: one constructor per Serializer entry point that the grammar reaches.  An integer keeps
   the width it is serialised with, a struct its field names, a variant its name and shape (that
   is what `serialize_*` receives).  f32 values are written as the f64 they widen to. *)
Inductive sval :=
| SUnit | SUnitStruct
| SBool (b : bool)
| SInt (signed : bool) (bits : N) (z : Z)
| SFloat (bits : N) (f : spec_float)
| SChar (c : N)
| SStr (s : str)
| SNone
| SSome (v : sval)
| SNewtype (v : sval)
| SSeq (l : list sval)
| STuple (l : list sval)
| SMap (m : list (sval * sval))
| SStruct (fs : list (str * sval))
| SVariant (name : str) (k : vkind) (payload : sval).

(* ------------------------------------------------------------------ helpers *)

(* The function argument is bound outside the `fix` (sections) so that recursive calls made
   through these helpers are seen as structural. *)
Section MapRes.
  Context {A B : Type} (f : A -> res B).
  Fixpoint map_res (l : list A) : res (list B) :=
    match l with
    | [] => ROk []
    | x :: t => res_bind (f x) (fun a => res_bind (map_res t) (fun b => ROk (a :: b)))
    end.
End MapRes.

(* indexed variant: f gets the position of the element *)
Section MapiRes.
  Context {A B : Type} (f : Z -> A -> res B).
  Fixpoint mapi_res (j : Z) (l : list A) : res (list B) :=
    match l with
    | [] => ROk []
    | x :: t => res_bind (f j x) (fun a => res_bind (mapi_res (j + 1) t) (fun b => ROk (a :: b)))
    end.
End MapiRes.

(* a visitor that takes exactly `length la` elements from a SeqAccess: too few is
   `invalid_length`, surplus elements are never looked at (ValueDeserializer::deserialize_any
   hands the SeqDeserializer over without calling `end()`) *)
Section ZipRes.
  Context {A B C : Type} (f : A -> B -> res C).
  Fixpoint zip_res (la : list A) (lb : list B) : res (list C) :=
    match la with
    | [] => ROk []
    | a :: la' =>
        match lb with
        | [] => RErr ErrMsg
        | b :: lb' => res_bind (f a b) (fun c => res_bind (zip_res la' lb') (fun cs => ROk (c :: cs)))
        end
    end.
End ZipRes.

(* first element (with its position) satisfying p, handed to f; none: error *)
Section FindRes.
  Context {A C : Type} (p : Z -> A -> bool) (f : A -> res C).
  Fixpoint find_res (j : Z) (l : list A) : res C :=
    match l with
    | [] => RErr ErrMsg
    | x :: t => if p j x then f x else find_res (j + 1) t
    end.
End FindRes.

(* ------------------------------------------------------------------ integers and floats *)

Definition bits_ok (bits : N) : bool :=
  (bits =? 8)%N || (bits =? 16)%N || (bits =? 32)%N || (bits =? 64)%N || (bits =? 128)%N.

Definition int_fits (sg : bool) (bits : N) (z : Z) : bool :=
  if sg then (- 2 ^ (Z.of_N bits - 1) <=? z) && (z <? 2 ^ (Z.of_N bits - 1))
  else (0 <=? z) && (z <? 2 ^ Z.of_N bits).

(* serialize_{i8,i16,i32,i64} -> I64; serialize_{u8..u64} -> U64; serialize_i128 -> I128;
   serialize_u128 -> U128 (ser.rs 27-65; the 128-bit calls are never narrowed) *)
Definition int_rep (sg : bool) (bits : N) : irep :=
  if (bits =? 128)%N then (if sg then I128 else U128) else (if sg then I64 else U64).

(* IEEE round-to-nearest-even of a finite value into (prec, emax); `as f32`, `as f64` *)
Definition round_to (prec emax : Z) (f : spec_float) : spec_float :=
  match f with
  | S754_finite s m e => binary_round prec emax s m e
  | _ => f
  end.
(* `x as f32` for x : f64, written as the f64 it widens to (widening is exact) *)
Definition f32_of (f : spec_float) : spec_float := round_to 53 1024 (round_to 24 128 f).
Definition int_to_f64 (z : Z) : spec_float := binary_normalize 53 1024 z 0 false.
Definition int_to_f32 (z : Z) : spec_float := round_to 53 1024 (binary_normalize 24 128 z 0 false).

Definition float_fits (bits : N) (f : spec_float) : bool :=
  if (bits =? 32)%N then sf_eqb_syn (f32_of f) f else true.

(* ------------------------------------------------------------------ typing *)

Fixpoint find_variant (n : str) (vs : list (str * (vkind * ty))) : option (vkind * ty) :=
  match vs with
  | [] => None
  | vr :: t => if str_eqb n (fst vr) then Some (snd vr) else find_variant n t
  end.

(* v is a value of the Rust type described by t *)
Inductive has_type : sval -> ty -> Prop :=
| HT_unit : has_type SUnit TUnit
| HT_unit_struct : has_type SUnitStruct TUnitStruct
| HT_bool b : has_type (SBool b) TBool
| HT_int sg bits z : bits_ok bits = true -> int_fits sg bits z = true -> has_type (SInt sg bits z) (TInt sg bits)
| HT_float bits f : float_fits bits f = true -> has_type (SFloat bits f) (TFloat bits)
| HT_char c : has_type (SChar c) TChar
| HT_str s : has_type (SStr s) TString
| HT_none t : has_type SNone (TOption t)
| HT_some v t : has_type v t -> has_type (SSome v) (TOption t)
| HT_newtype v t : has_type v t -> has_type (SNewtype v) (TNewtype t)
| HT_seq l t : Forall (fun x => has_type x t) l -> has_type (SSeq l) (TSeq t)
| HT_tuple l ts : Forall2 has_type l ts -> has_type (STuple l) (TTuple ts)
| HT_map m kt vt :
    Forall (fun e : sval * sval => has_type (fst e) kt /\ has_type (snd e) vt) m ->
    NoDup (map fst m) ->                      (* a Rust map holds a key once *)
    has_type (SMap m) (TMap kt vt)
| HT_struct xs fs :
    Forall2 (fun (x : str * sval) (f : str * ty) => fst x = fst f /\ has_type (snd x) (snd f)) xs fs ->
    has_type (SStruct xs) (TStruct fs)
| HT_variant n k p pt vs :
    find_variant n vs = Some (k, pt) -> has_type p pt -> (k = VKUnit -> p = SUnit) ->
    has_type (SVariant n k p) (TEnum vs).

(* a predicate that holds at every node of a type *)
Section TyAll.
  Variable p : ty -> bool.
  Fixpoint ty_all (t : ty) : bool :=
    p t &&
    match t with
    | TOption t' | TNewtype t' | TSeq t' => ty_all t'
    | TTuple ts => forallb ty_all ts
    | TMap k v => ty_all k && ty_all v
    | TStruct fs => forallb (fun f : str * ty => ty_all (snd f)) fs
    | TEnum vs => forallb (fun vr : str * (vkind * ty) => ty_all (snd (snd vr))) vs
    | _ => true
    end.
End TyAll.

(* types whose values are written as `none`: (), unit structs, options, newtypes of those *)
Fixpoint none_like (t : ty) : bool :=
  match t with
  | TUnit | TUnitStruct | TOption _ => true
  | TNewtype t' => none_like t'
  | _ => false
  end.
(* the property's exclusion "an option directly inside an option", in full: under an Option there
   is no type that is itself written as `none` (Some(None), Some(()) and None are all `none`) *)
Definition no_none_like_under_option : ty -> bool :=
  ty_all (fun t => match t with TOption t' => negb (none_like t') | _ => true end).

Fixpoint str_nodupb (l : list str) : bool :=
  match l with
  | [] => true
  | x :: t => negb (existsb (str_eqb x) t) && str_nodupb t
  end.
Definition shape_ok (k : vkind) (pt : ty) : bool :=
  match k, pt with
  | VKUnit, TUnit => true
  | VKNewtype, _ => true
  | VKTuple, TTuple _ => true
  | VKStruct, TStruct _ => true
  | _, _ => false
  end.
(* the description is one of a Rust type: field names distinct, variant payloads of their shape *)
Definition names_ok : ty -> bool :=
  ty_all (fun t => match t with
                   | TStruct fs => str_nodupb (map fst fs)
                   | TEnum vs => forallb (fun vr : str * (vkind * ty) => shape_ok (fst (snd vr)) (snd (snd vr))) vs
                   | _ => true
                   end).

(* key types all of whose values MapKeySerializer accepts *)
Fixpoint key_ty_ok (t : ty) : bool :=
  match t with
  | TBool | TInt _ _ | TChar | TString => true
  | TNewtype t' => key_ty_ok t'
  | TEnum vs => forallb (fun vr : str * (vkind * ty) => match fst (snd vr) with VKUnit => true | _ => false end) vs
  | _ => false
  end.
Definition keys_ok : ty -> bool :=
  ty_all (fun t => match t with TMap k _ => key_ty_ok k | _ => true end).

(* key types none of whose values it accepts *)
Fixpoint key_ty_bad (t : ty) : bool :=
  match t with
  | TUnit | TUnitStruct | TFloat _ | TSeq _ | TTuple _ | TMap _ _ | TStruct _ => true
  | TNewtype t' | TOption t' => key_ty_bad t'
  | TEnum vs => forallb (fun vr : str * (vkind * ty) => match fst (snd vr) with VKUnit => false | _ => true end) vs
  | _ => false
  end.

(* what the documentation calls a key: bool, integer, char, string, unit variant (through Some
   and newtype wrappers) — written independently of ser_key *)
Fixpoint admissible_key (k : sval) : bool :=
  match k with
  | SBool _ | SInt _ _ _ | SChar _ | SStr _ => true
  | SVariant _ VKUnit _ => true
  | SSome x | SNewtype x => admissible_key x
  | _ => false
  end.

(* ------------------------------------------------------------------ serialisation *)

(* MapKeySerializer (ser.rs 271-467): bool, every integer width, char, str, unit variants are
   keys; `Some(x)` and a newtype struct pass their content through; everything else is
   "map key must be string, integer, or bool" *)
Fixpoint ser_key (v : sval) : res key :=
  match v with
  | SBool b => ROk (KBool b)
  | SInt sg bits z => ROk (KInt (int_rep sg bits) z)
  | SChar c => ROk (KStr [c] true)
  | SStr s => ROk (KStr s true)
  | SSome x => ser_key x
  | SNewtype x => ser_key x
  | SVariant n VKUnit _ => ROk (KStr n false)
  | _ => RErr ErrMsg
  end.

(* HashMap::insert: an equal key keeps its place (and the old key object), the value is replaced *)
Fixpoint map_insert (k : key) (x : value) (m : list (key * value)) : list (key * value) :=
  match m with
  | [] => [(k, x)]
  | (k', x') :: t => if fkey_eqb k' k then (k', x) :: t else (k', x') :: map_insert k x t
  end.
Definition build_map (es : list (key * value)) : list (key * value) :=
  fold_left (fun acc e => map_insert (fst e) (snd e) acc) es [].

(* ValueSerializer (ser.rs 11-262, 469-541) *)
Fixpoint ser (v : sval) : res value :=
  match v with
  | SUnit | SUnitStruct | SNone => ROk VNone
  | SBool b => ROk (VBool b)
  | SInt sg bits z => ROk (VInt (int_rep sg bits) z)
  | SFloat _ f => ROk (VFloat f)
  | SChar c => ROk (VStr [c] false)
  | SStr s => ROk (VStr s false)
  | SSome x => ser x
  | SNewtype x => ser x
  | SSeq l => res_bind (map_res ser l) (fun xs => ROk (VArr xs))
  | STuple l => res_bind (map_res ser l) (fun xs => ROk (VArr xs))
  | SMap m =>
      res_bind (map_res (fun e : sval * sval =>
                           res_bind (ser_key (fst e)) (fun k =>
                           res_bind (ser (snd e)) (fun x => ROk (k, x)))) m)
               (fun es => ROk (VMap (build_map es)))
  | SStruct fs =>
      res_bind (map_res (fun e : str * sval =>
                           res_bind (ser (snd e)) (fun x => ROk (KStr (fst e) false, x))) fs)
               (fun es => ROk (VMap (build_map es)))
  | SVariant n k p =>
      match k with
      | VKUnit => ROk (VStr n false)
      | _ => res_bind (ser p) (fun x => ROk (VMap [(KStr n false, x)]))
      end
  end.

(* ------------------------------------------------------------------ a Value sent through serde again *)

(* `impl Serialize for Key` (key.rs 156-171) handed to MapKeySerializer (that is what
   SerializeMap::serialize_key does with it): Bool -> serialize_bool -> Key::Bool; U64/I64/U128/I128
   -> serialize_{u64,i64,u128,i128} -> the same variant; String and Str -> serialize_str ->
   Key::String (an owned key, equal to the one it came from) *)
Definition rekey (k : key) : key :=
  match k with
  | KBool b => KBool b
  | KInt r z => KInt r z
  | KStr s _ => KStr s true
  end.

(* `impl Serialize for Value` (value/mod.rs 1062-1093) handed to ValueSerializer: what
   `Value::try_from_serializable(&value)` / `Context::insert(k, &value)` produce.
     None | Undefined -> serialize_unit  -> None        (undefined becomes none)
     Bool             -> serialize_bool  -> Bool
     U64/I64/U128/I128-> serialize_{u64,i64,u128,i128} -> the same variant
     F64              -> serialize_f64   -> F64
     Bytes            -> serialize_bytes -> Bytes
     String           -> serialize_str   -> a NORMAL string (the safe flag is not carried)
     Array            -> serialize_seq, every element again through ValueSerializer
     Map              -> serialize_map, serialize_entry(key, value) per entry, inserted into a fresh Map *)
Fixpoint reser (v : value) : res value :=
  match v with
  | VUndef | VNone => ROk VNone
  | VBool b => ROk (VBool b)
  | VInt r z => ROk (VInt r z)
  | VFloat f => ROk (VFloat f)
  | VStr s _ => ROk (VStr s false)
  | VBytes b => ROk (VBytes b)
  | VArr l => res_bind (map_res reser l) (fun xs => ROk (VArr xs))
  | VMap m =>
      res_bind (map_res (fun e : key * value =>
                           res_bind (reser (snd e)) (fun x => ROk (rekey (fst e), x))) m)
               (fun es => ROk (VMap (build_map es)))
  end.

(* the data-model term `impl Serialize for Value` emits, for values without byte strings (the
   grammar `sval` has no bytes): reser v = ser (to_sval v) there (Proofs/ReserProofs.v) *)
Definition irep_sval (r : irep) (z : Z) : sval :=
  match r with
  | U64 => SInt false 64 z | I64 => SInt true 64 z
  | U128 => SInt false 128 z | I128 => SInt true 128 z
  end.
Definition key_to_sval (k : key) : sval :=
  match k with
  | KBool b => SBool b
  | KInt r z => irep_sval r z
  | KStr s _ => SStr s
  end.
Fixpoint to_sval (v : value) : sval :=
  match v with
  | VUndef | VNone => SUnit
  | VBool b => SBool b
  | VInt r z => irep_sval r z
  | VFloat f => SFloat 64 f
  | VStr s _ => SStr s
  | VBytes _ => SUnit      (* not expressible: excluded by `bytes_free` wherever to_sval is used *)
  | VArr l => SSeq (map to_sval l)
  | VMap m => SMap (map (fun e : key * value => (key_to_sval (fst e), to_sval (snd e))) m)
  end.

(* what re-serialisation does to a value, written without the serialiser: undefined -> none, the
   safe flag is cleared, string keys become owned keys; everything else stays *)
Fixpoint renorm (v : value) : value :=
  match v with
  | VUndef => VNone
  | VStr s _ => VStr s false
  | VArr l => VArr (map renorm l)
  | VMap m => VMap (map (fun e : key * value => (rekey (fst e), renorm (snd e))) m)
  | _ => v
  end.

(* equality of values that ignores only the String/Str distinction of keys (which `Key: Eq`,
   `Hash`, `Ord`, `Display` and `as_value` all ignore) *)
Definition key_same (a b : key) : bool :=
  match a, b with
  | KBool x, KBool y => Bool.eqb x y
  | KInt r x, KInt r' y => irep_eqb r r' && Z.eqb x y
  | KStr s _, KStr t _ => str_eqb s t
  | _, _ => false
  end.
Section All2V.
  Context {A B : Type} (f : A -> B -> bool).
  Fixpoint all2v (la : list A) (lb : list B) : bool :=
    match la with
    | [] => match lb with [] => true | _ => false end
    | a :: la' => match lb with [] => false | b :: lb' => f a b && all2v la' lb' end
    end.
End All2V.
Fixpoint value_same (a b : value) {struct a} : bool :=
  match a, b with
  | VUndef, VUndef | VNone, VNone => true
  | VBool x, VBool y => Bool.eqb x y
  | VInt r x, VInt r' y => irep_eqb r r' && Z.eqb x y
  | VFloat x, VFloat y => sf_eqb_syn x y
  | VStr s f, VStr s' f' => str_eqb s s' && Bool.eqb f f'
  | VBytes x, VBytes y => list_eqb N.eqb x y
  | VArr l, VArr l' => all2v value_same l l'
  | VMap m, VMap m' =>
      all2v (fun (e e' : key * value) => key_same (fst e) (fst e') && value_same (snd e) (snd e')) m m'
  | _, _ => false
  end.

(* ------------------------------------------------------------------ deserialisation *)

(* which Deserializer impl the target type is talking to *)
Inductive dkind :=
| DValue     (* impl Deserializer for Value        : T::deserialize(value)  *)
| DRef       (* impl Deserializer for &Value       : T::deserialize(&value) *)
| DInner.    (* ValueDeserializer: elements, map keys/values, the content of Some *)

Inductive codever := Pinned | Fixed.

(* Key::as_value (key.rs 41-51) *)
Definition key_as_value (k : key) : value :=
  match k with
  | KBool b => VBool b
  | KInt r z => VInt r z
  | KStr s _ => VStr s false
  end.

Definition is_option (t : ty) : bool := match t with TOption _ => true | _ => false end.

(* ---- acceptance table of the primitive visitors (serde_core de/impls.rs 376-533) *)

(* (), and a derived unit struct: visit_unit only *)
Definition de_unit (ok : sval) (v : value) : res sval :=
  match v with VUndef | VNone => ROk ok | _ => RErr ErrMsg end.

Definition de_bool (v : value) : res sval :=
  match v with VBool b => ROk (SBool b) | _ => RErr ErrMsg end.

(* i8..i64, u8..u64 accept visit_i64 / visit_u64 when the number fits and nothing else (the
   default visit_i128 / visit_u128 are errors); i128 and u128 accept all four when it fits *)
Definition de_int (sg : bool) (bits : N) (v : value) : res sval :=
  match v with
  | VInt r z =>
      let wide_src := match r with U128 | I128 => true | _ => false end in
      if wide_src && negb (bits =? 128)%N then RErr ErrMsg
      else if int_fits sg bits z then ROk (SInt sg bits z) else RErr ErrMsg
  | _ => RErr ErrMsg
  end.

(* f32/f64 accept visit_f64 (`as`), visit_i64 and visit_u64 (`as`, rounding); not the 128-bit ones *)
Definition de_float (bits : N) (v : value) : res sval :=
  match v with
  | VFloat f => ROk (SFloat bits (if (bits =? 32)%N then f32_of f else f))
  | VInt U64 z | VInt I64 z =>
      ROk (SFloat bits (if (bits =? 32)%N then int_to_f32 z else int_to_f64 z))
  | _ => RErr ErrMsg
  end.

(* char: visit_str with exactly one character *)
Definition de_char (v : value) : res sval :=
  match v with VStr [c] _ => ROk (SChar c) | _ => RErr ErrMsg end.

(* String: visit_str; also visit_bytes (what a Bytes value arrives as), accepted exactly when the
   bytes are valid UTF-8 (String::from_utf8, Model/Utf8.v), "invalid value: byte array" otherwise *)
Definition de_string (v : value) : res sval :=
  match v with
  | VStr s _ => ROk (SStr s)
  | VBytes b => match Utf8.utf8_decode b with Some s => ROk (SStr s) | None => RErr ErrMsg end
  | _ => RErr ErrMsg
  end.

(* ---- derived struct visitor, visit_map: a key is a field identifier when it arrives as
   visit_str (the field's name; unknown names are ignored) or visit_u64 (the field's index);
   any other key kind is an error.  A field met twice is an error; a field never met is an
   error unless its type is Option (serde's `missing_field`). *)
Definition ident_key_ok (k : key) : bool :=
  match k with KStr _ _ | KInt U64 _ => true | _ => false end.
Definition key_names (k : key) (n : str) (j : Z) : bool :=
  match k with
  | KStr s _ => str_eqb s n
  | KInt U64 z => z =? j
  | _ => false
  end.

Section De.
  Variable cv : codever.

  (* does this Deserializer have deserialize_option / deserialize_enum of its own?
     (de.rs 49-98 ValueDeserializer, 200-219 Value; 228-241 &Value forwards them) *)
  Definition own_option_enum (d : dkind) : bool :=
    match d, cv with DRef, Pinned => false | _, _ => true end.
  (* deserialize_newtype_struct: before D14 every impl ends in ValueDeserializer's
     forward_to_deserialize_any (de.rs 100-104) *)
  Definition own_newtype : bool := match cv with Fixed => true | Pinned => false end.

  Fixpoint de (t : ty) (d : dkind) (v : value) {struct t} : res sval :=
    match t with
    | TUnit => de_unit SUnit v
    | TUnitStruct => de_unit SUnitStruct v
    | TBool => de_bool v
    | TInt sg bits => de_int sg bits v
    | TFloat bits => de_float bits v
    | TChar => de_char v
    | TString => de_string v
    | TOption t' =>
        (* OptionVisitor: visit_unit/visit_none -> None, visit_some(d) -> T::deserialize(d) *)
        match v with
        | VUndef | VNone => ROk SNone
        | _ => if own_option_enum d
               then res_bind (de t' DInner v) (fun x => ROk (SSome x))
               else RErr ErrMsg
        end
    | TNewtype t' =>
        (* derived newtype visitor: visit_newtype_struct(d) -> T::deserialize(d); visit_seq -> the
           first element; nothing else *)
        if own_newtype then res_bind (de t' DInner v) (fun x => ROk (SNewtype x))
        else match v with
             | VArr (x :: _) => res_bind (de t' DInner x) (fun y => ROk (SNewtype y))
             | _ => RErr ErrMsg
             end
    | TSeq t' =>
        match v with
        | VArr l => res_bind (map_res (de t' DInner) l) (fun xs => ROk (SSeq xs))
        | _ => RErr ErrMsg
        end
    | TTuple ts =>
        match v with
        | VArr l => res_bind (zip_res (fun t' x => de t' DInner x) ts l) (fun xs => ROk (STuple xs))
        | _ => RErr ErrMsg
        end
    | TMap kt vt =>
        match v with
        | VMap m =>
            res_bind (map_res (fun e : key * value =>
                                 res_bind (de kt DInner (key_as_value (fst e))) (fun k =>
                                 res_bind (de vt DInner (snd e)) (fun x => ROk (k, x)))) m)
                     (fun es => ROk (SMap es))
        | _ => RErr ErrMsg
        end
    | TStruct fs =>
        match v with
        | VMap m =>
            if forallb (fun e : key * value => ident_key_ok (fst e)) m then
              res_bind (mapi_res (fun j (f : str * ty) =>
                          match filter (fun e : key * value => key_names (fst e) (fst f) j) m with
                          | [] => if is_option (snd f) then ROk (fst f, SNone) else RErr ErrMsg
                          | [e] => res_bind (de (snd f) DInner (snd e)) (fun x => ROk (fst f, x))
                          | _ => RErr ErrMsg
                          end) 0 fs)
                       (fun xs => ROk (SStruct xs))
            else RErr ErrMsg
        | VArr l =>
            (* visit_seq: the fields in declaration order *)
            res_bind (zip_res (fun (f : str * ty) x =>
                                 res_bind (de (snd f) DInner x) (fun y => ROk (fst f, y))) fs l)
                     (fun xs => ROk (SStruct xs))
        | _ => RErr ErrMsg
        end
    | TEnum vs =>
        if own_option_enum d then
          (* deserialize_enum (de.rs 59-98): a string is a variant without content, a map with
             exactly one entry is variant + content *)
          let dispatch (tag : value) (params : option value) : res sval :=
            (* the variant identifier is read from a `Value` (deserialize_identifier ->
               deserialize_any): visit_str = name, visit_u64 = index *)
            find_res (fun j (vr : str * (vkind * ty)) =>
                        match tag with
                        | VStr s _ => str_eqb s (fst vr)
                        | VInt U64 z => z =? j
                        | _ => false
                        end)
                     (fun vr : str * (vkind * ty) =>
                        let n := fst vr in
                        (* VariantDeserializer (de.rs 133-183) *)
                        match fst (snd vr), params with
                        | VKUnit, None => ROk (SVariant n VKUnit SUnit)
                        | VKUnit, Some p =>
                            res_bind (de_unit SUnit p) (fun _ => ROk (SVariant n VKUnit SUnit))
                        | VKNewtype, Some p =>
                            res_bind (de (snd (snd vr)) DValue p) (fun x => ROk (SVariant n VKNewtype x))
                        | VKTuple, Some (VArr l) =>
                            res_bind (de (snd (snd vr)) DInner (VArr l)) (fun x => ROk (SVariant n VKTuple x))
                        | VKStruct, Some (VMap m) =>
                            res_bind (de (snd (snd vr)) DInner (VMap m)) (fun x => ROk (SVariant n VKStruct x))
                        | _, _ => RErr ErrMsg
                        end) 0 vs in
          match v with
          | VMap [(k, p)] => dispatch (key_as_value k) (Some p)
          | VStr _ _ => dispatch v None
          | _ => RErr ErrMsg
          end
        else RErr ErrMsg   (* a derived enum visitor has visit_enum only *)
    end.
End De.

(* the two public entry points *)
Inductive entry := Owned | ByRef.
Definition dkind_of (e : entry) : dkind := match e with Owned => DValue | ByRef => DRef end.
Definition de_entry (cv : codever) (e : entry) (t : ty) (v : value) : res sval := de cv t (dkind_of e) v.

(* ------------------------------------------------------------------ Context (context.rs 25-68) *)

Definition ctx := list (str * value).     (* BTreeMap<Cow<str>, Value>: compared through ctx_get *)

Fixpoint ctx_insert (k : str) (x : value) (c : ctx) : ctx :=
  match c with
  | [] => [(k, x)]
  | (k', x') :: t => if str_eqb k' k then (k', x) :: t else (k', x') :: ctx_insert k x t
  end.
Fixpoint ctx_get (k : str) (c : ctx) : option value :=
  match c with
  | [] => None
  | (k', x) :: t => if str_eqb k' k then Some x else ctx_get k t
  end.

(* the `to_string()` of a key (context.rs 34-42) *)
Definition key_to_string (k : key) : str :=
  match k with
  | KBool b => if b then s_true else s_false
  | KInt _ z => dec z
  | KStr s _ => s
  end.

Definition ctx_of_entries (m : list (key * value)) (c : ctx) : ctx :=
  fold_left (fun acc e => ctx_insert (key_to_string (fst e)) (snd e) acc) m c.

(* Context::from_serialize: serialise, demand a map, insert entry by entry *)
Definition from_serialize (v : sval) : res ctx :=
  res_bind (ser v) (fun x =>
    match x with
    | VMap m => ROk (ctx_of_entries m [])
    | _ => RErr ErrMsg
    end).
(* Context::insert: Value::from_serializable unwraps — a refused value is a panic *)
Definition insert (k : str) (v : sval) (c : ctx) : res ctx :=
  match ser v with
  | ROk x => ROk (ctx_insert k x c)
  | RErr _ => RErr ErrPanic
  end.
Definition insert_value (k : str) (x : value) (c : ctx) : ctx := ctx_insert k x c.

(* Context::insert(k, &value) with T = Value: the value goes through serde again *)
Definition insert_reser (k : str) (x : value) (c : ctx) : res ctx :=
  match reser x with
  | ROk y => ROk (ctx_insert k y c)
  | RErr _ => RErr ErrPanic
  end.
