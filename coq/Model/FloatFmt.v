(* `{:?}` of an f64 (what Value::format writes for a float, value/mod.rs 497-502), by its contract:
     core::fmt::float::float_to_general_debug (no precision): scientific notation when
       |x| >= 1e16 or 0 < |x| < 1e-4, positional notation with at least one fractional digit
       otherwise; "NaN", "inf", "-inf"; the sign of a zero is printed;
     core::num::flt2dec::strategy::{grisu,dragon}::format_shortest: the SHORTEST digit string
       that reads back as the same f64 (free-format algorithm of Steele-White / Burger-Dybvig),
       the closest such string when there are several, the upper one on a tie;
     flt2dec::digits_to_dec_str (frac_digits = 1) / digits_to_exp_str (min_ndigits = 0, 'e').
   Rust std is MODELLED here (not translated: Grisu's fast path is proved by its authors to give
   Dragon's digits whenever it answers).  Everything is exact integer arithmetic.
   Executable definitions only. *)
From TeraV Require Import Model.Value.
Open Scope Z_scope.

(* compare d * 10^k with b * 2^e (d, b >= 0), by cross-multiplying with the positive factors *)
Definition cmp_dec_bin (d k b e : Z) : comparison :=
  Z.compare (d * 10 ^ (Z.max k 0) * 2 ^ (Z.max (- e) 0))
            (b * 10 ^ (Z.max (- k) 0) * 2 ^ (Z.max e 0)).

(* the decimal point position p of v = b * 2^e > 0:  10^(p-1) <= v < 10^p.
   Estimate from the binary logarithm, then corrected by exact comparisons. *)
Fixpoint adjust_up (fuel : nat) (p b e : Z) : Z :=
  match fuel with
  | O => p
  | S f => match cmp_dec_bin 1 p b e with
           | Gt => p                       (* 10^p > v *)
           | _ => adjust_up f (p + 1) b e
           end
  end.
Fixpoint adjust_down (fuel : nat) (p b e : Z) : Z :=
  match fuel with
  | O => p
  | S f => match cmp_dec_bin 1 (p - 1) b e with
           | Gt => adjust_down f (p - 1) b e   (* 10^(p-1) > v *)
           | _ => p
           end
  end.
Definition dec_point (b e : Z) : Z :=
  let est := ((Z.log2 b + e) * 30103) / 100000 in
  adjust_down 8 (adjust_up 8 est b e) b e.

(* floor (b * 2^e / 10^k) *)
Definition floor_scaled (b e k : Z) : Z :=
  (b * 2 ^ (Z.max e 0) * 10 ^ (Z.max (- k) 0)) / (2 ^ (Z.max (- e) 0) * 10 ^ (Z.max k 0)).

(* decimal digits of a non-negative integer, most significant first *)
Fixpoint digits_go (fuel : nat) (n : Z) (acc : list Z) : list Z :=
  match fuel with
  | O => acc
  | S f => if n <? 10 then n :: acc else digits_go f (n / 10) (n mod 10 :: acc)
  end.
Definition digits_of (n : Z) : list Z := digits_go (S (Z.to_nat (Z.log2 n))) n [].

Fixpoint strip_zeros_rev (l : list Z) : list Z :=
  match l with 0 :: t => strip_zeros_rev t | _ => l end.
Definition strip_trailing_zeros (l : list Z) : list Z := rev (strip_zeros_rev (rev l)).

(* format_shortest for the positive finite float m * 2^e (m: the 53-bit, or subnormal,
   significand).  Result: (digits, exp) with value = 0.d1 d2 ... dn * 10^exp, d1 <> 0.
   With everything scaled by 4: v = 4m, the rounding interval is [4m - minus, 4m + 2] * 2^(e-2),
   minus = 1 at a binade boundary (the gap below is half the gap above), 2 otherwise; the ends
   belong to the interval iff m is even (they read back to an even significand). *)
Fixpoint shortest_go (fuel : nat) (n : Z) (p mm mv mp e2 : Z) (incl : bool) : option (Z * Z) :=
  match fuel with
  | O => None
  | S f =>
      let k := p - n in
      let lo := floor_scaled mv e2 k in
      (* down: lo * 10^k is inside the interval; up: (lo+1) * 10^k is *)
      let down := match cmp_dec_bin lo k mm e2 with Gt => true | Eq => incl | Lt => false end in
      let up := match cmp_dec_bin (lo + 1) k mp e2 with Lt => true | Eq => incl | Gt => false end in
      if down || up then
        (* both possible: the closer one, the upper one on a tie: 2 v >= (2 lo + 1) 10^k *)
        let upper_closer := match cmp_dec_bin (2 * lo + 1) k (2 * mv) e2 with Gt => false | _ => true end in
        Some (if up && (negb down || upper_closer) then lo + 1 else lo, k)
      else shortest_go f (n + 1) p mm mv mp e2 incl
  end.

Definition two52 : Z := 4503599627370496.

Definition shortest (m : positive) (e : Z) : option (list Z * Z) :=
  let mz := Zpos m in
  let mv := 4 * mz in
  let minus := if (mz =? two52) && (-1074 <? e) then 1 else 2 in
  let e2 := e - 2 in
  let p := dec_point mv e2 in
  match shortest_go 20 1 p (mv - minus) mv (mv + 2) e2 (Z.even mz) with
  | None => None
  | Some (d, k) =>
      let ds := digits_of d in
      Some (strip_trailing_zeros ds, Z.of_nat (length ds) + k)
  end.

Definition dchar (d : Z) : N := Z.to_N (48 + d).
Definition zeros (n : Z) : str := repeat 48%N (Z.to_nat n).

(* {} of a (small) integer: the exponent of the scientific form *)
Definition int_str (z : Z) : str :=
  (if z <? 0 then [45%N] else []) ++ map dchar (digits_of (Z.abs z)).

(* digits_to_dec_str with frac_digits = 1 *)
Definition dec_str (ds : list Z) (exp : Z) : str :=
  let n := Z.of_nat (length ds) in
  if exp <=? 0 then [48; 46]%N ++ zeros (- exp) ++ map dchar ds
  else if exp <? n then
    map dchar (firstn (Z.to_nat exp) ds) ++ [46%N] ++ map dchar (skipn (Z.to_nat exp) ds)
  else map dchar ds ++ zeros (exp - n) ++ [46; 48]%N.

(* digits_to_exp_str with min_ndigits = 0, lower-case e *)
Definition exp_str (ds : list Z) (exp : Z) : str :=
  match ds with
  | [] => []
  | d :: rest =>
      [dchar d] ++ (match rest with [] => [] | _ => 46%N :: map dchar rest end)
      ++ [101%N] ++ int_str (exp - 1)
  end.

Definition s_nan : str := [78; 97; 78]%N.
Definition s_inf : str := [105; 110; 102]%N.
Definition s_unprintable : str := [60; 102; 54; 52; 58; 63; 62]%N.   (* "<f64:?>": out of fuel, never *)

Definition fmt_f64_debug (x : spec_float) : str :=
  match x with
  | S754_nan => s_nan
  | S754_infinity s => (if s then [45%N] else []) ++ s_inf
  | S754_zero s => (if s then [45%N] else []) ++ [48; 46; 48]%N
  | S754_finite s m e =>
      (if s then [45%N] else []) ++
      match shortest m e with
      | None => s_unprintable
      | Some (ds, exp) =>
          (* |x| >= 1e16  or  |x| < 1e-4 (the f64 nearest to 10^-4 lies above it and its
             predecessor below: the test on the exact value is the test on the floats) *)
          let ge16 := match cmp_dec_bin 1 16 (Zpos m) e with Gt => false | _ => true end in
          let lt_4 := match cmp_dec_bin 1 (-4) (Zpos m) e with Gt => true | _ => false end in
          if ge16 || lt_4 then exp_str ds exp else dec_str ds exp
      end
  end.
