(* Model of equality, ordering and key lookup (C15):
     tera/src/value/mod.rs  229-271  cmp_f64_to_number / cmp_f64_to_i128 / cmp_f64_to_u128
                            273-301  impl PartialEq for Value
                            306-345  impl PartialOrd for Value
                            347-373  impl Ord for Value  (with fixes/D2-total-order.patch applied;
                                     the unrepaired impl is kept as [vcmp_unfixed])
                            860-871  as_key      873-893 contains
                            896-914  get_attr    917-927 get_item (map arm)
     tera/src/value/key.rs  84-140   PartialEq / Ord / Hash for Key
                            206-310  KeyNumber (from_key, PartialEq, Ord, Hash), type_order
     tera/src/filters.rs    572-584  get          tera/src/tests.rs 157-173 is_containing
   Executable definitions only.  Rank tables come from Gen/OrderTables.v (T-gen). *)
From Coq Require Import List ZArith NArith Bool.
From TeraV Require Import Model.Value Gen.OrderTables.
Import ListNotations.
Open Scope Z_scope.

(* ------------------------------------------------------------------ generic list operations.
   The element function is a section variable, so each definition is `fun f => fix ...` and
   can be used for nested recursion over [value]. *)
Section ListOps.
  Context {A B : Type}.
  Variable c : A -> B -> comparison.
  Variable pc : A -> B -> option comparison.
  Variable e : A -> B -> bool.

  (* Ord for [T] / Vec<T> (core::slice::cmp): lexicographic, shorter prefix first *)
  Fixpoint list_cmp (l : list A) (l' : list B) : comparison :=
    match l, l' with
    | [], [] => Eq
    | [], _ :: _ => Lt
    | _ :: _, [] => Gt
    | x :: t, y :: t' => match c x y with Eq => list_cmp t t' | r => r end
    end.

  (* PartialOrd for [T]: `match a.partial_cmp(b) { Some(Equal) => continue, non_eq => return non_eq }`
     then the lengths *)
  Fixpoint list_pcmp (l : list A) (l' : list B) : option comparison :=
    match l, l' with
    | [], [] => Some Eq
    | [], _ :: _ => Some Lt
    | _ :: _, [] => Some Gt
    | x :: t, y :: t' => match pc x y with Some Eq => list_pcmp t t' | r => r end
    end.

  (* PartialEq for [T]: equal lengths and pairwise eq *)
  Fixpoint list_eq2 (l : list A) (l' : list B) : bool :=
    match l, l' with
    | [], [] => true
    | x :: t, y :: t' => e x y && list_eq2 t t'
    | _, _ => false
    end.
End ListOps.

Section All.
  Context {A : Type}.
  Variable p : A -> bool.
  Fixpoint all_b (l : list A) : bool :=
    match l with [] => true | x :: t => p x && all_b t end.
End All.

Definition bool_cmp (a b : bool) : comparison :=
  match a, b with
  | false, true => Lt | true, false => Gt | _, _ => Eq
  end.

Definition is_eq (o : option comparison) : bool :=
  match o with Some Eq => true | _ => false end.

(* ------------------------------------------------------------------ f64 comparisons.
   A binary64 datum is NaN, an infinity, or m * 2^e (zeros are 0 * 2^0; the sign of a zero never
   matters to a comparison).  IEEE-754 comparison of two finite data is the comparison of the
   represented rationals, done here exactly on Z after scaling to the smaller exponent. *)
Inductive fcls := FNaN | FInf (neg : bool) | FFin (m e : Z).

Definition fcls_of (f : spec_float) : fcls :=
  match f with
  | S754_nan => FNaN
  | S754_infinity s => FInf s
  | S754_zero _ => FFin 0 0
  | S754_finite s m e => FFin (if s then Zneg m else Zpos m) e
  end.

Definition dy_cmp (m1 e1 m2 e2 : Z) : comparison :=
  let k := Z.min e1 e2 in Z.compare (m1 * 2 ^ (e1 - k)) (m2 * 2 ^ (e2 - k)).

(* f64::partial_cmp *)
Definition f64_pcmp (a b : spec_float) : option comparison :=
  match fcls_of a, fcls_of b with
  | FNaN, _ | _, FNaN => None
  | FInf s1, FInf s2 => Some (bool_cmp s2 s1)
  | FInf s, FFin _ _ => Some (if s then Lt else Gt)
  | FFin _ _, FInf s => Some (if s then Gt else Lt)
  | FFin m1 e1, FFin m2 e2 => Some (dy_cmp m1 e1 m2 e2)
  end.

Definition f64_is_nan (a : spec_float) : bool :=
  match a with S754_nan => true | _ => false end.

(* x.floor() as an integer, and `x > x.floor()` *)
Definition fin_floor (m e : Z) : Z := if 0 <=? e then m * 2 ^ e else m / 2 ^ (- e).
Definition fin_has_frac (m e : Z) : bool := if 0 <=? e then false else negb (m mod 2 ^ (- e) =? 0).

(* mod.rs 237-253.  `i128::MIN as f64` = -2^127, `i128::MAX as f64` = 2^127 (rounds up).
   The infinities are decided by the two range tests, so `floor as i128` never saturates. *)
Definition cmp_f64_to_i128 (x : spec_float) (n : Z) : comparison :=
  match fcls_of x with
  | FNaN => Gt
  | FInf neg => if neg then Lt else Gt
  | FFin m e =>
      if match dy_cmp m e (- two127) 0 with Lt => true | _ => false end then Lt
      else if match dy_cmp m e two127 0 with Lt => false | _ => true end then Gt
      else match Z.compare (fin_floor m e) n with
           | Eq => if fin_has_frac m e then Gt else Eq
           | ord => ord
           end
  end.

(* mod.rs 255-271.  `u128::MAX as f64` = 2^128 *)
Definition cmp_f64_to_u128 (x : spec_float) (n : Z) : comparison :=
  match fcls_of x with
  | FNaN => Gt
  | FInf neg => if neg then Lt else Gt
  | FFin m e =>
      if match dy_cmp m e 0 0 with Lt => true | _ => false end then Lt
      else if match dy_cmp m e two128 0 with Lt => false | _ => true end then Gt
      else match Z.compare (fin_floor m e) n with
           | Eq => if fin_has_frac m e then Gt else Eq
           | ord => ord
           end
  end.

(* mod.rs 229-235 *)
Definition cmp_f64_to_number (x : spec_float) (other : value) : option comparison :=
  match as_i128 other with
  | Some n => Some (cmp_f64_to_i128 x n)
  | None => option_map (cmp_f64_to_u128 x) (as_u128 other)
  end.

(* ------------------------------------------------------------------ keys (key.rs) *)
Inductive keynum := Signed (z : Z) | Unsigned (z : Z).

Definition key_as_str (k : key) : option str :=
  match k with KStr s _ => Some s | _ => None end.

(* KeyNumber::from_key (212-222) *)
Definition key_as_number (k : key) : option keynum :=
  match k with
  | KInt U64 z | KInt U128 z => Some (Unsigned z)
  | KInt I64 z | KInt I128 z => Some (Signed z)
  | _ => None
  end.

(* PartialEq for KeyNumber (245-266) *)
Definition keynum_eq (a b : keynum) : bool :=
  match a, b with
  | Signed a, Signed b => a =? b
  | Unsigned a, Unsigned b => a =? b
  | Signed a, Unsigned b => if a <? 0 then false else a =? b
  | Unsigned a, Signed b => if b <? 0 then false else a =? b
  end.

(* Ord for KeyNumber (270-291) *)
Definition keynum_cmp (a b : keynum) : comparison :=
  match a, b with
  | Signed a, Signed b => a ?= b
  | Unsigned a, Unsigned b => a ?= b
  | Signed a, Unsigned b => if a <? 0 then Lt else a ?= b
  | Unsigned a, Signed b => if b <? 0 then Gt else a ?= b
  end.

(* what `Hash` feeds the hasher, as a list of typed writes *)
Inductive htok := HU8 (n : N) | HU128 (z : Z) | HI128 (z : Z) | HStrTok (s : str).

(* Hash for KeyNumber (293-310) *)
Definition keynum_hash (a : keynum) : list htok :=
  match a with
  | Signed v => if v <? 0 then [HU8 1; HI128 v] else [HU8 0; HU128 v]
  | Unsigned v => [HU8 0; HU128 v]
  end.

Definition key_kind (k : key) : keykind :=
  match k with
  | KBool _ => KkBool
  | KInt U64 _ => KkU64 | KInt I64 _ => KkI64 | KInt U128 _ => KkU128 | KInt I128 _ => KkI128
  | KStr _ true => KkString | KStr _ false => KkStr
  end.

(* PartialEq for Key (84-98) *)
Definition key_eq (a b : key) : bool :=
  match key_as_str a, key_as_str b with
  | Some x, Some y => str_eqb x y
  | _, _ =>
      match a, b with
      | KBool x, KBool y => Bool.eqb x y
      | _, _ =>
          match key_as_number a, key_as_number b with
          | Some l, Some r => keynum_eq l r
          | _, _ => false
          end
      end
  end.

(* Ord for Key (108-123); str::cmp is bytewise on UTF-8 = lexicographic on scalar values *)
Definition key_cmp (a b : key) : comparison :=
  match key_as_str a, key_as_str b with
  | Some x, Some y => list_cmp N.compare x y
  | _, _ =>
      match a, b with
      | KBool x, KBool y => bool_cmp x y
      | _, _ =>
          match key_as_number a, key_as_number b with
          | Some l, Some r => keynum_cmp l r
          | _, _ => N.compare (key_type_order (key_kind a)) (key_type_order (key_kind b))
          end
      end
  end.

(* Hash for Key (125-140) *)
Definition key_hash (k : key) : list htok :=
  match key_as_str k with
  | Some s => [HStrTok s]
  | None =>
      match k with
      | KBool v => [HU8 (if v then 1 else 0)%N]
      | _ => match key_as_number k with Some n => keynum_hash n | None => [] end
      end
  end.

(* normal form of a key: what Eq/Ord/Hash actually depend on *)
Inductive nkey := NKBool (b : bool) | NKNum (z : Z) | NKStr (s : str).

Definition key_norm (k : key) : nkey :=
  match k with KBool b => NKBool b | KInt _ z => NKNum z | KStr s _ => NKStr s end.

Definition nkey_hash (k : nkey) : list htok :=
  match k with
  | NKBool v => [HU8 (if v then 1 else 0)%N]
  | NKNum z => if z <? 0 then [HU8 1; HI128 z] else [HU8 0; HU128 z]
  | NKStr s => [HStrTok s]
  end.

Definition key_wf (k : key) : bool :=
  match k with KInt r z => rep_ok r z | _ => true end.

(* Value::as_key (860-871): strings become Key::String (owned) *)
Definition as_key (v : value) : option key :=
  match v with
  | VBool b => Some (KBool b)
  | VInt r z => Some (KInt r z)
  | VStr s _ => Some (KStr s true)
  | _ => None
  end.

(* From<Key> for Value / Key::as_value (41-51) *)
Definition key_to_value (k : key) : value :=
  match k with
  | KBool b => VBool b
  | KInt r z => VInt r z
  | KStr s _ => VStr s false
  end.

(* ------------------------------------------------------------------ HashMap<Key, V> as an
   association list in an arbitrary order.  Invariant kept by HashMap: no two stored keys are
   `==` ([keys_distinct]).  Lookup compares with Key::eq. *)
Section MapOps.
  Context {V : Type}.

  Fixpoint map_get (m : list (key * V)) (k : key) : option V :=
    match m with
    | [] => None
    | (k', v) :: t => if key_eq k' k then Some v else map_get t k
    end.

  (* HashMap::insert: an equal key keeps the stored key and replaces the value *)
  Fixpoint map_insert (m : list (key * V)) (k : key) (v : V) : list (key * V) :=
    match m with
    | [] => [(k, v)]
    | (k', v') :: t => if key_eq k' k then (k', v) :: t else (k', v') :: map_insert t k v
    end.

  Definition map_from_list (l : list (key * V)) : list (key * V) :=
    fold_left (fun m kv => map_insert m (fst kv) (snd kv)) l [].

  (* entries sorted by key (Key::cmp): insertion sort; keys of one map are pairwise distinct so
     any sorting algorithm gives the same list *)
  Fixpoint kinsert (x : key * V) (l : list (key * V)) : list (key * V) :=
    match l with
    | [] => [x]
    | y :: t => match key_cmp (fst x) (fst y) with
                | Gt => y :: kinsert x t
                | _ => x :: l
                end
    end.
  Definition ksort (l : list (key * V)) : list (key * V) := fold_right kinsert [] l.
End MapOps.

Fixpoint keys_distinct (ks : list key) : bool :=
  match ks with
  | [] => true
  | k :: t => negb (existsb (key_eq k) t) && keys_distinct t
  end.

(* ------------------------------------------------------------------ PartialEq for Value *)
Definition opt_z_eqb (a b : option Z) : bool :=
  match a, b with
  | Some x, Some y => x =? y
  | None, None => true
  | _, _ => false
  end.

(* the integer/integer arm of eq (290-297) *)
Definition int_eq (a b : value) : bool :=
  match as_u128 a, as_u128 b with
  | Some x, Some y => x =? y
  | None, None => opt_z_eqb (as_i128 a) (as_i128 b)
  | _, _ => false
  end.

(* (F64, F64) arm of eq (287): both NaN, or IEEE `==` *)
Definition f64_eq (a b : spec_float) : bool :=
  (f64_is_nan a && f64_is_nan b) || is_eq (f64_pcmp a b).

Fixpoint veq (a b : value) {struct a} : bool :=
  match a, b with
  | VUndef, VUndef => true
  | VNone, VNone => true
  | VBool x, VBool y => Bool.eqb x y
  | VArr l, VArr l' => list_eq2 veq l l'
  | VBytes x, VBytes y => list_eq2 N.eqb x y
  | VStr s _, VStr s' _ => list_eq2 N.eqb s s'
  (* HashMap::eq: same len, every entry of self found in other with an equal value *)
  | VMap m, VMap m' =>
      Nat.eqb (length m) (length m') &&
      all_b (fun kv : key * value =>
               match map_get m' (fst kv) with Some v' => veq (snd kv) v' | None => false end) m
  | VFloat x, VFloat y => f64_eq x y
  | VFloat x, _ => is_eq (cmp_f64_to_number x b)
  | _, VFloat y => is_eq (cmp_f64_to_number y a)
  | VInt _ _, VInt _ _ => int_eq a b
  | _, _ => false
  end.

(* ------------------------------------------------------------------ PartialOrd for Value *)
(* (F64, F64) arm (317-326): NaN sorts last, NaN = NaN *)
Definition f64_total_cmp (a b : spec_float) : comparison :=
  match f64_pcmp a b with
  | Some o => o
  | None => match f64_is_nan a, f64_is_nan b with
            | false, true => Lt
            | true, false => Gt
            | _, _ => Eq
            end
  end.

(* integer/integer arm (329-341) *)
Definition int_pcmp (a b : value) : option comparison :=
  match as_u128 a, as_u128 b with
  | Some x, Some y => Some (x ?= y)
  | Some _, None => Some Gt
  | None, Some _ => Some Lt
  | None, None =>
      match as_i128 a, as_i128 b with
      | Some x, Some y => Some (x ?= y)
      | _, _ => None
      end
  end.

Fixpoint vpcmp (a b : value) {struct a} : option comparison :=
  match a, b with
  | VUndef, VUndef => Some Eq
  | VNone, VNone => Some Eq
  | VBool x, VBool y => Some (bool_cmp x y)
  | VArr l, VArr l' => list_pcmp vpcmp l l'
  | VBytes x, VBytes y => Some (list_cmp N.compare x y)
  | VStr s _, VStr s' _ => Some (list_cmp N.compare s s')
  | VFloat x, VFloat y => Some (f64_total_cmp x y)
  | VFloat x, _ => cmp_f64_to_number x b
  | _, VFloat y => option_map CompOpp (cmp_f64_to_number y a)
  | VInt _ _, VInt _ _ => int_pcmp a b
  | _, _ => None
  end.

(* ------------------------------------------------------------------ Ord for Value *)
Definition rank (v : value) : N := value_type_order (kind_of v).

(* the impl as it was before fixes/D2-total-order.patch: partial_cmp, else the kind rank *)
Definition vcmp_unfixed (a b : value) : comparison :=
  match vpcmp a b with
  | Some r => r
  | None => N.compare (rank a) (rank b)
  end.

(* (&Key, &Value) tuples compare lexicographically *)
Definition entry_cmp {X Y : Type} (vc : X -> Y -> comparison) (x : key * X) (y : key * Y) : comparison :=
  match key_cmp (fst x) (fst y) with
  | Eq => vc (snd x) (snd y)
  | r => r
  end.

(* the repaired impl: arrays lexicographic by `cmp`, maps as their key-sorted entry lists, every
   other pair as before.  (For the termination check the left map is first turned into a list of
   (key, `cmp value`) closures, which is then sorted by key exactly like the right one.) *)
Fixpoint vcmp (a b : value) {struct a} : comparison :=
  match a, b with
  | VArr l, VArr l' => list_cmp vcmp l l'
  | VMap m, VMap m' =>
      list_cmp (entry_cmp (fun (f : value -> comparison) (y : value) => f y))
               (ksort (map (fun kv : key * value => (fst kv, vcmp (snd kv))) m))
               (ksort m')
  | _, _ =>
      match vpcmp a b with
      | Some r => r
      | None => N.compare (rank a) (rank b)
      end
  end.

(* ------------------------------------------------------------------ well-formed values: what a
   tera::Value can be.  Integers fit their variant; no two keys of a map are equal. *)
Fixpoint wfb (v : value) : bool :=
  match v with
  | VInt r z => rep_ok r z
  | VArr l => all_b wfb l
  | VMap m =>
      all_b key_wf (map fst m) && keys_distinct (map fst m) &&
      all_b (fun kv : key * value => wfb (snd kv)) m
  | _ => true
  end.
Definition wf (v : value) : Prop := wfb v = true.

(* ------------------------------------------------------------------ lookups *)
(* get_attr (896-914): scan up to the cutoff, hash lookup with Key::Str beyond *)
Fixpoint attr_scan (m : list (key * value)) (attr : str) : option value :=
  match m with
  | [] => None
  | (k, v) :: t =>
      match key_as_str k with
      | Some s => if str_eqb s attr then Some v else attr_scan t attr
      | None => attr_scan t attr
      end
  end.
Definition attr_hash (m : list (key * value)) (attr : str) : option value :=
  map_get m (KStr attr false).

Definition get_attr (v : value) (attr : str) : option value :=
  match v with
  | VMap m => if Nat.leb (length m) attr_scan_cutoff then attr_scan m attr else attr_hash m attr
  | _ => None
  end.

(* get_item, map arm (919-927) *)
Definition get_item_map (m : list (key * value)) (item : value) : res value :=
  match as_key item with
  | Some k => ROk (match map_get m k with Some v => v | None => VUndef end)
  | None => RErr ErrMsg
  end.

Fixpoint is_prefix (p s : str) : bool :=
  match p, s with
  | [], _ => true
  | a :: p', b :: s' => N.eqb a b && is_prefix p' s'
  | _ :: _, [] => false
  end.
(* str::contains *)
Fixpoint str_contains (s p : str) : bool :=
  is_prefix p s || match s with [] => false | _ :: t => str_contains t p end.

(* contains (873-893); slice::contains compares `element == needle` *)
Definition contains (c needle : value) : res bool :=
  match c with
  | VArr l => ROk (existsb (fun x => veq x needle) l)
  | VStr s _ => ROk (match needle with VStr p _ => str_contains s p | _ => false end)
  | VMap m => ROk (match as_key needle with
                   | Some k => match map_get m k with Some _ => true | None => false end
                   | None => false
                   end)
  | _ => RErr ErrMsg
  end.

(* the VM instructions around them (interpreter.rs 198-244, 747-758) *)
Definition vm_subscript_map (optional : bool) (val sub : value) : res value :=
  if optional && (is_undefined val || is_none val) then ROk VUndef
  else if is_undefined val then RErr ErrRender
  else if is_undefined sub then RErr ErrRender
  else match val with
       | VMap m => match get_item_map m sub with ROk v => ROk v | RErr _ => RErr ErrRender end
       | _ => RErr ErrOther   (* other receivers: Model/Slice.v *)
       end.

Definition vm_load_attr (optional : bool) (val : value) (attr : str) : res value :=
  if optional && (is_undefined val || is_none val) then ROk VUndef
  else if is_undefined val then RErr ErrRender
  else ROk (match get_attr val attr with Some v => v | None => VUndef end).

Definition vm_in (needle container : value) : res value :=
  match contains container needle with
  | ROk b => ROk (VBool b)
  | RErr _ => RErr ErrRender
  end.

(* filters.rs get (572-584): key must be a string argument *)
Definition filter_get (m : list (key * value)) (key : value) (default : option value) : res value :=
  match key with
  | VStr s _ =>
      match map_get m (KStr s false) with
      | Some v => ROk v
      | None => match default with Some d => ROk d | None => RErr ErrMsg end
      end
  | _ => RErr ErrMsg
  end.

(* tests.rs is_containing (157-173) *)
Definition test_containing (v pat : value) : res bool :=
  match v with
  | VStr s _ => match pat with VStr p _ => ROk (str_contains s p) | _ => RErr ErrMsg end
  | VArr l => ROk (existsb (fun x => veq x pat) l)
  | VMap m => ROk (match as_key pat with
                   | Some k => match map_get m k with Some _ => true | None => false end
                   | None => false
                   end)
  | _ => RErr ErrMsg
  end.

(* `a < b` etc. in templates (interpreter.rs 89-103): partial_cmp or a rendering error *)
Definition vm_lt (a b : value) : res value :=
  match vpcmp a b with
  | Some o => ROk (VBool (match o with Lt => true | _ => false end))
  | None => RErr ErrRender
  end.
Definition vm_eq (a b : value) : res value := ROk (VBool (veq a b)).
