(* Model of the collection filters (C16):
     tera/src/filters.rs   379-400  length, reverse, split
                           453-480  first, last, nth, join
                           482-537  ensure_comparable, sort
                           539-555  unique
                           557-570  values, keys, pairs
                           586-613  group_by
     tera/src/value/mod.rs 754-783  get_from_path       808-848 len, reverse
     tera/src/args.rs      82-100   int_from_value (the `n` of nth)
   Executable definitions only.  Orderings come from Model/Order.v. *)
From Coq Require Import List ZArith NArith Bool.
From TeraV Require Import Model.Value Model.Order.
Import ListNotations.
Open Scope Z_scope.

(* ------------------------------------------------------------------ get_from_path.
   The attribute string is split on '.'; an element that parses as usize indexes an array,
   any other element looks up a map with Key::Str.  The harness hands over the path already
   split and classified (str::split / usize::from_str are below the model). *)
Inductive seg := SegIdx (n : nat) | SegName (s : str).

Fixpoint path_walk (cur : value) (path : list seg) : option value :=
  match path with
  | [] => Some cur
  | SegIdx n :: rest =>
      match cur with
      | VArr l => match nth_error l n with Some v => path_walk v rest | None => None end
      | _ => None
      end
  | SegName s :: rest =>
      match cur with
      | VMap m => match map_get m (KStr s false) with Some v => path_walk v rest | None => None end
      | _ => None
      end
  end.

Definition get_from_path (v : value) (path : list seg) : option value :=
  match v with
  | VUndef => None
  | VNone => Some v
  | _ => path_walk v path
  end.

(* ------------------------------------------------------------------ sort *)
(* slice::sort_by (stable) as an insertion sort: an element goes in front of the first element
   that is not smaller (`Greater` is the only answer that moves it further) *)
Section SortBy.
  Context {A : Type}.
  Variable key : A -> value.
  Fixpoint insert_by (x : A) (l : list A) : list A :=
    match l with
    | [] => [x]
    | y :: t => match vcmp (key x) (key y) with
                | Gt => y :: insert_by x t
                | _ => x :: l
                end
    end.
  Definition sort_by (l : list A) : list A := fold_right insert_by [] l.
End SortBy.

(* ensure_comparable (484-501): neighbours only; a `none` on either side is skipped *)
Fixpoint ensure_comparable (keys : list value) : bool :=
  match keys with
  | [] => true
  | prev :: t =>
      match t with
      | [] => true
      | key :: _ =>
          let skippable := is_none prev || is_none key in
          if negb skippable && match vpcmp prev key with None => true | Some _ => false end
          then false
          else ensure_comparable t
      end
  end.

(* decorate: every element must have the attribute *)
Fixpoint decorate (path : list seg) (l : list value) : option (list (value * value)) :=
  match l with
  | [] => Some []
  | v :: t =>
      match get_from_path v path with
      | None => None
      | Some k => match decorate path t with Some d => Some ((k, v) :: d) | None => None end
      end
  end.

Definition filter_sort (l : list value) (attribute : option (list seg)) : res (list value) :=
  match l with
  | [] => ROk []
  | _ =>
      match attribute with
      | Some path =>
          match decorate path l with
          | None => RErr ErrMsg
          | Some d =>
              let s := sort_by fst d in
              if ensure_comparable (map fst s) then ROk (map snd s) else RErr ErrMsg
          end
      | None =>
          let out := sort_by (fun v => v) l in
          if ensure_comparable out then ROk out else RErr ErrMsg
      end
  end.

(* ------------------------------------------------------------------ unique (539-555).
   BTreeSet<Value>: membership is "some stored element compares Equal" *)
Definition cmp_is_eq (c : comparison) : bool := match c with Eq => true | _ => false end.

Fixpoint unique_go (seen : list value) (l : list value) : list value :=
  match l with
  | [] => []
  | v :: t =>
      if existsb (fun s => cmp_is_eq (vcmp v s)) seen then unique_go seen t
      else v :: unique_go (v :: seen) t
  end.
Definition filter_unique (l : list value) : list value := unique_go [] l.

(* ------------------------------------------------------------------ group_by (586-613).
   HashMap<Key, Vec<Value>> as an association list in insertion order; an equal key keeps the
   stored key *)
Fixpoint group_push (g : list (key * list value)) (k : key) (v : value) : list (key * list value) :=
  match g with
  | [] => [(k, [v])]
  | (k', vs) :: t => if key_eq k' k then (k', vs ++ [v]) :: t else (k', vs) :: group_push t k v
  end.

Fixpoint group_go (path : list seg) (g : list (key * list value)) (l : list value)
  : res (list (key * list value)) :=
  match l with
  | [] => ROk g
  | v :: t =>
      match get_from_path v path with
      | None => RErr ErrMsg
      | Some x =>
          if is_none x then group_go path g t
          else match as_key x with
               | None => RErr ErrMsg
               | Some k => group_go path (group_push g k v) t
               end
      end
  end.

Definition filter_group_by (l : list value) (path : list seg) : res value :=
  match l with
  | [] => ROk (VMap [])
  | _ => match group_go path [] l with
         | ROk g => ROk (VMap (map (fun kv => (fst kv, VArr (snd kv))) g))
         | RErr e => RErr e
         end
  end.

(* ------------------------------------------------------------------ element access *)
Definition filter_first (l : list value) : value :=
  match l with [] => VNone | x :: _ => x end.
Definition filter_last (l : list value) : value := last l VNone.

(* args.rs int_from_value::<usize>: integers that fit, floats with no fractional part *)
Definition arg_usize (v : value) : option Z :=
  match v with
  | VInt _ z => if in_u64 z then Some z else None
  | VFloat f =>
      match fcls_of f with
      | FFin m e =>
          if fin_has_frac m e then None
          else let z := fin_floor m e in if in_u64 z then Some z else None
      | _ => None
      end
  | _ => None
  end.

Definition filter_nth (l : list value) (n : value) : res value :=
  match arg_usize n with
  | None => RErr ErrMsg
  | Some z =>
      (* slice::get: in range or None (the comparison also keeps Z.to_nat small when evaluating) *)
      ROk (if z <? Z.of_nat (length l)
           then match nth_error l (Z.to_nat z) with Some x => x | None => VNone end
           else VNone)
  end.

(* Value::len (808-825) and the length filter *)
Definition filter_length (v : value) : res value :=
  match v with
  | VMap m => ROk (VInt U64 (Z.of_nat (length m)))
  | VArr l => ROk (VInt U64 (Z.of_nat (length l)))
  | VBytes b => ROk (VInt U64 (Z.of_nat (length b)))
  | VStr s _ => ROk (VInt U64 (Z.of_nat (length s)))
  | _ => RErr ErrMsg
  end.

(* Value::reverse (828-848): the result of reversing a string is a normal string *)
Definition filter_reverse (v : value) : res value :=
  match v with
  | VArr l => ROk (VArr (rev l))
  | VBytes b => ROk (VArr (map (fun x => VInt U64 (Z.of_N x)) (rev b)))
  | VStr s _ => ROk (VStr (rev s) false)
  | _ => RErr ErrMsg
  end.

(* ------------------------------------------------------------------ keys / values / pairs:
   in the iteration order of the map (the association list) *)
Definition filter_keys (m : list (key * value)) : list value := map (fun kv => key_to_value (fst kv)) m.
Definition filter_values (m : list (key * value)) : list value := map snd m.
Definition filter_pairs (m : list (key * value)) : list value :=
  map (fun kv => VArr [key_to_value (fst kv); snd kv]) m.

(* ------------------------------------------------------------------ join / split on strings *)
(* [T]::join(sep) of the formatted elements; [fmt] renders one element *)
Section Join.
  Variable sep : str.
  Fixpoint join_strs (l : list str) : str :=
    match l with
    | [] => []
    | [x] => x
    | x :: t => x ++ sep ++ join_strs t
    end.
End Join.

(* str::split(pat): non-overlapping matches from the left; the empty pattern matches at every
   character boundary, the two ends included *)
Fixpoint split_go (p s cur : str) (skip : nat) : list str :=
  match s with
  | [] => [rev cur]
  | c :: t =>
      match skip with
      | S k => split_go p t cur k
      | O => if is_prefix p s then rev cur :: split_go p t [] (length p - 1)
             else split_go p t (c :: cur) 0
      end
  end.

Definition str_split (s p : str) : list str :=
  match p with
  | [] => [] :: map (fun c => [c]) s ++ [[]]
  | _ => split_go p s [] 0
  end.

Definition filter_split (v pat : value) : res value :=
  match v, pat with
  | VStr s _, VStr p _ => ROk (VArr (map (fun x => VStr x false) (str_split s p)))
  | _, _ => RErr ErrMsg
  end.

(* join on an array whose elements are strings (Display of a string is the string itself);
   other element kinds need Value::format, which is modelled under C17/C01 *)
Fixpoint strs_of (l : list value) : option (list str) :=
  match l with
  | [] => Some []
  | VStr s _ :: t => match strs_of t with Some r => Some (s :: r) | None => None end
  | _ :: _ => None
  end.

Definition filter_join (l : list value) (sep : option value) : res value :=
  match sep with
  | Some (VStr p _) =>
      match strs_of l with Some ss => ROk (VStr (join_strs p ss) false) | None => RErr ErrOther end
  | None =>
      match strs_of l with Some ss => ROk (VStr (join_strs [] ss) false) | None => RErr ErrOther end
  | Some _ => RErr ErrMsg
  end.
