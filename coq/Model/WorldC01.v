(* A concrete world for the C01 correspondence: Model/World0.v plus components
   (ComponentDefinition::build_context, parsing/ast.rs 761-850; Type::matches_value 688-706),
   the escape_html filter and a switch for the `safe` filter. World0.v is not modified. *)
From TeraV Require Import Model.Value Model.Instr Model.VFormat Model.VM Model.World0 Model.Taint Gen.Tables.
Local Open Scope nat_scope.

Definition n_escape_html : str := [101;115;99;97;112;101;95;104;116;109;108]%N.
Definition n_body : str := [98;111;100;121]%N.

Definition ty_string : str := [115;116;114;105;110;103]%N.
Definition ty_bool : str := [98;111;111;108]%N.
Definition ty_integer : str := [105;110;116;101;103;101;114]%N.
Definition ty_float : str := [102;108;111;97;116]%N.
Definition ty_number : str := [110;117;109;98;101;114]%N.
Definition ty_array : str := [97;114;114;97;121]%N.
Definition ty_map : str := [109;97;112]%N.
Definition ty_bytes : str := [98;121;116;101;115]%N.

(* Type::matches_value; None = a type name the parser would not have produced *)
Definition type_matches (ty : str) (v : value) : option bool :=
  if str_eqb ty ty_string then Some (match v with VStr _ _ => true | _ => false end)
  else if str_eqb ty ty_bool then Some (match v with VBool _ => true | _ => false end)
  else if str_eqb ty ty_integer then Some (match v with VInt _ _ => true | _ => false end)
  else if str_eqb ty ty_float then Some (match v with VFloat _ => true | _ => false end)
  else if str_eqb ty ty_number then Some (is_number v)
  else if str_eqb ty ty_array then Some (is_array v)
  else if str_eqb ty ty_map then Some (is_map v)
  else if str_eqb ty ty_bytes then Some (match v with VBytes _ => true | _ => false end)
  else None.

(* the declared parameters, in order; later insertions into the Context win, the result list is
   searched front to back *)
Fixpoint bind_params (ps : list (str * option str * option value)) (k : kwargs) (acc : ctx) : res ctx :=
  match ps with
  | [] => ROk acc
  | (name, ty, dflt) :: t =>
      match map_get k (KStr name false) with
      | Some v =>
          match match ty with Some ty => type_matches ty v | None => Some true end with
          | Some true => bind_params t k ((name, v) :: acc)
          | Some false => RErr ErrRender
          | None => RErr ErrPanic
          end
      | None =>
          match dflt with
          | Some d => bind_params t k ((name, d) :: acc)
          | None => RErr ErrRender
          end
      end
  end.

Definition build_ctx1 (d : comp_def) (k : kwargs) (body : option value) : res ctx :=
  let pnames := map (fun p => fst (fst p)) (cd_params d) in
  let provided := flat_map (fun kv => match key_str (fst kv) with Some s => [(s, snd kv)] | None => [] end) k in
  let unknown := filter (fun sv => negb (existsb (str_eqb (fst sv)) pnames)) provided in
  match cd_rest d, unknown with
  | None, _ :: _ => RErr ErrRender
  | _, _ =>
      res_bind (bind_params (cd_params d) k []) (fun c1 =>
        let c2 := match cd_rest d with
                  | Some rn => (rn, VMap (map (fun sv => (KStr (fst sv) true, snd sv)) unknown)) :: c1
                  | None => c1
                  end in
        ROk (match body with Some b => (n_body, b) :: c2 | None => c2 end))
  end.

Definition filter1 (with_safe : bool) (name : str) (v : value) (k : kwargs) (sc : scope)
  : option (res value * bool) :=
  if str_eqb name n_safe then
    (if with_safe then filter0 name v k sc else None)
  else if str_eqb name n_escape_html then
    Some (match v with VStr s _ => ROk (VStr (escape_html s) false) | _ => RErr ErrMsg end, false)
  else filter0 name v k sc.

Definition world1 (with_safe : bool) (fp : spec_float -> str)
           (tpls : list (str * template)) (comps : list (str * (comp_def * list instr))) : world :=
  {| w_templates := tpls;
     w_components := comps;
     w_build_ctx := build_ctx1;
     w_filter := filter1 with_safe;
     w_test := test0;
     w_function := fun _ _ _ => None;
     w_escape := escape_html;
     w_format := format_with fp;
     w_math := fun _ _ _ => RErr ErrOther;
     w_negate := fun _ => RErr ErrOther;
     w_cmp := vcmp0;
     w_eq := veq0;
     w_contains := contains0;
     w_as_key := as_key;
     w_map_get := map_get;
     w_get_attr := get_attr;
     w_max_depth := Z.to_nat max_component_recursion_depth |}.

(* ---------- custom escape functions (Tera::set_escape_fn) used by the C01 harness ---------- *)

Inductive esc_kind := EscDefault | EscMarker | EscJs | EscId.

Definition mk_open : N := 10214%N.     (* U+27E6 *)
Definition mk_close : N := 10215%N.    (* U+27E7 *)
(* marks every call: the input wrapped, nothing rewritten *)
Definition escape_marker (s : str) : str := mk_open :: s ++ [mk_close].
(* a JS-string escaper in the \xNN style: backslash, slash, both quotes, newline *)
Definition escape_js_char (c : N) : str :=
  if (c =? 92)%N then [92; 120; 53; 67]%N
  else if (c =? 47)%N then [92; 120; 50; 70]%N
  else if (c =? 34)%N then [92; 120; 50; 50]%N
  else if (c =? 39)%N then [92; 120; 50; 55]%N
  else if (c =? 10)%N then [92; 120; 48; 65]%N
  else [c].
Definition escape_js (s : str) : str := flat_map escape_js_char s.

Definition escape_of (k : esc_kind) : str -> str :=
  match k with
  | EscDefault => escape_html
  | EscMarker => escape_marker
  | EscJs => escape_js
  | EscId => fun s => s
  end.

Definition with_escape (wd : world) (f : str -> str) : world :=
  {| w_templates := w_templates wd; w_components := w_components wd; w_build_ctx := w_build_ctx wd;
     w_filter := w_filter wd; w_test := w_test wd; w_function := w_function wd;
     w_escape := f; w_format := w_format wd; w_math := w_math wd;
     w_negate := w_negate wd; w_cmp := w_cmp wd; w_eq := w_eq wd; w_contains := w_contains wd;
     w_as_key := w_as_key wd; w_map_get := w_map_get wd; w_get_attr := w_get_attr wd;
     w_max_depth := w_max_depth wd |}.

(* defaults of a component definition carry no dirty flagged string *)
Definition def_ok_b (d : comp_def) : bool :=
  forallb (fun p => match snd p with Some v => vok ok_html v | None => true end) (cd_params d).

(* the float placeholder of Model/VFormat.v; floats are never generated in printed positions *)
Definition fp_placeholder (_ : spec_float) : str := [102;54;52]%N.
