(* The instruction set (tera/src/parsing/instructions.rs 9-130) and chunks. *)
From TeraV Require Import Model.Value.

Inductive instr :=
| LoadConst (v : value)
| LoadName (n : str)
| LoadAttr (a : str)
| LoadAttrOpt (a : str)
| BinarySubscript | BinarySubscriptOpt
| Slice | SliceOpt
| WriteText (t : str)
| WriteTop
| SetI (n : str) | SetGlobal (n : str)
| Include (n : str)
| BuildMap (k : nat) | BuildList (k : nat)
| BuildMapWithSpreads (f : list bool) | BuildListWithSpreads (f : list bool)
| CallFunction (n : str)
| RenderInlineComponent (n : str) | RenderBodyComponent (n : str)
| ApplyFilter (n : str) | RunTest (n : str)
| RenderBlock (n : str)
| Jump (t : nat) | PopJumpIfFalse (t : nat) | JumpIfFalseOrPop (t : nat) | JumpIfTrueOrPop (t : nat)
| Capture | EndCapture
| StartIterate (kv : bool) | StartIterateComprehension (kv : bool)
| Iterate (t : nat)
| StoreLocal (n : str)
| StoreDidNotIterate
| Break
| PopLoop
| AppendToList
| Mul | Div | FloorDiv | Mod | Plus | Minus | Power
| LessThan | GreaterThan | LessThanOrEqual | GreaterThanOrEqual | Equal | NotEqual
| StrConcat | InOp
| Not | Negative
| LoadPath (p : list str)
| WritePath (p : list str).

(* spans are opaque identifiers here (Model/Report.v gives them structure) *)
Definition span_id := N.
Definition chunk := list (instr * list span_id).

Definition target_of (i : instr) : option nat :=
  match i with
  | Jump t | PopJumpIfFalse t | JumpIfFalseOrPop t | JumpIfTrueOrPop t | Iterate t => Some t
  | _ => None
  end.

Definition set_target (i : instr) (t : nat) : instr :=
  match i with
  | Jump _ => Jump t
  | PopJumpIfFalse _ => PopJumpIfFalse t
  | JumpIfFalseOrPop _ => JumpIfFalseOrPop t
  | JumpIfTrueOrPop _ => JumpIfTrueOrPop t
  | Iterate _ => Iterate t
  | i => i
  end.

Definition bool_list_eqb := list_eqb Bool.eqb.
Definition path_eqb := list_eqb str_eqb.

(* syntactic equality of instructions, for the correspondence files *)
Definition instr_eqb (a b : instr) : bool :=
  match a, b with
  | LoadConst x, LoadConst y => value_eqb_syn x y
  | LoadName x, LoadName y | LoadAttr x, LoadAttr y | LoadAttrOpt x, LoadAttrOpt y
  | WriteText x, WriteText y | SetI x, SetI y | SetGlobal x, SetGlobal y | Include x, Include y
  | CallFunction x, CallFunction y | RenderInlineComponent x, RenderInlineComponent y
  | RenderBodyComponent x, RenderBodyComponent y | ApplyFilter x, ApplyFilter y
  | RunTest x, RunTest y | RenderBlock x, RenderBlock y | StoreLocal x, StoreLocal y => str_eqb x y
  | BuildMap x, BuildMap y | BuildList x, BuildList y
  | Jump x, Jump y | PopJumpIfFalse x, PopJumpIfFalse y | JumpIfFalseOrPop x, JumpIfFalseOrPop y
  | JumpIfTrueOrPop x, JumpIfTrueOrPop y | Iterate x, Iterate y => Nat.eqb x y
  | BuildMapWithSpreads x, BuildMapWithSpreads y
  | BuildListWithSpreads x, BuildListWithSpreads y => bool_list_eqb x y
  | StartIterate x, StartIterate y | StartIterateComprehension x, StartIterateComprehension y => Bool.eqb x y
  | LoadPath x, LoadPath y | WritePath x, WritePath y => path_eqb x y
  | BinarySubscript, BinarySubscript | BinarySubscriptOpt, BinarySubscriptOpt
  | Slice, Slice | SliceOpt, SliceOpt | WriteTop, WriteTop | Capture, Capture
  | EndCapture, EndCapture | StoreDidNotIterate, StoreDidNotIterate | Break, Break
  | PopLoop, PopLoop | AppendToList, AppendToList | Mul, Mul | Div, Div | FloorDiv, FloorDiv
  | Mod, Mod | Plus, Plus | Minus, Minus | Power, Power | LessThan, LessThan
  | GreaterThan, GreaterThan | LessThanOrEqual, LessThanOrEqual
  | GreaterThanOrEqual, GreaterThanOrEqual | Equal, Equal | NotEqual, NotEqual
  | StrConcat, StrConcat | InOp, InOp | Not, Not | Negative, Negative => true
  | _, _ => false
  end.

Definition chunk_eqb (a b : chunk) : bool :=
  list_eqb (fun x y => instr_eqb (fst x) (fst y) && list_eqb N.eqb (snd x) (snd y)) a b.
