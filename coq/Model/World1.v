(* The FULL concrete world for Model/VM.v: every field of `world` is the per-property model of the
   Rust function the VM delegates to (World0.v has toys in their place):
     arithmetic, negation                     Model/Number.v        (C13)
     ==, partial_cmp, contains, as_key,
       Map::get, get_attr                     Model/Order.v         (C15)
     sort, unique, group_by (+ get_from_path) Model/CollFilters.v   (C16)
     every other built-in filter, the tests,
       range / throw, ArgFromValue, Kwargs    Model/Builtins.v      (C17)
     ComponentDefinition::build_context       Model/Component.v     (C05)
     Value::format                            Model/Format.v        (C19), with its three oracles
       instantiated: `{:?}` of f64 = Model/FloatFmt.v, `{:?}` of str = VFormat.debug_str,
       from_utf8_lossy = Utf8.utf8_decode on well-formed bytes
     escape_html                              Model/VFormat.v over Gen/Tables.v (C01)
   Glue only: name dispatch (tera.rs 432-492), conversion of the kwargs map to the list
   Builtins.v reads, conversion of VM.comp_def to Component.comp_def, splitting of an attribute
   path (`str::split('.')`, `usize::from_str`) for get_from_path.
   A cell no model covers (f64::powf, str::parse::<f64>, non-ASCII case mapping, 10f64.powi(p)
   outside 1..22, lossy decoding of ill-formed bytes) never gets a normal-looking answer: filters
   and tests answer None there (the VM then fails with ErrPanic, which the engine never reports),
   `**` answers ErrOther where the engine cannot fail.
   Executable definitions only. *)
From Coq Require Import String Ascii.
From TeraV Require Import Model.Value Model.Instr Model.VM Gen.Tables Gen.TypeTables Gen.SafeTables.
From TeraV Require Model.VFormat Model.Format Model.FloatFmt Model.Utf8 Model.Number Model.Order
  Model.CollFilters Model.Builtins Model.Component.
Local Open Scope nat_scope.

(* ------------------------------------------------------------------ Value::format *)

Definition s_ill_formed_bytes : str :=
  Builtins.s2l "<unmodelled:from_utf8_lossy of ill-formed bytes>".

(* String::from_utf8_lossy: the decoded text when the bytes are well-formed UTF-8 *)
Definition blossy1 (b : list N) : str :=
  match Utf8.utf8_decode b with Some s => s | None => s_ill_formed_bytes end.

Definition format1 : value -> str :=
  Format.format FloatFmt.fmt_f64_debug VFormat.debug_str blossy1.

(* ------------------------------------------------------------------ arithmetic (C13) *)

Definition binop_of (i : instr) : option Number.binop :=
  match i with
  | Plus => Some Number.OpAdd | Minus => Some Number.OpSub | Mul => Some Number.OpMul
  | Div => Some Number.OpDiv | FloorDiv => Some Number.OpFloorDiv | Mod => Some Number.OpRem
  | Power => Some Number.OpPow
  | _ => None
  end.

(* value::number::{add,sub,mul,div,floor_div,rem,pow}; f64::powf is not modelled: ErrOther *)
Definition math1 (i : instr) (a b : value) : res value :=
  match binop_of i with
  | None => RErr ErrPanic
  | Some op => match Number.num_binop op a b with
               | Some r => r
               | None => RErr ErrOther
               end
  end.

Definition negate1 (a : value) : res value :=
  match Number.num_negate a with Some r => r | None => RErr ErrOther end.

(* ------------------------------------------------------------------ kwargs *)

(* the kwargs map as Builtins.v reads it: Kwargs::get looks a name up with Key::Str, which only a
   string key can equal *)
Definition kw_strs (k : kwargs) : Builtins.kwargs :=
  flat_map (fun kv => match fst kv with KStr s _ => [(s, snd kv)] | _ => [] end) k.

Definition of_berr (e : Builtins.berr) : errc :=
  match e with Builtins.EPanic => ErrPanic | _ => ErrMsg end.
Definition of_bres {A} (r : Builtins.bres A) : res A :=
  match r with Builtins.BOk a => ROk a | Builtins.BErr e => RErr (of_berr e) end.

Definition n_of (s : string) : str := Builtins.s2l s.

(* ------------------------------------------------------------------ oracles of Builtins.v *)

Definition is_ascii_str (s : str) : bool := forallb (fun c => (c <? 128)%N) s.
Definition ascii_upper (c : N) : list N := [if ((97 <=? c) && (c <=? 122))%N then (c - 32)%N else c].
Definition ascii_lower (c : N) : list N := [if ((65 <=? c) && (c <=? 90))%N then (c + 32)%N else c].

(* 10.0_f64.powi(p): for 1 <= p <= 22 every partial product is a power of ten below 2^53 * 2^k
   that is exactly representable, so any multiplication order gives exactly 10^p *)
Definition pow10_1 (p : Z) : spec_float :=
  if ((1 <=? p) && (p <=? 22))%Z then Builtins.f64_of_Z (10 ^ p) else S754_nan.

Definition oracles1 : Builtins.oracles :=
  {| Builtins.o_upper := ascii_upper; Builtins.o_lower := ascii_lower;
     Builtins.o_final_sigma := fun _ _ => false; Builtins.o_pow10 := pow10_1 |}.

Definition is_case_filter (name : str) : bool :=
  str_eqb name (n_of "upper") || str_eqb name (n_of "lower")
  || str_eqb name (n_of "capitalize") || str_eqb name (n_of "title").

(* is the cell inside what oracles1 really computes? *)
Definition oracle_cell_ok (name : str) (v : value) (kw : Builtins.kwargs) : bool :=
  if is_case_filter name then
    match v with VStr s _ => is_ascii_str s | _ => true end
  else if str_eqb name (n_of "round") then
    match Builtins.kw_find (n_of "precision") kw with
    | None => true
    | Some p => match Builtins.arg_int Builtins.TI32 p with
                | Builtins.BOk z => ((0 <=? z) && (z <=? 22))%Z
                | Builtins.BErr _ => true
                end
    end
  else true.

(* ------------------------------------------------------------------ get_from_path's path *)

Fixpoint split_dot (s cur : str) : list str :=
  match s with
  | [] => [rev cur]
  | c :: t => if (c =? 46)%N then rev cur :: split_dot t [] else split_dot t (c :: cur)
  end.

Definition is_digit (c : N) : bool := ((48 <=? c) && (c <=? 57))%N.
Fixpoint horner (acc : Z) (s : str) : Z :=
  match s with [] => acc | c :: t => horner (10 * acc + (Z.of_N c - 48))%Z t end.

(* usize::from_str: an optional '+', at least one digit, only digits, below 2^64 *)
Definition parse_usize (s : str) : option Z :=
  let ds := match s with 43%N :: t => t | _ => s end in
  match ds with
  | [] => None
  | _ => if forallb is_digit ds
         then let z := horner 0 ds in if (z <? two64)%Z then Some z else None
         else None
  end.

(* slice::get(idx) is None for every idx >= len: an index above 2^20 is replaced by 2^20 (the
   unary index stays small); the same answer for every array shorter than 2^20 elements *)
Definition idx_clamp : Z := 1048576.
Definition seg_of (elem : str) : CollFilters.seg :=
  match parse_usize elem with
  | Some z => CollFilters.SegIdx (Z.to_nat (Z.min z idx_clamp))
  | None => CollFilters.SegName elem
  end.
Definition parse_path (attr : str) : list CollFilters.seg := map seg_of (split_dot attr []).

(* ------------------------------------------------------------------ filters *)

(* ArgFromValue for Cow<str> / String, `format!("{value}")` *)
Definition display (v : value) : str := format1 v.

(* filters::safe (80-82) *)
Definition f_safe1 (v : value) : res value := ROk (VStr (display v) true).
(* filters::as_str (281-283) *)
Definition f_str1 (v : value) : res value := ROk (VStr (display v) false).
(* filters::join (470-478) *)
Definition f_join1 (kw : Builtins.kwargs) (v : value) : res value :=
  match v with
  | VArr l =>
      match of_bres (Builtins.kw_get Builtins.arg_str "sep" kw) with
      | RErr e => RErr e
      | ROk sep => ROk (VStr (Builtins.intercalate (Builtins.opt_or sep []) (map display l)) false)
      end
  | _ => RErr ErrMsg
  end.

(* filters::sort (501-537) *)
Definition f_sort1 (kw : Builtins.kwargs) (v : value) : res value :=
  match v with
  | VArr [] => ROk (VArr [])
  | VArr l =>
      match of_bres (Builtins.kw_get Builtins.arg_str "attribute" kw) with
      | RErr e => RErr e
      | ROk attr =>
          match CollFilters.filter_sort l (option_map parse_path attr) with
          | ROk r => ROk (VArr r)
          | RErr e => RErr e
          end
      end
  | _ => RErr ErrMsg
  end.

(* filters::unique (539-555) *)
Definition f_unique1 (v : value) : res value :=
  match v with
  | VArr l => ROk (VArr (CollFilters.filter_unique l))
  | _ => RErr ErrMsg
  end.

(* filters::group_by (586-613): the empty array answers before `attribute` is read *)
Definition f_group_by1 (kw : Builtins.kwargs) (v : value) : res value :=
  match v with
  | VArr [] => ROk (VMap [])
  | VArr l =>
      match of_bres (Builtins.kw_must Builtins.arg_str "attribute" kw) with
      | RErr e => RErr e
      | ROk attr => CollFilters.filter_group_by l (parse_path attr)
      end
  | _ => RErr ErrMsg
  end.

Definition filter_res (name : str) (v : value) (kw : Builtins.kwargs) : option (res value) :=
  if str_eqb name (n_of "safe") then Some (f_safe1 v)
  else if str_eqb name (n_of "str") then Some (f_str1 v)
  else if str_eqb name (n_of "join") then Some (f_join1 kw v)
  else if str_eqb name (n_of "sort") then Some (f_sort1 kw v)
  else if str_eqb name (n_of "unique") then Some (f_unique1 v)
  else if str_eqb name (n_of "group_by") then Some (f_group_by1 kw v)
  else if negb (oracle_cell_ok name v kw) then None
  else
    match find (fun e => str_eqb name (n_of (fst e))) (Builtins.filter_table oracles1) with
    | None => None                        (* not registered *)
    | Some (_, f) => match f kw v with
                     | Some r => Some (of_bres r)
                     | None => None       (* a cell Builtins.v leaves to an oracle *)
                     end
    end.

(* StoredFilter::is_safe: no built-in overrides it (Gen/SafeTables.v) *)
Definition filter_is_safe (name : str) : bool := existsb (str_eqb name) builtin_is_safe_overrides.

Definition filter1 (name : str) (v : value) (k : kwargs) (_ : scope) : option (res value * bool) :=
  match filter_res name v (kw_strs k) with
  | Some r => Some (r, filter_is_safe name)
  | None => None
  end.

(* ------------------------------------------------------------------ tests *)

Definition test_res (name : str) (v : value) (kw : Builtins.kwargs) : option (res bool) :=
  if str_eqb name (n_of "containing") then
    (* tests::is_containing (157-173) with Value/Key equality from Model/Order.v *)
    Some (match of_bres (Builtins.kw_must Builtins.arg_value "pat" kw) with
          | RErr e => RErr e
          | ROk p => Order.test_containing v p
          end)
  else
    match find (fun e => str_eqb name (n_of (fst e))) Builtins.test_table with
    | None => None
    | Some (_, f) => match f kw v with
                     | Some (Builtins.BOk (VBool b)) => Some (ROk b)
                     | Some (Builtins.BOk _) => Some (RErr ErrPanic)
                     | Some (Builtins.BErr e) => Some (RErr (of_berr e))
                     | None => None
                     end
    end.

Definition test1 (name : str) (v : value) (k : kwargs) : option (res bool) := test_res name v (kw_strs k).

(* ------------------------------------------------------------------ functions *)

Definition function1 (name : str) (k : kwargs) (_ : scope) : option (res value * bool) :=
  match find (fun e => str_eqb name (n_of (fst e))) Builtins.function_table with
  | None => None
  | Some (_, f) => match f (kw_strs k) with
                   | Some r => Some (of_bres r, filter_is_safe name)
                   | None => None
                   end
  end.

(* ------------------------------------------------------------------ components *)

Fixpoint type_of_name (tbl : list (list N * ctype)) (n : str) : option ctype :=
  match tbl with
  | [] => None
  | (k, t) :: r => if str_eqb k n then Some t else type_of_name r n
  end.

(* VM.comp_def -> Component.comp_def; None = a type name Type::as_str never prints *)
Fixpoint conv_params (ps : list (str * option str * option value)) : option (list Component.param) :=
  match ps with
  | [] => Some []
  | (name, ty, dflt) :: t =>
      let ty' := match ty with
                 | None => Some None
                 | Some n => match type_of_name type_names n with Some c => Some (Some c) | None => None end
                 end in
      match ty', conv_params t with
      | Some d, Some r =>
          Some ({| Component.p_name := name; Component.p_declared := d; Component.p_default := dflt |} :: r)
      | _, _ => None
      end
  end.

Definition conv_def (d : comp_def) : option Component.comp_def :=
  match conv_params (cd_params d) with
  | Some ps => Some {| Component.def_params := ps; Component.def_rest := cd_rest d |}
  | None => None
  end.

(* the `component!` macro's call of build_context: provided keys = the string keys of the kwargs
   map, lookups with Key::Str *)
Definition build_ctx1 (d : comp_def) (k : kwargs) (body : option value) : res ctx :=
  match conv_def d with
  | None => RErr ErrPanic
  | Some d' => Component.build_context d' (Component.str_keys k) (Component.kw_get k) body
  end.

(* ------------------------------------------------------------------ the world *)

Definition world1 (tpls : list (str * template)) (comps : list (str * (comp_def * list instr))) : world :=
  {| w_templates := tpls;
     w_components := comps;
     w_build_ctx := build_ctx1;
     w_filter := filter1;
     w_test := test1;
     w_function := function1;
     w_escape := VFormat.escape_html;
     w_format := format1;
     w_math := math1;
     w_negate := negate1;
     w_cmp := Order.vpcmp;
     w_eq := Order.veq;
     w_contains := Order.contains;
     w_as_key := Order.as_key;
     w_map_get := Order.map_get;
     w_get_attr := Order.get_attr;
     w_max_depth := Z.to_nat max_component_recursion_depth |}.

Definition wr_str1 (w : str) (t : str) : option str := Some (w ++ t).
