(* What a template prints for a value (C19): Value::format (value/mod.rs 476-541), format_map
   (value/mod.rs 33-58: entries sorted by key, string keys and string elements written with
   `{:?}`), Key::format / Display (value/key.rs 53-81, 142-154), and the order and equality of
   keys those use (key.rs 84-123, 206-291).
   Executable definitions only.  Two pieces of Rust `std` are oracles (parameters of the
   section): `{:?}` of an f64 and `{:?}` of a str; String::from_utf8_lossy for byte values is a
   third.  Output is a list of code points (UTF-8 encoding is below the model). *)
From TeraV Require Import Model.Value.
From Coq Require Import Decimal.

(* ------------------------------------------------------------------ keys: Eq and Ord *)

(* str::cmp is byte-wise on UTF-8, which is the lexicographic order of the scalar values *)
Fixpoint str_cmp (a b : str) : comparison :=
  match a, b with
  | [], [] => Eq
  | [], _ :: _ => Lt
  | _ :: _, [] => Gt
  | x :: a', y :: b' => match N.compare x y with Eq => str_cmp a' b' | c => c end
  end.

(* key.rs 225-231 *)
Definition fkey_rank (k : key) : Z :=
  match k with KBool _ => 0 | KInt _ _ => 1 | KStr _ _ => 2 end.

Definition bool_cmp (a b : bool) : comparison :=
  match a, b with
  | false, true => Lt | true, false => Gt | _, _ => Eq
  end.

(* impl Ord for Key (key.rs 108-123); KeyNumber::cmp (270-291) is the order of the mathematical
   values whatever the two representations are *)
Definition fkey_cmp (a b : key) : comparison :=
  match a, b with
  | KStr s _, KStr t _ => str_cmp s t
  | KBool x, KBool y => bool_cmp x y
  | KInt _ x, KInt _ y => Z.compare x y
  | _, _ => Z.compare (fkey_rank a) (fkey_rank b)
  end.

(* impl PartialEq for Key (key.rs 84-98) *)
Definition fkey_eqb (a b : key) : bool :=
  match a, b with
  | KStr s _, KStr t _ => str_eqb s t
  | KBool x, KBool y => Bool.eqb x y
  | KInt _ x, KInt _ y => Z.eqb x y
  | _, _ => false
  end.

(* slice::sort_by_key is stable: modelled as insertion sort, an element going before the
   entries it compares Equal to when inserted from the right *)
Fixpoint kinsert {A} (e : key * A) (l : list (key * A)) : list (key * A) :=
  match l with
  | [] => [e]
  | h :: t => match fkey_cmp (fst e) (fst h) with
              | Gt => h :: kinsert e t
              | _ => e :: l
              end
  end.
Definition ksort {A} (l : list (key * A)) : list (key * A) := fold_right kinsert [] l.

(* ------------------------------------------------------------------ decimal integers *)

Fixpoint str_of_uint (u : Decimal.uint) : str :=
  match u with
  | Nil => []
  | D0 u => 48%N :: str_of_uint u | D1 u => 49%N :: str_of_uint u
  | D2 u => 50%N :: str_of_uint u | D3 u => 51%N :: str_of_uint u
  | D4 u => 52%N :: str_of_uint u | D5 u => 53%N :: str_of_uint u
  | D6 u => 54%N :: str_of_uint u | D7 u => 55%N :: str_of_uint u
  | D8 u => 56%N :: str_of_uint u | D9 u => 57%N :: str_of_uint u
  end.
Definition str_of_int (i : Decimal.int) : str :=
  match i with
  | Decimal.Pos u => str_of_uint u
  | Decimal.Neg u => 45%N :: str_of_uint u
  end.
(* `{}` of u64/i64/u128/i128: the canonical decimal numeral *)
Definition dec (z : Z) : str := str_of_int (Z.to_int z).

Definition s_true : str := [116; 114; 117; 101]%N.
Definition s_false : str := [102; 97; 108; 115; 101]%N.
Definition s_comma : str := [44; 32]%N.     (* ", " *)
Definition s_colon : str := [58; 32]%N.     (* ": " *)

Fixpoint join (sep : str) (l : list str) : str :=
  match l with
  | [] => []
  | [x] => x
  | x :: t => x ++ sep ++ join sep t
  end.

Section Fmt.
  Variable ffmt : spec_float -> str.   (* `{:?}` of f64 *)
  Variable sdbg : str -> str.          (* `{:?}` of str *)
  Variable blossy : list N -> str.     (* String::from_utf8_lossy *)

  (* Key::format: non-string keys by Display; format_map writes string keys with `{:?}` *)
  Definition fmt_key (k : key) : str :=
    match k with
    | KBool b => if b then s_true else s_false
    | KInt _ z => dec z
    | KStr s _ => sdbg s
    end.

  (* Value::format.  Inside arrays and maps a string is written with `{:?}`.  The map arm formats
     the entries where they stand and sorts the formatted entries by key afterwards (the Rust
     code sorts first; the key of an entry is not changed by formatting its value). *)
  Fixpoint format (v : value) : str :=
    let inner (x : value) : str :=
      match x with VStr s _ => sdbg s | _ => format x end in
    match v with
    | VUndef | VNone => []
    | VBool b => if b then s_true else s_false
    | VInt _ z => dec z
    | VFloat f => ffmt f
    | VStr s _ => s
    | VBytes b => blossy b
    | VArr l => [91%N] ++ join s_comma (map inner l) ++ [93%N]
    | VMap m =>
        [123%N]
        ++ join s_comma
             (map (fun e : key * str => fmt_key (fst e) ++ s_colon ++ snd e)
                  (ksort (map (fun e : key * value => (fst e, inner (snd e))) m)))
        ++ [125%N]
    end.
End Fmt.

(* canonical form of a value: map entries sorted by key at every depth *)
Fixpoint canon (v : value) : value :=
  match v with
  | VArr l => VArr (map canon l)
  | VMap m => VMap (ksort (map (fun e : key * value => (fst e, canon (snd e))) m))
  | _ => v
  end.

(* the value of a decimal numeral, by Horner's rule (independent of `dec`) *)
Definition digit_val (c : N) : option Z :=
  if (48 <=? c)%N && (c <=? 57)%N then Some (Z.of_N c - 48) else None.
Fixpoint horner (acc : Z) (s : str) : option Z :=
  match s with
  | [] => Some acc
  | c :: t => match digit_val c with Some d => horner (10 * acc + d) t | None => None end
  end.
Definition parse_dec (s : str) : option Z :=
  match s with
  | [] => None
  | 45%N :: [] => None
  | 45%N :: t => option_map Z.opp (horner 0 t)
  | _ => horner 0 s
  end.

(* oracle tables supplied with a correspondence case: association lists, the default being the
   empty text (a missing entry then shows up as a mismatch) *)
Fixpoint assoc_str (t : list (str * str)) (s : str) : str :=
  match t with
  | [] => []
  | (k, v) :: t' => if str_eqb k s then v else assoc_str t' s
  end.
Fixpoint assoc_float (t : list (spec_float * str)) (f : spec_float) : str :=
  match t with
  | [] => []
  | (k, v) :: t' => if sf_eqb_syn k f then v else assoc_float t' f
  end.
