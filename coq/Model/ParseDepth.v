(* C06 — SKELETON model of tera/src/parsing/parser.rs over an abstract token alphabet, carrying
   the three nesting counters of the real parser (recursion_depth, array_dimension,
   num_left_brackets), the two counters of the D11 repair (expression height, elif depth) and a
   GHOST counter of the native call-stack depth (one unit per modelled Rust function entry,
   `call`), with the maximum reached (`peak`).

   Definitions only.  Every Rust function of the parser that takes part in a recursion cycle is
   one component of the mutual fixpoint below, named after it; the Rust `loop`/`while` bodies are
   separate components (`*_loop`) that are entered WITHOUT `call`, i.e. they use fuel but no
   native stack.  Same order of checks as the Rust code; what is abstracted away: identifier
   text (identifiers are numbered), literal values, spans, error messages (one error outcome),
   the `loop.` rewrite, `?.`/`?[`, include/extends, components (not in the alphabet).

   parser.rs line numbers refer to the pinned tree. *)
From Coq Require Import List Arith Bool ZArith Lia.
From TeraV Require Import Gen.Tables Gen.ParseLimits.
Import ListNotations.
Local Open Scope nat_scope.

(* ------------------------------------------------------------------ tokens *)

(* word-like tokens: the real lexer gives Ident(text); keywords are idents with a meaning that
   depends on the position (in prefix position every one of them is a variable name) *)
Inductive word :=
| WId (n : nat)
| WIf | WElse | WElif | WEndif | WFor | WEndfor | WIn | WIs | WNot | WAnd | WOr
| WBlock | WEndblock | WFilter | WEndfilter | WSet | WEndset | WBreak | WContinue.

Definition word_code (w : word) : nat :=
  match w with
  | WIf => 0 | WElse => 1 | WElif => 2 | WEndif => 3 | WFor => 4 | WEndfor => 5 | WIn => 6
  | WIs => 7 | WNot => 8 | WAnd => 9 | WOr => 10 | WBlock => 11 | WEndblock => 12
  | WFilter => 13 | WEndfilter => 14 | WSet => 15 | WEndset => 16 | WBreak => 17
  | WContinue => 18 | WId n => 19 + n
  end.
Definition word_eqb (a b : word) : bool := Nat.eqb (word_code a) (word_code b).

(* `*` (also / // %), `+`, comparison, `**` *)
Inductive sym := SMul | SPlus | SCmp | SPow.

Inductive tok :=
| TText | TVarStart | TVarEnd | TTagStart | TTagEnd
| TLexErr                      (* the lexer's Err item: the stream ends with it *)
| TAtom                        (* integer / float / string / bool literal *)
| TWord (w : word)
| TMinus | TTilde | TSym (o : sym) | TPipe
| TLParen | TRParen | TLBracket | TRBracket | TLBrace | TRBrace
| TComma | TColon | TDot | TAssign | TSpread
| TOther.                      (* any token no rule accepts: `!`, `>` ... *)

Definition is_word (t : tok) : option word := match t with TWord w => Some w | _ => None end.
Definition tok_is (w : word) (t : option tok) : bool :=
  match t with Some (TWord v) => word_eqb v w | _ => false end.

(* RESERVED_NAMES (parser.rs:82-85) restricted to the alphabet *)
Definition reserved (w : word) : bool :=
  match w with WAnd | WOr | WNot | WIs | WIn | WContinue | WBreak => true | _ => false end.

(* ------------------------------------------------------------------ AST skeleton *)

Inductive kind :=
| KConst | KVar | KUn | KBin | KAttr | KItem | KApply (* Filter / Test *) | KTern | KArr | KMap
| KCall | KCompr
| KText | KExprNode | KIf | KFor | KBlock | KFilterSec | KSet | KBlockSet | KBreak.

Inductive tree := T (k : kind) (cs : list tree).

Fixpoint ast_depth (t : tree) : nat :=
  match t with
  | T _ cs => S ((fix dl (l : list tree) : nat :=
                    match l with [] => 0 | c :: r => Nat.max (ast_depth c) (dl r) end) cs)
  end.
Definition depth_list (l : list tree) : nat := fold_right (fun c m => Nat.max (ast_depth c) m) 0 l.

(* what `Display for Expression` shows as parenthesis depth: unary, binary, filter, test *)
Definition shows_paren (k : kind) : bool := match k with KUn | KBin | KApply => true | _ => false end.
Fixpoint paren_depth (t : tree) : nat :=
  match t with
  | T k cs => (if shows_paren k then 1 else 0) +
              (fix dl (l : list tree) : nat :=
                 match l with [] => 0 | c :: r => Nat.max (paren_depth c) (dl r) end) cs
  end.
(* max over the top-level `{{ expr }}` nodes *)
Definition edepth (nodes : list tree) : nat :=
  fold_right (fun n m => match n with T KExprNode [e] => Nat.max (paren_depth e) m | _ => m end) 0 nodes.

(* nesting depth of statement nodes *)
Definition is_stmt (k : kind) : bool :=
  match k with KIf | KFor | KBlock | KFilterSec | KSet | KBlockSet => true | _ => false end.
Fixpoint node_depth (t : tree) : nat :=
  match t with
  | T k cs => (if is_stmt k then 1 else 0) +
              (fix dl (l : list tree) : nat :=
                 match l with [] => 0 | c :: r => Nat.max (node_depth c) (dl r) end) cs
  end.
Definition ndepth (nodes : list tree) : nat := fold_right (fun n m => Nat.max (node_depth n) m) 0 nodes.

Definition is_const (t : tree) : bool := match t with T KConst _ => true | _ => false end.
Definition is_unary (t : tree) : bool := match t with T KUn _ => true | _ => false end.

(* ------------------------------------------------------------------ configuration and state *)

(* the limits; `None` = the check does not exist in the code (tree before the D11 repair) *)
Record cfg := mkcfg {
  c_max_rd : nat;               (* MAX_RECURSION_DEPTH, parser.rs:21 *)
  c_max_ad : nat;               (* MAX_DIMENSION_ARRAY, parser.rs:23 *)
  c_max_nb : nat;               (* MAX_NUM_LEFT_BRACKETS, parser.rs:25 *)
  c_expr_limit : option nat;    (* MAX_EXPRESSION_DEPTH (D11 repair) *)
  c_elif_limit : option nat }.  (* MAX_ELIF_DEPTH (D11 repair) *)

(* BodyContext, parser.rs:90-104 (ComponentDefinition is not in the alphabet) *)
Inductive bctx := CFor | CBlock | CIf | CCapture.
Definition can_contain_blocks (c : bctx) : bool := match c with CBlock | CCapture => true | _ => false end.

Record st := mkst {
  toks : list tok;
  rd : nat;             (* recursion_depth *)
  ad : nat;             (* array_dimension *)
  nb : nat;             (* num_left_brackets *)
  ht : nat;             (* height of the expression being built at this level (repair) *)
  el : nat;             (* active `elif` recursions (repair) *)
  ctxs : list bctx;     (* body_contexts, innermost first *)
  blocks : list word;   (* blocks_seen *)
  native : nat;         (* GHOST: current native call depth *)
  peak : nat }.         (* GHOST: maximum of `native` so far *)

Definition init (ts : list tok) : st := mkst ts 0 0 0 0 0 [] [] 0 0.

Definition set_toks l s := mkst l (rd s) (ad s) (nb s) (ht s) (el s) (ctxs s) (blocks s) (native s) (peak s).
Definition set_rd n s := mkst (toks s) n (ad s) (nb s) (ht s) (el s) (ctxs s) (blocks s) (native s) (peak s).
Definition set_ad n s := mkst (toks s) (rd s) n (nb s) (ht s) (el s) (ctxs s) (blocks s) (native s) (peak s).
Definition set_nb n s := mkst (toks s) (rd s) (ad s) n (ht s) (el s) (ctxs s) (blocks s) (native s) (peak s).
Definition set_ht n s := mkst (toks s) (rd s) (ad s) (nb s) n (el s) (ctxs s) (blocks s) (native s) (peak s).
Definition set_el n s := mkst (toks s) (rd s) (ad s) (nb s) (ht s) n (ctxs s) (blocks s) (native s) (peak s).
Definition set_ctxs c s := mkst (toks s) (rd s) (ad s) (nb s) (ht s) (el s) c (blocks s) (native s) (peak s).
Definition set_blocks b s := mkst (toks s) (rd s) (ad s) (nb s) (ht s) (el s) (ctxs s) b (native s) (peak s).
Definition enter s := mkst (toks s) (rd s) (ad s) (nb s) (ht s) (el s) (ctxs s) (blocks s)
                           (S (native s)) (Nat.max (peak s) (S (native s))).
Definition leave s := mkst (toks s) (rd s) (ad s) (nb s) (ht s) (el s) (ctxs s) (blocks s)
                           (pred (native s)) (peak s).

(* outcomes: every outcome but RFuel carries the final state (for the ghost `peak`) *)
Inductive res (A : Type) :=
| ROk (a : A) (s : st)
| RErr (s : st)          (* Err(syntax error) *)
| RPanic (s : st)        (* an `unreachable!` arm was reached *)
| RFuel.
Arguments ROk {A}. Arguments RErr {A}. Arguments RPanic {A}. Arguments RFuel {A}.

Definition M (A : Type) := st -> res A.
Definition ret {A} (a : A) : M A := fun s => ROk a s.
Definition err {A} : M A := fun s => RErr s.
Definition panic {A} : M A := fun s => RPanic s.
Definition bind {A B} (m : M A) (k : A -> M B) : M B :=
  fun s => match m s with ROk a s' => k a s' | RErr s' => RErr s' | RPanic s' => RPanic s' | RFuel => RFuel end.
Notation "x <- m ;; k" := (bind m (fun x => k)) (at level 61, m at next level, right associativity).
Notation "m ;;; k" := (bind m (fun _ => k)) (at level 61, right associativity).

(* one Rust function call: a native frame for the duration of `m` *)
Definition call {A} (m : M A) : M A :=
  fun s => match m (enter s) with
           | ROk a s' => ROk a (leave s') | RErr s' => RErr (leave s')
           | RPanic s' => RPanic (leave s') | RFuel => RFuel end.

Definition get {A} (f : st -> A) : M A := fun s => ROk (f s) s.
Definition upd (f : st -> st) : M unit := fun s => ROk tt (f s).

(* `self.next` as seen by `matches!(self.next, Some(Ok((tok, _))))`; TLexErr matches no pattern *)
Definition peek : M (option tok) := fun s => ROk (hd_error (toks s)) s.
(* `self.lexer.peek()` *)
Definition peek2 : M (option tok) := fun s => ROk (hd_error (tl (toks s))) s.
(* next_or_error, parser.rs:200-205 *)
Definition next_or_error : M tok :=
  fun s => match toks s with
           | [] => RErr s
           | TLexErr :: _ => RErr s
           | t :: r => ROk t (set_toks r s)
           end.
(* expect_token!, parser.rs:61-80 *)
Definition expect (p : tok -> bool) : M tok :=
  t <- next_or_error ;; if p t then ret t else err.
Definition tok_eqb (a b : tok) : bool :=
  match a, b with
  | TText, TText | TVarStart, TVarStart | TVarEnd, TVarEnd | TTagStart, TTagStart | TTagEnd, TTagEnd
  | TLexErr, TLexErr | TAtom, TAtom | TMinus, TMinus | TTilde, TTilde | TPipe, TPipe
  | TLParen, TLParen | TRParen, TRParen | TLBracket, TLBracket | TRBracket, TRBracket
  | TLBrace, TLBrace | TRBrace, TRBrace | TComma, TComma | TColon, TColon | TDot, TDot
  | TAssign, TAssign | TSpread, TSpread | TOther, TOther => true
  | TWord v, TWord w => word_eqb v w
  | TSym SMul, TSym SMul | TSym SPlus, TSym SPlus | TSym SCmp, TSym SCmp | TSym SPow, TSym SPow => true
  | _, _ => false
  end.
Definition expect_tok (t : tok) : M tok := expect (tok_eqb t).
Definition expect_ident : M word :=
  t <- next_or_error ;; match t with TWord w => ret w | _ => err end.
Definition next_is (t : tok) : M bool :=
  o <- peek ;; ret (match o with Some u => tok_eqb u t | None => false end).

(* binary operators of the Pratt loop: (l_bp, r_bp), parser.rs:43-59 *)
Inductive bop := BPlain | BTilde | BIs | BPipe.
Definition binop_of (t : tok) : option (bop * nat * nat) :=
  match t with
  | TSym SMul => Some (BPlain, 13, 14)
  | TTilde => Some (BTilde, 13, 14)
  | TSym SPlus | TMinus => Some (BPlain, 11, 12)
  | TSym SCmp => Some (BPlain, 7, 8)
  | TSym SPow => Some (BPlain, 16, 15)
  | TWord WIn => Some (BPlain, 5, 6)
  | TWord WIs => Some (BIs, 5, 6)
  | TWord WAnd => Some (BPlain, 3, 4)
  | TWord WOr => Some (BPlain, 1, 2)
  | TPipe => Some (BPipe, 17, 18)
  | _ => None
  end.

Section Parser.
Variable C : cfg.

(* the repair: every wrap of the accumulated expression raises the height of the level *)
Definition bump : M unit :=
  fun s => let h := S (ht s) in
           match c_expr_limit C with
           | Some lim => if lim <? h then RErr s else ROk tt (set_ht h s)
           | None => ROk tt (set_ht h s)
           end.

(* `self.recursion_depth += 1; if > MAX { -= 1; Err } ; run ; -= 1`: the shared shape of
   inner_parse_expression (parser.rs:685-697) and parse_until (1638-1651) *)
Definition counted {A} (m : M A) : M A :=
  fun s =>
    let s1 := set_rd (S (rd s)) s in
    if c_max_rd C <? rd s1 then RErr s
    else match m s1 with
         | ROk a s2 => ROk a (set_rd (pred (rd s2)) s2)
         | RErr s2 => RErr (set_rd (pred (rd s2)) s2)
         | RPanic s2 => RPanic s2
         | RFuel => RFuel
         end.

(* the repair in inner_parse_expression: the sub-expression starts a tree of its own
   (`mem::take(&mut self.expr_height)`); once done it is one level below the caller's *)
Definition sub_height {A} (m : M A) : M A :=
  fun s =>
    let outer := ht s in
    match m (set_ht 0 s) with
    | ROk a s2 => ROk a (set_ht (Nat.max outer (S (ht s2))) s2)
    | r => r
    end.

(* the repair in parse_if: `elif_depth += 1; if > MAX_ELIF_DEPTH { Err }; run; elif_depth -= 1` *)
Definition elif_counted {A} (m : M A) : M A :=
  fun s =>
    let s1 := set_el (S (el s)) s in
    if match c_elif_limit C with Some lim => lim <? el s1 | None => false end then RErr s1
    else match m s1 with
         | ROk a s2 => ROk a (set_el (pred (el s2)) s2)
         | r => r
         end.

Definition push_ctx (c : bctx) : M unit := upd (fun s => set_ctxs (c :: ctxs s) s).
Definition pop_ctx : M unit := upd (fun s => set_ctxs (tl (ctxs s)) s).

Definition opt_list {A} (o : option A) : list A := match o with Some a => [a] | None => [] end.

(* break/continue, parser.rs:1585-1615: innermost-first walk *)
Fixpoint loop_ctx_ok (l : list bctx) : bool :=
  match l with
  | [] => false
  | CFor :: _ => true
  | CCapture :: _ => false
  | _ :: r => loop_ctx_ok r
  end.

Fixpoint inner_parse_expression (fuel : nat) (min_bp : nat) {struct fuel} : M tree :=
  match fuel with 0 => fun _ => RFuel | S f =>
  (* parser.rs:685-697 *)
  counted (sub_height (call (parse_expr_bp f min_bp)))
  end

(* parse_expression, parser.rs:1006-1008: a frame of its own *)
with parse_expression (fuel : nat) (min_bp : nat) {struct fuel} : M tree :=
  match fuel with 0 => fun _ => RFuel | S f => call (inner_parse_expression f min_bp) end

(* parser.rs:699-768: the prefix part *)
with parse_expr_bp (fuel : nat) (min_bp : nat) {struct fuel} : M tree :=
  match fuel with 0 => fun _ => RFuel | S f =>
  t <- next_or_error ;;
  lhs <- match t with
         | TAtom => ret (T KConst [])
         | TMinus | TWord WNot =>
             nx <- peek ;;
             match nx with
             | Some TMinus | Some (TWord WNot) => err          (* 717-729 *)
             | _ => e <- call (inner_parse_expression f (match t with TMinus => 20 | _ => 5 end)) ;;
                    ret (T KUn [e])
             end
         | TWord w => call (parse_ident f)
         | TLBrace => call (parse_map f)
         | TLBracket => call (parse_array f)
         | TLParen => e <- call (inner_parse_expression f 0) ;; expect_tok TRParen ;;; ret e
         | _ => err
         end ;;
  bp_loop f min_bp false lhs
  end

(* parser.rs:771-893: the `while let` operator loop (no frame) *)
with bp_loop (fuel : nat) (min_bp : nat) (negated : bool) (lhs : tree) {struct fuel} : M tree :=
  match fuel with 0 => fun _ => RFuel | S f =>
  nx <- peek ;;
  match nx with
  | Some (TWord WNot) =>                                        (* 788-805 *)
      if 5 <? min_bp then ret lhs else
      n2 <- peek2 ;; next_or_error ;;;
      if tok_is WIn n2 then bp_loop f min_bp true lhs else err
  | Some TLBracket => lhs' <- call (parse_subscript f lhs) ;; bp_loop f min_bp negated lhs'
  | Some (TWord WIf) =>                                         (* 815-832 *)
      if 0 <? min_bp then ret lhs else
      next_or_error ;;;
      c <- call (parse_expression f 0) ;;
      expect_tok (TWord WElse) ;;;
      e <- call (parse_expression f 0) ;;
      bump ;;;
      ret (T KTern [c; lhs; e])
  | Some tk =>
      match binop_of tk with
      | None => ret lhs
      | Some (op, l_bp, r_bp) =>
          if l_bp <? min_bp then ret lhs else
          next_or_error ;;;
          negated' <- match op with
                      | BIs => isnot <- next_is (TWord WNot) ;;
                               if isnot then next_or_error ;;; ret true else ret negated
                      | _ => ret negated
                      end ;;
          lhs' <- match op with
                  | BIs | BPipe => call (parse_filter f lhs)    (* parse_test / parse_filter *)
                  | _ => rhs <- call (inner_parse_expression f r_bp) ;;
                         match op with
                         | BTilde => if is_unary rhs then err else ret (T KBin [lhs; rhs])
                         | _ => ret (T KBin [lhs; rhs])
                         end
                  end ;;
          bump ;;;
          lhs'' <- (if negated' then bump ;;; ret (T KUn [lhs']) else ret lhs') ;;
          bp_loop f min_bp false lhs''
      end
  | None => ret lhs
  end
  end

(* parser.rs:290-374 *)
with parse_ident (fuel : nat) {struct fuel} : M tree :=
  match fuel with 0 => fun _ => RFuel | S f =>
  lp <- next_is TLParen ;;
  if lp then kw <- call (parse_kwargs f) ;; ret (T KCall kw)
  else ident_loop f (T KVar [])
  end

with ident_loop (fuel : nat) (e : tree) {struct fuel} : M tree :=
  match fuel with 0 => fun _ => RFuel | S f =>
  nx <- peek ;;
  match nx with
  | Some TDot => next_or_error ;;; expect_ident ;;; bump ;;; ident_loop f (T KAttr [e])
  | Some TLBracket => e' <- call (parse_subscript f e) ;; ident_loop f e'
  | Some TLParen => err
  | _ => ret e
  end
  end

(* parser.rs:212-287 *)
with parse_subscript (fuel : nat) (e : tree) {struct fuel} : M tree :=
  match fuel with 0 => fun _ => RFuel | S f =>
  expect_tok TLBracket ;;;
  n <- get nb ;;
  upd (set_nb (S n)) ;;;
  if c_max_nb C <? S n then err else
  c0 <- next_is TColon ;;
  start <- (if c0 then ret None else x <- call (parse_expression f 0) ;; ret (Some x)) ;;
  c1 <- next_is TColon ;;
  rest <- (if c1 then
             expect_tok TColon ;;;
             nx <- peek ;;
             stop <- match nx with
                     | Some TColon | Some TRBracket => ret None
                     | _ => x <- call (parse_expression f 0) ;; ret (Some x)
                     end ;;
             c2 <- next_is TColon ;;
             step <- (if c2 then expect_tok TColon ;;; x <- call (parse_expression f 0) ;; ret (Some x)
                      else ret None) ;;
             ret (opt_list stop ++ opt_list step)
           else ret []) ;;
  expect_tok TRBracket ;;;
  n' <- get nb ;;
  upd (set_nb (pred n')) ;;;
  bump ;;;
  ret (T KItem (e :: opt_list start ++ rest))
  end

(* parser.rs:376-413 *)
with parse_kwargs (fuel : nat) {struct fuel} : M (list tree) :=
  match fuel with 0 => fun _ => RFuel | S f =>
  expect_tok TLParen ;;; kwargs_loop f [] []
  end

with kwargs_loop (fuel : nat) (names : list word) (acc : list tree) {struct fuel} : M (list tree) :=
  match fuel with 0 => fun _ => RFuel | S f =>
  r0 <- next_is TRParen ;;
  if r0 then expect_tok TRParen ;;; ret acc else
  (match acc with [] => ret TComma | _ => expect_tok TComma end) ;;;
  r1 <- next_is TRParen ;;
  if r1 then expect_tok TRParen ;;; ret acc else
  w <- expect_ident ;;
  if existsb (word_eqb w) names then err else
  expect_tok TAssign ;;;
  v <- call (parse_expression f 0) ;;
  kwargs_loop f (w :: names) (acc ++ [v])
  end

(* parse_filter 512-530 and parse_test 532-550 (same shape) *)
with parse_filter (fuel : nat) (e : tree) {struct fuel} : M tree :=
  match fuel with 0 => fun _ => RFuel | S f =>
  expect_ident ;;;
  lp <- next_is TLParen ;;
  kw <- (if lp then call (parse_kwargs f) else ret []) ;;
  ret (T KApply (e :: kw))
  end

(* parser.rs:552-622 *)
with parse_map (fuel : nat) {struct fuel} : M tree :=
  match fuel with 0 => fun _ => RFuel | S f => map_loop f true [] end

with map_loop (fuel : nat) (lit : bool) (acc : list tree) {struct fuel} : M tree :=
  match fuel with 0 => fun _ => RFuel | S f =>
  let finish := expect_tok TRBrace ;;; ret (if lit then T KConst [] else T KMap acc) in
  r0 <- next_is TRBrace ;;
  if r0 then finish else
  (match acc with [] => ret TComma | _ => expect_tok TComma end) ;;;
  r1 <- next_is TRBrace ;;
  if r1 then finish else
  sp <- next_is TSpread ;;
  if sp then expect_tok TSpread ;;; e <- call (inner_parse_expression f 0) ;; map_loop f false (acc ++ [e])
  else
    k <- next_or_error ;;
    match k with
    | TAtom => expect_tok TColon ;;;
               v <- call (inner_parse_expression f 0) ;;
               map_loop f (lit && is_const v) (acc ++ [v])
    | _ => err
    end
  end

(* parser.rs:624-680 *)
with parse_array (fuel : nat) {struct fuel} : M tree :=
  match fuel with 0 => fun _ => RFuel | S f =>
  n <- get ad ;;
  upd (set_ad (S n)) ;;;
  if c_max_ad C <? S n then err else array_loop f true []
  end

with array_loop (fuel : nat) (lit : bool) (acc : list tree) {struct fuel} : M tree :=
  match fuel with 0 => fun _ => RFuel | S f =>
  let finish := n <- get ad ;; upd (set_ad (pred n)) ;;; expect_tok TRBracket ;;;
                ret (if lit then T KConst [] else T KArr acc) in
  r0 <- next_is TRBracket ;;
  if r0 then finish else
  (match acc with [] => ret TComma | _ => expect_tok TComma end) ;;;
  r1 <- next_is TRBracket ;;
  if r1 then finish else
  sp <- next_is TSpread ;;
  if sp then expect_tok TSpread ;;; e <- call (inner_parse_expression f 0) ;; array_loop f false (acc ++ [e])
  else
    e <- call (inner_parse_expression f 0) ;;
    isfor <- next_is (TWord WFor) ;;
    match acc with
    | [] => if isfor then n <- get ad ;; upd (set_ad (pred n)) ;;; call (parse_list_comprehension f e)
            else array_loop f (lit && is_const e) (acc ++ [e])
    | _ => array_loop f (lit && is_const e) (acc ++ [e])
    end
  end

(* parser.rs:1010-1076 *)
with parse_list_comprehension (fuel : nat) (e : tree) {struct fuel} : M tree :=
  match fuel with 0 => fun _ => RFuel | S f =>
  expect_tok (TWord WFor) ;;;
  v <- expect_ident ;;
  if reserved v then err else
  cm <- next_is TComma ;;
  (if cm then next_or_error ;;; v2 <- expect_ident ;; if reserved v2 then err else ret tt else ret tt) ;;;
  expect_tok (TWord WIn) ;;;
  target <- call (inner_parse_expression f 1) ;;
  isif <- next_is (TWord WIf) ;;
  cond <- (if isif then next_or_error ;;; c <- call (inner_parse_expression f 1) ;; ret [c] else ret []) ;;
  isfor <- next_is (TWord WFor) ;;
  if isfor then next_or_error ;;; err else
  expect_tok TRBracket ;;;
  ret (T KCompr (e :: target :: cond))
  end

(* ---------------- statements *)

(* parse_until, parser.rs:1638-1651 *)
with parse_until (fuel : nat) (endp : word -> bool) {struct fuel} : M (list tree) :=
  match fuel with 0 => fun _ => RFuel | S f => counted (call (until_loop f endp [])) end

(* parse_until_inner, parser.rs:1653-1704: entered with `call` from parse_until, iterations free *)
with until_loop (fuel : nat) (endp : word -> bool) (acc : list tree) {struct fuel} : M (list tree) :=
  match fuel with 0 => fun _ => RFuel | S f =>
  nx <- peek ;;
  match nx with
  | None => ret acc                                   (* self.next()? = None *)
  | Some TLexErr => err
  | Some TText => next_or_error ;;; until_loop f endp (acc ++ [T KText []])
  | Some TVarStart =>
      next_or_error ;;;
      e <- call (parse_expression f 0) ;;
      expect_tok TVarEnd ;;;
      until_loop f endp (acc ++ [T KExprNode [e]])
  | Some TTagStart =>
      next_or_error ;;;
      n2 <- peek ;;
      match n2 with
      | None => err
      | Some TLexErr => err
      | Some tk =>
          if match tk with TWord w => endp w | _ => false end then ret acc
          else
            node <- call (parse_tag f) ;;
            expect_tok TTagEnd ;;;
            until_loop f endp (acc ++ node)
      end
  | Some _ => panic                                   (* 1699: unreachable! *)
  end
  end

(* parser.rs:1460-1636 *)
with parse_tag (fuel : nat) {struct fuel} : M (list tree) :=
  match fuel with 0 => fun _ => RFuel | S f =>
  t <- next_or_error ;;
  match t with
  | TWord WSet => n <- call (parse_set f) ;; ret [n]
  | TWord WBlock =>                                              (* 1513-1549 *)
      cs <- get ctxs ;;
      if existsb (fun c => negb (can_contain_blocks c)) cs then err else
      push_ctx CBlock ;;;
      name <- expect_ident ;;
      seen <- get blocks ;;
      if existsb (word_eqb name) seen then err else
      upd (fun s => set_blocks (name :: blocks s) s) ;;;
      expect_tok TTagEnd ;;;
      body <- call (parse_until f (fun w => word_eqb w WEndblock)) ;;
      next_or_error ;;;
      nx <- peek ;;
      (match nx with
       | Some (TWord en) => next_or_error ;;; if word_eqb en name then ret tt else err
       | _ => ret tt
       end) ;;;
      pop_ctx ;;;
      ret [T KBlock body]
  | TWord WFor => n <- call (parse_for_loop f) ;; ret [n]
  | TWord WIf => n <- call (parse_if f) ;; expect_tok (TWord WEndif) ;;; ret [n]
  | TWord WFilter =>                                             (* 1559-1579 *)
      push_ctx CCapture ;;;
      expect_ident ;;;
      lp <- next_is TLParen ;;
      kw <- (if lp then call (parse_kwargs f) else ret []) ;;
      expect_tok TTagEnd ;;;
      body <- call (parse_until f (fun w => word_eqb w WEndfilter)) ;;
      next_or_error ;;;
      pop_ctx ;;;
      ret [T KFilterSec (kw ++ body)]
  | TWord WBreak | TWord WContinue =>
      cs <- get ctxs ;;
      if loop_ctx_ok cs then ret [T KBreak []] else err
  | _ => err
  end
  end

(* parser.rs:1078-1127 *)
with parse_for_loop (fuel : nat) {struct fuel} : M tree :=
  match fuel with 0 => fun _ => RFuel | S f =>
  push_ctx CFor ;;;
  v <- expect_ident ;;
  if reserved v then err else
  cm <- next_is TComma ;;
  (if cm then next_or_error ;;; v2 <- expect_ident ;; if reserved v2 then err else ret tt else ret tt) ;;;
  expect_tok (TWord WIn) ;;;
  target <- call (parse_expression f 0) ;;
  expect_tok TTagEnd ;;;
  body <- call (parse_until f (fun w => word_eqb w WEndfor || word_eqb w WElse)) ;;
  pop_ctx ;;;
  iselse <- next_is (TWord WElse) ;;
  else_body <- (if iselse then next_or_error ;;; expect_tok TTagEnd ;;;
                              call (parse_until f (fun w => word_eqb w WEndfor))
                else ret []) ;;
  next_or_error ;;;
  ret (T KFor (target :: body ++ else_body))
  end

(* parser.rs:1129-1172; with the repair the elif recursion is counted in `el` *)
with parse_if (fuel : nat) {struct fuel} : M tree :=
  match fuel with 0 => fun _ => RFuel | S f =>
  push_ctx CIf ;;;
  cond <- call (parse_expression f 0) ;;
  expect_tok TTagEnd ;;;
  body <- call (parse_until f (fun w => word_eqb w WEndif || word_eqb w WElse || word_eqb w WElif)) ;;
  nx <- peek ;;
  false_body <- match nx with
                | Some (TWord WElif) =>
                    next_or_error ;;;
                    i <- elif_counted (call (parse_if f)) ;;
                    ret [i]
                | Some (TWord WElse) =>
                    next_or_error ;;;
                    expect_tok TTagEnd ;;;
                    call (parse_until f (fun w => word_eqb w WEndif))
                | Some (TWord WEndif) => ret []
                | _ => err
                end ;;
  pop_ctx ;;;
  ret (T KIf (cond :: body ++ false_body))
  end

(* parser.rs:1400-1456 *)
with parse_set (fuel : nat) {struct fuel} : M tree :=
  match fuel with 0 => fun _ => RFuel | S f =>
  v <- expect_ident ;;
  if reserved v then err else
  nx <- peek ;;
  match nx with
  | Some TAssign => expect_tok TAssign ;;; e <- call (parse_expression f 0) ;; ret (T KSet [e])
  | Some TPipe | Some TTagEnd =>
      filters <- set_filters_loop f [] ;;
      push_ctx CCapture ;;;
      body <- call (parse_until f (fun w => word_eqb w WEndset)) ;;
      pop_ctx ;;;
      next_or_error ;;;
      ret (T KBlockSet (filters ++ body))
  | _ => err
  end
  end

with set_filters_loop (fuel : nat) (acc : list tree) {struct fuel} : M (list tree) :=
  match fuel with 0 => fun _ => RFuel | S f =>
  p <- next_is TPipe ;;
  if p then expect_tok TPipe ;;; flt <- call (parse_filter f (T KConst [])) ;; set_filters_loop f (acc ++ [flt])
  else expect_tok TTagEnd ;;; ret acc
  end.

(* Parser::parse, parser.rs:1706-1711 *)
Definition parse (fuel : nat) (ts : list tok) : res (list tree) :=
  call (call (parse_until fuel (fun _ => false))) (init ts).

End Parser.

(* enough fuel for any run on `ts`: every component either consumes a token or is one of a
   bounded number of frames between two consumptions *)
Definition fuel_for (ts : list tok) : nat := 40 * length ts + 400.

(* ------------------------------------------------------------------ configurations *)

Definition opt_nat (o : option Z) : option nat := option_map Z.to_nat o.

(* the code as it is in the working tree (limits re-extracted by T-gen on every run) *)
Definition cfg_tree : cfg :=
  mkcfg (Z.to_nat max_recursion_depth) (Z.to_nat max_dimension_array) (Z.to_nat max_num_left_brackets)
        (opt_nat max_expression_depth) (opt_nat max_elif_depth).

(* the pinned tree before the D11 repair: no height / elif accounting *)
Definition cfg_unrepaired : cfg :=
  mkcfg (Z.to_nat max_recursion_depth) (Z.to_nat max_dimension_array) (Z.to_nat max_num_left_brackets)
        None None.
