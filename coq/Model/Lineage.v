(* C04 — executable model of template inheritance: what the compiler does with {% block %},
   the lineage passes of Tera::finalize_templates and the VM's RenderBlock / super() /
   capture_block logic.  Definitions only (no proofs).

   Abstraction.  A template is a name, an optional `extends` target and a body of nodes

       Text id | BlockDef name body | Super | FilterSection kind body

   Text id stands for a literal text that is unique in the whole template set (the harness
   uses marker strings), Super for `{{ super() }}`, FilterSection KFilter for
   `{% filter w %}..{% endfilter %}` (w wraps its input in brackets, so the output shows the
   capture structure) and FilterSection KSet for `{% set v %}..{% endset %}{{ v }}` (a capture
   whose text is written back unchanged).  Template and block names are numbers (harness:
   t<k>, b<k>).  Everything else of the language (expressions, loops, conditionals,
   includes, components) is outside this model.

   Ported from (/repo with the D8 and D13 repairs applied):
     tera/src/parsing/parser.rs   1513-1548  (duplicate block names are a syntax error)
     tera/src/parsing/compiler.rs 421-441    compile_block (blocks / block_name_spans / RenderBlock)
                                  613-630    filter section: Capture .. EndCapture ApplyFilter WriteTop
                                  487-520    block set:      Capture .. EndCapture Set
     tera/src/template.rs         184-210    find_parents
     tera/src/tera.rs             579-745    finalize_templates (loops 1, 2, inherit pass, block-cycle check, errors)
     tera/src/template.rs         186-245    find_block_cycle
     tera/src/tera.rs             1310-1326  Tera::render_block (block must be in block_lineage)
     tera/src/vm/interpreter.rs   325-331    WriteText (top capture buffer, else output)
                                  476-512    CallFunction "super"
                                  565-594    RenderBlock
                                  624-629    Capture / EndCapture
                                  1018-1047  render_to
   HashMap iteration orders are explicit parameters (record [orders]); theorems hold for
   every choice that permutes the iterated collection. *)
From Coq Require Import List NArith Bool Arith.
Import ListNotations.

Definition name := N.

Inductive capkind := KFilter | KSet.

Inductive node :=
| Text (id : N)
| BlockDef (b : name) (body : list node)
| Super
| FilterSection (k : capkind) (body : list node).

Record template := { t_name : name; t_extends : option name; t_body : list node }.

(* ------------------------------------------------------------------ results *)

Inductive lerr :=
| ESyntax          (* parser: duplicate block name *)
| EMissingParent   (* find_parents: extends target not registered *)
| ECircular        (* find_parents: circular extends *)
| EOrphanBlock     (* finalize: top-level block of a child not defined in any parent *)
| EBlockCycle      (* finalize: a block ends up rendering itself (find_block_cycle, D13 fix) *)
| ESuperOutside    (* render: super() called outside of a block *)
| ESuperTop        (* render: super() with no further lineage entry *)
| ENoLineage       (* render: RenderBlock without lineage ("not properly finalized") *)
| EBlockNotFound   (* Tera::render_block: block not in block_lineage *)
| ENoTemplate      (* must_get_template failed *)
| EPanic           (* an unwrap()/expect()/index that would panic *)
| EOutOfFuel.      (* model artefact: recursion deeper than the fuel given *)

Inductive rres (A : Type) := Ok (a : A) | Err (e : lerr).
Arguments Ok {A} a.
Arguments Err {A} e.

Definition rbind {A B} (r : rres A) (f : A -> rres B) : rres B :=
  match r with Ok a => f a | Err e => Err e end.
Definition rmap {A B} (f : A -> B) (r : rres A) : rres B :=
  match r with Ok a => Ok (f a) | Err e => Err e end.
Notation "x <- r ;; k" := (rbind r (fun x => k)) (at level 61, r at next level, right associativity).

(* ------------------------------------------------------------------ association lists (HashMap) *)

Fixpoint alookup {V} (k : name) (m : list (name * V)) : option V :=
  match m with
  | [] => None
  | (k', v) :: m' => if N.eqb k k' then Some v else alookup k m'
  end.

Definition amem {V} (k : name) (m : list (name * V)) : bool :=
  match alookup k m with Some _ => true | None => false end.

(* HashMap::insert: overwrite or add (position irrelevant: iteration orders are parameters) *)
Fixpoint ainsert {V} (k : name) (v : V) (m : list (name * V)) : list (name * V) :=
  match m with
  | [] => [(k, v)]
  | (k', v') :: m' => if N.eqb k k' then (k, v) :: m' else (k', v') :: ainsert k v m'
  end.

(* entry(k).or_insert(v) *)
Definition aor_insert {V} (k : name) (v : V) (m : list (name * V)) : list (name * V) :=
  if amem k m then m else ainsert k v m.

Fixpoint nodupb (l : list name) : bool :=
  match l with
  | [] => true
  | x :: l' => negb (existsb (N.eqb x) l') && nodupb l'
  end.

(* ------------------------------------------------------------------ compiler *)

Inductive instr :=
| IText (id : N)              (* WriteText *)
| IRenderBlock (b : name)     (* RenderBlock *)
| ISuper                      (* CallFunction "super"; WriteTop *)
| ICapture                    (* Capture *)
| IEndCapture (k : capkind).  (* EndCapture; then ApplyFilter w; WriteTop  |  Set v; LoadName v; WriteTop *)

Definition code := list instr.

(* the chunk a body compiles to: a block leaves RenderBlock in place (compiler.rs:440) *)
Fixpoint code_node (n : node) : code :=
  match n with
  | Text i => [IText i]
  | BlockDef b _ => [IRenderBlock b]
  | Super => [ISuper]
  | FilterSection k body => ICapture :: flat_map code_node body ++ [IEndCapture k]
  end.
Definition code_of (ns : list node) : code := flat_map code_node ns.

(* Compiler.blocks: every block of the template, nested ones included; the entry is inserted
   after the body was compiled (compiler.rs:429-439) *)
Fixpoint blocks_node (n : node) : list (name * list node) :=
  match n with
  | BlockDef b body => flat_map blocks_node body ++ [(b, body)]
  | FilterSection _ body => flat_map blocks_node body
  | _ => []
  end.
Definition blocks_of (ns : list node) : list (name * list node) := flat_map blocks_node ns.

(* Compiler.block_name_spans: blocks at block depth 0 (filter sections do not count as depth) *)
Fixpoint top_node (n : node) : list name :=
  match n with
  | BlockDef b _ => [b]
  | FilterSection _ body => flat_map top_node body
  | _ => []
  end.
Definition top_of (ns : list node) : list name := flat_map top_node ns.

Record ctemplate := {
  c_name : name;
  c_extends : option name;
  c_chunk : code;                     (* Template.chunk *)
  c_blocks : list (name * code);      (* Template.blocks *)
  c_top : list name }.                (* keys of Template.block_name_spans *)

Definition compile_template (t : template) : rres ctemplate :=
  let bl := blocks_of (t_body t) in
  if nodupb (map fst bl) then
    Ok {| c_name := t_name t; c_extends := t_extends t; c_chunk := code_of (t_body t);
          c_blocks := map (fun '(b, body) => (b, code_of body)) bl;
          c_top := top_of (t_body t) |}
  else Err ESyntax.   (* "Template already contains a block named .." *)

Fixpoint compile_all (ts : list template) : rres (list ctemplate) :=
  match ts with
  | [] => Ok []
  | t :: ts' => c <- compile_template t ;; cs <- compile_all ts' ;; Ok (c :: cs)
  end.

(* Chunk::is_calling_function("super") *)
Definition is_super (i : instr) : bool := match i with ISuper => true | _ => false end.
Definition calls_super (c : code) : bool := existsb is_super c.

(* ------------------------------------------------------------------ registry *)

Fixpoint get_tpl (reg : list ctemplate) (n : name) : option ctemplate :=
  match reg with
  | [] => None
  | c :: reg' => if N.eqb n (c_name c) then Some c else get_tpl reg' n
  end.

(* template.rs:184-210.  [parents] is accumulated nearest-first and reversed at the end, so
   the result is root-first.  fuel: the recursion follows extends pointers and stops at the
   latest after |reg| steps because of the cycle check; [length reg + 1] always suffices. *)
Fixpoint find_parents (fuel : nat) (reg : list ctemplate) (start : name) (t : ctemplate)
         (parents : list name) : rres (list name) :=
  match fuel with
  | 0 => Err EOutOfFuel
  | S f =>
      match c_extends t with
      | Some p =>
          match get_tpl reg p with
          | Some parent =>
              if N.eqb p start || existsb (N.eqb p) parents then Err ECircular
              else find_parents f reg start parent (parents ++ [c_name parent])
          | None => Err EMissingParent
          end
      | None => Ok (rev parents)
      end
  end.

(* iteration orders of the HashMaps finalize_templates walks (each must return a permutation
   of its argument; the theorems quantify over all such) *)
Record orders := {
  o_loop2 : list ctemplate -> list ctemplate;                       (* self.templates, 2nd loop *)
  o_blocks : name -> list (name * code) -> list (name * code);       (* tpl.blocks *)
  o_inherit : list (name * list name) -> list (name * list name);    (* tpl_parents, inherit pass *)
  o_pblocks : name -> name -> list (name * list code) -> list (name * list code) }. (* cloned parent_blocks *)

Definition id_orders : orders :=
  {| o_loop2 := fun l => l; o_blocks := fun _ l => l; o_inherit := fun l => l;
     o_pblocks := fun _ _ l => l |}.

(* loop 1 (tera.rs:589-629), lineage-relevant part: parents of every template, in the order
   of [reg] (the real code walks the sorted names: [reg] is listed in that order) *)
Fixpoint loop1 (reg : list ctemplate) (todo : list ctemplate) : rres (list (name * list name)) :=
  match todo with
  | [] => Ok []
  | t :: todo' =>
      ps <- find_parents (S (length reg)) reg (c_name t) t [] ;;
      m <- loop1 reg todo' ;;
      Ok (ainsert (c_name t) ps m)
  end.

(* tera.rs:656-676: top-level blocks of a child that no parent has in its own `blocks` *)
Definition orphan_blocks (reg : list ctemplate) (parents : list name) (t : ctemplate) : list name :=
  match parents with
  | [] => []
  | _ =>
      filter (fun b => negb (existsb (fun p => match get_tpl reg p with
                                               | Some pt => amem b (c_blocks pt)
                                               | None => false
                                               end) parents))
             (c_top t)
  end.

(* tera.rs:682-690, parents walked nearest-first *)
Fixpoint walk_parents (reg : list ctemplate) (ps : list name) (b : name) : rres (list code) :=
  match ps with
  | [] => Ok []
  | p :: ps' =>
      match get_tpl reg p with
      | None => Err ENoTemplate
      | Some pt =>
          match alookup b (c_blocks pt) with
          | Some ch =>
              if calls_super ch then (r <- walk_parents reg ps' b ;; Ok (ch :: r)) else Ok [ch]
          | None => walk_parents reg ps' b
          end
      end
  end.

(* tera.rs:678-693 *)
Fixpoint own_lineage (reg : list ctemplate) (parents : list name) (bl : list (name * code))
  : rres (list (name * list code)) :=
  match bl with
  | [] => Ok []
  | (b, ch) :: bl' =>
      rest <- (if calls_super ch then walk_parents reg (rev parents) b else Ok []) ;;
      m <- own_lineage reg parents bl' ;;
      Ok (ainsert b (ch :: rest) m)
  end.

(* 2nd loop (tera.rs:648-695): orphan errors are collected, lineage errors abort *)
Fixpoint loop2 (ord : orders) (reg : list ctemplate) (tpl_parents : list (name * list name))
         (todo : list ctemplate) : rres (list name * list (name * list (name * list code))) :=
  match todo with
  | [] => Ok ([], [])
  | t :: todo' =>
      match alookup (c_name t) tpl_parents with
      | None => Err EPanic   (* tpl_parents[name] *)
      | Some parents =>
          own <- own_lineage reg parents (o_blocks ord (c_name t) (c_blocks t)) ;;
          r <- loop2 ord reg tpl_parents todo' ;;
          Ok (orphan_blocks reg parents t ++ fst r, ainsert (c_name t) own (snd r))
      end
  end.

(* tera.rs:702-704 *)
Definition merge_blocks (child : list (name * list code)) (pblocks : list (name * list code)) :=
  fold_left (fun acc '(b, lin) => aor_insert b lin acc) pblocks child.

(* tera.rs:699-706, parents walked nearest-first *)
Fixpoint inherit_one (ord : orders) (n : name) (ps : list name)
         (tb : list (name * list (name * list code))) : rres (list (name * list (name * list code))) :=
  match ps with
  | [] => Ok tb
  | p :: ps' =>
      match alookup p tb with
      | Some pb =>
          match alookup n tb with
          | None => Err EPanic   (* tpl_blocks.get_mut(name).unwrap() *)
          | Some cb => inherit_one ord n ps' (ainsert n (merge_blocks cb (o_pblocks ord n p pb)) tb)
          end
      | None => inherit_one ord n ps' tb
      end
  end.

Fixpoint inherit_pass (ord : orders) (todo : list (name * list name))
         (tb : list (name * list (name * list code))) : rres (list (name * list (name * list code))) :=
  match todo with
  | [] => Ok tb
  | (n, parents) :: todo' =>
      tb' <- inherit_one ord n (rev parents) tb ;; inherit_pass ord todo' tb'
  end.

(* ---- template.rs:186-245 find_block_cycle (the D13 repair): a cycle in the graph whose nodes
   are (block, level) of ONE template's block_lineage, with edges to (nested, 0) for every
   RenderBlock of the chunk and to (block, level + 1) if the chunk calls super(). *)

Definition bnode := (name * nat)%type.
Definition bnode_eqb (a b : bnode) : bool := N.eqb (fst a) (fst b) && Nat.eqb (snd a) (snd b).

(* Chunk::rendered_blocks *)
Definition rendered_blocks (c : code) : list name :=
  flat_map (fun i => match i with IRenderBlock b => [b] | _ => [] end) c.

Definition next_nodes (lin : list (name * list code)) (current : bnode) : rres (list bnode) :=
  match alookup (fst current) lin with
  | None => Err EPanic                       (* lineage[current.0] *)
  | Some chunks =>
      match nth_error chunks (snd current) with
      | None => Err EPanic                   (* chunks[current.1] *)
      | Some chunk =>
          Ok (map (fun b => (b, 0))
                  (filter (fun b => match alookup b lin with Some (_ :: _) => true | _ => false end)
                          (rendered_blocks chunk))
              ++ (if calls_super chunk && (S (snd current) <? length chunks)
                  then [(fst current, S (snd current))] else []))
      end
  end.

(* the recursive `walk`; returns (found, visited).  [stack] is only tested for membership.
   fuel bounds the recursion depth: the nodes on the stack are distinct, so the number of
   (block, level) nodes + 1 always suffices. *)
Fixpoint bc_walk (fuel : nat) (lin : list (name * list code)) (current : bnode)
         (stack visited : list bnode) {struct fuel} : rres (option name * list bnode) :=
  match fuel with
  | 0 => Err EOutOfFuel
  | S f =>
      match next_nodes lin current with
      | Err e => Err e
      | Ok next =>
          (fix loop (next : list bnode) (visited : list bnode) {struct next}
             : rres (option name * list bnode) :=
             match next with
             | [] => Ok (None, visited)
             | node :: rest =>
                 if existsb (bnode_eqb node) stack then Ok (Some (fst node), visited)
                 else if existsb (bnode_eqb node) visited then loop rest visited
                 else
                   match bc_walk f lin node (node :: stack) visited with
                   | Err e => Err e
                   | Ok (Some found, v) => Ok (Some found, v)
                   | Ok (None, v) => loop rest (node :: v)
                   end
             end) next visited
      end
  end.

(* names.sort() *)
Fixpoint insert_name (x : name) (l : list name) : list name :=
  match l with
  | [] => [x]
  | y :: l' => if N.leb x y then x :: l else y :: insert_name x l'
  end.
Fixpoint sort_names (l : list name) : list name :=
  match l with [] => [] | x :: l' => insert_name x (sort_names l') end.

Definition lin_len (lin : list (name * list code)) (k : name) : nat :=
  match alookup k lin with Some l => length l | None => 0 end.

Fixpoint first_cycle (fuel : nat) (lin : list (name * list code)) (starts : list bnode)
  : rres (option name) :=
  match starts with
  | [] => Ok None
  | s :: rest =>
      match bc_walk fuel lin s [s] [] with    (* fresh stack and visited set per start *)
      | Err e => Err e
      | Ok (Some found, _) => Ok (Some found)
      | Ok (None, _) => first_cycle fuel lin rest
      end
  end.

Definition find_block_cycle (lin : list (name * list code)) : rres (option name) :=
  let keys := sort_names (map fst lin) in
  let fuel := S (S (list_sum (map (lin_len lin) keys))) in
  first_cycle fuel lin (flat_map (fun k => map (fun lv => (k, lv)) (seq 0 (lin_len lin k))) keys).

(* tera.rs:716-728.  The real loop walks tpl_blocks in HashMap order and the errors are sorted
   by template name afterwards (tera.rs:732); the model walks [reg], which is listed in that
   order.  Result: the templates for which a cycle was found. *)
Fixpoint cycle_pass (reg : list ctemplate) (tb : list (name * list (name * list code)))
  : rres (list name) :=
  match reg with
  | [] => Ok []
  | t :: reg' =>
      match alookup (c_name t) tb with
      | None => Err EPanic
      | Some blocks =>
          c <- find_block_cycle blocks ;;
          r <- cycle_pass reg' tb ;;
          Ok (match c with Some _ => c_name t :: r | None => r end)
      end
  end.

Record freg := {
  f_tpls : list ctemplate;
  f_parents : list (name * list name);                    (* Template.parents *)
  f_lineage : list (name * list (name * list code)) }.    (* Template.block_lineage *)

(* both kinds of error are collected into one Error::message (class "msg"); the model names
   the orphan error when both are present *)
Definition finalize (ord : orders) (reg : list ctemplate) : rres freg :=
  tpl_parents <- loop1 reg reg ;;
  r <- loop2 ord reg tpl_parents (o_loop2 ord reg) ;;
  tb <- inherit_pass ord (o_inherit ord tpl_parents) (snd r) ;;
  match fst r with
  | _ :: _ => Err EOrphanBlock
  | [] =>
      cyc <- cycle_pass reg tb ;;
      match cyc with
      | [] => Ok {| f_tpls := reg; f_parents := tpl_parents; f_lineage := tb |}
      | _ :: _ => Err EBlockCycle
      end
  end.

(* add_raw_templates of a whole set into an empty instance *)
Definition register (ord : orders) (ts : list template) : rres freg :=
  reg <- compile_all ts ;; finalize ord reg.

Definition lineage_of (fr : freg) (t : name) (b : name) : option (list code) :=
  match alookup t (f_lineage fr) with
  | Some m => alookup b m
  | None => None
  end.

(* ------------------------------------------------------------------ VM *)

(* what reaches a buffer: marker texts and the brackets the wrapping filter adds *)
Inductive out := OText (id : N) | OOpen | OClose.

Definition wrap (k : capkind) (captured : list out) : list out :=
  match k with
  | KFilter => OOpen :: captured ++ [OClose]
  | KSet => captured
  end.

(* State (vm/state.rs): the fields the inheritance machinery uses.  [st_blocks] is the
   `blocks` Vec with the LAST element first (head = top of stack), entries are
   (name, lineage, level). *)
Record vstate := {
  st_blocks : list (name * list code * nat);
  st_current : option name;          (* current_block_name *)
  st_caps : list (list out);         (* capture_buffers, head = last_mut() *)
  st_capture_block : option name;
  st_block_buffer : list out }.

Definition set_blocks (st : vstate) v :=
  {| st_blocks := v; st_current := st_current st; st_caps := st_caps st;
     st_capture_block := st_capture_block st; st_block_buffer := st_block_buffer st |}.
Definition set_current (st : vstate) v :=
  {| st_blocks := st_blocks st; st_current := v; st_caps := st_caps st;
     st_capture_block := st_capture_block st; st_block_buffer := st_block_buffer st |}.
Definition set_caps (st : vstate) v :=
  {| st_blocks := st_blocks st; st_current := st_current st; st_caps := v;
     st_capture_block := st_capture_block st; st_block_buffer := st_block_buffer st |}.
Definition set_block_buffer (st : vstate) v :=
  {| st_blocks := st_blocks st; st_current := st_current st; st_caps := st_caps st;
     st_capture_block := st_capture_block st; st_block_buffer := v |}.

(* WriteText / WriteTop: the innermost capture buffer if any, else the output *)
Definition write (st : vstate) (output : list out) (items : list out) : vstate * list out :=
  match st_caps st with
  | top :: rest => (set_caps st ((top ++ items) :: rest), output)
  | [] => (st, output ++ items)
  end.

(* blocks.iter().rposition(|e| e.0 == name): index counted from the top of the stack *)
Fixpoint find_entry (n : name) (bl : list (name * list code * nat)) : option (nat * (list code * nat)) :=
  match bl with
  | [] => None
  | (n', lin, lvl) :: bl' =>
      if N.eqb n n' then Some (0, (lin, lvl))
      else match find_entry n bl' with Some (i, e) => Some (S i, e) | None => None end
  end.

Fixpoint set_level (pos : nat) (lvl : nat) (bl : list (name * list code * nat)) :=
  match bl, pos with
  | [], _ => []
  | (n, lin, _) :: bl', 0 => (n, lin, lvl) :: bl'
  | e :: bl', S p => e :: set_level p lvl bl'
  end.

Definition opt_name_eqb (a : option name) (b : name) : bool :=
  match a with Some x => N.eqb x b | None => false end.

(* VirtualMachine::interpret restricted to the five instructions.  [fx] = the D8 repair is
   in place (the capture stack is detached while the requested block renders); fx = false is
   the pinned code.  [lin] = self.template.block_lineage.  fuel bounds the depth of nested
   interpret calls (RenderBlock and super() each use one). *)
Fixpoint interp (fx : bool) (lin : name -> option (list code)) (fuel : nat)
  : vstate -> code -> list out -> rres (vstate * list out) :=
  match fuel with
  | 0 => fun _ _ _ => Err EOutOfFuel
  | S f =>
      fix go (st : vstate) (c : code) (output : list out) {struct c} : rres (vstate * list out) :=
        match c with
        | [] => Ok (st, output)
        | i :: c' =>
            match i with
            | IText t => let '(st', o') := write st output [OText t] in go st' c' o'
            | ICapture => go (set_caps st ([] :: st_caps st)) c' output
            | IEndCapture k =>
                match st_caps st with
                | [] => Err EPanic   (* capture_buffers.pop().unwrap() *)
                | captured :: rest =>
                    let '(st', o') := write (set_caps st rest) output (wrap k captured) in
                    go st' c' o'
                end
            | IRenderBlock b =>
                match lin b with
                | None | Some [] => Err ENoLineage
                | Some ((ch0 :: _) as lineage) =>
                    let st1 := set_current (set_blocks st ((b, lineage, 0) :: st_blocks st)) (Some b) in
                    if opt_name_eqb (st_capture_block st) b then
                      let st1' := if fx then set_caps st1 [] else st1 in
                      match interp fx lin f st1' ch0 [] with
                      | Err e => Err e
                      | Ok (st2, buf) =>
                          let st2' := if fx then set_caps st2 (st_caps st) else st2 in
                          go (set_blocks (set_current (set_block_buffer st2' buf) (st_current st))
                                         (tl (st_blocks st2')))
                             c' output
                      end
                    else
                      match interp fx lin f st1 ch0 output with
                      | Err e => Err e
                      | Ok (st2, o2) =>
                          go (set_blocks (set_current st2 (st_current st)) (tl (st_blocks st2))) c' o2
                      end
                end
            | ISuper =>
                match st_current st with
                | None => Err ESuperOutside
                | Some cur =>
                    match find_entry cur (st_blocks st) with
                    | None => Err EPanic   (* .expect("no lineage found") *)
                    | Some (pos, (lineage, level)) =>
                        match nth_error lineage (S level) with
                        | None => Err ESuperTop
                        | Some ch =>
                            let st1 := set_caps (set_blocks st (set_level pos (S level) (st_blocks st))) [] in
                            match interp fx lin f st1 ch [] with
                            | Err e => Err e
                            | Ok (st2, sup) =>
                                let st3 := set_blocks (set_caps st2 (st_caps st))
                                                      (set_level pos level (st_blocks st2)) in
                                let '(st', o') := write st3 output sup in
                                go st' c' o'
                            end
                        end
                    end
                end
            end
        end
  end.

Definition init_state (capture : option name) : vstate :=
  {| st_blocks := []; st_current := None; st_caps := []; st_capture_block := capture;
     st_block_buffer := [] |}.

(* render_to (interpreter.rs:1018-1047): start from the root ancestor's chunk *)
Definition render_to (fx : bool) (fuel : nat) (fr : freg) (t : name) (block : option name)
  : rres (list out) :=
  match get_tpl (f_tpls fr) t with
  | None => Err ENoTemplate
  | Some tpl =>
      chunk <- match alookup t (f_parents fr) with
               | Some (base :: _) =>
                   match get_tpl (f_tpls fr) base with
                   | Some bt => Ok (c_chunk bt)
                   | None => Err ENoTemplate
                   end
               | _ => Ok (c_chunk tpl)
               end ;;
      r <- interp fx (lineage_of fr t) fuel (init_state block) chunk [] ;;
      match block with
      | Some _ => Ok (st_block_buffer (fst r))   (* the full output went to io::sink() *)
      | None => Ok (snd r)
      end
  end.

(* Tera::render *)
Definition render_model (fuel : nat) (fr : freg) (t : name) : rres (list out) :=
  render_to true fuel fr t None.

(* Tera::render_block (tera.rs:1310-1326) *)
Definition render_block_gen (fx : bool) (fuel : nat) (fr : freg) (t b : name) : rres (list out) :=
  match get_tpl (f_tpls fr) t with
  | None => Err ENoTemplate
  | Some _ =>
      match lineage_of fr t b with
      | None => Err EBlockNotFound
      | Some _ => render_to fx fuel fr t (Some b)
      end
  end.
Definition render_block_model := render_block_gen true.
(* the pinned code, before fixes/D8-render-block-in-capture.patch *)
Definition render_block_model_pinned := render_block_gen false.
