(* Writer models for C18 and the API-level entry points of tera.rs.

   What the VM sees of a `std::io::Write` is `write_all(bytes) -> io::Result<()>`; Model/VM.v takes
   that as `wr : W -> str -> option W` (None = the `?` propagates an io::Error). A real writer
   keeps its state when it reports an error (it may even have accepted part of the text: a short
   write followed by an error inside the `write_all` loop), so a writer is described here by a
   total step function

       pw : W -> str -> W * bool        (state after the call, whole text accepted?)

   from which two instantiations of the VM's `wr` are derived:
     wr_of pw    what interpret() sees: Some only if the whole text was accepted;
     sticky pw   the same writer observed from outside: it never reports failure to the VM, but
                 from the first failed call on it is frozen (flag false) — its final state is the
                 state of the real writer at the moment render_to returned Err(Io).
   Executable definitions only; proofs are in Proofs/WriterProofs.v. *)
From TeraV Require Import Model.Value Model.Instr Model.VM Model.World0.
Local Open Scope nat_scope.

Definition pwriter (W : Type) := W -> str -> W * bool.

Definition wr_of {W} (pw : pwriter W) : W -> str -> option W :=
  fun w t => let (w', ok) := pw w t in if ok then Some w' else None.

Definition sticky_step {W} (pw : pwriter W) (wl : W * bool) (t : str) : W * bool :=
  let (w, live) := wl in
  if live then pw w t else (w, false).

Definition sticky {W} (pw : pwriter W) : W * bool -> str -> option (W * bool) :=
  fun wl t => Some (sticky_step pw wl t).

(* ---------- concrete writers ---------- *)

(* the infallible buffer (Vec<u8>): World0.wr_str as a pwriter *)
Definition pw_str : pwriter str := fun w t => (w ++ t, true).

(* the call log: every write_all call, in order *)
Definition wr_log (l : list str) (t : str) : option (list str) := Some (l ++ [t]).

(* accepts at most `rem` more characters (bytes, for ASCII text), then fails; the part of the text
   that still fits is accepted before the error (write_all loops over short writes).
   State: (accepted so far, remaining budget). *)
Definition budget_writer : pwriter (str * nat) :=
  fun w t =>
    let (acc, rem) := w in
    if Nat.leb (length t) rem then ((acc ++ t, rem - length t), true)
    else ((acc ++ firstn rem t, 0), false).

(* fails at the (k+1)-th write_all call, accepting nothing of it. State: (accepted, calls left). *)
Definition failing_at_call : pwriter (str * nat) :=
  fun w t =>
    let (acc, k) := w in
    match k with
    | O => ((acc, 0), false)
    | S k' => ((acc ++ t, k'), true)
    end.

(* the observation every theorem is stated with: the text a writer has accepted *)
Definition acc_str (w : str) : str := w.
Definition acc_pair (w : str * nat) : str := fst w.

(* a writer step obeys its observation: it appends a prefix of the text, all of it on success *)
Definition pw_lawful {W} (pw : pwriter W) (acc : W -> str) : Prop :=
  forall w t, exists p q, t = p ++ q /\ acc (fst (pw w t)) = acc w ++ p /\
                          (snd (pw w t) = true -> q = []).

(* run a list of calls through the VM-visible writer *)
Fixpoint feed {W} (wr : W -> str -> option W) (w : W) (calls : list str) : option W :=
  match calls with
  | [] => Some w
  | t :: r => match wr w t with Some w' => feed wr w' r | None => None end
  end.

(* ---------- the public API of tera.rs on the model ---------- *)

Definition res_of_run (r : rres str) : res str :=
  match r with
  | RDone _ (SinkTop out) => ROk out          (* String::from_utf8(output): a `str` is valid by construction *)
  | RDone _ (SinkBuf _) => RErr ErrPanic
  | RFail e => RErr e
  | ROutOfFuel => RErr ErrOther
  end.

Section Api.
  Variable W : Type.
  Variable wr : W -> str -> option W.
  Variable wd : world.
  Variable fuel : nat.

  (* Tera::render_to (tera.rs 1063-1072): must_get_template, then vm.render_to(None, ..) *)
  Definition tera_render_to (name : str) (c g : ctx) (w : W) : rres W :=
    match assoc_get (w_templates wd) name with
    | None => RFail ErrOther
    | Some tpl => render_to W wr wd fuel tpl None c g w
    end.

  (* Tera::render_block_to (tera.rs 1341-1354): template lookup, lineage check (Error::message),
     then vm.render_to(Some(block), ..) *)
  Definition tera_render_block_to (name block : str) (c g : ctx) (w : W) : rres W :=
    match assoc_get (w_templates wd) name with
    | None => RFail ErrOther
    | Some tpl =>
        match assoc_get (t_lineage tpl) block with
        | None => RFail ErrMsg
        | Some _ => render_to W wr wd fuel tpl (Some block) c g w
        end
    end.

  (* Tera::render_component_to (tera.rs 1259-1294): lookup, build_context (Error::message),
     interpret the component chunk straight into the writer with the autoescape override; no
     global context. `src` is the template the component was defined in (chunk.name). *)
  Definition tera_render_component_to (comp : str) (src : template) (supplied : kwargs)
             (body : option str) (autoescape : bool) (w : W) : rres W :=
    match assoc_get (w_components wd) comp with
    | None => RFail ErrOther
    | Some (def, cchunk) =>
        match w_build_ctx wd def supplied (option_map (fun b => VStr b true) body) with
        | RErr _ => RFail ErrMsg
        | ROk cctx => run W wr wd fuel src (Some autoescape) 0 cchunk 0 (new_state cctx) (SinkTop w)
        end
    end.

  (* Tera::render_str_to (tera.rs 1136-1168) after the one-off template has been compiled
     (parsing, the extends/blocks refusals and reference validation happen before any write and
     are outside this model): vm.render_to(None, ..) on that template with the given flag. *)
  Definition tera_render_str_to (one_off : template) (autoescape : bool) (c g : ctx) (w : W) : rres W :=
    let tpl := {| t_name := t_name one_off; t_chunk := t_chunk one_off; t_root_chunk := t_chunk one_off;
                  t_lineage := []; t_autoescape := autoescape |} in
    render_to W wr wd fuel tpl None c g w.
End Api.

(* The String-returning variants: a fresh Vec<u8>, the `_to` variant, String::from_utf8
   (interpreter.rs 997-1016; tera.rs 1033-1037, 1122-1130, 1222-1231, 1312-1325).
   Tera::one_off is render_str on Tera::default(): the same function at another world. *)
Definition tera_render wd fuel name c g : res str :=
  res_of_run (tera_render_to str wr_str wd fuel name c g []).
Definition tera_render_block wd fuel name block c g : res str :=
  res_of_run (tera_render_block_to str wr_str wd fuel name block c g []).
Definition tera_render_component wd fuel comp src supplied body ae : res str :=
  res_of_run (tera_render_component_to str wr_str wd fuel comp src supplied body ae []).
Definition tera_render_str wd fuel one_off ae c g : res str :=
  res_of_run (tera_render_str_to str wr_str wd fuel one_off ae c g []).
Definition tera_one_off (default_world : world) fuel one_off ae c : res str :=
  tera_render_str default_world fuel one_off ae c [].
