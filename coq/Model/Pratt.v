(* Model of the expression parser of tera (tera/src/parsing/parser.rs 29-59, 212-413, 512-550,
   552-680, 685-894, 1010-1076), of `Display for Expression` (tera/src/parsing/ast.rs 203-256 and
   the Display impls below it), and the printer that inserts exactly the parentheses the
   DOCUMENTED precedence table (docs/content/_index.md "Operator precedence") demands.
   Executable definitions only; no proofs in Model/. *)
From TeraV Require Import Model.Value.
From Coq Require Import String Ascii.
From TeraV Require Gen.BpTables Gen.Tables.
Open Scope nat_scope.

(* ------------------------------------------------------------------ strings *)
Fixpoint s2l (s : string) : str :=
  match s with EmptyString => [] | String a r => N_of_ascii a :: s2l r end.

(* ------------------------------------------------------------------ operators (ast.rs 10-56) *)
Inductive unop := UNot | UMinus.
Inductive bop :=
| OMul | ODiv | OMod | OPlus | OMinus | OFloorDiv | OPower
| OLt | OGt | OLe | OGe | OEq | ONe
| OAnd | OOr | OConcat | OIn
| OIs | OPipe.   (* "not binary operators, only there for precedence in the parser" *)

Definition all_bops : list bop :=
  [OMul; ODiv; OMod; OPlus; OMinus; OFloorDiv; OPower; OLt; OGt; OLe; OGe; OEq; ONe;
   OAnd; OOr; OConcat; OIn; OIs; OPipe].
(* the operators whose r_bp is used as a min_bp (Is and Pipe have no right operand) *)
Definition infix_bops : list bop :=
  [OMul; ODiv; OMod; OPlus; OMinus; OFloorDiv; OPower; OLt; OGt; OLe; OGe; OEq; ONe;
   OAnd; OOr; OConcat; OIn].
Definition all_unops : list unop := [UNot; UMinus].

(* Rust variant names, used to resolve the generated rows *)
Definition bop_name (o : bop) : string :=
  match o with
  | OMul => "Mul" | ODiv => "Div" | OMod => "Mod" | OPlus => "Plus" | OMinus => "Minus"
  | OFloorDiv => "FloorDiv" | OPower => "Power" | OLt => "LessThan" | OGt => "GreaterThan"
  | OLe => "LessThanOrEqual" | OGe => "GreaterThanOrEqual" | OEq => "Equal" | ONe => "NotEqual"
  | OAnd => "And" | OOr => "Or" | OConcat => "StrConcat" | OIn => "In" | OIs => "Is" | OPipe => "Pipe"
  end%string.
Definition unop_name (u : unop) : string :=
  match u with UNot => "Not" | UMinus => "Minus" end%string.

Definition bop_eqb (a b : bop) : bool :=
  match a, b with
  | OMul, OMul | ODiv, ODiv | OMod, OMod | OPlus, OPlus | OMinus, OMinus | OFloorDiv, OFloorDiv
  | OPower, OPower | OLt, OLt | OGt, OGt | OLe, OLe | OGe, OGe | OEq, OEq | ONe, ONe
  | OAnd, OAnd | OOr, OOr | OConcat, OConcat | OIn, OIn | OIs, OIs | OPipe, OPipe => true
  | _, _ => false
  end.

(* ------------------------------------------------------------------ binding powers *)
Record bp_table := { bin_bp : bop -> nat * nat; un_bp : unop -> nat; tern_l : nat }.
Definition lbp (t : bp_table) (o : bop) : nat := fst (bin_bp t o).
Definition rbp (t : bp_table) (o : bop) : nat := snd (bin_bp t o).

Fixpoint lookup {A} (n : string) (rows : list (string * A)) : option A :=
  match rows with
  | [] => None
  | (m, a) :: r => if String.eqb n m then Some a else lookup n r
  end.

(* every operator has exactly one generated row and there is no row for an unknown operator *)
Definition rows_complete (urows : list (string * nat)) (brows : list (string * (nat * nat))) : bool :=
  forallb (fun o => match lookup (bop_name o) brows with Some _ => true | None => false end) all_bops
  && forallb (fun u => match lookup (unop_name u) urows with Some _ => true | None => false end) all_unops
  && Nat.eqb (List.length brows) (List.length all_bops)
  && Nat.eqb (List.length urows) (List.length all_unops).

Definition table_of_rows (urows : list (string * nat)) (brows : list (string * (nat * nat))) (t : nat)
  : bp_table :=
  {| bin_bp := fun o => match lookup (bop_name o) brows with Some p => p | None => (0, 0) end;
     un_bp := fun u => match lookup (unop_name u) urows with Some r => r | None => 0 end;
     tern_l := t |}.

(* the table of the current parser.rs (T-gen) *)
Definition gen_bp : bp_table :=
  table_of_rows BpTables.unary_bp_rows BpTables.binary_bp_rows BpTables.ternary_l_bp.
Definition gen_rows_complete : bool :=
  rows_complete BpTables.unary_bp_rows BpTables.binary_bp_rows.

(* ------------------------------------------------------------------ documented levels
   docs/content/_index.md "Operator precedence", lowest first; level 0 is the ternary (the
   documentation introduces it apart from the operators: it is never an operand without
   parentheses), 11 is `.`, `[]`, `()` and the atoms.  `**` groups to the right, everything
   else to the left (the usual convention, Jinja2's and Python's; the table itself does not
   state associativity).  `doc_levels_match` (Proofs) checks these functions against the rows
   re-extracted from the documentation. *)
Definition lvl_bin (o : bop) : nat :=
  match o with
  | OOr => 1 | OAnd => 2
  | OIn | OIs => 4
  | OEq | ONe | OLt | OLe | OGt | OGe => 5
  | OPlus | OMinus => 6
  | OMul | ODiv | OFloorDiv | OMod | OConcat => 7
  | OPower => 8
  | OPipe => 9
  end.
Definition lvl_un (u : unop) : nat := match u with UNot => 3 | UMinus => 10 end.
Definition lvl_tern : nat := 0.
Definition lvl_atom : nat := 11.
Definition right_assoc (o : bop) : bool := match o with OPower => true | _ => false end.
(* the level an unparenthesised left / right operand of `o` must have *)
Definition lp (o : bop) : nat := if right_assoc o then S (lvl_bin o) else lvl_bin o.
Definition rp (o : bop) : nat := if right_assoc o then lvl_bin o else S (lvl_bin o).

(* `parse min` accepts exactly the operators of documented level >= p *)
Definition thr_ok (bp : bp_table) (min p : nat) : bool :=
  forallb (fun o => Bool.eqb (min <=? lbp bp o) (p <=? lvl_bin o)) all_bops
  && Bool.eqb (min <=? tern_l bp) (p <=? lvl_tern).

(* well-formedness of a binding-power table w.r.t. the documented levels: every min_bp the
   parser ever uses (0, the r_bp of an infix operator, the r_bp of a unary operator,
   TERNARY_L_BP + 1 in list comprehensions) cuts the operators at a documented level *)
Definition wf_bp (bp : bp_table) : bool :=
  thr_ok bp 0 0
  && forallb (fun o => thr_ok bp (rbp bp o) (rp o)) infix_bops
  && forallb (fun u => thr_ok bp (un_bp bp u) (lvl_un u)) all_unops
  && thr_ok bp (S (tern_l bp)) 1.

(* ------------------------------------------------------------------ tokens (lexer.rs 63-123,
   those that can occur between `{{` and `}}`; Str/String merged) *)
Inductive token :=
| TInt (z : Z) | TFloat (d : str) (* the f64, by its Display text *) | TStr (s : str)
| TBool (b : bool) | TIdent (s : str)
| TMul | TDiv | TFloorDiv | TMod | TPlus | TMinus | TPower
| TLt | TGt | TLe | TGe | TEq | TNe | TTilde | TPipe | TAssign
| TDot | TQDot | TQLBracket | TComma | TColon | TBang
| TLBracket | TRBracket | TLParen | TRParen | TLBrace | TRBrace | TSpread
| TClosingTagStart | TVarEnd.

Inductive kw := KNot | KIn | KAnd | KOr | KIs | KIf | KElse | KNone | KFor | KPlain.
Definition kw_of (s : str) : kw :=
  if str_eqb s (s2l "not") then KNot else
  if str_eqb s (s2l "in") then KIn else
  if str_eqb s (s2l "and") then KAnd else
  if str_eqb s (s2l "or") then KOr else
  if str_eqb s (s2l "is") then KIs else
  if str_eqb s (s2l "if") then KIf else
  if str_eqb s (s2l "else") then KElse else
  if str_eqb s (s2l "none") then KNone else
  if str_eqb s (s2l "None") then KNone else
  if str_eqb s (s2l "null") then KNone else
  if str_eqb s (s2l "for") then KFor else KPlain.

(* parser.rs 82-85 *)
Definition reserved_names : list str :=
  map s2l ["true"; "True"; "false"; "False"; "loop"; "self"; "and"; "or"; "not"; "is"; "in";
           "continue"; "break"; "none"; "None"; "null"]%string.
Definition is_reserved (s : str) : bool := existsb (str_eqb s) reserved_names.

(* ------------------------------------------------------------------ AST (ast.rs 88-117) *)
Inductive mkey := MKStr (s : str) | MKInt (z : Z) | MKBool (b : bool).   (* parser.rs 580-595 *)

Inductive const :=
| CInt (z : Z) | CFloat (d : str) | CStr (s : str) | CBool (b : bool) | CNone
| CArr (l : list const)                 (* a literal-only array is folded (parser.rs 676) *)
| CMap (m : list (mkey * const)).       (* a literal-only map is folded (parser.rs 607-618) *)

Inductive expr :=
| EConst (c : const)
| EVar (x : str)
| EAttr (e : expr) (a : str) (opt : bool)
| EItem (e i : expr) (opt : bool)
| ESlice (e : expr) (a b c : option expr) (opt : bool)
| EUn (u : unop) (e : expr)
| EBin (o : bop) (a b : expr)
| ETest (e : expr) (n : str) (kw : list (str * expr))
| EFilter (e : expr) (n : str) (kw : list (str * expr))
| ECall (n : str) (kw : list (str * expr))
| ETern (c t f : expr)
| EArr (items : list (bool * expr))               (* true = spread *)
| EMap (entries : list (option mkey * expr))      (* None = spread *)
| EComp (e : expr) (k : option str) (v : str) (target : expr) (cond : option expr).

Definition is_unary (e : expr) : bool := match e with EUn _ _ => true | _ => false end.
Definition is_concat (o : bop) : bool := match o with OConcat => true | _ => false end.

Definition mkey_eqb (a b : mkey) : bool :=
  match a, b with
  | MKStr x, MKStr y => str_eqb x y
  | MKInt x, MKInt y => Z.eqb x y
  | MKBool x, MKBool y => Bool.eqb x y
  | _, _ => false
  end.

(* insertion into a HashMap: a later equal key replaces the value *)
Fixpoint cmap_insert (k : mkey) (v : const) (m : list (mkey * const)) : list (mkey * const) :=
  match m with
  | [] => [(k, v)]
  | (k', v') :: r => if mkey_eqb k k' then (k', v) :: r else (k', v') :: cmap_insert k v r
  end.

Definition as_consts (items : list (bool * expr)) : option (list const) :=
  fold_right (fun it acc =>
    match it, acc with
    | (false, EConst c), Some l => Some (c :: l)
    | _, _ => None
    end) (Some []) items.

Definition fold_array (items : list (bool * expr)) : expr :=
  match as_consts items with Some l => EConst (CArr l) | None => EArr items end.

Definition as_const_entries (es : list (option mkey * expr)) : option (list (mkey * const)) :=
  fold_left (fun acc en =>
    match acc, en with
    | Some m, (Some k, EConst c) => Some (cmap_insert k c m)
    | _, _ => None
    end) es (Some []).

Definition fold_map (es : list (option mkey * expr)) : expr :=
  match as_const_entries es with Some m => EConst (CMap m) | None => EMap es end.

(* ------------------------------------------------------------------ the parser *)
Definition pres := option (expr * list token).

Inductive ltok := LOp (o : bop) | LNot | LSub | LIf | LBreak.
(* parser.rs 773-835 *)
Definition classify (t : token) : ltok :=
  match t with
  | TMul => LOp OMul | TDiv => LOp ODiv | TFloorDiv => LOp OFloorDiv | TMod => LOp OMod
  | TPlus => LOp OPlus | TMinus => LOp OMinus | TPower => LOp OPower
  | TLt => LOp OLt | TLe => LOp OLe | TGt => LOp OGt | TGe => LOp OGe
  | TEq => LOp OEq | TNe => LOp ONe | TTilde => LOp OConcat
  | TIdent s =>
      match kw_of s with
      | KNot => LNot | KIn => LOp OIn | KAnd => LOp OAnd | KOr => LOp OOr | KIs => LOp OIs
      | KIf => LIf | _ => LBreak
      end
  | TLBracket => LSub
  | TPipe => LOp OPipe
  | _ => LBreak
  end.

Definition kw_mem (n : str) (kw : list (str * expr)) : bool := existsb (fun p => str_eqb n (fst p)) kw.

(* constructor tests written so that the compiled pattern matches stay small *)
Definition ttag (t : token) : N :=
  match t with
  | TInt _ => 0 | TFloat _ => 1 | TStr _ => 2 | TBool _ => 3 | TIdent _ => 4
  | TMul => 5 | TDiv => 6 | TFloorDiv => 7 | TMod => 8 | TPlus => 9 | TMinus => 10 | TPower => 11
  | TLt => 12 | TGt => 13 | TLe => 14 | TGe => 15 | TEq => 16 | TNe => 17 | TTilde => 18 | TPipe => 19
  | TAssign => 20 | TDot => 21 | TQDot => 22 | TQLBracket => 23 | TComma => 24 | TColon => 25
  | TBang => 26 | TLBracket => 27 | TRBracket => 28 | TLParen => 29 | TRParen => 30 | TLBrace => 31
  | TRBrace => 32 | TSpread => 33 | TClosingTagStart => 34 | TVarEnd => 35
  end%N.
(* same constructor *)
Definition tis (a b : token) : bool := N.eqb (ttag a) (ttag b).
Definition hd_is (ts : list token) (b : token) : bool :=
  match ts with t :: _ => tis t b | [] => false end.
Definition as_ident (t : token) : option str := match t with TIdent s => Some s | _ => None end.
(* keyword class of the first token (KPlain when it is not an identifier) *)
Definition hd_kw (ts : list token) : kw :=
  match ts with
  | t :: _ => match as_ident t with Some s => kw_of s | None => KPlain end
  | [] => KPlain
  end.
Definition mkey_of_tok (t : token) : option mkey :=
  match t with
  | TStr s => Some (MKStr s) | TInt z => Some (MKInt z) | TBool b => Some (MKBool b)
  | _ => None
  end.

Section Body.
  Variable bp : bp_table.
  Variable maxb maxdim : nat.   (* MAX_NUM_LEFT_BRACKETS, MAX_DIMENSION_ARRAY *)
  (* inner_parse_expression one recursion level further down: counters (num_left_brackets,
     array_dimension), min_bp, tokens *)
  Variable P : nat * nat -> nat -> list token -> pres.

  (* parse_kwargs (376-413), from after the `(` up to (not including) the `)` *)
  Fixpoint kwargs_loop (k : nat) (c : nat * nat) (acc : list (str * expr)) (ts : list token)
    : option (list (str * expr) * list token) :=
    match k with 0 => None | S k' =>
    if hd_is ts TRParen then Some (acc, ts) else
    let after_comma :=
      match acc with
      | [] => Some ts
      | _ => if hd_is ts TComma then Some (tl ts) else None
      end in
    match after_comma with
    | None => None
    | Some ts1 =>
      if hd_is ts1 TRParen then Some (acc, ts1) else
      match ts1 with
      | t1 :: t2 :: ts2 =>
          match as_ident t1 with
          | Some n =>
              if tis t2 TAssign then
                if kw_mem n acc then None else
                match P c 0 ts2 with
                | Some (v, ts3) => kwargs_loop k' c (acc ++ [(n, v)]) ts3
                | None => None
                end
              else None
          | None => None
          end
      | _ => None
      end
    end end.

  Definition parse_kwargs (c : nat * nat) (ts : list token) : option (list (str * expr) * list token) :=
    if hd_is ts TLParen then
      match kwargs_loop (S (List.length ts)) c [] (tl ts) with
      | Some (kw, ts2) => if hd_is ts2 TRParen then Some (kw, tl ts2) else None
      | None => None
      end
    else None.

  (* parse_filter / parse_test (512-550): name, then kwargs when a `(` follows *)
  Definition parse_named (c : nat * nat) (ts : list token) : option (str * list (str * expr) * list token) :=
    match ts with
    | t :: ts1 =>
        match as_ident t with
        | Some n =>
            if hd_is ts1 TLParen then
              match parse_kwargs c ts1 with Some (kw, ts2) => Some (n, kw, ts2) | None => None end
            else Some (n, [], ts1)
        | None => None
        end
    | [] => None
    end.

  (* parse_subscript (212-287); ts starts at the `[` / `?[` *)
  Definition sub_opt (c : nat * nat) (stop_here : bool) (ts : list token) : option (option expr * list token) :=
    if stop_here then Some (None, ts) else
    match P c 0 ts with Some (e, ts') => Some (Some e, ts') | None => None end.

  Definition parse_subscript (c : nat * nat) (e : expr) (ts : list token) : pres :=
    match ts with
    | t :: ts1 =>
      if tis t TLBracket || tis t TQLBracket then
        let opt := tis t TQLBracket in
        let c' := (S (fst c), snd c) in
        if maxb <? S (fst c) then None else
        match sub_opt c' (hd_is ts1 TColon) ts1 with
        | None => None
        | Some (start, ts2) =>
          if hd_is ts2 TColon then
            let ts3 := tl ts2 in
            match sub_opt c' (hd_is ts3 TColon || hd_is ts3 TRBracket) ts3 with
            | None => None
            | Some (stop, ts4) =>
              let r3 := if hd_is ts4 TColon then
                          match P c' 0 (tl ts4) with Some (s, ts6) => Some (Some s, ts6) | None => None end
                        else Some (None, ts4) in
              match r3 with
              | Some (step, ts6) =>
                  if hd_is ts6 TRBracket then Some (ESlice e start stop step opt, tl ts6) else None
              | None => None
              end
            end
          else if hd_is ts2 TRBracket then
            match start with Some i => Some (EItem e i opt, tl ts2) | None => None end
          else None
        end
      else None
    | [] => None
    end.

  (* the loop of parse_ident (313-371); `loop.x` rewriting only happens inside {% for %} bodies
     and is not modelled (the hook parses top-level `{{ }}`) *)
  Fixpoint chain_loop (k : nat) (c : nat * nat) (e : expr) (ts : list token) : pres :=
    match k with 0 => None | S k' =>
    match ts with
    | [] => Some (e, ts)
    | t :: ts1 =>
      if tis t TDot || tis t TQDot then
        match ts1 with
        | t2 :: ts2 =>
            match as_ident t2 with
            | Some a => chain_loop k' c (EAttr e a (tis t TQDot)) ts2
            | None => None
            end
        | [] => None
        end
      else if tis t TLBracket || tis t TQLBracket then
        match parse_subscript c e ts with Some (e', ts2) => chain_loop k' c e' ts2 | None => None end
      else if tis t TLParen then None
      else Some (e, ts)
    end end.

  (* parse_ident (290-374) *)
  Definition parse_ident (c : nat * nat) (x : str) (ts : list token) : pres :=
    if hd_is ts TLParen then
      match parse_kwargs c ts with Some (kw, ts1) => Some (ECall x kw, ts1) | None => None end
    else chain_loop (S (List.length ts)) c (EVar x) ts.

  (* unary operators (711-735) *)
  Definition parse_unary (c : nat * nat) (u : unop) (ts : list token) : pres :=
    if hd_is ts TMinus then None else
    match hd_kw ts with
    | KNot => None
    | _ => match P c (un_bp bp u) ts with Some (e, ts') => Some (EUn u e, ts') | None => None end
    end.

  (* parse_list_comprehension (1010-1076); ts starts at `for`; c0 = the counters of the
     enclosing frame (array_dimension already decremented, 662) *)
  Definition parse_comp (c0 : nat * nat) (e : expr) (ts : list token) : pres :=
    match ts with
    | _ :: t1 :: ts1 =>
      match as_ident t1 with
      | None => None
      | Some v1 =>
        if is_reserved v1 then None else
        let hdr :=
          if hd_is ts1 TComma then
            match tl ts1 with
            | t2 :: ts2 =>
                match as_ident t2 with
                | Some v2 => if is_reserved v2 then None else Some (Some v1, v2, ts2)
                | None => None
                end
            | [] => None
            end
          else Some (None, v1, ts1) in
        match hdr with
        | None => None
        | Some (k, v, ts3) =>
          match hd_kw ts3 with
          | KIn =>
            match P c0 (S (tern_l bp)) (tl ts3) with
            | Some (target, ts4) =>
              let rc := match hd_kw ts4 with
                        | KIf => match P c0 (S (tern_l bp)) (tl ts4) with
                                 | Some (cd, ts6) => Some (Some cd, ts6) | None => None end
                        | _ => Some (None, ts4)
                        end in
              match rc with
              | Some (cd, ts7) =>
                  if hd_is ts7 TRBracket then Some (EComp e k v target cd, tl ts7) else None
              | None => None
              end
            | None => None
            end
          | _ => None
          end
        end
      end
    | _ => None
    end.

  (* parse_array (624-680), after the `[`; c1 = counters with array_dimension incremented *)
  Fixpoint array_loop (k : nat) (c0 c1 : nat * nat) (items : list (bool * expr)) (ts : list token) : pres :=
    match k with 0 => None | S k' =>
    if hd_is ts TRBracket then Some (fold_array items, tl ts) else
    let after_comma :=
      match items with
      | [] => Some ts
      | _ => if hd_is ts TComma then Some (tl ts) else None
      end in
    match after_comma with
    | None => None
    | Some ts1 =>
      if hd_is ts1 TRBracket then Some (fold_array items, tl ts1) else
      if hd_is ts1 TSpread then
        match P c1 0 (tl ts1) with
        | Some (e, ts2) => array_loop k' c0 c1 (items ++ [(true, e)]) ts2
        | None => None
        end
      else
        match P c1 0 ts1 with
        | Some (e, ts2) =>
            let is_for := match items with [] => match hd_kw ts2 with KFor => true | _ => false end | _ => false end in
            if is_for then parse_comp c0 e ts2
            else array_loop k' c0 c1 (items ++ [(false, e)]) ts2
        | None => None
        end
    end end.

  Definition parse_array (c : nat * nat) (ts : list token) : pres :=
    if maxdim <? S (snd c) then None else
    array_loop (S (List.length ts)) c (fst c, S (snd c)) [] ts.

  (* parse_map (552-622), after the `{` *)
  Fixpoint map_loop (k : nat) (c : nat * nat) (es : list (option mkey * expr)) (ts : list token) : pres :=
    match k with 0 => None | S k' =>
    if hd_is ts TRBrace then Some (fold_map es, tl ts) else
    let after_comma :=
      match es with
      | [] => Some ts
      | _ => if hd_is ts TComma then Some (tl ts) else None
      end in
    match after_comma with
    | None => None
    | Some ts1 =>
      if hd_is ts1 TRBrace then Some (fold_map es, tl ts1) else
      if hd_is ts1 TSpread then
        match P c 0 (tl ts1) with
        | Some (e, ts2) => map_loop k' c (es ++ [(None, e)]) ts2
        | None => None
        end
      else
        match ts1 with
        | t :: ts1' =>
            match mkey_of_tok t with
            | Some key =>
                if hd_is ts1' TColon then
                  match P c 0 (tl ts1') with
                  | Some (e, ts2) => map_loop k' c (es ++ [(Some key, e)]) ts2
                  | None => None
                  end
                else None
            | None => None
            end
        | [] => None
        end
    end end.

  Definition parse_map (c : nat * nat) (ts : list token) : pres := map_loop (S (List.length ts)) c [] ts.

  (* the operator loop of parse_expr_bp (769-893) *)
  Fixpoint loop (c : nat * nat) (min : nat) (k : nat) (neg : bool) (lhs : expr) (ts : list token) {struct k} : pres :=
    match k with 0 => None | S k' =>
    match ts with
    | [] => Some (lhs, [])
    | t :: ts1 =>
      match classify t with
      | LBreak => Some (lhs, ts)
      | LNot =>
          if lbp bp OIn <? min then Some (lhs, ts) else
          match hd_kw ts1 with KIn => loop c min k' true lhs ts1 | _ => None end
      | LSub =>
          match parse_subscript c lhs ts with
          | Some (e, ts2) => loop c min k' neg e ts2
          | None => None
          end
      | LIf =>
          if tern_l bp <? min then Some (lhs, ts) else
          match P c 0 ts1 with
          | Some (cnd, ts2) =>
              match hd_kw ts2 with
              | KElse => match P c 0 (tl ts2) with
                         | Some (f, ts3) => Some (ETern cnd lhs f, ts3)
                         | None => None
                         end
              | _ => None
              end
          | None => None
          end
      | LOp o =>
          if lbp bp o <? min then Some (lhs, ts) else
          (* `is not` (846-852) *)
          let isnot := bop_eqb o OIs && (match hd_kw ts1 with KNot => true | _ => false end) in
          let neg1 := if isnot then true else neg in
          let ts2 := if isnot then tl ts1 else ts1 in
          let r :=
            if bop_eqb o OIs then
              match parse_named c ts2 with
              | Some (n, kw, ts3) => Some (ETest lhs n kw, ts3) | None => None end
            else if bop_eqb o OPipe then
              match parse_named c ts2 with
              | Some (n, kw, ts3) => Some (EFilter lhs n kw, ts3) | None => None end
            else
              match P c (rbp bp o) ts2 with
              | Some (rhs, ts3) =>
                  if is_concat o && is_unary rhs then None else Some (EBin o lhs rhs, ts3)
              | None => None
              end in
          match r with
          | None => None
          | Some (e, ts3) => loop c min k' false (if neg1 then EUn UNot e else e) ts3
          end
      end
    end end.

  (* the first part of parse_expr_bp (700-767); `<` (inline component call) is not modelled *)
  Definition prefix (c : nat * nat) (ts : list token) : pres :=
    match ts with
    | [] => None
    | t :: ts1 =>
      match t with
      | TInt z => Some (EConst (CInt z), ts1)
      | TFloat d => Some (EConst (CFloat d), ts1)
      | TStr s => Some (EConst (CStr s), ts1)
      | TBool b => Some (EConst (CBool b), ts1)
      | TMinus => parse_unary c UMinus ts1
      | TIdent s =>
          match kw_of s with
          | KNone => Some (EConst CNone, ts1)
          | KNot => parse_unary c UNot ts1
          | _ => parse_ident c s ts1
          end
      | TLBrace => parse_map c ts1
      | TLBracket => parse_array c ts1
      | TLParen =>
          match P c 0 ts1 with
          | Some (e, ts2) => if hd_is ts2 TRParen then Some (e, tl ts2) else None
          | None => None
          end
      | _ => None
      end
    end.

  Definition body_k (c : nat * nat) (min : nat) (K : nat) (ts : list token) : pres :=
    match prefix c ts with
    | None => None
    | Some (lhs, ts1) => loop c min K false lhs ts1
    end.

  Definition body (c : nat * nat) (min : nat) (ts : list token) : pres :=
    body_k c min (S (List.length ts)) ts.
End Body.

(* inner_parse_expression (685-697): `d` is the number of recursion levels still allowed, so
   running out of it IS the "expression is too complex" syntax error. *)
Fixpoint parse (bp : bp_table) (maxb maxdim : nat) (d : nat) (c : nat * nat) (min : nat) (ts : list token) : pres :=
  match d with
  | 0 => None
  | S d' => body bp maxb maxdim (parse bp maxb maxdim d') c min ts
  end.

Definition max_brackets : nat := Z.to_nat Tables.max_num_left_brackets.
Definition max_dim : nat := Z.to_nat Tables.max_dimension_array.
(* parse_until has already used one level when a top-level `{{` is reached (1638-1651) *)
Definition top_depth : nat := Z.to_nat Tables.max_recursion_depth - 1.

(* a top-level `{{ expr }}`: tokens after the `{{`, up to and including the `}}` *)
Definition parse_top (bp : bp_table) (ts : list token) : option expr :=
  match parse bp max_brackets max_dim top_depth (0, 0) 0 ts with
  | Some (e, [TVarEnd]) => Some e
  | _ => None
  end.

(* ------------------------------------------------------------------ Display (ast.rs) *)
Definition digit (n : N) : N := (48 + n)%N.
Fixpoint dec_pos (fuel : nat) (n : N) (acc : str) : str :=
  match fuel with
  | 0%nat => acc
  | S f => let acc' := digit (n mod 10)%N :: acc in
           if (n <? 10)%N then acc' else dec_pos f (n / 10)%N acc'
  end.
Definition dec_N (n : N) : str := dec_pos (S (N.to_nat (N.log2 n))) n [].
Definition dec_Z (z : Z) : str :=
  match z with
  | Z0 => [48%N]
  | Zpos p => dec_N (Npos p)
  | Zneg p => 45%N :: dec_N (Npos p)
  end.

Definition sp : str := [32%N].
Definition comma_sp : str := [44%N; 32%N].
Fixpoint join (sep : str) (l : list str) : str :=
  match l with [] => [] | [x] => x | x :: r => x ++ sep ++ join sep r end.
Definition quoted (q : N) (s : str) : str := q :: s ++ [q].
Definition show_bool (b : bool) : str := if b then s2l "true" else s2l "false".

(* byte-wise order of Rust `String` (code points compare like their UTF-8 encodings) *)
Fixpoint str_leb (a b : str) : bool :=
  match a, b with
  | [], _ => true
  | _ :: _, [] => false
  | x :: a', y :: b' => if (x <? y)%N then true else if (y <? x)%N then false else str_leb a' b'
  end.
Fixpoint insert_by {A} (le : A -> A -> bool) (x : A) (l : list A) : list A :=
  match l with [] => [x] | y :: r => if le x y then x :: l else y :: insert_by le x r end.
Definition sort_by {A} (le : A -> A -> bool) (l : list A) : list A := fold_right (insert_by le) [] l.

(* Ord for Key (key.rs): bools, then integers by value, then strings *)
Definition mkey_leb (a b : mkey) : bool :=
  match a, b with
  | MKBool x, MKBool y => implb x y
  | MKBool _, _ => true
  | MKInt _, MKBool _ => false
  | MKInt x, MKInt y => (x <=? y)%Z
  | MKInt _, MKStr _ => true
  | MKStr x, MKStr y => str_leb x y
  | MKStr _, _ => false
  end.
Definition show_mkey (k : mkey) : str :=
  match k with MKStr s => s | MKInt z => dec_Z z | MKBool b => show_bool b end.

(* Value::format of a folded constant (mod.rs 476-503, format_map 34-58); strings inside
   containers are written with `{:?}` — modelled for strings without characters that Debug
   escapes (the generators only use such strings) *)
(* `{:?}` of an f64 keeps a trailing `.0` where `{}` drops it: the Display text of an integral
   float consists of digits (and a sign) only *)
Definition float_debug (d : str) : str :=
  if forallb (fun ch => ((48 <=? ch) && (ch <=? 57)) || (ch =? 45))%N d then d ++ [46%N; 48%N] else d.

Fixpoint show_cval (c : const) : str :=
  match c with
  | CInt z => dec_Z z
  | CFloat d => float_debug d
  | CStr s => s
  | CBool b => show_bool b
  | CNone => []
  | CArr l =>
      [91%N] ++ join comma_sp (map (fun x => match x with CStr s => quoted 34%N s | _ => show_cval x end) l) ++ [93%N]
  | CMap m =>
      [123%N] ++ join comma_sp
        (map (fun kv : mkey * str =>
                (match fst kv with MKStr s => quoted 34%N s | k => show_mkey k end) ++ [58%N; 32%N] ++ snd kv)
             (sort_by (fun a b : mkey * str => mkey_leb (fst a) (fst b))
                (map (fun kv : mkey * const =>
                        match kv with
                        | (k, v) => (k, match v with CStr s => quoted 34%N s | _ => show_cval v end)
                        end) m))) ++ [125%N]
  end.

(* ast.rs 206-239 *)
Definition show_const (c : const) : str :=
  match c with
  | CStr s => quoted 39%N s
  | CFloat d => d              (* `{}` of the f64 *)
  | CNone => s2l "null"
  | CArr l =>
      [91%N] ++ join comma_sp (map (fun x => match x with CStr s => quoted 34%N s | _ => show_cval x end) l) ++ [93%N]
  | _ => show_cval c
  end.

Definition show_unop (u : unop) : str := match u with UNot => s2l "not" | UMinus => s2l "-" end.
Definition show_bop (o : bop) : str :=
  s2l (match o with
       | OMul => "*" | OPower => "**" | ODiv => "/" | OFloorDiv => "//" | OMod => "%" | OPlus => "+"
       | OMinus => "-" | OLt => "<" | OGt => ">" | OLe => "<=" | OGe => ">=" | OEq => "==" | ONe => "!="
       | OAnd => "and" | OOr => "or" | OConcat => "~" | OIn => "in" | OIs => "is" | OPipe => "|"
       end)%string.

(* kwargs are a HashMap in Rust: printed sorted by name, `k=v` joined by ", " inside `{}` *)
Definition show_kwargs (kw : list (str * str)) : str :=
  [123%N] ++ join comma_sp (map (fun p : str * str => fst p ++ [61%N] ++ snd p)
                                (sort_by (fun a b : str * str => str_leb (fst a) (fst b)) kw)) ++ [125%N].

Fixpoint display (e : expr) : str :=
  match e with
  | EConst c => show_const c
  | EVar x => x
  | EAttr e a opt => display e ++ (if opt then s2l "?." else s2l ".") ++ a
  | EItem e i opt => display e ++ (if opt then s2l "?[" else s2l "[") ++ display i ++ s2l "]"
  | ESlice e a b c opt =>
      display e ++ (if opt then s2l "?[" else s2l "[") ++
      match a with Some x => display x | None => [] end ++
      match b with Some x => [58%N] ++ display x | None => [] end ++
      match c with Some x => [58%N] ++ display x | None => [] end ++ s2l "]"
  | EUn u e => s2l "(" ++ show_unop u ++ sp ++ display e ++ s2l ")"
  | EBin o a b => s2l "(" ++ show_bop o ++ sp ++ display a ++ sp ++ display b ++ s2l ")"
  | ETest e n kw =>
      s2l "(is " ++ display e ++ sp ++ n ++
      show_kwargs (map (fun p : str * expr => match p with (k, v) => (k, display v) end) kw) ++ s2l ")"
  | EFilter e n kw =>
      s2l "(| " ++ display e ++ sp ++ n ++
      show_kwargs (map (fun p : str * expr => match p with (k, v) => (k, display v) end) kw) ++ s2l ")"
  | ECall n kw =>
      n ++ show_kwargs (map (fun p : str * expr => match p with (k, v) => (k, display v) end) kw)
  | ETern c t f => display t ++ s2l " if " ++ display c ++ s2l " else " ++ display f
  | EArr items =>
      [91%N] ++ join comma_sp (map (fun it : bool * expr =>
                                      match it with (sp_, x) => (if sp_ then s2l "..." else []) ++ display x end) items) ++ [93%N]
  | EMap es =>
      [123%N] ++ join comma_sp (map (fun en : option mkey * expr =>
                                       match en with
                                       | (Some k, x) => show_mkey k ++ s2l ": " ++ display x
                                       | (None, x) => s2l "..." ++ display x
                                       end) es) ++ [125%N]
  | EComp e k v target cond =>
      s2l "[" ++ display e ++ s2l " for " ++
      match k with Some k => k ++ comma_sp ++ v | None => v end ++ s2l " in " ++ display target ++
      match cond with Some c => s2l " if " ++ display c | None => [] end ++ s2l "]"
  end.

(* ------------------------------------------------------------------ surface syntax and the printer *)
Inductive sx :=
| SConst (c : const)
| SVar (x : str)
| SAttr (e : sx) (a : str) (opt : bool)
| SItem (e i : sx) (opt : bool)
| SSlice (e : sx) (a b c : option sx) (opt : bool)
| SUn (u : unop) (e : sx)
| SBin (o : bop) (a b : sx)
| SNotIn (a b : sx)                                         (* a not in b *)
| STest (e : sx) (n : str) (kw : list (str * sx)) (neg : bool)   (* neg: `is not` *)
| SFilter (e : sx) (n : str) (kw : list (str * sx))
| SCall (n : str) (kw : list (str * sx))
| STern (c t f : sx)
| SParen (e : sx)                                           (* redundant (or required) parentheses *)
| SArr (items : list (bool * sx)) (trail : bool)             (* true = spread; trail: `[a, b,]` *)
| SMap (entries : list (option mkey * sx)) (trail : bool)   (* None = spread; trail: `{k: v,}` *)
| SComp (e : sx) (k : option str) (v : str) (target : sx) (cond : option sx).

(* what the parser builds for a surface tree: parentheses and trailing commas vanish, `not in` /
   `is not` become a negation, literal-only containers are folded *)
Fixpoint desugar (s : sx) : expr :=
  match s with
  | SConst c => EConst c
  | SVar x => EVar x
  | SAttr e a opt => EAttr (desugar e) a opt
  | SItem e i opt => EItem (desugar e) (desugar i) opt
  | SSlice e a b c opt => ESlice (desugar e) (option_map desugar a) (option_map desugar b) (option_map desugar c) opt
  | SUn u e => EUn u (desugar e)
  | SBin o a b => EBin o (desugar a) (desugar b)
  | SNotIn a b => EUn UNot (EBin OIn (desugar a) (desugar b))
  | STest e n kw neg =>
      let t := ETest (desugar e) n (map (fun p : str * sx => match p with (k, v) => (k, desugar v) end) kw) in
      if neg then EUn UNot t else t
  | SFilter e n kw => EFilter (desugar e) n (map (fun p : str * sx => match p with (k, v) => (k, desugar v) end) kw)
  | SCall n kw => ECall n (map (fun p : str * sx => match p with (k, v) => (k, desugar v) end) kw)
  | STern c t f => ETern (desugar c) (desugar t) (desugar f)
  | SParen e => desugar e
  | SArr items _ => fold_array (map (fun it : bool * sx => match it with (b, v) => (b, desugar v) end) items)
  | SMap es _ => fold_map (map (fun en : option mkey * sx => match en with (k, v) => (k, desugar v) end) es)
  | SComp e k v target cond => EComp (desugar e) k v (desugar target) (option_map desugar cond)
  end.

(* a folded (literal-only) container constant written out as the literal it was folded from *)
Fixpoint cembed (c : const) : sx :=
  match c with
  | CArr l => SArr (map (fun x : const => (false, cembed x)) l) false
  | CMap m => SMap (map (fun kv : mkey * const => match kv with (k, x) => (Some k, cembed x) end) m) false
  | _ => SConst c
  end.

(* the surface tree without sugar and without parentheses of an AST *)
Fixpoint embed (e : expr) : sx :=
  match e with
  | EConst c => cembed c
  | EVar x => SVar x
  | EAttr e a opt => SAttr (embed e) a opt
  | EItem e i opt => SItem (embed e) (embed i) opt
  | ESlice e a b c opt => SSlice (embed e) (option_map embed a) (option_map embed b) (option_map embed c) opt
  | EUn u e => SUn u (embed e)
  | EBin o a b => SBin o (embed a) (embed b)
  | ETest e n kw => STest (embed e) n (map (fun p : str * expr => match p with (k, v) => (k, embed v) end) kw) false
  | EFilter e n kw => SFilter (embed e) n (map (fun p : str * expr => match p with (k, v) => (k, embed v) end) kw)
  | ECall n kw => SCall n (map (fun p : str * expr => match p with (k, v) => (k, embed v) end) kw)
  | ETern c t f => STern (embed c) (embed t) (embed f)
  | EArr items => SArr (map (fun it : bool * expr => match it with (b, v) => (b, embed v) end) items) false
  | EMap es => SMap (map (fun en : option mkey * expr => match en with (k, v) => (k, embed v) end) es) false
  | EComp e k v target cond => SComp (embed e) k v (embed target) (option_map embed cond)
  end.

(* documented level of the outermost construct *)
Definition lvl (s : sx) : nat :=
  match s with
  | SBin o _ _ => lvl_bin o
  | SNotIn _ _ => lvl_bin OIn
  | STest _ _ _ _ => lvl_bin OIs
  | SFilter _ _ _ => lvl_bin OPipe
  | SUn u _ => lvl_un u
  | STern _ _ _ => lvl_tern
  | _ => lvl_atom
  end.

Definition paren (ts : list token) : list token := TLParen :: ts ++ [TRParen].
(* an operand that must have level >= p *)
Definition wrap (p l : nat) (ts : list token) : list token := if l <? p then paren ts else ts.

Definition starts_unary (ts : list token) : bool :=
  match ts with
  | TMinus :: _ => true
  | TIdent s :: _ => match kw_of s with KNot => true | _ => false end
  | _ => false
  end.

Definition tok_bop (o : bop) : token :=
  match o with
  | OMul => TMul | ODiv => TDiv | OMod => TMod | OPlus => TPlus | OMinus => TMinus
  | OFloorDiv => TFloorDiv | OPower => TPower | OLt => TLt | OGt => TGt | OLe => TLe | OGe => TGe
  | OEq => TEq | ONe => TNe | OAnd => TIdent (s2l "and") | OOr => TIdent (s2l "or")
  | OConcat => TTilde | OIn => TIdent (s2l "in") | OIs => TIdent (s2l "is") | OPipe => TPipe
  end.
Definition tok_unop (u : unop) : token := match u with UNot => TIdent (s2l "not") | UMinus => TMinus end.
Definition tok_const (c : const) : token :=
  match c with
  | CInt z => TInt z | CFloat d => TFloat d | CStr s => TStr s | CBool b => TBool b
  | CNone => TIdent (s2l "none")
  | _ => TBang   (* folded containers have no single token; excluded by `printable` *)
  end.
Definition tok_mkey (k : mkey) : token :=
  match k with MKStr s => TStr s | MKInt z => TInt z | MKBool b => TBool b end.

Fixpoint sep_by (sep : token) (l : list (list token)) : list token :=
  match l with [] => [] | [x] => x | x :: r => x ++ sep :: sep_by sep r end.

Fixpoint raw (s : sx) : list token :=
  match s with
  | SConst c => [tok_const c]
  | SVar x => [TIdent x]
  | SAttr e a opt => raw e ++ [if opt then TQDot else TDot; TIdent a]
  | SItem e i opt =>
      wrap lvl_atom (lvl e) (raw e) ++ [if opt then TQLBracket else TLBracket] ++ raw i ++ [TRBracket]
  | SSlice e a b c opt =>
      wrap lvl_atom (lvl e) (raw e) ++ [if opt then TQLBracket else TLBracket] ++
      match a with Some x => raw x | None => [] end ++ [TColon] ++
      match b with Some x => raw x | None => [] end ++
      match c with Some x => TColon :: raw x | None => [] end ++ [TRBracket]
  | SUn u e =>
      let r := raw e in
      tok_unop u :: (if (lvl e <? lvl_un u) || starts_unary r then paren r else r)
  | SBin o a b => wrap (lp o) (lvl a) (raw a) ++ tok_bop o :: wrap (rp o) (lvl b) (raw b)
  | SNotIn a b =>
      wrap (lp OIn) (lvl a) (raw a) ++ TIdent (s2l "not") :: TIdent (s2l "in") :: wrap (rp OIn) (lvl b) (raw b)
  | STest e n kw neg =>
      wrap (lp OIs) (lvl e) (raw e) ++ TIdent (s2l "is") :: (if neg then [TIdent (s2l "not")] else []) ++ TIdent n ::
      match kw with
      | [] => []
      | _ => paren (sep_by TComma (map (fun p : str * sx => match p with (k, v) => TIdent k :: TAssign :: raw v end) kw))
      end
  | SFilter e n kw =>
      wrap (lp OPipe) (lvl e) (raw e) ++ TPipe :: TIdent n ::
      match kw with
      | [] => []
      | _ => paren (sep_by TComma (map (fun p : str * sx => match p with (k, v) => TIdent k :: TAssign :: raw v end) kw))
      end
  | SCall n kw =>
      TIdent n :: paren (sep_by TComma (map (fun p : str * sx => match p with (k, v) => TIdent k :: TAssign :: raw v end) kw))
  | STern c t f =>
      wrap (S lvl_tern) (lvl t) (raw t) ++ TIdent (s2l "if") :: raw c ++ TIdent (s2l "else") :: raw f
  | SParen e => paren (raw e)
  | SArr items trail =>
      TLBracket :: sep_by TComma (map (fun it : bool * sx => match it with (b, v) => (if b then [TSpread] else []) ++ raw v end) items)
        ++ (if trail then [TComma] else []) ++ [TRBracket]
  | SMap es trail =>
      TLBrace :: sep_by TComma (map (fun en : option mkey * sx =>
                                     match en with
                                     | (Some k, v) => tok_mkey k :: TColon :: raw v
                                     | (None, v) => TSpread :: raw v
                                     end) es) ++ (if trail then [TComma] else []) ++ [TRBrace]
  | SComp e k v target cond =>
      TLBracket :: raw e ++ TIdent (s2l "for") ::
      match k with Some k => [TIdent k; TComma; TIdent v] | None => [TIdent v] end ++
      TIdent (s2l "in") :: wrap (S lvl_tern) (lvl target) (raw target) ++
      match cond with Some c => TIdent (s2l "if") :: wrap (S lvl_tern) (lvl c) (raw c) | None => [] end ++ [TRBracket]
  end.

(* the tokens of `{{ s }}` after the `{{` *)
Definition print (s : sx) : list token := raw s.
Definition pr (p : nat) (s : sx) : list token := wrap p (lvl s) (raw s).
