(* Model of the glob entry points of the template registry (cargo feature `glob_fs`):
   Tera::load_from_glob and Tera::full_reload, on top of Model/Registry.v.
   Executable definitions only; no proofs in Model/.

   Ported from (current tree):
     tera/src/tera.rs   116-159  load_from_glob (take the map, remember the glob, keep the
                                 manually added templates, add every matched file collecting
                                 the errors, finalize, restore map and glob on any error)
                        165-175  full_reload
                        826-854  add_file (Registry.add_file)
     tera/src/template.rs 16-17, 124  `from_glob`: false in every Template::new
     tera/src/globbing.rs 10-74  load_from_glob(glob) -> Vec<(path, name)>: modelled by its
                                 answer (`globres`), produced for the correspondence run by calling
                                 that very function on a real directory

   `from_glob` is a field of `Template` in the real code.  The model keeps the set of names
   whose template carries the flag next to the instance (`gs_globbed`) instead of inside `entry`
   (whose derived fields are, by C10_reachable_inv, functions of the current sources -- the flag
   is not: it records where a template came from).  Every operation that replaces or restores a
   `Template` therefore replaces or restores the membership of its key:
     - a successful add_raw_templates / add_template_files inserts fresh templates
       (from_glob = false) under the keys of the batch: those keys leave the set;
     - a failing one puts every previous `Template` back (undo list): the set is unchanged;
     - autoescape_on rewrites only `autoescape_enabled`;
     - load_from_glob: see below. *)
From Coq Require Import List NArith Bool Arith.
From TeraV Require Import Model.Registry.
Import ListNotations.

Record gstate := {
  gs_st : state;               (* templates, components, autoescape suffixes *)
  gs_globbed : list name;      (* keys of the templates with from_glob = true; strictly sorted *)
  gs_glob : option name        (* `self.glob` *)
}.

Definition ginit (sufs : list name) : gstate :=
  {| gs_st := init sufs; gs_globbed := []; gs_glob := None |}.

(* what globbing::load_from_glob(glob) answers *)
Inductive globres :=
| GInvalid                     (* Err: no `*` in the glob, or globset rejects the pattern *)
| GFiles (fs : list fentry).   (* Ok(entries), in walk order; every entry has fe_name = Some relative_path *)

(* tera.rs:120-125: `prev_templates.iter().filter(|(_, tpl)| !tpl.from_glob)` *)
Definition drop_globbed (gl : list name) (m : tmap) : tmap :=
  filter (fun ne : name * entry => negb (nmem (fst ne) gl)) m.

(* the loop at tera.rs:130-141.  Unlike add_template_files it does not stop at the first error:
   a failing file is skipped and remembered (`errors.push`), the others are still inserted and
   marked `from_glob = true`. *)
Fixpoint glob_insert (m : tmap) (fs : list fentry) (failed : bool) (marked : list name)
  : bool * tmap * list name :=
  match fs with
  | [] => (failed, m, marked)
  | f :: fs' =>
      match add_file m f with
      | (Ok kp, m') => glob_insert m' fs' failed (ninsert (fst kp) marked)
      | (Err _, _) => glob_insert m fs' true marked
      end
  end.

(* load_from_glob, tera.rs:116-159.  `prev_templates` / `prev_glob` are the fields of `g`; the
   error exits assign them back (152-155), so they return `g` with nothing else touched:
   finalize_templates writes `self.components` and the derived fields only after its last
   error exit (Registry.finalize returns a new state only on Ok). *)
Definition load_glob (ev : env) (g : gstate) (pat : name) (r : globres) : rres unit * gstate :=
  let s := gs_st g in
  let kept := drop_globbed (gs_globbed g) (st_tpls s) in
  match r with
  | GInvalid => (Err EkMsg, g)
  | GFiles fs =>
      match glob_insert kept fs false [] with
      | (true, _, _) => (Err EkMsg, g)            (* Error::message(errors.join("\n")) *)
      | (false, m1, marked) =>
          match finalize ev (with_tpls s m1) with
          | Ok s' => (Ok tt, {| gs_st := s'; gs_globbed := marked; gs_glob := Some pat |})
          | Err e => (Err e, g)
          end
      end
  end.

(* full_reload, tera.rs:165-175 *)
Definition full_reload (ev : env) (g : gstate) (r : globres) : rres unit * gstate :=
  match gs_glob g with
  | Some pat => load_glob ev g pat r
  | None => (Err EkMsg, g)
  end.

(* keys a registration call writes fresh templates under *)
Definition call_keys (c : call) : list name :=
  match c with
  | CAdd b => map fst b
  | CAddFiles fs => map fe_key fs
  | CAuto _ => []
  end.

Definition unmark (keys gl : list name) : list name :=
  filter (fun k => negb (nmem k keys)) gl.

(* a call of Model.Registry on an instance that remembers its glob *)
Definition lift_call (ev : env) (g : gstate) (c : call) : rres unit * gstate :=
  match step ev (gs_st g) c with
  | (Ok u, s') =>
      (Ok u, {| gs_st := s'; gs_globbed := unmark (call_keys c) (gs_globbed g); gs_glob := gs_glob g |})
  | (Err e, s') =>
      (Err e, {| gs_st := s'; gs_globbed := gs_globbed g; gs_glob := gs_glob g |})
  end.

Inductive gcall :=
| GCall (c : call)
| GLoad (pat : name) (r : globres)
| GReload (r : globres).

Definition gstep (ev : env) (g : gstate) (c : gcall) : rres unit * gstate :=
  match c with
  | GCall c => lift_call ev g c
  | GLoad pat r => load_glob ev g pat r
  | GReload r => full_reload ev g r
  end.

Fixpoint grun (ev : env) (g : gstate) (h : list gcall) : list (rres unit) * gstate :=
  match h with
  | [] => ([], g)
  | c :: h' =>
      let '(r, g') := gstep ev g c in
      let '(rs, g'') := grun ev g' h' in
      (r :: rs, g'')
  end.

(* the keys a glob answer registers (all of them on success) *)
Definition glob_keys (fs : list fentry) : list name :=
  fold_left (fun acc f => ninsert (fe_key f) acc) fs [].
