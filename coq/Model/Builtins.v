(* Model of the built-in filters, tests and functions (C17):
     tera/src/args.rs      ArgFromValue conversions (41-299), Kwargs::get / must_get (311-338)
     tera/src/filters.rs   the filters (80-613)
     tera/src/tests.rs     the tests (69-185)
     tera/src/functions.rs range, throw (63-110)
   Executable definitions only.  Strings are lists of scalar values (Model/Value.v); byte offsets
   are below the model (every Rust routine used here works on char boundaries).
   Outcome classes are the ErrorKind of the error the built-in returns:
   InvalidArgument / MissingArgument / OutOfRangeArgument / anything else (Msg).
   `None` as the result of a dispatch function means "this cell is not modelled" (the value
   depends on a std routine kept as an oracle: float printing/parsing, Debug string escaping,
   from_utf8_lossy, Value equality owned by C15, sort/unique/group_by owned by C16). *)
From Coq Require Import String Ascii.
From TeraV Require Import Model.Value Model.StrOps Gen.Tables.
Open Scope Z_scope.

(* ------------------------------------------------------------------ outcome classes *)

Inductive berr := EInvalidArg | EMissingArg | EOutOfRange | EOther | EPanic.
Inductive bres (A : Type) := BOk (a : A) | BErr (e : berr).
Arguments BOk {A} a.
Arguments BErr {A} e.

Definition bbind {A B} (r : bres A) (f : A -> bres B) : bres B :=
  match r with BOk a => f a | BErr e => BErr e end.
Notation "'let?' x := r 'in' k" := (bbind r (fun x => k))
  (at level 200, x pattern, r at level 100, k at level 200, right associativity).

(* ------------------------------------------------------------------ names and kwargs *)

Definition s2l (s : string) : str := map N_of_ascii (list_ascii_of_string s).

Definition kwargs := list (str * value).

Fixpoint kw_find (k : str) (kw : kwargs) : option value :=
  match kw with
  | [] => None
  | (k', v) :: t => if str_eqb k k' then Some v else kw_find k t
  end.

(* Kwargs::get (args.rs 311-320): absent -> None, present -> converted (conversion errors kept) *)
Definition kw_get {A} (conv : value -> bres A) (k : string) (kw : kwargs) : bres (option A) :=
  match kw_find (s2l k) kw with
  | None => BOk None
  | Some v => let? a := conv v in BOk (Some a)
  end.

(* Kwargs::must_get (args.rs 324-334) *)
Definition kw_must {A} (conv : value -> bres A) (k : string) (kw : kwargs) : bres A :=
  let? o := kw_get conv k kw in
  match o with Some a => BOk a | None => BErr EMissingArg end.

Definition opt_or {A} (o : option A) (d : A) : A := match o with Some a => a | None => d end.

(* ------------------------------------------------------------------ floats (binary64) *)

Definition f64_of_Z (z : Z) : spec_float := binary_normalize 53 1024 z 0 false.
Definition f64_mul := SFmul 53 1024.
Definition f64_div := SFdiv 53 1024.

(* classification of a float by `v.trunc() == v` and its integer value *)
Inductive fint := FInt (z : Z) | FInf | FNotInt.

Definition sf_int (f : spec_float) : fint :=
  match f with
  | S754_zero _ => FInt 0
  | S754_infinity _ => FInf
  | S754_nan => FNotInt
  | S754_finite s m e =>
      let sg (a : Z) := if s then - a else a in
      if 0 <=? e then FInt (sg (Z.pos m * 2 ^ e))
      else if (Z.pos m) mod (2 ^ (- e)) =? 0 then FInt (sg (Z.pos m / 2 ^ (- e)))
      else FNotInt
  end.

(* f64::floor / ceil / round (half away from zero) as integers scaled by 2^-e; a float with
   e >= 0 is its own rounding *)
Inductive rmode := RRound | RCeil | RFloor.

Definition round_int (md : rmode) (s : bool) (m : positive) (e : Z) : Z :=
  (* only called with e < 0; k = 2^-e *)
  let k := 2 ^ (- e) in
  let x := if s then - Z.pos m else Z.pos m in   (* value = x / k *)
  match md with
  | RFloor => x / k
  | RCeil => - ((- x) / k)
  | RRound => let a := (2 * Z.pos m + k) / (2 * k) in if s then - a else a
  end.

Definition f64_round (md : rmode) (f : spec_float) : spec_float :=
  match f with
  | S754_finite s m e =>
      if 0 <=? e then f
      else binary_normalize 53 1024 (round_int md s m e) 0 s   (* zero keeps the sign of the input *)
  | _ => f
  end.

Definition f64_abs (f : spec_float) : spec_float := SFabs f.

(* ------------------------------------------------------------------ ArgFromValue (args.rs) *)

Inductive ity := TU8 | TU16 | TU32 | TU64 | TU128 | TUsize | TI8 | TI16 | TI32 | TI64 | TI128 | TIsize.

Definition ity_min (t : ity) : Z :=
  match t with
  | TU8 | TU16 | TU32 | TU64 | TU128 | TUsize => 0
  | TI8 => -128 | TI16 => -32768 | TI32 => -2147483648
  | TI64 | TIsize => - two63 | TI128 => i128_min
  end.
Definition ity_max (t : ity) : Z :=
  match t with
  | TU8 => 255 | TU16 => 65535 | TU32 => 4294967295
  | TU64 | TUsize => two64 - 1 | TU128 => u128_max
  | TI8 => 127 | TI16 => 32767 | TI32 => 2147483647
  | TI64 | TIsize => two63 - 1 | TI128 => i128_max
  end.
Definition in_ity (t : ity) (z : Z) : bool := (ity_min t <=? z) && (z <=? ity_max t).

(* int_from_value (args.rs 84-104).  A float is accepted when `v.trunc() == v` (so NaN and
   fractional floats are InvalidArgument, +-inf passes the guard) and -2^127 <= v < 2^127. *)
Definition arg_int (t : ity) (v : value) : bres Z :=
  match v with
  | VInt _ z => if in_ity t z then BOk z else BErr EOutOfRange
  | VFloat f =>
      match sf_int f with
      | FInt z => if (i128_min <=? z) && (z <? two127) && in_ity t z then BOk z else BErr EOutOfRange
      | FInf => BErr EOutOfRange
      | FNotInt => BErr EInvalidArg
      end
  | _ => BErr EInvalidArg
  end.

Definition arg_bool (v : value) : bres bool :=
  match v with VBool b => BOk b | _ => BErr EInvalidArg end.

(* impl_for_literal!(f64): integers are cast (round to nearest even), floats pass *)
Definition arg_f64 (v : value) : bres spec_float :=
  match v with
  | VInt _ z => BOk (f64_of_Z z)
  | VFloat f => BOk f
  | _ => BErr EInvalidArg
  end.

Definition arg_str (v : value) : bres str :=
  match v with VStr s _ => BOk s | _ => BErr EInvalidArg end.

Definition arg_value (v : value) : bres value := BOk v.

Definition arg_array (v : value) : bres (list value) :=
  match v with VArr l => BOk l | _ => BErr EInvalidArg end.

Definition arg_map (v : value) : bres (list (key * value)) :=
  match v with VMap m => BOk m | _ => BErr EInvalidArg end.

(* Number: as_number, a u128 above i128::MAX is a plain message error *)
Inductive number := NInt (z : Z) | NFloat (f : spec_float).
Definition arg_number (v : value) : bres number :=
  match v with
  | VInt _ z => if in_i128 z then BOk (NInt z) else BErr EOther
  | VFloat f => BOk (NFloat f)
  | _ => BErr EInvalidArg
  end.

(* ------------------------------------------------------------------ characters *)

Open Scope N_scope.

(* Unicode White_Space (char::is_whitespace) *)
Definition is_ws (c : N) : bool :=
  ((9 <=? c) && (c <=? 13)) || (c =? 32) || (c =? 133) || (c =? 160) || (c =? 5760)
  || ((8192 <=? c) && (c <=? 8202)) || (c =? 8232) || (c =? 8233) || (c =? 8239)
  || (c =? 8287) || (c =? 12288).

(* char::is_ascii_punctuation *)
Definition is_ascii_punct (c : N) : bool :=
  ((33 <=? c) && (c <=? 47)) || ((58 <=? c) && (c <=? 64)) || ((91 <=? c) && (c <=? 96))
  || ((123 <=? c) && (c <=? 126)).

Definition LF : N := 10.
Definition CR : N := 13.
Definition SP : N := 32.
Definition sigma_cap : N := 931.   (* U+03A3 *)
Definition sigma_small : N := 963.
Definition sigma_final : N := 962.

Close Scope N_scope.

(* ------------------------------------------------------------------ string routines of std *)

Fixpoint drop_while (p : N -> bool) (s : str) : str :=
  match s with
  | [] => []
  | c :: t => if p c then drop_while p t else s
  end.

(* str::trim_start / trim_end / trim *)
Definition trim_start_ws (s : str) : str := drop_while is_ws s.
Definition trim_end_ws (s : str) : str := rev (drop_while is_ws (rev s)).
Definition trim_ws (s : str) : str := trim_end_ws (trim_start_ws s).

Fixpoint strip_prefix (p s : str) : option str :=
  match p, s with
  | [], _ => Some s
  | a :: p', b :: s' => if N.eqb a b then strip_prefix p' s' else None
  | _ :: _, [] => None
  end.

(* str::trim_start_matches(&str): strip the pattern while it is a prefix; the empty pattern
   removes nothing (its searcher rejects at the first character) *)
Fixpoint strip_all (fuel : nat) (p s : str) : str :=
  match fuel with
  | O => s
  | S f => match strip_prefix p s with Some r => strip_all f p r | None => s end
  end.
Definition trim_start_matches (p s : str) : str :=
  match p with [] => s | _ => strip_all (length s) p s end.
Definition trim_end_matches (p s : str) : str := rev (trim_start_matches (rev p) (rev s)).

(* leftmost occurrence of p in s: (text before it, text after it) *)
Fixpoint find_occ (p s : str) : option (str * str) :=
  match strip_prefix p s with
  | Some r => Some ([], r)
  | None =>
      match s with
      | [] => None
      | c :: t => match find_occ p t with Some (a, r) => Some (c :: a, r) | None => None end
      end
  end.

(* str::split(&str): leftmost non-overlapping matches; the empty pattern matches at every
   boundary (so the pieces are "", each character, "").  fuel: one match consumes at least one
   character when p is not empty, so S (length s) rounds are enough (lemma split_fuel_enough) *)
Fixpoint split_fuel (fuel : nat) (p s : str) : list str :=
  match fuel with
  | O => [s]
  | S f => match find_occ p s with
           | Some (a, r) => a :: split_fuel f p r
           | None => [s]
           end
  end.
Definition str_split (p s : str) : list str :=
  match p with
  | [] => [] :: map (fun c => [c]) s ++ [[]]
  | _ => split_fuel (S (length s)) p s
  end.

Fixpoint intercalate (sep : str) (l : list str) : str :=
  match l with
  | [] => []
  | [x] => x
  | x :: t => x ++ sep ++ intercalate sep t
  end.

(* str::replace(&str, &str) *)
Definition str_replace (from to s : str) : str := intercalate to (str_split from s).

(* str::contains(&str) *)
Definition str_contains (p s : str) : bool :=
  match find_occ p s with Some _ => true | None => false end.
Definition starts_with (p s : str) : bool :=
  match strip_prefix p s with Some _ => true | None => false end.
Definition ends_with (p s : str) : bool := starts_with (rev p) (rev s).

(* str::split_whitespace().count() *)
Fixpoint count_words (s : str) (inword : bool) : nat :=
  match s with
  | [] => O
  | c :: t => if is_ws c then count_words t false
              else if inword then count_words t true else S (count_words t true)
  end.

(* str::lines(): split_inclusive('\n'), each piece loses its "\n" and then one "\r" before it;
   a last piece without "\n" is kept as it is (a trailing "\r" stays) *)
Fixpoint lines_go (s cur : str) : list str :=
  match s with
  | [] => match cur with [] => [] | _ => [rev cur] end
  | c :: t =>
      if N.eqb c LF
      then (match cur with
            | d :: cur' => if N.eqb d CR then rev cur' else rev cur
            | [] => []
            end) :: lines_go t []
      else lines_go t (c :: cur)
  end.
Definition str_lines (s : str) : list str := lines_go s [].

Definition ends_with_lf (s : str) : bool :=
  match rev s with c :: _ => N.eqb c LF | [] => false end.

(* decimal text of an integer ({} of u64/i64/u128/i128) *)
Fixpoint digits_fuel (fuel : nat) (n : Z) (acc : str) : str :=
  match fuel with
  | O => acc
  | S f => let acc' := Z.to_N (48 + n mod 10) :: acc in
           if n <? 10 then acc' else digits_fuel f (n / 10) acc'
  end.
Definition dec_nonneg (n : Z) : str := digits_fuel (S (Z.to_nat (Z.log2 n))) n [].
Definition dec_of_Z (z : Z) : str := if z <? 0 then 45%N :: dec_nonneg (- z) else dec_nonneg z.

(* i128::from_str_radix: optional sign, at least one digit, every digit below the radix,
   result inside i128 *)
Definition digit_val (c : N) : option Z :=
  let c := Z.of_N c in
  if (48 <=? c) && (c <=? 57) then Some (c - 48)
  else if (97 <=? c) && (c <=? 122) then Some (c - 87)
  else if (65 <=? c) && (c <=? 90) then Some (c - 55)
  else None.
Fixpoint parse_digits (base : Z) (s : str) (acc : Z) : option Z :=
  match s with
  | [] => Some acc
  | c :: t => match digit_val c with
              | Some d => if d <? base then parse_digits base t (acc * base + d) else None
              | None => None
              end
  end.
Definition from_str_radix (base : Z) (s : str) : option Z :=
  match s with
  | [] => None
  | c :: t =>
      let '(neg, ds) := if N.eqb c 45 then (true, t) else if N.eqb c 43 then (false, t) else (false, s) in
      match ds with
      | [] => None
      | _ => match parse_digits base ds 0 with
             | Some n => let z := if neg then - n else n in if in_i128 z then Some z else None
             | None => None
             end
      end
  end.

(* Display of a value as far as it needs no oracle: None = float / array / map / bytes *)
Definition fmt_value (v : value) : option str :=
  match v with
  | VUndef | VNone => Some []
  | VBool true => Some (s2l "true")
  | VBool false => Some (s2l "false")
  | VInt _ z => Some (dec_of_Z z)
  | VStr s _ => Some s
  | _ => None
  end.

(* ------------------------------------------------------------------ case mapping (oracle) *)

Section CaseOracle.
  (* char::to_uppercase / to_lowercase, and the Final_Sigma context test of str::to_lowercase
     (`final_sigma s i`: the sigma at index i of s is word-final) *)
  Variables (upper_of lower_of : N -> list N) (final_sigma : str -> nat -> bool).

  (* str::to_uppercase: character-wise *)
  Definition str_upper (s : str) : str := flat_map upper_of s.

  (* str::to_lowercase: character-wise except U+03A3 *)
  Fixpoint lower_from (whole : str) (i : nat) (s : str) : str :=
    match s with
    | [] => []
    | c :: t =>
        (if N.eqb c sigma_cap
         then [if final_sigma whole i then sigma_final else sigma_small]
         else lower_of c) ++ lower_from whole (S i) t
    end.
  Definition str_lower (s : str) : str := lower_from s 0 s.

  (* filters::capitalize (193-200): the rest is lowercased as a string of its own *)
  Definition str_capitalize (s : str) : str :=
    match s with
    | [] => []
    | c :: t => upper_of c ++ str_lower t
    end.

  (* filters::title (203-221) *)
  Fixpoint title_go (s : str) (cap : bool) : str :=
    match s with
    | [] => []
    | c :: t =>
        if is_ascii_punct c || is_ws c
        then c :: title_go t (if N.eqb c 39 then cap else true)
        else if cap then upper_of c ++ title_go t false
        else lower_of c ++ title_go t false
    end.
  Definition str_title (s : str) : str := title_go s true.
End CaseOracle.

(* ------------------------------------------------------------------ filters *)

Definition escape_with (tbl : list (N * list N)) (s : str) : str :=
  flat_map (fun c => match find (fun e => N.eqb (fst e) c) tbl with
                     | Some e => snd e
                     | None => [c]
                     end) s.

(* filters::escape = utils::escape_html (byte-wise; every table key is ASCII, so byte-wise and
   character-wise coincide — checked on the generated table in Proofs) *)
Definition escape_html (s : str) : str := escape_with escape_html_map s.

Definition xml_map : list (N * list N) :=
  [(38%N, s2l "&amp;"); (60%N, s2l "&lt;"); (62%N, s2l "&gt;"); (34%N, s2l "&quot;"); (39%N, s2l "&apos;")].
Definition escape_xml (s : str) : str := escape_with xml_map s.

Definition br : str := s2l "<br>".
(* val.replace("\r\n", "<br>").replace(['\n', '\r'], "<br>") *)
Definition newlines_to_br (s : str) : str :=
  flat_map (fun c => if N.eqb c LF || N.eqb c CR then br else [c]) (str_replace [CR; LF] br s).

(* filters::indent (250-279) *)
Fixpoint indent_lines (ls : list str) (pad : str) (first_line : bool) (ind_first ind_blank : bool) : str :=
  match ls with
  | [] => []
  | l :: t =>
      (if first_line then (if ind_first then pad else [])
       else LF :: (if negb (match l with [] => true | _ => false end) || ind_blank then pad else []))
      ++ l ++ indent_lines t pad false ind_first ind_blank
  end.
Definition str_indent (s : str) (width : Z) (ind_first ind_blank : bool) : str :=
  let pad := repeat SP (Z.to_nat (Z.min width 1000)) in
  indent_lines (str_lines s) pad true ind_first ind_blank ++ (if ends_with_lf s then [LF] else []).

Definition vstr (s : str) : value := VStr s false.
Definition vusize (n : nat) : value := VInt U64 (Z.of_nat n).

Definition f_safe (kw : kwargs) (v : value) : option (bres value) :=
  match fmt_value v with Some s => Some (BOk (VStr s true)) | None => None end.

(* filters::default (84-100) *)
Definition f_default (kw : kwargs) (v : value) : bres value :=
  let? d := kw_must arg_value "value" kw in
  let? b := kw_get arg_bool "boolean" kw in
  if opt_or b false then (if is_truthy v then BOk v else BOk d)
  else match v with VUndef => BOk d | _ => BOk v end.

Definition on_str (v : value) (f : str -> bres value) : bres value :=
  let? s := arg_str v in f s.

Definition f_wordcount (kw : kwargs) (v : value) := on_str v (fun s => BOk (vusize (count_words s false))).
Definition f_escape_html (kw : kwargs) (v : value) := on_str v (fun s => BOk (vstr (escape_html s))).
Definition f_escape_xml (kw : kwargs) (v : value) := on_str v (fun s => BOk (vstr (escape_xml s))).
Definition f_newlines_to_br (kw : kwargs) (v : value) := on_str v (fun s => BOk (vstr (newlines_to_br s))).

(* filters::pluralize (142-157): kwargs first, then the receiver *)
Definition f_pluralize (kw : kwargs) (v : value) : bres value :=
  let? sg := kw_get arg_str "singular" kw in
  let? pl := kw_get arg_str "plural" kw in
  match as_i128 v with
  | Some n => BOk (vstr (if (n =? 1) || (n =? -1) then opt_or sg [] else opt_or pl (s2l "s")))
  | None => BErr EOther
  end.

Definition f_trim (kw : kwargs) (v : value) := on_str v (fun s =>
  let? p := kw_get arg_str "pat" kw in
  BOk (vstr (match p with Some p => trim_end_matches p (trim_start_matches p s) | None => trim_ws s end))).
Definition f_trim_start (kw : kwargs) (v : value) := on_str v (fun s =>
  let? p := kw_get arg_str "pat" kw in
  BOk (vstr (match p with Some p => trim_start_matches p s | None => trim_start_ws s end))).
Definition f_trim_end (kw : kwargs) (v : value) := on_str v (fun s =>
  let? p := kw_get arg_str "pat" kw in
  BOk (vstr (match p with Some p => trim_end_matches p s | None => trim_end_ws s end))).

Definition f_replace (kw : kwargs) (v : value) := on_str v (fun s =>
  let? from := kw_must arg_str "from" kw in
  let? to := kw_must arg_str "to" kw in
  BOk (vstr (str_replace from to s))).

(* filters::truncate (224-245), default feature set *)
Definition f_truncate (kw : kwargs) (v : value) := on_str v (fun s =>
  let? n := kw_must (arg_int TUsize) "length" kw in
  let? e := kw_get arg_str "end" kw in
  (* `nth(length)` past the end is None whatever the excess: the count is clamped to the number of
     characters (lemma truncate_clamp), which also keeps the model evaluable for length = u64::MAX *)
  BOk (str_truncate s (Z.to_nat (Z.min n (Z.of_nat (length s)))) e)).

Definition f_indent (kw : kwargs) (v : value) := on_str v (fun s =>
  let? w := kw_get (arg_int TUsize) "width" kw in
  let? fi := kw_get arg_bool "first" kw in
  let? bl := kw_get arg_bool "blank" kw in
  BOk (vstr (str_indent s (opt_or w 4) (opt_or fi false) (opt_or bl false)))).

Definition f_str (kw : kwargs) (v : value) : option (bres value) :=
  match fmt_value v with Some s => Some (BOk (vstr s)) | None => None end.

(* Number::as_integer on a float (number.rs 77-92) *)
Definition float_as_integer (f : spec_float) : option Z :=
  match sf_int f with
  | FInt z => if (i128_min <=? z) && (z <? two127) then Some z else None
  | _ => None
  end.

Definition has_dot (s : str) : bool := existsb (N.eqb 46) s.

(* filters::int (286-352).  A string that is not an integer literal but contains '.' goes
   through str::parse::<f64> (oracle): None *)
Definition f_int (kw : kwargs) (v : value) : option (bres value) :=
  match kw_get (arg_int TU32) "base" kw with
  | BErr e => Some (BErr e)
  | BOk b =>
      let base := opt_or b 10 in
      if negb ((2 <=? base) && (base <=? 36)) then Some (BErr EOther) else
      match v with
      | VStr s _ =>
          let s := trim_ws s in
          let s := if base =? 2 then trim_start_matches (s2l "0b") s
                   else if base =? 8 then trim_start_matches (s2l "0o") s
                   else if base =? 16 then trim_start_matches (s2l "0x") s else s in
          match from_str_radix base s with
          | Some z => Some (BOk (VInt I128 z))
          | None => if has_dot s then None else Some (BErr EOther)
          end
      | VInt U64 z => Some (BOk (VInt U64 z))
      | VInt I64 z => Some (BOk (VInt I128 z))
      | VInt I128 z => Some (BOk (VInt I128 z))
      | VInt U128 z => Some (BOk (VInt U128 z))
      | VFloat f => Some (match float_as_integer f with
                          | Some z => BOk (VInt I128 z)
                          | None => BErr EOther
                          end)
      | _ => Some (BErr EOther)
      end
  end.

(* filters::float (354-377); string receivers go through str::parse::<f64> (oracle) *)
Definition f_float (kw : kwargs) (v : value) : option (bres value) :=
  match v with
  | VStr _ _ => None
  | VInt _ z => Some (if in_i128 z then BOk (VFloat (f64_of_Z z)) else BErr EOther)
  | VFloat f => Some (BOk (VFloat f))
  | _ => Some (BErr EOther)
  end.

Definition f_length (kw : kwargs) (v : value) : bres value :=
  match v with
  | VMap m => BOk (vusize (length m))
  | VArr l => BOk (vusize (length l))
  | VBytes b => BOk (vusize (length b))
  | VStr s _ => BOk (vusize (length s))
  | _ => BErr EOther
  end.

(* Value::reverse (mod.rs 828-848): reversed bytes come back as an array of u64 *)
Definition f_reverse (kw : kwargs) (v : value) : bres value :=
  match v with
  | VArr l => BOk (VArr (rev l))
  | VBytes b => BOk (VArr (map (fun x => VInt U64 (Z.of_N x)) (rev b)))
  | VStr s _ => BOk (str_reverse s)
  | _ => BErr EOther
  end.

Definition f_split (kw : kwargs) (v : value) := on_str v (fun s =>
  let? p := kw_must arg_str "pat" kw in
  BOk (VArr (map vstr (str_split p s)))).

(* filters::abs (402-430) *)
Definition f_abs (kw : kwargs) (v : value) : bres value :=
  match v with
  | VInt U64 z => BOk (VInt U64 z)
  | VInt U128 z => BOk (VInt U128 z)
  | VFloat f => BOk (VFloat (f64_abs f))
  | VInt I64 z => if z =? - two63 then BOk (VInt I128 two63) else BOk (VInt I64 (Z.abs z))
  | VInt I128 z => if z =? i128_min then BErr EOther else BOk (VInt I128 (Z.abs z))
  | _ => BErr EOther
  end.

(* filters::round (432-451).  `pow10 p` stands for 10.0_f64.powi(p) (compiler intrinsic: an
   oracle, supplied by the caller); precision 0 uses the literal 1.0 *)
Definition f64_one : spec_float := S754_finite false 4503599627370496 (-52).
Definition f_round (pow10 : Z -> spec_float) (kw : kwargs) (v : value) : bres value :=
  let? x := arg_f64 v in
  let? m := kw_get arg_str "method" kw in
  let? p := kw_get (arg_int TI32) "precision" kw in
  let p := opt_or p 0 in
  let mult := if p =? 0 then f64_one else pow10 p in
  let go md := BOk (VFloat (f64_div (f64_round md (f64_mul mult x)) mult)) in
  match m with
  | None => go RRound
  | Some m => if str_eqb m (s2l "ceil") then go RCeil
              else if str_eqb m (s2l "floor") then go RFloor
              else BErr EOther
  end.

Definition f_first (kw : kwargs) (v : value) : bres value :=
  let? l := arg_array v in BOk (match l with x :: _ => x | [] => VNone end).
Definition f_last (kw : kwargs) (v : value) : bres value :=
  let? l := arg_array v in BOk (last l VNone).
Definition f_nth (kw : kwargs) (v : value) : bres value :=
  let? l := arg_array v in
  let? n := kw_must (arg_int TUsize) "n" kw in
  (* slice::get past the end is None whatever the excess (clamped as in truncate) *)
  BOk (nth (Z.to_nat (Z.min n (Z.of_nat (length l)))) l VNone).

Fixpoint fmt_all (l : list value) : option (list str) :=
  match l with
  | [] => Some []
  | x :: t => match fmt_value x, fmt_all t with
              | Some s, Some r => Some (s :: r)
              | _, _ => None
              end
  end.
Definition f_join (kw : kwargs) (v : value) : option (bres value) :=
  match arg_array v with
  | BErr e => Some (BErr e)
  | BOk l =>
      match kw_get arg_str "sep" kw with
      | BErr e => Some (BErr e)
      | BOk sep => match fmt_all l with
                   | Some ss => Some (BOk (vstr (intercalate (opt_or sep []) ss)))
                   | None => None
                   end
      end
  end.

Definition value_of_key (k : key) : value :=
  match k with
  | KBool b => VBool b
  | KInt r z => VInt r z
  | KStr s _ => VStr s false
  end.

(* entries in the order the case lists them; the implementation's order is the HashMap's, so
   results of keys/values/pairs are compared as multisets (Corr) *)
Definition f_values (kw : kwargs) (v : value) : bres value :=
  let? m := arg_map v in BOk (VArr (map snd m)).
Definition f_keys (kw : kwargs) (v : value) : bres value :=
  let? m := arg_map v in BOk (VArr (map (fun e => value_of_key (fst e)) m)).
Definition f_pairs (kw : kwargs) (v : value) : bres value :=
  let? m := arg_map v in BOk (VArr (map (fun e => VArr [value_of_key (fst e); snd e]) m)).

(* filters::get (572-584): lookup by Key::Str — only string keys can be equal to it *)
Fixpoint map_get_str (k : str) (m : list (key * value)) : option value :=
  match m with
  | [] => None
  | (KStr s _, x) :: t => if str_eqb s k then Some x else map_get_str k t
  | _ :: t => map_get_str k t
  end.
Definition f_get (kw : kwargs) (v : value) : bres value :=
  let? m := arg_map v in
  let? k := kw_must arg_str "key" kw in
  let? d := kw_get arg_value "default" kw in
  match map_get_str k m with
  | Some x => BOk x
  | None => match d with Some d => BOk d | None => BErr EOther end
  end.

(* ------------------------------------------------------------------ tests (tests.rs 69-185) *)

Definition is_string (v : value) : bool := match v with VStr _ _ => true | _ => false end.
Definition is_bool (v : value) : bool := match v with VBool _ => true | _ => false end.
Definition is_float (v : value) : bool := match v with VFloat _ => true | _ => false end.
Definition is_bytes (v : value) : bool := match v with VBytes _ => true | _ => false end.
Definition is_integer (v : value) : bool := is_number v && negb (is_float v).
Definition is_iterable (v : value) : bool := is_map v || is_array v || is_string v || is_bytes v.
Definition is_defined (v : value) : bool := negb (is_undefined v).

Definition vb (b : bool) : bres value := BOk (VBool b).

Definition t_odd (kw : kwargs) (v : value) : bres value :=
  let? n := arg_number v in
  match n with NInt u => vb (negb (Z.rem u 2 =? 0)) | NFloat _ => BErr EOther end.
Definition t_even (kw : kwargs) (v : value) : bres value :=
  let? n := arg_number v in
  match n with NInt u => vb (Z.rem u 2 =? 0) | NFloat _ => BErr EOther end.

(* checked_rem_euclid is None only for i128::MIN rem -1 *)
Definition t_divisible_by (kw : kwargs) (v : value) : bres value :=
  let? n := arg_number v in
  let? d := kw_must (arg_int TI128) "divisor" kw in
  if d =? 0 then vb false else
  match n with
  | NInt u => if (u =? i128_min) && (d =? -1) then vb true else vb (u mod d =? 0)
  | NFloat _ => BErr EOther
  end.

Definition t_starting_with (kw : kwargs) (v : value) := on_str v (fun s =>
  let? p := kw_must arg_str "pat" kw in vb (starts_with p s)).
Definition t_ending_with (kw : kwargs) (v : value) := on_str v (fun s =>
  let? p := kw_must arg_str "pat" kw in vb (ends_with p s)).

(* tests::is_containing (165-185): array and map receivers need Value / Key equality (C15) *)
Definition t_containing (kw : kwargs) (v : value) : option (bres value) :=
  match kw_must arg_value "pat" kw with
  | BErr e => Some (BErr e)
  | BOk p =>
      match v with
      | VStr s _ => Some (let? q := arg_str p in vb (str_contains q s))
      | VArr _ | VMap _ => None
      | _ => Some (BErr EOther)
      end
  end.

(* ------------------------------------------------------------------ functions (functions.rs) *)

(* the values pushed by the loop; None = `start + i * step_by` leaves i128 (a debug build
   panics there, a release build wraps) *)
Fixpoint range_values (n : nat) (i start step : Z) : option (list Z) :=
  match n with
  | O => Some []
  | S n' =>
      let m := i * step in
      let x := start + m in
      if in_i128 m && in_i128 x
      then match range_values n' (i + 1) start step with
           | Some r => Some (x :: r)
           | None => None
           end
      else None
  end.

(* functions::range (66-104); checked_sub / checked_add / checked_neg fail outside i128 *)
Definition range_len (start end_ step : Z) : bres Z :=
  if (end_ <? start) && (0 <? step) then BErr EOther else
  if step =? 0 then BErr EOther else
  if 0 <? step then
    let span := end_ - start in
    if negb (in_i128 span) then BErr EOther else
    let t := span + (step - 1) in
    if negb (in_i128 t) then BErr EOther else BOk (Z.quot t step)
  else if start <=? end_ then BOk 0
  else
    let st := - step in
    if negb (in_i128 st) then BErr EOther else
    let span := start - end_ in
    if negb (in_i128 span) then BErr EOther else
    let t := span + (st - 1) in
    if negb (in_i128 t) then BErr EOther else BOk (Z.quot t st).

(* the part of `range` after its arguments were read *)
Definition range_core (start end_ step : Z) : bres value :=
  let? len := range_len start end_ step in
  if max_range_len <? len then BErr EOther else
  match range_values (Z.to_nat len) 0 start step with
  | Some l => BOk (VArr (map (VInt I128) l))
  | None => BErr EPanic
  end.

Definition fn_range (kw : kwargs) : bres value :=
  let? start := kw_get (arg_int TI128) "start" kw in
  let? end_ := kw_must (arg_int TI128) "end" kw in
  let? step := kw_get (arg_int TI128) "step_by" kw in
  range_core (opt_or start 0) end_ (opt_or step 1).

Definition fn_throw (kw : kwargs) : bres value :=
  let? m := kw_must arg_str "message" kw in BErr EOther.

(* ------------------------------------------------------------------ dispatch *)

(* everything the filters take from std as an oracle, supplied per case by the harness *)
Record oracles := {
  o_upper : N -> list N;
  o_lower : N -> list N;
  o_final_sigma : str -> nat -> bool;
  o_pow10 : Z -> spec_float }.

Definition some {A} (r : bres A) : option (bres A) := Some r.

Definition filter_table (o : oracles) : list (string * (kwargs -> value -> option (bres value))) :=
  [ ("safe", f_safe);
    ("default", fun kw v => some (f_default kw v));
    ("upper", fun kw v => some (on_str v (fun s => BOk (vstr (str_upper (o_upper o) s)))));
    ("lower", fun kw v => some (on_str v (fun s => BOk (vstr (str_lower (o_lower o) (o_final_sigma o) s)))));
    ("wordcount", fun kw v => some (f_wordcount kw v));
    ("escape_html", fun kw v => some (f_escape_html kw v));
    ("escape_xml", fun kw v => some (f_escape_xml kw v));
    ("newlines_to_br", fun kw v => some (f_newlines_to_br kw v));
    ("pluralize", fun kw v => some (f_pluralize kw v));
    ("trim", fun kw v => some (f_trim kw v));
    ("trim_start", fun kw v => some (f_trim_start kw v));
    ("trim_end", fun kw v => some (f_trim_end kw v));
    ("replace", fun kw v => some (f_replace kw v));
    ("capitalize", fun kw v => some (on_str v (fun s =>
        BOk (vstr (str_capitalize (o_upper o) (o_lower o) (o_final_sigma o) s)))));
    ("title", fun kw v => some (on_str v (fun s => BOk (vstr (str_title (o_upper o) (o_lower o) s)))));
    ("truncate", fun kw v => some (f_truncate kw v));
    ("indent", fun kw v => some (f_indent kw v));
    ("str", f_str);
    ("int", f_int);
    ("float", f_float);
    ("length", fun kw v => some (f_length kw v));
    ("reverse", fun kw v => some (f_reverse kw v));
    ("split", fun kw v => some (f_split kw v));
    ("abs", fun kw v => some (f_abs kw v));
    ("round", fun kw v => some (f_round (o_pow10 o) kw v));
    ("first", fun kw v => some (f_first kw v));
    ("last", fun kw v => some (f_last kw v));
    ("nth", fun kw v => some (f_nth kw v));
    ("join", f_join);
    ("get", fun kw v => some (f_get kw v));
    ("values", fun kw v => some (f_values kw v));
    ("keys", fun kw v => some (f_keys kw v));
    ("pairs", fun kw v => some (f_pairs kw v)) ]%string.

Definition kind_test (p : value -> bool) : kwargs -> value -> option (bres value) :=
  fun _ v => Some (vb (p v)).

Definition test_table : list (string * (kwargs -> value -> option (bres value))) :=
  [ ("string", kind_test is_string);
    ("number", kind_test is_number);
    ("map", kind_test is_map);
    ("bool", kind_test is_bool);
    ("array", kind_test is_array);
    ("integer", kind_test is_integer);
    ("float", kind_test is_float);
    ("none", kind_test is_none);
    ("iterable", kind_test is_iterable);
    ("defined", kind_test is_defined);
    ("undefined", kind_test is_undefined);
    ("odd", fun kw v => some (t_odd kw v));
    ("even", fun kw v => some (t_even kw v));
    ("divisible_by", fun kw v => some (t_divisible_by kw v));
    ("starting_with", fun kw v => some (t_starting_with kw v));
    ("ending_with", fun kw v => some (t_ending_with kw v));
    ("containing", t_containing) ]%string.

Definition function_table : list (string * (kwargs -> option (bres value))) :=
  [ ("range", fun kw => some (fn_range kw)); ("throw", fun kw => some (fn_throw kw)) ]%string.

Fixpoint assoc_string {A} (k : string) (l : list (string * A)) : option A :=
  match l with
  | [] => None
  | (k', a) :: t => if String.eqb k k' then Some a else assoc_string k t
  end.

(* coverage tables: what has a model entry, what is left to the implementation-side oracle *)
Definition modelled_filters : list string := map fst (filter_table (Build_oracles (fun c => [c]) (fun c => [c]) (fun _ _ => false) (fun _ => S754_nan))).
Definition modelled_tests : list string := map fst test_table.
Definition modelled_functions : list string := map fst function_table.
Definition oracle_only_filters : list string := ["sort"; "unique"; "group_by"]%string.
Definition oracle_only_tests : list string := [].
Definition oracle_only_functions : list string := [].
