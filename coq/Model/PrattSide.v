(* Side conditions of the Pratt round-trip theorem (C02), as executable definitions:
   `printable` (the parser's own restrictions on a surface tree), `need` (recursion levels of
   inner_parse_expression the printed text uses), `needb` (nesting of subscript brackets),
   `needa` (nesting of array literals / comprehensions: array_dimension),
   `follow` (which token may come next).  No proofs here. *)
From TeraV Require Import Model.Value Model.Pratt.
Open Scope nat_scope.

Fixpoint size (s : sx) : nat :=
  let osz := fun (o : option sx) => match o with Some x => size x | None => 0 end in
  match s with
  | SConst _ | SVar _ => 1
  | SAttr e _ _ => S (size e)
  | SItem e i _ => S (size e + size i)
  | SSlice e a b c _ => S (size e + osz a + osz b + osz c)
  | SUn _ e => S (size e)
  | SBin _ a b => S (size a + size b)
  | SNotIn a b => S (size a + size b)
  | STest e _ kw _ => S (size e + list_sum (map (fun p : str * sx => match p with (_, v) => size v end) kw))
  | SFilter e _ kw => S (size e + list_sum (map (fun p : str * sx => match p with (_, v) => size v end) kw))
  | SCall _ kw => S (list_sum (map (fun p : str * sx => match p with (_, v) => size v end) kw))
  | STern c t f => S (size c + size t + size f)
  | SParen e => S (size e)
  | SArr items _ => S (list_sum (map (fun p : bool * sx => match p with (_, v) => size v end) items))
  | SMap es _ => S (list_sum (map (fun p : option mkey * sx => match p with (_, v) => size v end) es))
  | SComp e _ _ t c => S (size e + size t + osz c)
  end.

(* an identifier chain: what parse_ident consumes *)
Fixpoint is_chain (s : sx) : bool :=
  match s with
  | SVar _ => true
  | SAttr e _ _ => is_chain e
  | SItem e _ _ => is_chain e
  | SSlice e _ _ _ _ => is_chain e
  | _ => false
  end.

Definition scalar (c : const) : bool :=
  match c with CArr _ | CMap _ => false | _ => true end.

Fixpoint nodup_names (l : list str) : bool :=
  match l with [] => true | x :: r => negb (existsb (str_eqb x) r) && nodup_names r end.

Definition plain (x : str) : bool := match kw_of x with KPlain => true | _ => false end.
Definition not_kw_not (x : str) : bool := match kw_of x with KNot => false | _ => true end.

Definition nonempty {A} (l : list A) : bool := match l with [] => false | _ => true end.

(* the parser's own side conditions on a surface tree.  Array / map literals: any elements, spreads
   at any position, a trailing comma only after at least one element (`[,]` is rejected);
   list comprehensions: the loop variables are not reserved names (parser.rs RESERVED_NAMES). *)
Fixpoint printable (s : sx) : bool :=
  match s with
  | SConst c => scalar c
  | SVar x => plain x
  | SAttr e _ _ => is_chain e && printable e
  | SItem e i opt => (if opt then is_chain e else true) && printable e && printable i
  | SSlice e a b c opt =>
      let op := fun (o : option sx) => match o with Some x => printable x | None => true end in
      (if opt then is_chain e else true) && printable e && op a && op b && op c
  | SUn _ e => printable e
  | SBin o a b =>
      match o with
      | OIs | OPipe => false
      | OConcat => negb (is_unary (desugar b))   (* `~` rejects a unary right operand even in parentheses *)
      | _ => true
      end && printable a && printable b
  | SNotIn a b => printable a && printable b
  | STest e n kw _ =>
      printable e && not_kw_not n && nodup_names (map fst kw)
      && forallb (fun p : str * sx => match p with (_, v) => printable v end) kw
  | SFilter e _ kw =>
      printable e && nodup_names (map fst kw)
      && forallb (fun p : str * sx => match p with (_, v) => printable v end) kw
  | SCall n kw =>
      plain n && nodup_names (map fst kw)
      && forallb (fun p : str * sx => match p with (_, v) => printable v end) kw
  | STern c t f => printable c && printable t && printable f
  | SParen e => printable e
  | SArr items trail =>
      (if trail then nonempty items else true)
      && forallb (fun p : bool * sx => match p with (_, v) => printable v end) items
  | SMap es trail =>
      (if trail then nonempty es else true)
      && forallb (fun p : option mkey * sx => match p with (_, v) => printable v end) es
  | SComp e k v target cond =>
      printable e && negb (is_reserved v)
      && match k with Some k' => negb (is_reserved k') | None => true end
      && printable target
      && match cond with Some x => printable x | None => true end
  end.

(* an AST the parser can produce: literal-only containers are folded into constants (parse_array /
   parse_map, `literal_only`), so an EArr / EMap node has at least one non-constant or spread item,
   and a folded map constant has distinct keys *)
Fixpoint keys_nodup (ks : list mkey) : bool :=
  match ks with [] => true | k :: r => negb (existsb (mkey_eqb k) r) && keys_nodup r end.
(* a constant the parser can have folded: a folded map is a HashMap, its keys are distinct *)
Fixpoint const_ok (c : const) : bool :=
  match c with
  | CArr l => forallb const_ok l
  | CMap m => keys_nodup (map fst m) && forallb (fun kv : mkey * const => const_ok (snd kv)) m
  | _ => true
  end.

Fixpoint normal (e : expr) : bool :=
  let on := fun (o : option expr) => match o with Some x => normal x | None => true end in
  match e with
  | EConst c => const_ok c
  | EVar _ => true
  | EAttr e _ _ => normal e
  | EItem e i _ => normal e && normal i
  | ESlice e a b c _ => normal e && on a && on b && on c
  | EUn _ e => normal e
  | EBin _ a b => normal a && normal b
  | ETest e _ kw | EFilter e _ kw =>
      normal e && forallb (fun p : str * expr => match p with (_, v) => normal v end) kw
  | ECall _ kw => forallb (fun p : str * expr => match p with (_, v) => normal v end) kw
  | ETern c t f => normal c && normal t && normal f
  | EArr items =>
      match as_consts items with None => true | Some _ => false end
      && forallb (fun p : bool * expr => match p with (_, v) => normal v end) items
  | EMap es =>
      match as_const_entries es with None => true | Some _ => false end
      && forallb (fun p : option mkey * expr => match p with (_, v) => normal v end) es
  | EComp e _ _ t c => normal e && normal t && on c
  end.

Definition needw (p l n : nat) : nat := if l <? p then S n else n.

(* recursion levels of inner_parse_expression needed by `raw s` (>= 1) *)
Fixpoint need (s : sx) : nat :=
  match s with
  | SConst _ | SVar _ => 1
  | SAttr e _ _ => need e
  | SItem e i _ => Nat.max (needw lvl_atom (lvl e) (need e)) (S (need i))
  | SSlice e a b c _ =>
      let on := fun (o : option sx) => match o with Some x => need x | None => 0 end in
      Nat.max (needw lvl_atom (lvl e) (need e)) (S (Nat.max (on a) (Nat.max (on b) (on c))))
  | SUn u e => S (if (lvl e <? lvl_un u) || starts_unary (raw e) then S (need e) else need e)
  | SBin o a b => Nat.max (needw (lp o) (lvl a) (need a)) (S (needw (rp o) (lvl b) (need b)))
  | SNotIn a b => Nat.max (needw (lp OIn) (lvl a) (need a)) (S (needw (rp OIn) (lvl b) (need b)))
  | STest e _ kw _ =>
      Nat.max (needw (lp OIs) (lvl e) (need e))
              (S (fold_right Nat.max 0 (map (fun p : str * sx => match p with (_, v) => need v end) kw)))
  | SFilter e _ kw =>
      Nat.max (needw (lp OPipe) (lvl e) (need e))
              (S (fold_right Nat.max 0 (map (fun p : str * sx => match p with (_, v) => need v end) kw)))
  | SCall _ kw => S (fold_right Nat.max 0 (map (fun p : str * sx => match p with (_, v) => need v end) kw))
  | STern c t f => Nat.max (needw (S lvl_tern) (lvl t) (need t)) (S (Nat.max (need c) (need f)))
  | SParen e => S (need e)
  (* elements / values are parsed one inner_parse_expression level down *)
  | SArr items _ => S (fold_right Nat.max 0 (map (fun p : bool * sx => match p with (_, v) => need v end) items))
  | SMap es _ => S (fold_right Nat.max 0 (map (fun p : option mkey * sx => match p with (_, v) => need v end) es))
  | SComp e _ _ t c =>
      S (Nat.max (need e)
           (Nat.max (needw (S lvl_tern) (lvl t) (need t))
                    (match c with Some x => needw (S lvl_tern) (lvl x) (need x) | None => 0 end)))
  end.

(* nesting of subscript brackets (num_left_brackets) *)
Fixpoint needb (s : sx) : nat :=
  match s with
  | SConst _ | SVar _ => 0
  | SAttr e _ _ => needb e
  | SItem e i _ => Nat.max (needb e) (S (needb i))
  | SSlice e a b c _ =>
      let ob := fun (o : option sx) => match o with Some x => needb x | None => 0 end in
      Nat.max (needb e) (S (Nat.max (ob a) (Nat.max (ob b) (ob c))))
  | SUn _ e => needb e
  | SBin _ a b | SNotIn a b => Nat.max (needb a) (needb b)
  | STest e _ kw _ | SFilter e _ kw =>
      Nat.max (needb e) (fold_right Nat.max 0 (map (fun p : str * sx => match p with (_, v) => needb v end) kw))
  | SCall _ kw => fold_right Nat.max 0 (map (fun p : str * sx => match p with (_, v) => needb v end) kw)
  | STern c t f => Nat.max (needb c) (Nat.max (needb t) (needb f))
  | SParen e => needb e
  | SArr items _ => fold_right Nat.max 0 (map (fun p : bool * sx => match p with (_, v) => needb v end) items)
  | SMap es _ => fold_right Nat.max 0 (map (fun p : option mkey * sx => match p with (_, v) => needb v end) es)
  | SComp e _ _ t c => Nat.max (needb e) (Nat.max (needb t) (match c with Some x => needb x | None => 0 end))
  end.

(* nesting of array literals and list comprehensions (array_dimension, parser.rs parse_array):
   incremented for the elements of `[..]` and for the element expression of a comprehension,
   already decremented again when the target / condition of a comprehension are parsed *)
Fixpoint needa (s : sx) : nat :=
  match s with
  | SConst _ | SVar _ => 0
  | SAttr e _ _ => needa e
  | SItem e i _ => Nat.max (needa e) (needa i)
  | SSlice e a b c _ =>
      let oa := fun (o : option sx) => match o with Some x => needa x | None => 0 end in
      Nat.max (needa e) (Nat.max (oa a) (Nat.max (oa b) (oa c)))
  | SUn _ e => needa e
  | SBin _ a b | SNotIn a b => Nat.max (needa a) (needa b)
  | STest e _ kw _ | SFilter e _ kw =>
      Nat.max (needa e) (fold_right Nat.max 0 (map (fun p : str * sx => match p with (_, v) => needa v end) kw))
  | SCall _ kw => fold_right Nat.max 0 (map (fun p : str * sx => match p with (_, v) => needa v end) kw)
  | STern c t f => Nat.max (needa c) (Nat.max (needa t) (needa f))
  | SParen e => needa e
  | SArr items _ => S (fold_right Nat.max 0 (map (fun p : bool * sx => match p with (_, v) => needa v end) items))
  | SMap es _ => fold_right Nat.max 0 (map (fun p : option mkey * sx => match p with (_, v) => needa v end) es)
  | SComp e _ _ t c => Nat.max (S (needa e)) (Nat.max (needa t) (match c with Some x => needa x | None => 0 end))
  end.

(* loop iterations of the frame that parses `raw s` which the left spine of s uses *)
Fixpoint spine (s : sx) : nat :=
  match s with
  | SItem e _ _ | SSlice e _ _ _ _ => if is_chain e then 0 else S (if lvl e <? lvl_atom then 0 else spine e)
  | SBin o a _ => S (if lvl a <? lp o then 0 else spine a)
  | SNotIn a _ => S (S (if lvl a <? lp OIn then 0 else spine a))
  | STest e _ _ _ => S (if lvl e <? lp OIs then 0 else spine e)
  | SFilter e _ _ => S (if lvl e <? lp OPipe then 0 else spine e)
  | STern _ t _ => S (if lvl t <? S lvl_tern then 0 else spine t)
  | _ => 0
  end.

(* does a frame whose operand was printed at level p refuse token t ? *)
Definition refused (p : nat) (t : token) : bool :=
  match classify t with
  | LBreak => true
  | LOp o => lvl_bin o <? p
  | LNot => lvl_bin OIn <? p
  | LIf => lvl_tern <? p
  | LSub => false
  end.

Definition chain_tok (t : token) : bool :=
  match t with TDot | TQDot | TLBracket | TQLBracket | TLParen => true | _ => false end.
Definition is_lparen (t : token) : bool := match t with TLParen => true | _ => false end.

(* the token after `raw s` is not swallowed by anything still open on the right edge of s *)
Fixpoint follow (s : sx) (t : token) : bool :=
  match s with
  | SVar _ | SAttr _ _ _ => negb (chain_tok t)
  | SItem e _ _ | SSlice e _ _ _ _ => if is_chain e then negb (chain_tok t) else true
  | SUn u e =>
      refused (lvl_un u) t && (if (lvl e <? lvl_un u) || starts_unary (raw e) then true else follow e t)
  | SBin o _ b => refused (rp o) t && (if lvl b <? rp o then true else follow b t)
  | SNotIn _ b => refused (rp OIn) t && (if lvl b <? rp OIn then true else follow b t)
  | STest _ _ kw _ | SFilter _ _ kw => match kw with [] => negb (is_lparen t) | _ => true end
  | STern _ _ f => refused 0 t && follow f t
  | _ => true
  end.

Definition followL (s : sx) (ts : list token) : bool :=
  match ts with [] => true | t :: _ => follow s t end.
Definition refusedL (p : nat) (ts : list token) : bool :=
  match ts with [] => true | t :: _ => refused p t end.

(* a token that ends an expression: no operator of the loop, no continuation of a chain *)
Definition closer (t : token) : bool :=
  match classify t with LBreak => negb (chain_tok t) | _ => false end.
Definition closerL (ts : list token) : bool :=
  match ts with [] => true | t :: _ => closer t end.

(* ------------------------------------------------------------------ the documented table vs. the binding powers *)
From Coq Require Import String.
Inductive opref := RBin (o : bop) | RUn (u : unop) | RPostfix.

(* the spellings used by docs/content/_index.md "Operator precedence" *)
Open Scope string_scope.
Definition doc_sym (s : string) : option opref :=
  let is := String.eqb s in
  if is "or" then Some (RBin OOr) else if is "and" then Some (RBin OAnd)
  else if is "not" then Some (RUn UNot)
  else if is "in" then Some (RBin OIn) else if is "not in" then Some (RBin OIn)
  else if is "is" then Some (RBin OIs) else if is "is not" then Some (RBin OIs)
  else if is "==" then Some (RBin OEq) else if is "!=" then Some (RBin ONe)
  else if is "<" then Some (RBin OLt) else if is "<=" then Some (RBin OLe)
  else if is ">" then Some (RBin OGt) else if is ">=" then Some (RBin OGe)
  else if is "+" then Some (RBin OPlus) else if is "-" then Some (RBin OMinus)
  else if is "*" then Some (RBin OMul) else if is "/" then Some (RBin ODiv)
  else if is "//" then Some (RBin OFloorDiv) else if is "%" then Some (RBin OMod)
  else if is "~" then Some (RBin OConcat) else if is "**" then Some (RBin OPower)
  else if is "|" then Some (RBin OPipe)
  else if is "- (unary)" then Some (RUn UMinus)
  else if is "." then Some RPostfix else if is "[]" then Some RPostfix else if is "()" then Some RPostfix
  else None.
Close Scope string_scope.

(* how tightly the parser binds: a unary operator with r_bp r binds tighter than exactly the
   infix operators with l_bp < r, so it sits between l_bp = r-1 and l_bp = r *)
Definition bind_key (bp : bp_table) (r : opref) : option nat :=
  match r with
  | RBin o => Some (2 * lbp bp o)
  | RUn u => Some (2 * un_bp bp u - 1)
  | RPostfix => None     (* `.`, `[]`, `()` are consumed by parse_ident / the loop without a power: tightest *)
  end.

Definition opref_eqb (a b : opref) : bool :=
  match a, b with
  | RBin x, RBin y => bop_eqb x y
  | RUn UNot, RUn UNot | RUn UMinus, RUn UMinus => true
  | RPostfix, RPostfix => true
  | _, _ => false
  end.

Fixpoint all_some {A} (l : list (option A)) : option (list A) :=
  match l with
  | [] => Some []
  | Some x :: r => match all_some r with Some r' => Some (x :: r') | None => None end
  | None :: _ => None
  end.

Definition doc_rows (rows : list (list string)) : option (list (list opref)) :=
  all_some (map (fun r => all_some (map doc_sym r)) rows).

(* every row has one key; keys strictly increase down the table; the postfix row is last *)
Fixpoint rows_sorted (bp : bp_table) (prev : option nat) (rows : list (list opref)) : bool :=
  match rows with
  | [] => true
  | r :: rest =>
      match r with
      | [] => false
      | x :: _ =>
          match bind_key bp x with
          | None =>
              forallb (fun y => opref_eqb y RPostfix) r && match rest with [] => true | _ => false end
          | Some k =>
              forallb (fun y => match bind_key bp y with Some k' => Nat.eqb k k' | None => false end) r
              && match prev with Some q => q <? k | None => true end
              && rows_sorted bp (Some k) rest
          end
      end
  end.

Definition rows_cover (rows : list (list opref)) : bool :=
  forallb (fun o => existsb (fun r => existsb (opref_eqb (RBin o)) r) rows) all_bops
  && forallb (fun u => existsb (fun r => existsb (opref_eqb (RUn u)) r) rows) all_unops.

(* the strict order of the binding powers is the documented order, row by row *)
Definition bp_matches_docs_b (bp : bp_table) (rows : list (list string)) : bool :=
  match doc_rows rows with
  | Some rs => rows_sorted bp None rs && rows_cover rs
  | None => false
  end.

(* the level functions the printer uses are the row numbers of the documented table
   (row i, counted from 1; 0 is left for the ternary) *)
Definition ref_lvl (r : opref) : nat :=
  match r with RBin o => lvl_bin o | RUn u => lvl_un u | RPostfix => lvl_atom end.
Fixpoint rows_levels (i : nat) (rows : list (list opref)) : bool :=
  match rows with
  | [] => true
  | r :: rest => forallb (fun x => Nat.eqb (ref_lvl x) i) r && rows_levels (S i) rest
  end.
Definition doc_levels_b (rows : list (list string)) : bool :=
  match doc_rows rows with
  | Some rs => rows_levels 1 rs && rows_cover rs
  | None => false
  end.
