(* Model/LexerDoc.v — bridge definitions between the lexer model (Model/Lexer.v) and the
   document specification (Spec/Doc.v): which tokens a document stands for, which tokens the
   specification's output segments stand for.  Definitions only. *)
From TeraV Require Import Model.Value Model.Utf8Lex Model.Lexer Spec.Doc.

Definition spelling_of (dl : delims) : spelling :=
  mkSpelling (d_bs dl) (d_be dl) (d_vs dl) (d_ve dl) (d_cs dl) (d_ce dl).

(* the template-level tokens of a document, as basic_tokenize emits them (raw bodies already
   trimmed by the inner markers of their own tags, lexer.rs 438-445) *)
Definition item_toks (it : item) : list tok :=
  match it with
  | Text s => [TContent s]
  | Comment l _ r => [TComment l r]
  | Raw l il body ir r => [TRaw l (trim_end_if ir (trim_start_if il body)) r]
  | Expr l _ r => [TVarStart l; TVarEnd r]
  | Tag l _ r => [TTagStart l; TTagEnd r]
  end.
Definition items_of (dc : doc) : list tok := flat_map item_toks dc.

(* the template-level tokens the parser must see for a list of output segments *)
Definition seg_toks (s : seg) : list tok :=
  match s with
  | SText s => [TContent s]
  | SExpr l r => [TVarStart l; TVarEnd r]
  | STag l r => [TTagStart l; TTagEnd r]
  end.
Definition spec_toks (dc : doc) : list tok := flat_map seg_toks (spec_out dc).

(* whitespace_filter on plain token lists, with the comment rule as a parameter *)
Definition wsf (fixed flag : bool) (ts : list tok) : list tok :=
  map fst (ws_filter_gen fixed flag (map (fun t => (t, tt)) ts)).

(* "the interior of an expression/tag starting at s ends with marker r, leaving tail":
   the instance of Spec.Doc's parameter used by the theorems *)
Definition inside_ends_model (e s : bytes) (r : bool) (tail : bytes) : Prop :=
  exists toks pre, scan_inside (S (length s)) e s = IEnd toks r pre tail.
