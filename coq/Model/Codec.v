(* Model of the tera-contrib codecs (tera-contrib/src/{base64,urlencode,json,slug}.rs) at the byte
   level.  Executable definitions only; no proofs here.

   What is ported from where:
   * base64.rs 4-58 (filters: engine selection by kwargs, from_utf8 after decoding) — the
     `(url_safe, padded) => ENGINE` table and the two decoder engines are re-extracted from the
     source on every run into Gen/CodecTables.v and only *interpreted* here.
   * crate base64 0.22.1 (MODELLED from its source and RFC 4648, not verified):
     engine/mod.rs `encode`/`add_padding`, engine/general_purpose/mod.rs `internal_encode`,
     decode.rs `decode_helper`/`complete_quads_len`/`decode_chunk_4` (the 8-symbol unrolled chunks
     are four consecutive `decode_chunk_4`s with the same error order), decode_suffix.rs
     `decode_suffix` (all three padding modes, trailing-bits check).
     Bit operations on disjoint fields (`<<`, `|`, `>>`, `& mask`) are written with * + / mod.
   * urlencode.rs 4-68 — the AsciiSet chains come from Gen/CodecTables.v; crate percent-encoding
     2.3.2 (MODELLED): `CONTROLS`, `NON_ALPHANUMERIC`, `AsciiSet::{add,remove,contains,
     should_percent_encode}`, `percent_encode_byte`, the `PercentEncode` iterator + Display.
   * json.rs 11-19 + tera/src/value/mod.rs 1062-1093 (`impl Serialize for Value`), key.rs 156-171
     (`impl Serialize for Key`); crate serde_json 1.0.149 (MODELLED): `Serializer` for the
     Compact/Pretty formatters, `MapKeySerializer`, `format_escaped_str_contents`, itoa integer
     text.  Float text (`write_f64`) is an ORACLE: a parameter `ft`.
   * slug.rs 9-11; crate slug 0.1.6 `_slugify` (MODELLED); `deunicode_char` is an ORACLE parameter. *)
From TeraV Require Import Model.Value Model.Utf8 Gen.CodecTables.
Open Scope N_scope.

(* ------------------------------------------------------------------------------ base64 *)

Definition ascii_run (lo : N) (n : nat) : list N := map (fun i => lo + N.of_nat i) (seq 0 n).
(* base64::alphabet::STANDARD / URL_SAFE (RFC 4648 tables 1 and 2) *)
Definition alpha_common : list N := ascii_run 65 26 ++ ascii_run 97 26 ++ ascii_run 48 10.
Definition alpha_std : list N := alpha_common ++ [43; 47].
Definition alpha_url : list N := alpha_common ++ [45; 95].
Definition alphabet_of (a : b64_alpha) : list N :=
  match a with ALPHA_STANDARD => alpha_std | ALPHA_URL_SAFE => alpha_url end.
Definition PAD_BYTE : N := 61.

(* general_purpose::{STANDARD, STANDARD_NO_PAD, URL_SAFE, URL_SAFE_NO_PAD}: (alphabet, encode_padding) *)
Definition engine_cfg (e : b64_engine) : b64_alpha * bool :=
  match e with
  | STANDARD => (ALPHA_STANDARD, true) | STANDARD_NO_PAD => (ALPHA_STANDARD, false)
  | URL_SAFE => (ALPHA_URL_SAFE, true) | URL_SAFE_NO_PAD => (ALPHA_URL_SAFE, false)
  end.

(* encode_table[i] *)
Definition sym (al : list N) (i : N) : N := nth (N.to_nat i) al 0.
(* decode_table[b]: None = INVALID_VALUE *)
Fixpoint index_of (b : N) (al : list N) (i : N) : option N :=
  match al with
  | [] => None
  | x :: t => if x =? b then Some i else index_of b t (i + 1)
  end.
Definition unsym (al : list N) (b : N) : option N := index_of b al 0.

(* internal_encode: 3 input bytes -> 4 symbols; 2 -> 3; 1 -> 2 *)
Fixpoint b64_enc_body (al : list N) (l : list N) : list N :=
  match l with
  | a :: b :: c :: t =>
      sym al (a / 4) :: sym al ((a mod 4) * 16 + b / 16) :: sym al ((b mod 16) * 4 + c / 64)
      :: sym al (c mod 64) :: b64_enc_body al t
  | [a; b] => [sym al (a / 4); sym al ((a mod 4) * 16 + b / 16); sym al ((b mod 16) * 4)]
  | [a] => [sym al (a / 4); sym al ((a mod 4) * 16)]
  | [] => []
  end.

(* add_padding(unpadded_output_len): (4 - len % 4) % 4 pad bytes *)
Definition b64_padding (unpadded_len : N) : list N :=
  repeat PAD_BYTE (N.to_nat ((4 - unpadded_len mod 4) mod 4)).

Definition b64_encode_engine (e : b64_engine) (l : list N) : list N :=
  let '(a, pad) := engine_cfg e in
  let body := b64_enc_body (alphabet_of a) l in
  if pad then body ++ b64_padding (N.of_nat (length body)) else body.

Inductive b64_err :=
| InvalidByte (offset byte : N) | InvalidLength (n : N) | InvalidLastSymbol (offset byte : N)
| InvalidPadding.
Inductive dres := DOk (bytes : list N) | DErr (e : b64_err).

(* the three output bytes of four 6-bit morsels *)
Definition quad_bytes (m0 m1 m2 m3 : N) : list N :=
  [m0 * 4 + m1 / 16; (m1 mod 16) * 16 + m2 / 4; (m2 mod 4) * 64 + m3].

(* decode_chunk_4 *)
Definition decode_chunk_4 (al : list N) (off a b c d : N) : dres :=
  match unsym al a with
  | None => DErr (InvalidByte off a)
  | Some m0 =>
    match unsym al b with
    | None => DErr (InvalidByte (off + 1) b)
    | Some m1 =>
      match unsym al c with
      | None => DErr (InvalidByte (off + 2) c)
      | Some m2 =>
        match unsym al d with
        | None => DErr (InvalidByte (off + 3) d)
        | Some m3 => DOk (quad_bytes m0 m1 m2 m3)
        end
      end
    end
  end.

(* the loop of decode_suffix over the last 0..4 bytes:
   state = (morsels so far, padding_bytes_count, first_padding_offset, last_symbol) *)
Fixpoint suffix_scan (al : list N) (off : N) (l : list N) (idx : N)
         (morsels : list N) (pads first_pad last : N) : b64_err + (list N * N * N * N) :=
  match l with
  | [] => inr (morsels, pads, first_pad, last)
  | b :: t =>
      if b =? PAD_BYTE then
        if idx <? 2 then inl (InvalidByte (off + idx) b)
        else suffix_scan al off t (idx + 1) morsels (pads + 1)
                         (if pads =? 0 then idx else first_pad) last
      else if 0 <? pads then inl (InvalidByte (off + first_pad) PAD_BYTE)
      else match unsym al b with
           | None => inl (InvalidByte (off + idx) b)
           | Some m => suffix_scan al off t (idx + 1) (morsels ++ [m]) pads first_pad b
           end
  end.

Definition nonzero (x : N) : bool := negb (x =? 0).

Definition decode_suffix (al : list N) (mode : b64_padmode) (allow_trailing : bool)
           (off : N) (l : list N) : dres :=
  match suffix_scan al off l 0 [] 0 0 0 with
  | inl e => DErr e
  | inr (morsels, pads, _, last) =>
      let n := N.of_nat (length morsels) in
      (* `!input.is_empty() && morsels_in_leftover < 2`: the suffix is empty iff the input is *)
      if negb (match l with [] => true | _ => false end) && (n <? 2)
      then DErr (InvalidLength (off + n))
      else if match mode with
              | Indifferent => false
              | RequireCanonical => negb ((pads + n) mod 4 =? 0)
              | RequireNone => 0 <? pads
              end
      then DErr InvalidPadding
      else
        let k := N.to_nat (n * 6 / 8) in                     (* leftover_bytes_to_append *)
        let bytes := quad_bytes (nth 0 morsels 0) (nth 1 morsels 0) (nth 2 morsels 0) (nth 3 morsels 0) in
        (* `leftover_num & (!0 >> (k*8)) != 0`: some bit below the k bytes that are kept is set *)
        if negb allow_trailing && existsb nonzero (skipn k bytes)
        then DErr (InvalidLastSymbol (off + n - 1) last)
        else DOk (firstn k bytes)
  end.

(* complete quads except the last (possibly partial, possibly padded) one, then the suffix *)
Fixpoint decode_quads (al : list N) (mode : b64_padmode) (allow_trailing : bool)
         (off : N) (l : list N) {struct l} : dres :=
  match l with
  | a :: b :: c :: d :: ((_ :: _) as t) =>
      match decode_chunk_4 al off a b c d with
      | DErr e => DErr e
      | DOk x =>
          match decode_quads al mode allow_trailing (off + 4) t with
          | DOk y => DOk (x ++ y)
          | DErr e => DErr e
          end
      end
  | _ => decode_suffix al mode allow_trailing off l
  end.

(* Engine::decode = complete_quads_len's early check (a trailing invalid byte when len % 4 == 1),
   then the quads, then the suffix *)
Definition b64_decode_bytes (al : list N) (mode : b64_padmode) (allow_trailing : bool)
           (l : list N) : dres :=
  let len := N.of_nat (length l) in
  let last_byte := last l 0 in
  if (len mod 4 =? 1) && negb (last_byte =? PAD_BYTE)
     && match unsym al last_byte with None => true | Some _ => false end
  then DErr (InvalidByte (len - 1) last_byte)
  else decode_quads al mode allow_trailing 0 l.

(* the `match (url_safe, padded)` of b64_encode, as extracted *)
Fixpoint lookup_engine (t : list (bool * bool * b64_engine)) (u p : bool) : option b64_engine :=
  match t with
  | [] => None
  | (u', p', e) :: r => if Bool.eqb u u' && Bool.eqb p p' then Some e else lookup_engine r u p
  end.
Fixpoint lookup_bool {A} (t : list (bool * A)) (u : bool) : option A :=
  match t with
  | [] => None
  | (u', x) :: r => if Bool.eqb u u' then Some x else lookup_bool r u
  end.

(* filter b64_encode(url_safe=u, padded=p): the output is ASCII, so bytes = chars *)
Definition b64_encode_filter (u p : bool) (s : str) : res str :=
  match lookup_engine b64_encode_table u p with
  | None => RErr ErrPanic           (* a missing arm does not compile; kept explicit *)
  | Some e => ROk (b64_encode_engine e (utf8_encode s))
  end.

(* filter b64_decode(url_safe=u): "Invalid base64" / "Invalid UTF-8" are both Error::message *)
Definition b64_decode_filter (u : bool) (s : str) : res str :=
  match lookup_bool b64_decode_table u with
  | None => RErr ErrPanic
  | Some (a, mode, allow) =>
      match b64_decode_bytes (alphabet_of a) mode allow (utf8_encode s) with
      | DErr _ => RErr ErrMsg
      | DOk bytes => match utf8_decode bytes with Some t => ROk t | None => RErr ErrMsg end
      end
  end.

(* ------------------------------------------------------------------------------ percent-encoding *)

Definition is_alnum (c : N) : bool :=
  in_range 48 57 c || in_range 65 90 c || in_range 97 122 c.

(* percent_encoding::CONTROLS (C0 controls and DEL) and NON_ALPHANUMERIC (every ASCII byte that is
   not a letter or digit) *)
Definition base_contains (b : pct_base) (c : N) : bool :=
  match b with
  | CONTROLS => (c <? 32) || (c =? 127)
  | NON_ALPHANUMERIC => (c <? 128) && negb (is_alnum c)
  end.

(* AsciiSet::contains after the chain of .add/.remove calls (the last operation on a byte wins) *)
Definition set_contains (ch : pct_base * list (bool * N)) (c : N) : bool :=
  fold_left (fun acc (op : bool * N) => if snd op =? c then fst op else acc)
            (snd ch) (base_contains (fst ch) c).

(* AsciiSet::should_percent_encode: !byte.is_ascii() || self.contains(byte) *)
Definition should_percent_encode (ch : pct_base * list (bool * N)) (c : N) : bool :=
  negb (c <? 128) || set_contains ch c.

Definition hex_upper (d : N) : N := if d <? 10 then 48 + d else 55 + d.
(* percent_encode_byte: "%XX", upper-case hex *)
Definition pct_encode_byte (b : N) : list N := [37; hex_upper (b / 16); hex_upper (b mod 16)].

(* PercentEncode iterator + Display: encoded bytes become %XX, runs of other bytes are copied *)
Definition pct_encode (ch : pct_base * list (bool * N)) (l : list N) : list N :=
  flat_map (fun b => if should_percent_encode ch b then pct_encode_byte b else [b]) l.

Definition urlencode_filter (s : str) : str := pct_encode urlencode_chain (utf8_encode s).
Definition urlencode_strict_filter (s : str) : str := pct_encode urlencode_strict_chain (utf8_encode s).

(* ------------------------------------------------------------------------------ JSON writer *)

(* itoa: decimal digits, most significant first *)
Fixpoint dec_rev (fuel : nat) (n : N) : list N :=
  match fuel with
  | O => []
  | S f => if n <? 10 then [48 + n] else (48 + n mod 10) :: dec_rev f (n / 10)
  end.
Definition dec_digits (n : N) : list N := rev (dec_rev (S (N.to_nat (N.log2 n))) n).
Definition json_int (z : Z) : list N :=
  if (z <? 0)%Z then 45 :: dec_digits (Z.abs_N z) else dec_digits (Z.to_N z).

Definition hex_lower (d : N) : N := if d <? 10 then 48 + d else 87 + d.

(* format_escaped_str_contents + ESCAPE table + write_char_escape *)
Definition json_escape_byte (b : N) : list N :=
  if b =? 34 then [92; 34]
  else if b =? 92 then [92; 92]
  else if b <? 32 then
    if b =? 8 then [92; 98]
    else if b =? 9 then [92; 116]
    else if b =? 10 then [92; 110]
    else if b =? 12 then [92; 102]
    else if b =? 13 then [92; 114]
    else [92; 117; 48; 48; hex_lower (b / 16); hex_lower (b mod 16)]
  else [b].
Definition json_string (bytes : list N) : list N := 34 :: flat_map json_escape_byte bytes ++ [34].

Definition lit_null : list N := [110; 117; 108; 108].
Definition lit_true : list N := [116; 114; 117; 101].
Definition lit_false : list N := [102; 97; 108; 115; 101].

(* MapKeySerializer on Key's Serialize impl: bool and integer keys are written inside quotes *)
Definition key_text (k : key) : list N :=
  match k with
  | KBool true => lit_true
  | KBool false => lit_false
  | KInt _ z => json_int z
  | KStr s _ => utf8_encode s
  end.

(* PrettyFormatter: "\n" + two spaces per level; CompactFormatter: nothing *)
Definition indent (pretty : bool) (lvl : nat) : list N :=
  if pretty then 10 :: repeat 32 (2 * lvl) else [].
Definition colon (pretty : bool) : list N := if pretty then [58; 32] else [58].

(* begin_array_value / begin_object_key: "," before all but the first, then the indentation *)
Fixpoint join_items (pretty : bool) (lvl : nat) (first : bool) (items : list (list N)) : list N :=
  match items with
  | [] => []
  | it :: t => (if first then [] else [44]) ++ indent pretty lvl ++ it ++ join_items pretty lvl false t
  end.

(* begin_array .. end_array (or object): nothing between the brackets when empty *)
Definition wrap (pretty : bool) (o c : N) (lvl : nat) (items : list (list N)) : list N :=
  match items with
  | [] => [o; c]
  | _ => o :: join_items pretty (S lvl) true items ++ indent pretty lvl ++ [c]
  end.

Definition sf_finite (f : spec_float) : bool :=
  match f with S754_nan | S754_infinity _ => false | _ => true end.

Section JsonWrite.
  (* ft: the text serde_json's write_f64 produces for a finite float (ORACLE) *)
  Variable ft : spec_float -> list N.
  Variable pretty : bool.

  (* impl Serialize for Value, driven through serde_json::Serializer *)
  Fixpoint json_write (lvl : nat) (v : value) {struct v} : list N :=
    match v with
    | VUndef | VNone => lit_null
    | VBool true => lit_true
    | VBool false => lit_false
    | VInt _ z => json_int z
    | VFloat f => if sf_finite f then ft f else lit_null
    | VStr s _ => json_string (utf8_encode s)
    | VBytes b => wrap pretty 91 93 lvl (map (fun x => json_int (Z.of_N x)) b)
    | VArr l => wrap pretty 91 93 lvl (map (json_write (S lvl)) l)
    | VMap m =>
        wrap pretty 123 125 lvl
             (map (fun kv : key * value =>
                     json_string (key_text (fst kv)) ++ colon pretty ++ json_write (S lvl) (snd kv)) m)
    end.
End JsonWrite.

(* filter json_encode(pretty=p): serde_json never fails on a tera Value (keys are bool / integer /
   string; io::Write into a Vec cannot fail), so the result is always Ok *)
Definition json_encode_filter (ft : spec_float -> list N) (p : bool) (v : value) : res (list N) :=
  match lookup_bool json_pretty_table p with
  | None => RErr ErrPanic
  | Some pr => ROk (json_write ft pr 0 v)
  end.

(* ------------------------------------------------------------------------------ slug *)

(* slug::_slugify: `push_char` over the bytes of the ASCII chars and of deunicode_char(c)
   (or "-" when deunicode has no mapping); state = (slug so far reversed, prev_is_dash) *)
Definition slug_push (st : list N * bool) (x : N) : list N * bool :=
  let '(acc, prev_is_dash) := st in
  if in_range 97 122 x || in_range 48 57 x then (x :: acc, false)
  else if in_range 65 90 x then ((x - 65 + 97) :: acc, false)
  else if prev_is_dash then (acc, true) else (45 :: acc, true).

Section Slug.
  (* deunicode_char (ORACLE): None = no transliteration known *)
  Variable deunicode_char : N -> option (list N).

  Definition slug_char_bytes (c : N) : list N :=
    if c <? 128 then [c]
    else match deunicode_char c with Some bs => bs | None => [45] end.

  Definition slugify (s : str) : str :=
    let '(acc, _) := fold_left slug_push (flat_map slug_char_bytes s) ([], true) in
    (* `if slug.ends_with('-') { slug.pop(); }` *)
    rev (match acc with 45 :: t => t | _ => acc end).
End Slug.
