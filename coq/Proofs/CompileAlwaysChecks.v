(* C07 second tier: compile_always_checks over the shared compiler port Model/Compile.v
   (tied to the real compiler by C03's `compile` correspondence family): for every
   statement list with break/continue only inside a for body and not across a capture —
   the side condition the parser enforces (Model/Compile.v brk_stmt; implied by wf_stmt) — and
   ANY expressions of the port (operators, ternary, subscripts, slices, optional chaining,
   function calls, array / map literals with spreads, filters, tests) the compiled chunk has a
   table that check_table accepts. By induction on expressions and statements with the
   invariant "a statement placed at position p leaves the abstract state (value stack, loop
   stack, capture count) as it found it; an expression pushes one slot". *)
From TeraV Require Import Model.Value Model.Instr Model.VM Model.StackCheck
  Proofs.CompileChecks Proofs.CompileFrag.
From TeraV Require Import Spec.Stmt Model.Compile Proofs.CompileProofs.
Local Open Scope nat_scope.

Definition pushA (t : aty) (a : astate) : astate := mkA (t :: a_stack a) (a_loops a) (a_caps a).

Lemma sub_push_any t a : astate_sub (pushA t a) (pushA TAny a) = true.
Proof. destruct a as [st lo ca]. exact (sub_top_any lo ca t st). Qed.

Lemma F_step p i a a1 aout ext :
  astep i p a = Some [(S p, a1)] -> astate_sub a1 aout = true -> Frag p [i] [a] a aout ext.
Proof.
  intros H Hs. apply (F_instr p i a aout ext _ H). intros e [<-|[]]. left. split; [reflexivity|exact Hs].
Qed.

Lemma F_goto p i a t a' aout ext :
  astep i p a = Some [(t, a')] -> In (t, a') ext -> Frag p [i] [a] a aout ext.
Proof. intros H Hi. apply (F_instr p i a aout ext _ H). intros e [<-|[]]. right. exact Hi. Qed.

Lemma F_branch p i a a1 t a' aout ext :
  astep i p a = Some [(S p, a1); (t, a')] -> astate_sub a1 aout = true -> In (t, a') ext ->
  Frag p [i] [a] a aout ext.
Proof.
  intros H Hs Hi. apply (F_instr p i a aout ext _ H). intros e [<-|[<-|[]]].
  - left. split; [reflexivity|exact Hs].
  - right. exact Hi.
Qed.

Lemma resolved_end p c sg a0 a1 ext t a' :
  Frag p c sg a0 a1 ext -> t = p + length c -> astate_sub a' a1 = true -> resolved p sg a1 (t, a').
Proof.
  intros (L & _) -> Hs. exists (length c). split; [reflexivity|].
  rewrite (proj2 (nth_error_None sg (length c))) by lia. split; [symmetry; exact L|exact Hs].
Qed.

Lemma resolved_at p sg a1 j aj t a' :
  nth_error sg j = Some aj -> t = p + j -> astate_sub a' aj = true -> resolved p sg a1 (t, a').
Proof. intros H -> Hs. exists j. split; [reflexivity|]. rewrite H. exact Hs. Qed.

(* a label pointing at the start of the last sub-fragment *)
Lemma resolved_last p pre s_e a a1 t :
  entry_ok s_e a a1 -> t = p + length pre -> resolved p (pre ++ s_e) a1 (t, a).
Proof.
  intros E ->. exists (length pre). split; [reflexivity|].
  rewrite nth_error_app2 by lia. rewrite Nat.sub_diag. destruct s_e as [|x s]; cbn in *.
  - rewrite app_nil_r. split; [reflexivity|exact E].
  - exact E.
Qed.

(* ---------- expressions ---------- *)

Definition EF (e : expr) : Prop :=
  forall p a ext, exists sg, Frag p (compile_expr p e) sg a (pushA TAny a) ext.

Fixpoint kwst (kw : list (str * expr)) (a : astate) : astate :=
  match kw with [] => a | _ :: t => kwst t (pushA TAny (pushA TAny a)) end.

Lemma kwst_shape kw : forall a, a_loops (kwst kw a) = a_loops a /\ a_caps (kwst kw a) = a_caps a.
Proof. induction kw as [|x t IH]; intros a; [auto|]. cbn [kwst]. destruct (IH (pushA TAny (pushA TAny a))). auto. Qed.

Lemma drop_add : forall n m l r, drop n l = Some r -> drop (n + m) l = drop m r.
Proof.
  induction n as [|n IH]; intros m l r H; cbn in *; [injection H as <-; reflexivity|].
  destruct l; [discriminate|]. exact (IH _ _ _ H).
Qed.

Lemma kwst_drop kw : forall a, drop (2 * length kw) (a_stack (kwst kw a)) = Some (a_stack a).
Proof.
  induction kw as [|x t IH]; intros a; [reflexivity|]. cbn [kwst length].
  replace (2 * S (length t)) with (2 * length t + 2) by lia.
  rewrite (drop_add _ 2 _ _ (IH _)). reflexivity.
Qed.

Lemma astep_buildmap n p a r : drop (2 * n) (a_stack a) = Some r ->
  astep (BuildMap n) p a = Some [(S p, mkA (TMap :: r) (a_loops a) (a_caps a))].
Proof. intros H. unfold astep. rewrite H. reflexivity. Qed.

Lemma compile_kws_cons' p k e t :
  compile_kws compile_expr p ((k, e) :: t) =
  (LoadConst (VStr k false) :: compile_expr (S p) e)
  ++ compile_kws compile_expr (p + length (LoadConst (VStr k false) :: compile_expr (S p) e)) t.
Proof. reflexivity. Qed.

Lemma kws_frag kw : Forall (fun ke => EF (snd ke)) kw ->
  forall p a ext, exists sg, Frag p (compile_kws compile_expr p kw) sg a (kwst kw a) ext.
Proof.
  induction 1 as [|[k e] t He _ IH]; intros p a ext.
  - exists []. apply F_nil.
  - cbn [snd] in He. rewrite compile_kws_cons'. cbn [kwst].
    destruct (He (S p) (pushA TAny a) ext) as (s1 & F1).
    destruct (IH (p + length (LoadConst (VStr k false) :: compile_expr (S p) e)) (pushA TAny (pushA TAny a)) ext) as (s2 & F2).
    exists (([a] ++ s1) ++ s2).
    eapply F_seq; [|exact F2|reflexivity|reflexivity].
    eapply (F_seq p [LoadConst (VStr k false)] _ _ _ (compile_expr (S p) e)); [|exact F1| |reflexivity].
    + apply (F_step p _ a (pushA TAny a)); [destruct a; reflexivity|apply astate_sub_refl].
    + cbn [length]. lia.
Qed.

(* an optional slice operand: the expression, or the constant loaded in its place *)
Lemma opt_frag (o : option expr) (d : value) :
  match o with Some x => EF x | None => True end ->
  forall p a ext, exists sg,
    Frag p (match o with Some x => compile_expr p x | None => [LoadConst d] end) sg a (pushA TAny a) ext.
Proof.
  intros H p a ext. destruct o as [x|]; [apply H|].
  exists [a]. apply (F_step p _ a (pushA (ty_of_value d) a)); [destruct a; reflexivity|apply sub_push_any].
Qed.

(* n pushed slots *)
Fixpoint pushN (n : nat) (a : astate) : astate :=
  match n with O => a | S k => pushN k (pushA TAny a) end.

Lemma pushN_shape n : forall a, a_loops (pushN n a) = a_loops a /\ a_caps (pushN n a) = a_caps a.
Proof. induction n as [|n IH]; intros a; [auto|]. cbn [pushN]. destruct (IH (pushA TAny a)). auto. Qed.

Lemma pushN_drop n : forall a, drop n (a_stack (pushN n a)) = Some (a_stack a).
Proof.
  induction n as [|n IH]; intros a; [reflexivity|]. cbn [pushN].
  replace (S n) with (n + 1) by lia. rewrite (drop_add _ 1 _ _ (IH _)). reflexivity.
Qed.

Lemma astep_buildlist n p a r : drop n (a_stack a) = Some r ->
  astep (BuildList n) p a = Some [(S p, mkA (TArr :: r) (a_loops a) (a_caps a))].
Proof. intros H. unfold astep. rewrite H. reflexivity. Qed.

Lemma astep_buildlist_sp fl p a r : drop (length fl) (a_stack a) = Some r ->
  astep (BuildListWithSpreads fl) p a = Some [(S p, mkA (TArr :: r) (a_loops a) (a_caps a))].
Proof. intros H. unfold astep, need_list. rewrite H. reflexivity. Qed.

Lemma astep_buildmap_sp fl p a r : drop (need_map fl) (a_stack a) = Some r ->
  astep (BuildMapWithSpreads fl) p a = Some [(S p, mkA (TMap :: r) (a_loops a) (a_caps a))].
Proof. intros H. unfold astep. rewrite H. reflexivity. Qed.

Lemma compile_items_cons' p sp e t :
  compile_items compile_expr p ((sp, e) :: t) =
  compile_expr p e ++ compile_items compile_expr (p + length (compile_expr p e)) t.
Proof. reflexivity. Qed.

Lemma items_frag items : Forall (fun ie => EF (snd ie)) items ->
  forall p a ext, exists sg, Frag p (compile_items compile_expr p items) sg a (pushN (length items) a) ext.
Proof.
  induction 1 as [|[sp e] t He _ IH]; intros p a ext.
  - exists []. apply F_nil.
  - cbn [snd] in He. rewrite compile_items_cons'. cbn [length pushN].
    destruct (He p a ext) as (s1 & F1).
    destruct (IH (p + length (compile_expr p e)) (pushA TAny a) ext) as (s2 & F2).
    exists (s1 ++ s2). eapply F_seq; [exact F1|exact F2|reflexivity|reflexivity].
Qed.

(* the state after the entries of a map literal: two slots per pair, one per spread *)
Fixpoint entst (es : list (option value * expr)) (a : astate) : astate :=
  match es with
  | [] => a
  | (Some _, _) :: t => entst t (pushA TAny (pushA TAny a))
  | (None, _) :: t => entst t (pushA TAny a)
  end.

Lemma entst_shape es : forall a, a_loops (entst es a) = a_loops a /\ a_caps (entst es a) = a_caps a.
Proof.
  induction es as [|[[k|] e] t IH]; intros a; [auto| |]; cbn [entst].
  - destruct (IH (pushA TAny (pushA TAny a))). auto.
  - destruct (IH (pushA TAny a)). auto.
Qed.

Lemma need_map_cons b fl : need_map (b :: fl) = (if b then 1 else 2) + need_map fl.
Proof. reflexivity. Qed.

Lemma entst_drop es : forall a, drop (need_map (map is_spread es)) (a_stack (entst es a)) = Some (a_stack a).
Proof.
  induction es as [|[[k|] e] t IH]; intros a; [reflexivity| |]; cbn [entst map]; rewrite need_map_cons;
    unfold is_spread at 1; cbn [fst].
  - replace (2 + need_map (map is_spread t)) with (need_map (map is_spread t) + 2) by lia.
    rewrite (drop_add _ 2 _ _ (IH _)). reflexivity.
  - replace (1 + need_map (map is_spread t)) with (need_map (map is_spread t) + 1) by lia.
    rewrite (drop_add _ 1 _ _ (IH _)). reflexivity.
Qed.

Lemma need_map_nospread es : existsb is_spread es = false -> need_map (map is_spread es) = 2 * length es.
Proof.
  induction es as [|x t IH]; [reflexivity|]. cbn [existsb map length]. intros H.
  apply orb_false_elim in H as [H1 H2]. rewrite need_map_cons, H1, (IH H2). lia.
Qed.

Lemma compile_entries_some' p k e t :
  compile_entries compile_expr p ((Some k, e) :: t) =
  (LoadConst k :: compile_expr (S p) e)
  ++ compile_entries compile_expr (p + length (LoadConst k :: compile_expr (S p) e)) t.
Proof. reflexivity. Qed.
Lemma compile_entries_none' p e t :
  compile_entries compile_expr p ((None, e) :: t) =
  compile_expr p e ++ compile_entries compile_expr (p + length (compile_expr p e)) t.
Proof. reflexivity. Qed.

Lemma entries_frag es : Forall (fun ke => EF (snd ke)) es ->
  forall p a ext, exists sg, Frag p (compile_entries compile_expr p es) sg a (entst es a) ext.
Proof.
  induction 1 as [|[[k|] e] t He _ IH]; intros p a ext.
  - exists []. apply F_nil.
  - cbn [snd] in He. rewrite compile_entries_some'. cbn [entst].
    destruct (He (S p) (pushA TAny a) ext) as (s1 & F1).
    destruct (IH (p + length (LoadConst k :: compile_expr (S p) e)) (pushA TAny (pushA TAny a)) ext) as (s2 & F2).
    exists (([a] ++ s1) ++ s2).
    eapply F_seq; [|exact F2|reflexivity|reflexivity].
    eapply (F_seq p [LoadConst k] _ _ _ (compile_expr (S p) e)); [|exact F1| |reflexivity].
    + apply (F_step p _ a (pushA (ty_of_value k) a)); [destruct a; reflexivity|apply sub_push_any].
    + cbn [length]. lia.
  - cbn [snd] in He. rewrite compile_entries_none'. cbn [entst].
    destruct (He p a ext) as (s1 & F1).
    destruct (IH (p + length (compile_expr p e)) (pushA TAny a) ext) as (s2 & F2).
    exists (s1 ++ s2). eapply F_seq; [exact F1|exact F2|reflexivity|reflexivity].
Qed.

Theorem expr_frag : forall e, EF e.
Proof.
  induction e using expr_ind'; intros p a0 ext.
  - (* const *) exists [a0]. apply (F_step p _ a0 (pushA (ty_of_value v) a0)); [destruct a0; reflexivity|apply sub_push_any].
  - exists [a0]. apply (F_step p _ a0 (pushA TAny a0)); [destruct a0; reflexivity|apply astate_sub_refl].
  - exists [a0]. apply (F_step p _ a0 (pushA TAny a0)); [destruct a0; reflexivity|apply astate_sub_refl].
  - (* attr *) destruct (IHe p a0 ext) as (s1 & F1). exists (s1 ++ [pushA TAny a0]).
    eapply F_seq; [exact F1| |reflexivity|reflexivity].
    apply (F_step _ _ _ (pushA TAny a0)); [destruct a0; reflexivity|apply astate_sub_refl].
  - (* not *) destruct (IHe p a0 ext) as (s1 & F1). exists (s1 ++ [pushA TAny a0]).
    eapply F_seq; [exact F1| |reflexivity|reflexivity].
    apply (F_step _ _ _ (pushA TAny a0)); [destruct a0; reflexivity|apply astate_sub_refl].
  - (* and *) cbn [compile_expr].
    set (ca := compile_expr p e1). set (q := p + length ca + 1). set (cb := compile_expr q e2).
    set (t := q + length cb). set (ext' := (t, pushA TAny a0) :: ext).
    destruct (IHe1 p a0 ext') as (s1 & F1). fold ca in F1.
    destruct (IHe2 q a0 ext') as (s2 & F2). fold cb in F2.
    exists (s1 ++ [pushA TAny a0] ++ s2).
    assert (FA : Frag p (ca ++ [JumpIfFalseOrPop t] ++ cb) (s1 ++ [pushA TAny a0] ++ s2) a0 (pushA TAny a0) ext').
    { eapply F_seq; [exact F1| |reflexivity|reflexivity].
      eapply (F_seq _ [JumpIfFalseOrPop t] _ _ _ cb); [|exact F2|unfold q; cbn [length]; lia|reflexivity].
      apply (F_branch _ _ _ a0 t (pushA TAny a0)); [destruct a0; reflexivity|apply astate_sub_refl|left; reflexivity]. }
    apply (F_resolve _ _ _ _ _ ext' ext FA). intros l [<-|Hin]; [right|left; exact Hin].
    apply (resolved_end _ _ _ _ _ _ _ _ FA); [|apply astate_sub_refl].
    unfold t, q. rewrite !app_length. cbn [length]. lia.
  - (* or *) cbn [compile_expr].
    set (ca := compile_expr p e1). set (q := p + length ca + 1). set (cb := compile_expr q e2).
    set (t := q + length cb). set (ext' := (t, pushA TAny a0) :: ext).
    destruct (IHe1 p a0 ext') as (s1 & F1). fold ca in F1.
    destruct (IHe2 q a0 ext') as (s2 & F2). fold cb in F2.
    exists (s1 ++ [pushA TAny a0] ++ s2).
    assert (FA : Frag p (ca ++ [JumpIfTrueOrPop t] ++ cb) (s1 ++ [pushA TAny a0] ++ s2) a0 (pushA TAny a0) ext').
    { eapply F_seq; [exact F1| |reflexivity|reflexivity].
      eapply (F_seq _ [JumpIfTrueOrPop t] _ _ _ cb); [|exact F2|unfold q; cbn [length]; lia|reflexivity].
      apply (F_branch _ _ _ a0 t (pushA TAny a0)); [destruct a0; reflexivity|apply astate_sub_refl|left; reflexivity]. }
    apply (F_resolve _ _ _ _ _ ext' ext FA). intros l [<-|Hin]; [right|left; exact Hin].
    apply (resolved_end _ _ _ _ _ _ _ _ FA); [|apply astate_sub_refl].
    unfold t, q. rewrite !app_length. cbn [length]. lia.
  - (* eq *) cbn [compile_expr].
    destruct (IHe1 p a0 ext) as (s1 & F1).
    destruct (IHe2 (p + length (compile_expr p e1)) (pushA TAny a0) ext) as (s2 & F2).
    exists (s1 ++ s2 ++ [pushA TAny (pushA TAny a0)]).
    eapply F_seq; [exact F1| |reflexivity|reflexivity].
    eapply F_seq; [exact F2| |reflexivity|reflexivity].
    apply (F_step _ _ _ (pushA TAny a0)); [destruct a0; reflexivity|apply astate_sub_refl].
  - (* test *) cbn [compile_expr]. destruct (IHe p a0 ext) as (s1 & F1).
    exists (s1 ++ [pushA TAny a0] ++ [pushA TMap (pushA TAny a0)]).
    eapply F_seq; [exact F1| |reflexivity|reflexivity].
    eapply (F_seq _ [BuildMap 0] _ _ _ [RunTest n]); [| |reflexivity|reflexivity].
    + apply (F_step _ _ _ (pushA TMap (pushA TAny a0))); [destruct a0; reflexivity|apply astate_sub_refl].
    + apply (F_step _ _ _ (pushA TAny a0)); [destruct a0; reflexivity|apply astate_sub_refl].
  - (* filter *) cbn [compile_expr]. destruct (IHe p a0 ext) as (s1 & F1).
    destruct (kws_frag kw H (p + length (compile_expr p e)) (pushA TAny a0) ext) as (s2 & F2).
    set (ak := kwst kw (pushA TAny a0)) in *.
    exists (s1 ++ s2 ++ [ak] ++ [pushA TMap (pushA TAny a0)]).
    eapply F_seq; [exact F1| |reflexivity|reflexivity].
    eapply F_seq; [exact F2| |reflexivity|reflexivity].
    eapply (F_seq _ [BuildMap (length kw)] _ _ _ [ApplyFilter n]); [| |reflexivity|reflexivity].
    + apply (F_step _ _ _ (pushA TMap (pushA TAny a0))); [|apply astate_sub_refl].
      rewrite (astep_buildmap _ _ _ _ (kwst_drop kw (pushA TAny a0))).
      destruct (kwst_shape kw (pushA TAny a0)) as [E1 E2]. unfold ak. rewrite ?E1, ?E2. subst ak. rewrite ?E1, ?E2. reflexivity.
    + apply (F_step _ _ _ (pushA TAny a0)); [destruct a0; reflexivity|apply astate_sub_refl].
  - (* binary operator *) cbn [compile_expr].
    destruct (IHe1 p a0 ext) as (s1 & F1).
    destruct (IHe2 (p + length (compile_expr p e1)) (pushA TAny a0) ext) as (s2 & F2).
    exists (s1 ++ s2 ++ [pushA TAny (pushA TAny a0)]).
    eapply F_seq; [exact F1| |reflexivity|reflexivity].
    eapply F_seq; [exact F2| |reflexivity|reflexivity].
    apply (F_step _ _ _ (pushA TAny a0)); [destruct a0, op; reflexivity|apply astate_sub_refl].
  - (* unary minus *) destruct (IHe p a0 ext) as (s1 & F1). exists (s1 ++ [pushA TAny a0]).
    eapply F_seq; [exact F1| |reflexivity|reflexivity].
    apply (F_step _ _ _ (pushA TAny a0)); [destruct a0; reflexivity|apply astate_sub_refl].
  - (* ternary *) cbn [compile_expr].
    set (cc := compile_expr p e1). set (b1 := p + length cc + 1).
    set (ca := compile_expr b1 e2). set (b2 := b1 + length ca + 1).
    set (cb := compile_expr b2 e3). set (tend := b2 + length cb).
    set (a1 := pushA TAny a0).
    set (ext' := (tend, a1) :: (b2, a0) :: ext).
    destruct (IHe1 p a0 ext') as (s1 & F1). fold cc in F1.
    destruct (IHe2 b1 a0 ext') as (s2 & F2). fold ca in F2.
    destruct (IHe3 b2 a0 ext') as (s3 & F3). fold cb in F3.
    exists ((s1 ++ [a1] ++ s2 ++ [a1]) ++ s3).
    assert (FA : Frag p (cc ++ [PopJumpIfFalse b2] ++ ca ++ [Jump tend] ++ cb)
                      ((s1 ++ [a1] ++ s2 ++ [a1]) ++ s3) a0 a1 ext').
    { eapply (F_seq p (cc ++ [PopJumpIfFalse b2] ++ ca ++ [Jump tend]) _ _ a0 cb _ _ _ b2); [|exact F3| |].
      - eapply F_seq; [exact F1| |reflexivity|reflexivity].
        eapply (F_seq _ [PopJumpIfFalse b2] _ _ a0 (ca ++ [Jump tend]) _ _ _ b1); [| |unfold b1; cbn [length]; lia|reflexivity].
        + apply (F_branch _ _ _ a0 b2 a0); [destruct a0; reflexivity|apply astate_sub_refl|right; left; reflexivity].
        + eapply (F_seq _ ca _ _ a1 [Jump tend]); [exact F2| |reflexivity|reflexivity].
          apply (F_goto _ _ _ tend a1); [reflexivity|left; reflexivity].
      - unfold b2, b1. rewrite !app_length. cbn [length]. lia.
      - rewrite <- !app_assoc. reflexivity. }
    apply (F_resolve _ _ _ _ _ ext' ext FA). intros l [<-|[<-|Hin]]; [right|right|left; exact Hin].
    * apply (resolved_end _ _ _ _ _ _ _ _ FA); [|apply astate_sub_refl].
      unfold tend, b2, b1. rewrite !app_length. cbn [length]. lia.
    * apply resolved_last; [exact (proj1 (proj2 F3))|].
      destruct F1 as (L1 & _). destruct F2 as (L2 & _).
      unfold b2, b1. rewrite !app_length. cbn [length]. rewrite L1, L2. lia.
  - (* optional attribute *) destruct (IHe p a0 ext) as (s1 & F1). exists (s1 ++ [pushA TAny a0]).
    eapply F_seq; [exact F1| |reflexivity|reflexivity].
    apply (F_step _ _ _ (pushA TAny a0)); [destruct a0; reflexivity|apply astate_sub_refl].
  - (* subscript *) cbn [compile_expr].
    destruct (IHe1 p a0 ext) as (s1 & F1).
    destruct (IHe2 (p + length (compile_expr p e1)) (pushA TAny a0) ext) as (s2 & F2).
    exists (s1 ++ s2 ++ [pushA TAny (pushA TAny a0)]).
    eapply F_seq; [exact F1| |reflexivity|reflexivity].
    eapply F_seq; [exact F2| |reflexivity|reflexivity].
    apply (F_step _ _ _ (pushA TAny a0)); [destruct a0, opt; reflexivity|apply astate_sub_refl].
  - (* slice *) cbn [compile_expr].
    destruct (IHe p a0 ext) as (s1 & F1).
    set (c1 := compile_expr p e) in *. set (q1 := p + length c1).
    destruct (opt_frag sa VNone H q1 (pushA TAny a0) ext) as (s2 & F2).
    set (ca := match sa with Some x => compile_expr q1 x | None => [LoadConst VNone] end) in *.
    set (q2 := q1 + length ca).
    destruct (opt_frag sb VNone H0 q2 (pushA TAny (pushA TAny a0)) ext) as (s3 & F3).
    set (cb := match sb with Some x => compile_expr q2 x | None => [LoadConst VNone] end) in *.
    set (q3 := q2 + length cb).
    destruct (opt_frag sc (VInt I64 1) H1 q3 (pushA TAny (pushA TAny (pushA TAny a0))) ext) as (s4 & F4).
    exists (s1 ++ s2 ++ s3 ++ s4 ++ [pushA TAny (pushA TAny (pushA TAny (pushA TAny a0)))]).
    eapply F_seq; [exact F1| |reflexivity|reflexivity].
    eapply F_seq; [exact F2| |reflexivity|reflexivity].
    eapply F_seq; [exact F3| |reflexivity|reflexivity].
    eapply F_seq; [exact F4| |reflexivity|reflexivity].
    apply (F_step _ _ _ (pushA TAny a0)); [destruct a0, opt; reflexivity|apply astate_sub_refl].
  - (* function call *) cbn [compile_expr].
    destruct (kws_frag kw H p a0 ext) as (s2 & F2).
    exists (s2 ++ [kwst kw a0] ++ [pushA TMap a0]).
    eapply F_seq; [exact F2| |reflexivity|reflexivity].
    eapply (F_seq _ [BuildMap (length kw)] _ _ _ [CallFunction n]); [| |reflexivity|reflexivity].
    + apply (F_step _ _ _ (pushA TMap a0)); [|apply astate_sub_refl].
      rewrite (astep_buildmap _ _ _ _ (kwst_drop kw a0)).
      destruct (kwst_shape kw a0) as [E1 E2]. rewrite E1, E2. reflexivity.
    + apply (F_step _ _ _ (pushA TAny a0)); [destruct a0; reflexivity|apply astate_sub_refl].
  - (* array literal *) cbn [compile_expr].
    destruct (items_frag items H p a0 ext) as (s1 & F1).
    exists (s1 ++ [pushN (length items) a0]).
    eapply F_seq; [exact F1| |reflexivity|reflexivity].
    apply (F_step _ _ _ (pushA TArr a0)); [|apply sub_push_any].
    destruct (pushN_shape (length items) a0) as [E1 E2].
    destruct (existsb fst items).
    + rewrite (astep_buildlist_sp _ _ _ (a_stack a0)); [rewrite E1, E2; reflexivity|].
      rewrite map_length. apply pushN_drop.
    + rewrite (astep_buildlist _ _ _ (a_stack a0)); [rewrite E1, E2; reflexivity|]. apply pushN_drop.
  - (* map literal *) cbn [compile_expr].
    destruct (entries_frag es H p a0 ext) as (s1 & F1).
    exists (s1 ++ [entst es a0]).
    eapply F_seq; [exact F1| |reflexivity|reflexivity].
    apply (F_step _ _ _ (pushA TMap a0)); [|apply sub_push_any].
    destruct (entst_shape es a0) as [E1 E2].
    destruct (existsb is_spread es) eqn:Es.
    + rewrite (astep_buildmap_sp _ _ _ _ (entst_drop es a0)), E1, E2. reflexivity.
    + rewrite (astep_buildmap _ _ _ (a_stack a0)); [rewrite E1, E2; reflexivity|].
      rewrite <- (need_map_nospread es Es). apply entst_drop.
Qed.

(* ---------- keyword arguments and filter chains ---------- *)

Lemma all_EF (kw : list (str * expr)) : Forall (fun ke => EF (snd ke)) kw.
Proof. apply Forall_forall. intros ke _. apply expr_frag. Qed.

Lemma kwargs_frag kw p a ext : exists sg, Frag p (compile_kwargs p kw) sg a (pushA TMap a) ext.
Proof.
  unfold compile_kwargs. destruct (kws_frag kw (all_EF kw) p a ext) as (s1 & F1).
  exists (s1 ++ [kwst kw a]).
  eapply (F_seq _ _ _ _ _ [BuildMap (length kw)]); [exact F1| |reflexivity|reflexivity].
  apply (F_step _ _ _ (pushA TMap a)); [|apply astate_sub_refl].
  rewrite (astep_buildmap _ _ _ _ (kwst_drop kw a)). destruct (kwst_shape kw a) as [E1 E2]. rewrite E1, E2. reflexivity.
Qed.

Lemma filters_frag : forall fs p a ext,
  exists sg, Frag p (compile_filters p fs) sg (pushA TAny a) (pushA TAny a) ext.
Proof.
  induction fs as [|[name kw] t IH]; intros p a ext.
  - exists []. apply F_nil.
  - cbn [compile_filters].
    destruct (kwargs_frag kw p (pushA TAny a) ext) as (s1 & F1).
    set (c := compile_kwargs p kw ++ [ApplyFilter name]).
    destruct (IH (p + length c) a ext) as (s2 & F2).
    exists ((s1 ++ [pushA TMap (pushA TAny a)]) ++ s2).
    eapply F_seq; [|exact F2|reflexivity|reflexivity].
    eapply (F_seq _ _ _ _ _ [ApplyFilter name]); [exact F1| |reflexivity|reflexivity].
    apply (F_step _ _ _ (pushA TAny a)); [destruct a; reflexivity|apply astate_sub_refl].
Qed.

(* ---------- statements ---------- *)

(* where break / continue are allowed: the innermost loop's Iterate position and end target are
   labels of the environment, and the abstract state is the loop body's *)
Definition Ctx (brk : bool) (lp : option nat) (a : astate) (ext : list (nat * astate)) : Prop :=
  brk = true -> exists start lend lo',
    lp = Some start /\ a_loops a = Some lend :: lo' /\ In (start, a) ext /\ In (lend, a) ext.

Lemma Ctx_weaken brk lp a ext ext' : Ctx brk lp a ext -> incl ext ext' -> Ctx brk lp a ext'.
Proof.
  intros H Hi Hb. destruct (H Hb) as (s & l & lo' & E1 & E2 & I1 & I2).
  exists s, l, lo'. repeat split; auto.
Qed.

Lemma Ctx_false lp a ext : Ctx false lp a ext.
Proof. intros H. discriminate. Qed.

Definition SF (s : stmt) : Prop :=
  forall brk, brk_stmt brk s = true ->
  forall p lp a ext, Ctx brk lp a ext -> exists sg, Frag p (compile_node p lp s) sg a a ext.

Lemma compile_seq_cons' p lp s t :
  compile_seq compile_node p lp (s :: t) =
  compile_node p lp s ++ compile_seq compile_node (p + length (compile_node p lp s)) lp t.
Proof. reflexivity. Qed.

Lemma seq_frag body : Forall SF body ->
  forall brk, forallb (brk_stmt brk) body = true ->
  forall p lp a ext, Ctx brk lp a ext ->
  exists sg, Frag p (compile_seq compile_node p lp body) sg a a ext.
Proof.
  induction 1 as [|s t Hs _ IH]; intros brk Hwf p lp a ext HC.
  - exists []. apply F_nil.
  - cbn [forallb] in Hwf. apply andb_prop in Hwf as [H1 H2]. rewrite compile_seq_cons'.
    destruct (Hs brk H1 p lp a ext HC) as (s1 & F1).
    destruct (IH brk H2 (p + length (compile_node p lp s)) lp a ext HC) as (s2 & F2).
    exists (s1 ++ s2). eapply F_seq; [exact F1|exact F2|reflexivity|reflexivity].
Qed.

Definition capA (a : astate) : astate := mkA (a_stack a) (a_loops a) (S (a_caps a)).
Definition itA (a : astate) : astate := mkA (a_stack a) (None :: a_loops a) (a_caps a).
Definition bodyA (lend : nat) (a : astate) : astate := mkA (a_stack a) (Some lend :: a_loops a) (a_caps a).

Lemma sub_body_it lend a : astate_sub (bodyA lend a) (itA a) = true.
Proof.
  destruct a as [st lo ca]. unfold astate_sub, bodyA, itA. cbn [a_stack a_loops a_caps all2 lp_sub].
  rewrite (all2_refl ty_sub), (all2_refl lp_sub), Nat.eqb_refl; [reflexivity| |].
  - intros [x|]; cbn; [apply Nat.eqb_refl|reflexivity].
  - intros []; reflexivity.
Qed.

(* target; StartIterate; StoreLocal..; Iterate; body; Jump — everything of a for loop up to its
   end target, with break / continue / the Iterate exit resolved *)
Lemma for_head body : Forall SF body ->
  forallb (brk_stmt true) body = true ->
  forall (key : option str) (val : str) (target : expr) p a ext0,
  let ct := compile_expr p target in
  let hdr := [StartIterate (is_some key); StoreLocal val] ++ match key with Some k => [StoreLocal k] | None => [] end in
  let start := p + length ct + length hdr in
  let cb := compile_seq compile_node (S start) (Some start) body in
  let lend := S start + length cb + 1 in
  exists sg, Frag p (ct ++ hdr ++ [Iterate lend] ++ cb ++ [Jump start]) sg a (itA a) ext0.
Proof.
  intros Hb Hwb key val target p a ext0 ct hdr start cb lend.
  set (a_it := itA a). set (a_b := bodyA lend a).
  set (extL := (start, a_b) :: (lend, a_b) :: (lend, a_it) :: ext0).
  assert (HC : Ctx true (Some start) a_b extL).
  { intros _. exists start, lend, (a_loops a). repeat split; [left; reflexivity|right; left; reflexivity]. }
  destruct (seq_frag body Hb true Hwb (S start) (Some start) a_b extL HC) as (s_b & Fb). fold cb in Fb.
  (* the loop proper *)
  assert (FL' : Frag start ([Iterate lend] ++ cb ++ [Jump start]) ([a_it] ++ s_b ++ [a_b]) a_it a_it extL).
  { eapply (F_seq start [Iterate lend] _ _ _ (cb ++ [Jump start]) _ _ _ (S start)); [| |cbn [length]; lia|reflexivity].
    - apply (F_branch _ _ _ a_b lend a_it); [destruct a; reflexivity|apply astate_sub_refl|right; right; left; reflexivity].
    - eapply (F_seq _ cb _ _ _ [Jump start]); [exact Fb| |reflexivity|reflexivity].
      apply (F_goto _ _ _ start a_b); [reflexivity|left; reflexivity]. }
  assert (FL : Frag start ([Iterate lend] ++ cb ++ [Jump start]) ([a_it] ++ s_b ++ [a_b]) a_it a_it ext0).
  { apply (F_resolve _ _ _ _ _ extL ext0 FL'). intros l [<-|[<-|[<-|Hin]]]; [right|right|right|left; exact Hin].
    - apply (resolved_at _ _ _ 0 a_it); [reflexivity|lia|apply sub_body_it].
    - apply (resolved_end _ _ _ _ _ _ _ _ FL'); [|apply sub_body_it]. unfold lend. rewrite !app_length. cbn [length]. lia.
    - apply (resolved_end _ _ _ _ _ _ _ _ FL'); [|apply astate_sub_refl]. unfold lend. rewrite !app_length. cbn [length]. lia. }
  destruct (expr_frag target p a ext0) as (s_t & Ft). fold ct in Ft.
  (* the header *)
  assert (Fh : exists s_h, Frag (p + length ct) hdr s_h (pushA TAny a) a_it ext0).
  { unfold hdr. destruct key as [k|].
    - exists ([pushA TAny a] ++ [a_it] ++ [a_it]).
      eapply (F_seq _ [StartIterate (is_some (Some k))] _ _ a_it ([StoreLocal val] ++ [StoreLocal k])); [| |reflexivity|reflexivity].
      + apply (F_step _ _ _ a_it); [destruct a; reflexivity|apply astate_sub_refl].
      + eapply (F_seq _ [StoreLocal val] _ _ a_it [StoreLocal k]); [| |reflexivity|reflexivity];
          (apply (F_step _ _ _ a_it); [destruct a; reflexivity|apply astate_sub_refl]).
    - exists ([pushA TAny a] ++ [a_it]).
      eapply (F_seq _ [StartIterate (is_some (@None str))] _ _ a_it [StoreLocal val]); [| |reflexivity|reflexivity];
        (apply (F_step _ _ _ a_it); [destruct a; reflexivity|apply astate_sub_refl]). }
  destruct Fh as (s_h & Fh).
  exists (s_t ++ s_h ++ [a_it] ++ s_b ++ [a_b]).
  eapply F_seq; [exact Ft| |reflexivity|reflexivity].
  eapply F_seq; [exact Fh|exact FL|unfold start; lia|reflexivity].
Qed.

Lemma wf_if brk c body els : brk_stmt brk (SIf c body els) = true ->
  forallb (brk_stmt brk) body = true /\ forallb (brk_stmt brk) els = true.
Proof. cbn [brk_stmt]. intros H. apply andb_prop in H as [H1 H2]. auto. Qed.

Lemma wf_for brk k v t body els : brk_stmt brk (SFor k v t body els) = true ->
  forallb (brk_stmt true) body = true /\ forallb (brk_stmt brk) els = true.
Proof. cbn [brk_stmt]. intros H. apply andb_prop in H as [H1 H2]. auto. Qed.

Theorem stmt_frag : forall s, SF s.
Proof.
  induction s using stmt_ind'; intros brk Hwf p lp a ext HC.
  - (* text *) exists [a]. apply (F_step _ _ _ a); [destruct a; reflexivity|apply astate_sub_refl].
  - (* print *) cbn [compile_node]. destruct (expr_frag e p a ext) as (s1 & F1).
    exists (s1 ++ [pushA TAny a]). eapply (F_seq _ _ _ _ _ [WriteTop]); [exact F1| |reflexivity|reflexivity].
    apply (F_step _ _ _ a); [destruct a; reflexivity|apply astate_sub_refl].
  - (* if *) destruct (wf_if _ _ _ _ Hwf) as [Hwb Hwe]. cbn [compile_node].
    set (cc := compile_expr p c). set (b1 := p + length cc + 1).
    set (cb := compile_seq compile_node b1 lp b).
    destruct e as [|e0 els'].
    + (* no else *)
      set (t := b1 + length cb). set (ext' := (t, a) :: ext).
      assert (HC' : Ctx brk lp a ext') by (apply (Ctx_weaken _ _ _ _ _ HC); intros x Hx; right; exact Hx).
      destruct (expr_frag c p a ext') as (s1 & F1). fold cc in F1.
      destruct (seq_frag b H brk Hwb b1 lp a ext' HC') as (s2 & F2). fold cb in F2.
      exists (s1 ++ [pushA TAny a] ++ s2).
      assert (FA : Frag p (cc ++ [PopJumpIfFalse t] ++ cb) (s1 ++ [pushA TAny a] ++ s2) a a ext').
      { eapply F_seq; [exact F1| |reflexivity|reflexivity].
        eapply (F_seq _ [PopJumpIfFalse t] _ _ a cb _ _ _ b1); [|exact F2|unfold b1; cbn [length]; lia|reflexivity].
        apply (F_branch _ _ _ a t a); [destruct a; reflexivity|apply astate_sub_refl|left; reflexivity]. }
      apply (F_resolve _ _ _ _ _ ext' ext FA). intros l [<-|Hin]; [right|left; exact Hin].
      apply (resolved_end _ _ _ _ _ _ _ _ FA); [|apply astate_sub_refl].
      unfold t, b1. rewrite !app_length. cbn [length]. lia.
    + (* else *)
      set (els := e0 :: els') in *.
      set (b2 := b1 + length cb + 1). set (ce := compile_seq compile_node b2 lp els).
      set (tend := b2 + length ce). set (ext' := (tend, a) :: (b2, a) :: ext).
      assert (HC' : Ctx brk lp a ext') by (apply (Ctx_weaken _ _ _ _ _ HC); intros x Hx; right; right; exact Hx).
      destruct (expr_frag c p a ext') as (s1 & F1). fold cc in F1.
      destruct (seq_frag b H brk Hwb b1 lp a ext' HC') as (s2 & F2). fold cb in F2.
      destruct (seq_frag els H0 brk Hwe b2 lp a ext' HC') as (s3 & F3). fold ce in F3.
      exists ((s1 ++ [pushA TAny a] ++ s2 ++ [a]) ++ s3).
      assert (FA : Frag p (cc ++ [PopJumpIfFalse b2] ++ cb ++ [Jump tend] ++ ce)
                        ((s1 ++ [pushA TAny a] ++ s2 ++ [a]) ++ s3) a a ext').
      { eapply (F_seq p (cc ++ [PopJumpIfFalse b2] ++ cb ++ [Jump tend]) _ _ a ce _ _ _ b2); [|exact F3| |].
        - eapply F_seq; [exact F1| |reflexivity|reflexivity].
          eapply (F_seq _ [PopJumpIfFalse b2] _ _ a (cb ++ [Jump tend]) _ _ _ b1); [| |unfold b1; cbn [length]; lia|reflexivity].
          + apply (F_branch _ _ _ a b2 a); [destruct a; reflexivity|apply astate_sub_refl|right; left; reflexivity].
          + eapply (F_seq _ cb _ _ a [Jump tend]); [exact F2| |reflexivity|reflexivity].
            apply (F_goto _ _ _ tend a); [reflexivity|left; reflexivity].
        - unfold b2, b1. rewrite !app_length. cbn [length]. lia.
        - rewrite <- !app_assoc. reflexivity. }
      apply (F_resolve _ _ _ _ _ ext' ext FA). intros l [<-|[<-|Hin]]; [right|right|left; exact Hin].
      * apply (resolved_end _ _ _ _ _ _ _ _ FA); [|apply astate_sub_refl].
        unfold tend, b2, b1. rewrite !app_length. cbn [length]. lia.
      * apply resolved_last; [exact (proj1 (proj2 F3))|].
        destruct F1 as (L1 & _). destruct F2 as (L2 & _).
        unfold b2, b1. rewrite !app_length. cbn [length]. rewrite L1, L2. lia.
  - (* for *) destruct (wf_for _ _ _ _ _ _ Hwf) as [Hwb Hwe]. cbn [compile_node].
    set (ct := compile_expr p t).
    set (hdr := [StartIterate (is_some k); StoreLocal v] ++ match k with Some k0 => [StoreLocal k0] | None => [] end).
    set (start := p + length ct + length hdr).
    set (cb := compile_seq compile_node (S start) (Some start) b).
    set (lend := S start + length cb + 1).
    destruct e as [|e0 els'].
    + destruct (for_head b H Hwb k v t p a ext) as (s1 & F1).
      fold ct hdr start cb lend in F1.
      exists (s1 ++ [itA a]).
      eapply (F_seq p (ct ++ hdr ++ [Iterate lend] ++ cb ++ [Jump start]) _ _ (itA a) [PopLoop]); [exact F1| |reflexivity|].
      * apply (F_step _ _ _ a); [destruct a; reflexivity|apply astate_sub_refl].
      * rewrite <- !app_assoc. reflexivity.
    + set (els := e0 :: els') in *.
      set (b2 := lend + 3). set (ce := compile_seq compile_node b2 lp els).
      set (tend := b2 + length ce). set (ext' := (tend, a) :: ext).
      assert (HC' : Ctx brk lp a ext') by (apply (Ctx_weaken _ _ _ _ _ HC); intros x Hx; right; exact Hx).
      destruct (for_head b H Hwb k v t p a ext') as (s1 & F1).
      fold ct hdr start cb lend in F1.
      destruct (seq_frag els H0 brk Hwe b2 lp a ext' HC') as (s3 & F3). fold ce in F3.
      set (c1 := ct ++ hdr ++ [Iterate lend] ++ cb ++ [Jump start]) in *.
      exists (s1 ++ [itA a] ++ [pushA TAny (itA a)] ++ [pushA TAny a] ++ s3).
      assert (FA : Frag p (c1 ++ [StoreDidNotIterate] ++ [PopLoop] ++ [PopJumpIfFalse tend] ++ ce)
                        (s1 ++ [itA a] ++ [pushA TAny (itA a)] ++ [pushA TAny a] ++ s3) a a ext').
      { eapply (F_seq p c1 _ _ (itA a)); [exact F1| |reflexivity|reflexivity].
        eapply (F_seq _ [StoreDidNotIterate] _ _ (pushA TAny (itA a))); [| |reflexivity|reflexivity].
        { apply (F_step _ _ _ (pushA TAny (itA a))); [destruct a; reflexivity|apply astate_sub_refl]. }
        eapply (F_seq _ [PopLoop] _ _ (pushA TAny a)); [| |reflexivity|reflexivity].
        { apply (F_step _ _ _ (pushA TAny a)); [destruct a; reflexivity|apply astate_sub_refl]. }
        eapply (F_seq _ [PopJumpIfFalse tend] _ _ a ce _ _ _ b2); [|exact F3| |reflexivity].
        - apply (F_branch _ _ _ a tend a); [destruct a; reflexivity|apply astate_sub_refl|left; reflexivity].
        - unfold b2, lend, c1. rewrite !app_length. cbn [length]. unfold start. lia. }
      assert (Hcode : c1 ++ [StoreDidNotIterate] ++ [PopLoop] ++ [PopJumpIfFalse tend] ++ ce
                      = ct ++ hdr ++ [Iterate lend] ++ cb ++ [Jump start; StoreDidNotIterate; PopLoop; PopJumpIfFalse (b2 + length ce)] ++ ce).
      { unfold c1. rewrite <- !app_assoc. reflexivity. }
      assert (FR : Frag p (c1 ++ [StoreDidNotIterate] ++ [PopLoop] ++ [PopJumpIfFalse tend] ++ ce)
                        (s1 ++ [itA a] ++ [pushA TAny (itA a)] ++ [pushA TAny a] ++ s3) a a ext).
      { apply (F_resolve _ _ _ _ _ ext' ext FA). intros l [<-|Hin]; [right|left; exact Hin].
        apply (resolved_end _ _ _ _ _ _ _ _ FA); [|apply astate_sub_refl].
        unfold tend, b2, lend, c1. rewrite !app_length. cbn [length]. unfold start. lia. }
      rewrite Hcode in FR. exact FR.
  - (* assign *) cbn [compile_node]. destruct (expr_frag e p a ext) as (s1 & F1).
    exists (s1 ++ [pushA TAny a]).
    eapply (F_seq _ _ _ _ _ [if g then SetGlobal n else SetI n]); [exact F1| |reflexivity|reflexivity].
    apply (F_step _ _ _ a); [destruct g, a; reflexivity|apply astate_sub_refl].
  - (* set block *) cbn [brk_stmt] in Hwf. pose proof Hwf as Hwb. cbn [compile_node].
    set (cb := compile_seq compile_node (S p) lp b). set (b1 := S p + length cb + 1).
    destruct (seq_frag b H false Hwb (S p) lp (capA a) ext (Ctx_false _ _ _)) as (s2 & F2). fold cb in F2.
    destruct (filters_frag fs b1 a ext) as (s3 & F3).
    exists ([a] ++ s2 ++ [capA a] ++ s3 ++ [pushA TAny a]).
    eapply (F_seq p [Capture] _ _ (capA a) _ _ _ _ (S p)); [| |cbn [length]; lia|reflexivity].
    { apply (F_step _ _ _ (capA a)); [destruct a; reflexivity|apply astate_sub_refl]. }
    eapply (F_seq (S p) cb _ _ (capA a)); [exact F2| |reflexivity|reflexivity].
    eapply (F_seq _ [EndCapture] _ _ (pushA TAny a) _ _ _ _ b1); [| |unfold b1; cbn [length]; lia|reflexivity].
    { apply (F_step _ _ _ (pushA TAny a)); [destruct a; reflexivity|apply astate_sub_refl]. }
    eapply (F_seq b1 (compile_filters b1 fs) _ _ (pushA TAny a) [if g then SetGlobal n else SetI n]); [exact F3| |reflexivity|reflexivity].
    apply (F_step _ _ _ a); [destruct g, a; reflexivity|apply astate_sub_refl].
  - (* filter section *) cbn [brk_stmt] in Hwf. pose proof Hwf as Hwb. cbn [compile_node].
    set (cb := compile_seq compile_node (S p) lp b). set (b1 := S p + length cb + 1).
    destruct (seq_frag b H false Hwb (S p) lp (capA a) ext (Ctx_false _ _ _)) as (s2 & F2). fold cb in F2.
    destruct (kwargs_frag kw b1 (pushA TAny a) ext) as (s3 & F3).
    exists ([a] ++ s2 ++ [capA a] ++ s3 ++ [pushA TMap (pushA TAny a)] ++ [pushA TAny a]).
    eapply (F_seq p [Capture] _ _ (capA a) _ _ _ _ (S p)); [| |cbn [length]; lia|reflexivity].
    { apply (F_step _ _ _ (capA a)); [destruct a; reflexivity|apply astate_sub_refl]. }
    eapply (F_seq (S p) cb _ _ (capA a)); [exact F2| |reflexivity|reflexivity].
    eapply (F_seq _ [EndCapture] _ _ (pushA TAny a) _ _ _ _ b1); [| |unfold b1; cbn [length]; lia|reflexivity].
    { apply (F_step _ _ _ (pushA TAny a)); [destruct a; reflexivity|apply astate_sub_refl]. }
    eapply (F_seq b1 (compile_kwargs b1 kw) _ _ (pushA TMap (pushA TAny a)) ([ApplyFilter n] ++ [WriteTop]));
      [exact F3| |reflexivity|reflexivity].
    eapply (F_seq _ [ApplyFilter n] _ _ (pushA TAny a) [WriteTop]); [| |reflexivity|reflexivity].
    + apply (F_step _ _ _ (pushA TAny a)); [destruct a; reflexivity|apply astate_sub_refl].
    + apply (F_step _ _ _ a); [destruct a; reflexivity|apply astate_sub_refl].
  - (* include *) exists [a]. apply (F_step _ _ _ a); [destruct a; reflexivity|apply astate_sub_refl].
  - (* break *) cbn [brk_stmt] in Hwf. destruct (HC Hwf) as (start & lend & lo' & _ & Hl & _ & Hin).
    exists [a]. apply (F_goto _ _ _ lend a); [|exact Hin].
    destruct a as [st lo ca]. cbn in Hl. subst lo. reflexivity.
  - (* continue *) cbn [brk_stmt] in Hwf. destruct (HC Hwf) as (start & lend & lo' & -> & _ & Hin & _).
    exists [a]. apply (F_goto _ _ _ start a); [reflexivity|exact Hin].
Qed.

(* compile_always_checks: every statement list whose break/continue are placed as the parser
   requires compiles to a chunk with an accepted table *)
Theorem compile_always_checks : forall ss, brk_body ss = true ->
  exists tbl, check_table (compile ss) a_empty tbl = true.
Proof.
  intros ss Hwf. unfold compile.
  assert (HF : Forall SF ss) by (apply Forall_forall; intros s _; apply stmt_frag).
  destruct (seq_frag ss HF false Hwf 0 None a_empty [] (Ctx_false _ _ _)) as (sg & F).
  exists (map Some (sg ++ [a_empty])). exact (Frag_check_table _ _ F).
Qed.

(* wf_stmt (the hypothesis of C03's compile_correct) implies brk_stmt *)
Lemma wf_brk_list (l : list stmt) :
  Forall (fun s => forall okn lex brk, wf_stmt okn lex brk s = true -> brk_stmt brk s = true) l ->
  forall okn lex brk, forallb (wf_stmt okn lex brk) l = true -> forallb (brk_stmt brk) l = true.
Proof.
  induction 1 as [|s t Hs _ IH]; intros okn lex brk Hw; [reflexivity|]. cbn [forallb] in *.
  apply andb_prop in Hw as [H1 H2]. rewrite (Hs _ _ _ H1), (IH _ _ _ H2). reflexivity.
Qed.

Lemma wf_brk : forall s okn lex brk, wf_stmt okn lex brk s = true -> brk_stmt brk s = true.
Proof.
  induction s using stmt_ind'; intros okn lex brk Hwf; cbn [wf_stmt brk_stmt] in *; try reflexivity; try exact Hwf.
  - apply andb_prop in Hwf as [Hwf H2]. apply andb_prop in Hwf as [_ H1].
    rewrite (wf_brk_list _ H _ _ _ H1), (wf_brk_list _ H0 _ _ _ H2). reflexivity.
  - apply andb_prop in Hwf as [Hwf H2]. apply andb_prop in Hwf as [_ H1].
    rewrite (wf_brk_list _ H _ _ _ H1), (wf_brk_list _ H0 _ _ _ H2). reflexivity.
  - apply andb_prop in Hwf as [H1 _]. exact (wf_brk_list _ H _ _ _ H1).
  - apply andb_prop in Hwf as [_ H1]. exact (wf_brk_list _ H _ _ _ H1).
Qed.

Lemma wf_body_brk okn ss : wf_body okn ss = true -> brk_body ss = true.
Proof.
  unfold wf_body, brk_body. apply wf_brk_list. apply Forall_forall. intros s _. apply wf_brk.
Qed.

(* the same for the trees compile_correct (C03) is about *)
Theorem compile_always_checks_wf : forall okn ss, wf_body okn ss = true ->
  exists tbl, check_table (compile ss) a_empty tbl = true.
Proof. intros okn ss H. exact (compile_always_checks ss (wf_body_brk okn ss H)). Qed.

(* ---------- closed corollary: compiled code never underflows and ends balanced ---------- *)
From TeraV Require Import Proofs.StackCheckProofs.

Theorem compiled_sound :
  forall (W : Type) (wr : W -> str -> option W) (wd : world) (reg : registry),
  world_respects wd reg -> world_checked reg wd = true ->
  forall ss, brk_body ss = true -> refs_resolved reg wd (compile ss) = true ->
  forall fuel tpl ae depth s o,
  template_good reg wd tpl = true -> blocks_good wd reg s ->
  match run W wr wd fuel tpl ae depth (compile ss) 0 s o with
  | RFail e => e <> ErrPanic /\ e <> ErrOther
  | ROutOfFuel => True
  | RDone s' o' =>
      stack s' = stack s /\ map lf_end_ip (loops s') = map lf_end_ip (loops s) /\
      length (caps s') = length (caps s) /\ blocks s' = blocks s /\ cur_block s' = cur_block s
  end.
Proof.
  intros W wr wd reg Hreg Hwd ss Hwf Hrefs fuel tpl ae depth s o HT HB.
  destruct (compile_always_checks ss Hwf) as (tbl & Htbl).
  exact (table_sound W wr wd reg Hreg Hwd fuel tpl ae depth (compile ss) tbl s o HT Htbl Hrefs HB).
Qed.
