(* C12 — lemmas about Model/Report.v against Spec/LineCol.v and Spec/Utf8Chars.v. *)
From Coq Require Import List NArith Arith Bool Lia.
From TeraV Require Import Spec.Utf8Chars Spec.LineCol Model.Report.
Import ListNotations.

(* ================================================================== UTF-8 structure *)

Lemma lead_len_not_cont : forall b n, lead_len b = Some n -> is_cont b = false.
Proof.
  intros b n H. unfold lead_len in H. unfold is_cont.
  destruct (N.ltb b 128) eqn:E1.
  - apply N.ltb_lt in E1. apply andb_false_intro1. apply N.leb_gt. exact E1.
  - destruct (N.ltb b 194) eqn:E2; [discriminate|].
    apply N.ltb_ge in E2. apply andb_false_intro2. apply N.ltb_ge. lia.
Qed.

Lemma lead_len_ascii : forall b, (b < 128)%N -> lead_len b = Some 1.
Proof. intros b H. unfold lead_len. apply N.ltb_lt in H. rewrite H. reflexivity. Qed.

Lemma is_cont_ge : forall b, is_cont b = true -> (128 <= b)%N.
Proof. intros b H. unfold is_cont in H. apply andb_prop in H. destruct H as [H _]. apply N.leb_le in H. exact H. Qed.

Lemma is_cont_not_nl : forall b, is_cont b = true -> N.eqb b 10 = false.
Proof. intros b H. apply is_cont_ge in H. apply N.eqb_neq. lia. Qed.

Lemma lead_len_one : forall b, lead_len b = Some 1 -> (b < 128)%N.
Proof.
  intros b H. unfold lead_len in H.
  destruct (N.ltb b 128) eqn:E1; [apply N.ltb_lt; exact E1|].
  destruct (N.ltb b 194); [discriminate|].
  destruct (N.ltb b 224); [discriminate|].
  destruct (N.ltb b 240); [discriminate|].
  destruct (N.ltb b 245); discriminate.
Qed.

Lemma wf_char_inv : forall c, wf_char c ->
  exists b cs, c = b :: cs /\ lead_len b = Some (S (length cs)) /\ forallb is_cont cs = true /\
               is_cont b = false.
Proof.
  intros c H. destruct c as [|b cs]; [contradiction|].
  cbn [wf_char length] in H. destruct H as [H1 H2].
  exists b, cs. repeat split; try assumption. eapply lead_len_not_cont; eauto.
Qed.

Lemma wf_charb_ok : forall c, wf_charb c = true -> wf_char c.
Proof.
  intros c H. destruct c as [|b cs]; [discriminate|].
  cbn [wf_charb] in H. destruct (lead_len b) eqn:E; [|discriminate].
  apply andb_prop in H. destruct H as [H1 H2]. apply Nat.eqb_eq in H1. subst n.
  cbn [wf_char]. split; assumption.
Qed.

Lemma valid_head : forall l, valid_utf8 l ->
  match l with [] => True | b :: _ => is_cont b = false end.
Proof.
  intros l H. induction H as [|c rest Hc Hr IH]; [exact I|].
  apply wf_char_inv in Hc. destruct Hc as (b & cs & -> & _ & _ & Hb). exact Hb.
Qed.

Lemma valid_app : forall a b, valid_utf8 a -> valid_utf8 b -> valid_utf8 (a ++ b).
Proof.
  intros a b Ha Hb. induction Ha as [|c rest Hc Hr IH]; [exact Hb|].
  rewrite <- app_assoc. constructor; assumption.
Qed.

Lemma valid_single_ascii : forall b, (b < 128)%N -> valid_utf8 [b].
Proof.
  intros b H. change [b] with ([b] ++ []). constructor; [|constructor].
  cbn [wf_char length forallb]. split; [apply lead_len_ascii; exact H|reflexivity].
Qed.

(* ---- split_chars recovers the characters of a valid string *)

Lemma split_chars_conts : forall cs rest,
  forallb is_cont cs = true -> fst (split_chars rest) = [] ->
  split_chars (cs ++ rest) = (cs, snd (split_chars rest)).
Proof.
  induction cs as [|k cs IH]; intros rest Hc Hr.
  - cbn [app]. destruct (split_chars rest) as [a g]. cbn [fst snd] in *. subst a. reflexivity.
  - cbn [forallb] in Hc. apply andb_prop in Hc. destruct Hc as [Hk Hc].
    cbn [app split_chars]. rewrite (IH rest Hc Hr). rewrite Hk. reflexivity.
Qed.

Lemma valid_split_chars : forall l, valid_utf8 l -> fst (split_chars l) = [].
Proof.
  intros l H. destruct H as [|c rest Hc Hr]; [reflexivity|].
  apply wf_char_inv in Hc. destruct Hc as (b & cs & -> & _ & _ & Hb).
  cbn [app split_chars]. destruct (split_chars (cs ++ rest)) as [a g]. rewrite Hb. reflexivity.
Qed.

Lemma chars_char : forall c rest, wf_char c -> valid_utf8 rest ->
  chars (c ++ rest) = c :: chars rest.
Proof.
  intros c rest Hc Hr. apply wf_char_inv in Hc. destruct Hc as (b & cs & -> & _ & Hcs & Hb).
  unfold chars. cbn [app split_chars].
  rewrite (split_chars_conts cs rest Hcs (valid_split_chars rest Hr)). rewrite Hb. reflexivity.
Qed.

(* ================================================================== byte-level scan *)

Definition scan_byte (lc : nat * nat) (b : N) : nat * nat :=
  if N.eqb b 10 then (S (fst lc), 0)
  else if is_cont b then lc else (fst lc, S (snd lc)).
Definition scan_from (lc : nat * nat) (l : list N) : nat * nat := fold_left scan_byte l lc.

Lemma scan_from_app : forall a b lc, scan_from lc (a ++ b) = scan_from (scan_from lc a) b.
Proof. intros. unfold scan_from. apply fold_left_app. Qed.

Lemma after_last_nl_snoc : forall l b,
  after_last_nl (l ++ [b]) = if N.eqb b NL then [] else after_last_nl l ++ [b].
Proof.
  intros l b. unfold after_last_nl. rewrite rev_app_distr. cbn [rev app before_first_nl].
  destruct (N.eqb b NL); reflexivity.
Qed.

Lemma count_nl_app : forall a b, count_nl (a ++ b) = count_nl a + count_nl b.
Proof. intros. unfold count_nl. apply count_occ_app. Qed.

Lemma char_starts_app : forall a b, char_starts (a ++ b) = char_starts a + char_starts b.
Proof. intros. unfold char_starts. rewrite filter_app, app_length. reflexivity. Qed.

Lemma linecol_list_scan : forall l,
  (1 + count_nl l, char_starts (after_last_nl l)) = scan_from (1, 0) l.
Proof.
  induction l as [|b l IH] using rev_ind; [reflexivity|].
  rewrite scan_from_app, <- IH. cbn [scan_from fold_left]. unfold scan_byte. cbn [fst snd].
  rewrite after_last_nl_snoc, count_nl_app. unfold NL.
  destruct (N.eqb b 10) eqn:E.
  - apply N.eqb_eq in E. subst b. unfold count_nl at 2. cbn. f_equal. lia.
  - assert (count_nl [b] = 0) as ->.
    { unfold count_nl. cbn. destruct (N.eq_dec b NL) as [->|]; [discriminate|reflexivity]. }
    rewrite char_starts_app. unfold char_starts at 2. cbn [filter].
    destruct (is_cont b); cbn [negb length]; f_equal; lia.
Qed.

Lemma linecol_scan : forall src off, linecol src off = scan_from (1, 0) (firstn off src).
Proof. intros. unfold linecol. apply linecol_list_scan. Qed.

Lemma scan_conts : forall cs lc, forallb is_cont cs = true -> scan_from lc cs = lc.
Proof.
  induction cs as [|k cs IH]; intros lc H; [reflexivity|].
  cbn [forallb] in H. apply andb_prop in H. destruct H as [Hk Hc].
  cbn [scan_from fold_left]. unfold scan_byte at 2. rewrite (is_cont_not_nl k Hk), Hk.
  apply IH. exact Hc.
Qed.

Lemma advance_char_other : forall st c, c <> [10%N] ->
  advance_char st c = mkloc (l_line st) (S (l_col st)) (l_byte st + length c).
Proof.
  intros st c H. unfold advance_char.
  destruct c as [|b cs]; [reflexivity|].
  destruct b as [|p]; [reflexivity|].
  do 4 (destruct p as [p|p|]; try reflexivity).
  destruct cs; [exfalso; apply H; reflexivity | reflexivity].
Qed.

(* one character: the lexer's per-character update = the byte-level scan of its encoding *)
Lemma advance_char_scan : forall st c, wf_char c ->
  let st' := advance_char st c in
  (l_line st', l_col st') = scan_from (l_line st, l_col st) c /\
  l_byte st' = l_byte st + length c.
Proof.
  intros st c Hc. apply wf_char_inv in Hc. destruct Hc as (b & cs & -> & Hl & Hcs & Hb).
  cbn zeta. change (scan_from (l_line st, l_col st) (b :: cs))
    with (scan_from (scan_byte (l_line st, l_col st) b) cs).
  rewrite (scan_conts cs _ Hcs). unfold scan_byte. cbn [fst snd].
  destruct (N.eqb b 10) eqn:E.
  - apply N.eqb_eq in E. subst b. rewrite lead_len_ascii in Hl by lia.
    injection Hl as Hl. destruct cs; [|discriminate]. cbn. split; reflexivity.
  - rewrite Hb. apply N.eqb_neq in E.
    rewrite advance_char_other by (intros Heq; injection Heq as Heq _; contradiction).
    cbn. split; reflexivity.
Qed.

Lemma advance_over_scan : forall t, valid_utf8 t -> forall st,
  let st' := advance_over st t in
  (l_line st', l_col st') = scan_from (l_line st, l_col st) t /\
  l_byte st' = l_byte st + length t.
Proof.
  intros t H. induction H as [|c rest Hc Hr IH]; intros st.
  - cbn. split; [reflexivity|lia].
  - cbn zeta. unfold advance_over. rewrite (chars_char c rest Hc Hr). cbn [fold_left].
    destruct (advance_char_scan st c Hc) as [H1 H2].
    specialize (IH (advance_char st c)). cbn zeta in IH. unfold advance_over in IH.
    destruct IH as [I1 I2]. rewrite I1, I2, H1, H2, scan_from_app, app_length. split; [reflexivity|lia].
Qed.

(* ================================================================== span_wf, boundaries *)

Lemma pair_eqb_eq : forall a b, pair_eqb a b = true <-> a = b.
Proof.
  intros [a1 a2] [b1 b2]. unfold pair_eqb. cbn [fst snd]. rewrite andb_true_iff, !Nat.eqb_eq.
  split; [intros [-> ->]; reflexivity | intros H; injection H; auto].
Qed.

Lemma span_wfb_ok : forall src sp, span_wfb src sp = true <-> span_wf src sp.
Proof.
  intros src sp. unfold span_wfb, span_wf.
  rewrite !andb_true_iff, !pair_eqb_eq, !Nat.leb_le. tauto.
Qed.

Lemma boundary_zero : forall s, is_char_boundary s 0 = true.
Proof. reflexivity. Qed.

Lemma boundary_len : forall s, is_char_boundary s (length s) = true.
Proof.
  intros s. unfold is_char_boundary. destruct (Nat.eqb (length s) 0) eqn:E; [reflexivity|].
  assert (nth_error s (length s) = None) as -> by (apply nth_error_None; lia).
  apply Nat.eqb_refl.
Qed.

(* the boundary between two strings is a character boundary when the second is valid *)
Lemma boundary_app : forall a b, valid_utf8 b -> is_char_boundary (a ++ b) (length a) = true.
Proof.
  intros a b Hb. unfold is_char_boundary. destruct (Nat.eqb (length a) 0) eqn:E; [reflexivity|].
  rewrite nth_error_app2 by lia. rewrite Nat.sub_diag.
  apply valid_head in Hb. destruct b as [|d b'].
  - cbn [nth_error]. rewrite app_nil_r. apply Nat.eqb_refl.
  - cbn [nth_error]. rewrite Hb. reflexivity.
Qed.

(* ---- the lexer invariant *)

Lemma firstn_app_exact : forall (A : Type) (a b : list A), firstn (length a) (a ++ b) = a.
Proof.
  intros A a b. rewrite firstn_app, Nat.sub_diag, firstn_all. cbn [firstn]. apply app_nil_r.
Qed.

(* token_span_step: advancing over a piece `t` of the source keeps (line, col, byte) equal to the
   reference line/column of the byte offset *)
Lemma token_span_step : forall pre t post st,
  valid_utf8 t -> valid_utf8 post ->
  let src := pre ++ t ++ post in
  loc_ok src st -> l_byte st = length pre ->
  let st' := advance_over st t in
  loc_ok src st' /\ l_byte st' = length pre + length t.
Proof.
  intros pre t post st Ht Hp src (Hle & Hbd & Hlc) Hb. cbn zeta.
  destruct (advance_over_scan t Ht st) as [H1 H2]. cbn zeta in H1, H2.
  assert (Hlen : l_byte (advance_over st t) = length (pre ++ t)) by (rewrite app_length; lia).
  split; [|lia]. unfold loc_ok. subst src. rewrite Hlen.
  replace (pre ++ t ++ post) with ((pre ++ t) ++ post) by (symmetry; apply app_assoc).
  split; [rewrite !app_length; lia|]. split; [apply boundary_app; exact Hp|].
  rewrite H1, Hlc, Hb, !linecol_scan.
  rewrite (firstn_app_exact N pre (t ++ post)), (firstn_app_exact N (pre ++ t) post).
  symmetry. apply scan_from_app.
Qed.

Lemma loc_init_ok : forall src, loc_ok src loc_init.
Proof.
  intros src. unfold loc_ok, loc_init. cbn [l_byte l_line l_col].
  split; [lia|]. split; reflexivity.
Qed.

Lemma make_span_wf : forall src a b,
  loc_ok src a -> loc_ok src b -> l_byte a <= l_byte b -> span_wf src (make_span a b).
Proof.
  intros src a b (A1 & A2 & A3) (B1 & B2 & B3) Hle. unfold span_wf, make_span.
  cbn [rstart rend start_line start_col end_line end_col]. tauto.
Qed.

(* every span the tokenizer builds: make_span!(start_loc) after advance!(|t|) *)
Lemma token_span_wf : forall pre t post st,
  valid_utf8 t -> valid_utf8 post ->
  let src := pre ++ t ++ post in
  loc_ok src st -> l_byte st = length pre ->
  span_wf src (make_span st (advance_over st t)) /\
  rstart (make_span st (advance_over st t)) = length pre /\
  rend (make_span st (advance_over st t)) = length pre + length t.
Proof.
  intros pre t post st Ht Hp src Hst Hb.
  destruct (token_span_step pre t post st Ht Hp Hst Hb) as [H1 H2].
  split; [apply make_span_wf; [exact Hst|exact H1|lia]|].
  cbn [make_span rstart rend]. split; [exact Hb|exact H2].
Qed.

(* ---- split_at on a character boundary splits a valid string into two valid strings *)

Lemma boundary_app_shift : forall a l i, i <> 0 ->
  is_char_boundary (a ++ l) (length a + i) = is_char_boundary l i.
Proof.
  intros a l i Hi. unfold is_char_boundary.
  destruct (Nat.eqb (length a + i) 0) eqn:E1; [apply Nat.eqb_eq in E1; lia|].
  destruct (Nat.eqb i 0) eqn:E2; [apply Nat.eqb_eq in E2; lia|].
  rewrite nth_error_app2 by lia. replace (length a + i - length a) with i by lia.
  destruct (nth_error l i); [reflexivity|]. rewrite app_length.
  destruct (Nat.eqb i (length l)) eqn:E3.
  - apply Nat.eqb_eq in E3. apply Nat.eqb_eq. lia.
  - apply Nat.eqb_neq in E3. apply Nat.eqb_neq. lia.
Qed.

Lemma boundary_cons_shift : forall b l i, i <> 0 ->
  is_char_boundary (b :: l) (S i) = is_char_boundary l i.
Proof. intros b l i Hi. apply (boundary_app_shift [b] l i Hi). Qed.

Lemma boundary_in_conts : forall cs rest i, forallb is_cont cs = true -> i < length cs ->
  is_char_boundary (cs ++ rest) i = true -> i = 0.
Proof.
  induction cs as [|k cs IH]; intros rest i Hc Hi Hb; [cbn in Hi; lia|].
  destruct i as [|i]; [reflexivity|]. exfalso.
  cbn [forallb] in Hc. apply andb_prop in Hc. destruct Hc as [Hk Hc]. cbn [length] in Hi.
  destruct i as [|i].
  - unfold is_char_boundary in Hb. cbn [Nat.eqb app nth_error] in Hb.
    destruct cs as [|k2 cs]; [cbn in Hi; lia|]. cbn [app nth_error forallb] in *.
    apply andb_prop in Hc. destruct Hc as [Hk2 _]. rewrite Hk2 in Hb. discriminate.
  - cbn [app] in Hb. rewrite boundary_cons_shift in Hb by lia.
    apply IH in Hb; [lia|exact Hc|lia].
Qed.

Lemma split_valid : forall l, valid_utf8 l -> forall n, n <= length l ->
  is_char_boundary l n = true -> valid_utf8 (firstn n l) /\ valid_utf8 (skipn n l).
Proof.
  intros l H. induction H as [|c rest Hc Hr IH]; intros n Hn Hb.
  - destruct n; cbn; split; constructor.
  - destruct (Nat.lt_ge_cases n (length c)) as [Hlt|Hge].
    + (* inside the first character: only its start is a boundary *)
      assert (n = 0) as ->.
      { pose proof Hc as Hc'. apply wf_char_inv in Hc'.
        destruct Hc' as (b & cs & -> & Hl & Hcs & Hb0).
        destruct n as [|n]; [reflexivity|]. exfalso. cbn [length] in Hlt. cbn [app] in Hb.
        destruct n as [|n].
        - unfold is_char_boundary in Hb. cbn [Nat.eqb nth_error] in Hb.
          destruct cs as [|k cs]; [cbn in Hlt; lia|]. cbn [app nth_error forallb] in *.
          apply andb_prop in Hcs. destruct Hcs as [Hk _]. rewrite Hk in Hb. discriminate.
        - rewrite boundary_cons_shift in Hb by lia.
          apply boundary_in_conts in Hb; [lia|exact Hcs|lia]. }
      cbn [firstn skipn]. split; [constructor|constructor; assumption].
    + rewrite firstn_app, skipn_app. rewrite firstn_all2 by lia. rewrite (skipn_all2 c) by lia.
      cbn [app]. rewrite app_length in Hn.
      assert (Hb' : is_char_boundary rest (n - length c) = true).
      { destruct (Nat.eq_dec (n - length c) 0) as [->|Hne]; [reflexivity|].
        rewrite <- (boundary_app_shift c rest (n - length c) Hne).
        replace (length c + (n - length c)) with n by lia. exact Hb. }
      destruct (IH (n - length c) ltac:(lia) Hb') as [I1 I2].
      split; [constructor; assumption|exact I2].
Qed.

(* advance!(n) as a whole: no panic exactly on character boundaries; the pieces are valid *)
Lemma advance_ok : forall st rest n, valid_utf8 rest ->
  n <= length rest -> is_char_boundary rest n = true ->
  exists st', advance st rest n = Some (st', firstn n rest, skipn n rest) /\
    valid_utf8 (firstn n rest) /\ valid_utf8 (skipn n rest) /\
    st' = advance_over st (firstn n rest).
Proof.
  intros st rest n Hv Hn Hb. unfold advance, split_at. rewrite Hb.
  destruct (split_valid rest Hv n Hn Hb) as [H1 H2].
  eexists. split; [reflexivity|]. repeat split; assumption.
Qed.

Lemma advance_panics : forall st rest n, is_char_boundary rest n = false -> advance st rest n = None.
Proof. intros st rest n H. unfold advance, split_at. rewrite H. reflexivity. Qed.
