(* C12 — lemmas about Model/Report.v against Spec/LineCol.v and Spec/Utf8Chars.v. *)
From Coq Require Import List NArith Arith Bool Lia Sorted.
From TeraV Require Import Spec.Utf8Chars Spec.LineCol Model.Report.
Import ListNotations.

(* ================================================================== UTF-8 structure *)

Lemma lead_len_not_cont : forall b n, lead_len b = Some n -> is_cont b = false.
Proof.
  intros b n H. unfold lead_len in H. unfold is_cont.
  destruct (N.ltb b 128) eqn:E1.
  - apply N.ltb_lt in E1. apply andb_false_intro1. apply N.leb_gt. exact E1.
  - destruct (N.ltb b 194) eqn:E2; [discriminate|].
    apply N.ltb_ge in E2. apply andb_false_intro2. apply N.ltb_ge. lia.
Qed.

Lemma lead_len_ascii : forall b, (b < 128)%N -> lead_len b = Some 1.
Proof. intros b H. unfold lead_len. apply N.ltb_lt in H. rewrite H. reflexivity. Qed.

Lemma is_cont_ge : forall b, is_cont b = true -> (128 <= b)%N.
Proof. intros b H. unfold is_cont in H. apply andb_prop in H. destruct H as [H _]. apply N.leb_le in H. exact H. Qed.

Lemma is_cont_not_nl : forall b, is_cont b = true -> N.eqb b 10 = false.
Proof. intros b H. apply is_cont_ge in H. apply N.eqb_neq. lia. Qed.

Lemma lead_len_one : forall b, lead_len b = Some 1 -> (b < 128)%N.
Proof.
  intros b H. unfold lead_len in H.
  destruct (N.ltb b 128) eqn:E1; [apply N.ltb_lt; exact E1|].
  destruct (N.ltb b 194); [discriminate|].
  destruct (N.ltb b 224); [discriminate|].
  destruct (N.ltb b 240); [discriminate|].
  destruct (N.ltb b 245); discriminate.
Qed.

Lemma wf_char_inv : forall c, wf_char c ->
  exists b cs, c = b :: cs /\ lead_len b = Some (S (length cs)) /\ forallb is_cont cs = true /\
               is_cont b = false.
Proof.
  intros c H. destruct c as [|b cs]; [contradiction|].
  cbn [wf_char length] in H. destruct H as [H1 H2].
  exists b, cs. repeat split; try assumption. eapply lead_len_not_cont; eauto.
Qed.

Lemma wf_charb_ok : forall c, wf_charb c = true -> wf_char c.
Proof.
  intros c H. destruct c as [|b cs]; [discriminate|].
  cbn [wf_charb] in H. destruct (lead_len b) eqn:E; [|discriminate].
  apply andb_prop in H. destruct H as [H1 H2]. apply Nat.eqb_eq in H1. subst n.
  cbn [wf_char]. split; assumption.
Qed.

Lemma valid_head : forall l, valid_utf8 l ->
  match l with [] => True | b :: _ => is_cont b = false end.
Proof.
  intros l H. induction H as [|c rest Hc Hr IH]; [exact I|].
  apply wf_char_inv in Hc. destruct Hc as (b & cs & -> & _ & _ & Hb). exact Hb.
Qed.

Lemma valid_app : forall a b, valid_utf8 a -> valid_utf8 b -> valid_utf8 (a ++ b).
Proof.
  intros a b Ha Hb. induction Ha as [|c rest Hc Hr IH]; [exact Hb|].
  rewrite <- app_assoc. constructor; assumption.
Qed.

Lemma valid_single_ascii : forall b, (b < 128)%N -> valid_utf8 [b].
Proof.
  intros b H. change [b] with ([b] ++ []). constructor; [|constructor].
  cbn [wf_char length forallb]. split; [apply lead_len_ascii; exact H|reflexivity].
Qed.

(* ---- split_chars recovers the characters of a valid string *)

Lemma split_chars_conts : forall cs rest,
  forallb is_cont cs = true -> fst (split_chars rest) = [] ->
  split_chars (cs ++ rest) = (cs, snd (split_chars rest)).
Proof.
  induction cs as [|k cs IH]; intros rest Hc Hr.
  - cbn [app]. destruct (split_chars rest) as [a g]. cbn [fst snd] in *. subst a. reflexivity.
  - cbn [forallb] in Hc. apply andb_prop in Hc. destruct Hc as [Hk Hc].
    cbn [app split_chars]. rewrite (IH rest Hc Hr). rewrite Hk. reflexivity.
Qed.

Lemma valid_split_chars : forall l, valid_utf8 l -> fst (split_chars l) = [].
Proof.
  intros l H. destruct H as [|c rest Hc Hr]; [reflexivity|].
  apply wf_char_inv in Hc. destruct Hc as (b & cs & -> & _ & _ & Hb).
  cbn [app split_chars]. destruct (split_chars (cs ++ rest)) as [a g]. rewrite Hb. reflexivity.
Qed.

Lemma chars_char : forall c rest, wf_char c -> valid_utf8 rest ->
  chars (c ++ rest) = c :: chars rest.
Proof.
  intros c rest Hc Hr. apply wf_char_inv in Hc. destruct Hc as (b & cs & -> & _ & Hcs & Hb).
  unfold chars. cbn [app split_chars].
  rewrite (split_chars_conts cs rest Hcs (valid_split_chars rest Hr)). rewrite Hb. reflexivity.
Qed.

(* ================================================================== byte-level scan *)

Definition scan_from (lc : nat * nat) (l : list N) : nat * nat := fold_left scan_byte l lc.

Lemma scan_from_app : forall a b lc, scan_from lc (a ++ b) = scan_from (scan_from lc a) b.
Proof. intros. unfold scan_from. apply fold_left_app. Qed.

Lemma after_last_nl_snoc : forall l b,
  after_last_nl (l ++ [b]) = if N.eqb b NL then [] else after_last_nl l ++ [b].
Proof.
  intros l b. unfold after_last_nl. rewrite rev_app_distr. cbn [rev app before_first_nl].
  destruct (N.eqb b NL); reflexivity.
Qed.

Lemma count_nl_app : forall a b, count_nl (a ++ b) = count_nl a + count_nl b.
Proof. intros. unfold count_nl. apply count_occ_app. Qed.

Lemma char_starts_app : forall a b, char_starts (a ++ b) = char_starts a + char_starts b.
Proof. intros. unfold char_starts. rewrite filter_app, app_length. reflexivity. Qed.

Lemma linecol_list_scan : forall l,
  (1 + count_nl l, char_starts (after_last_nl l)) = scan_from (1, 0) l.
Proof.
  induction l as [|b l IH] using rev_ind; [reflexivity|].
  rewrite scan_from_app, <- IH. cbn [scan_from fold_left]. unfold scan_byte. cbn [fst snd].
  rewrite after_last_nl_snoc, count_nl_app. unfold NL.
  destruct (N.eqb b 10) eqn:E.
  - apply N.eqb_eq in E. subst b. unfold count_nl at 2. cbn. f_equal. lia.
  - assert (count_nl [b] = 0) as ->.
    { unfold count_nl. cbn. destruct (N.eq_dec b NL) as [->|]; [discriminate|reflexivity]. }
    rewrite char_starts_app. unfold char_starts at 2. cbn [filter].
    destruct (is_cont b); cbn [negb length]; f_equal; lia.
Qed.

Lemma linecol_scan : forall src off, linecol src off = scan_from (1, 0) (firstn off src).
Proof. intros. unfold linecol. apply linecol_list_scan. Qed.

Lemma scan_conts : forall cs lc, forallb is_cont cs = true -> scan_from lc cs = lc.
Proof.
  induction cs as [|k cs IH]; intros lc H; [reflexivity|].
  cbn [forallb] in H. apply andb_prop in H. destruct H as [Hk Hc].
  cbn [scan_from fold_left]. unfold scan_byte at 2. rewrite (is_cont_not_nl k Hk), Hk.
  apply IH. exact Hc.
Qed.

Lemma advance_char_other : forall st c, c <> [10%N] ->
  advance_char st c = mkloc (l_line st) (S (l_col st)) (l_byte st + length c).
Proof.
  intros st c H. unfold advance_char.
  destruct c as [|b cs]; [reflexivity|].
  destruct b as [|p]; [reflexivity|].
  do 4 (destruct p as [p|p|]; try reflexivity).
  destruct cs; [exfalso; apply H; reflexivity | reflexivity].
Qed.

(* one character: the lexer's per-character update = the byte-level scan of its encoding *)
Lemma advance_char_scan : forall st c, wf_char c ->
  let st' := advance_char st c in
  (l_line st', l_col st') = scan_from (l_line st, l_col st) c /\
  l_byte st' = l_byte st + length c.
Proof.
  intros st c Hc. apply wf_char_inv in Hc. destruct Hc as (b & cs & -> & Hl & Hcs & Hb).
  cbn zeta. change (scan_from (l_line st, l_col st) (b :: cs))
    with (scan_from (scan_byte (l_line st, l_col st) b) cs).
  rewrite (scan_conts cs _ Hcs). unfold scan_byte. cbn [fst snd].
  destruct (N.eqb b 10) eqn:E.
  - apply N.eqb_eq in E. subst b. rewrite lead_len_ascii in Hl by lia.
    injection Hl as Hl. destruct cs; [|discriminate]. cbn. split; reflexivity.
  - rewrite Hb. apply N.eqb_neq in E.
    rewrite advance_char_other by (intros Heq; injection Heq as Heq _; contradiction).
    cbn. split; reflexivity.
Qed.

Lemma advance_over_scan : forall t, valid_utf8 t -> forall st,
  let st' := advance_over st t in
  (l_line st', l_col st') = scan_from (l_line st, l_col st) t /\
  l_byte st' = l_byte st + length t.
Proof.
  intros t H. induction H as [|c rest Hc Hr IH]; intros st.
  - cbn. split; [reflexivity|lia].
  - cbn zeta. unfold advance_over. rewrite (chars_char c rest Hc Hr). cbn [fold_left].
    destruct (advance_char_scan st c Hc) as [H1 H2].
    specialize (IH (advance_char st c)). cbn zeta in IH. unfold advance_over in IH.
    destruct IH as [I1 I2]. rewrite I1, I2, H1, H2, scan_from_app, app_length. split; [reflexivity|lia].
Qed.

(* ================================================================== span_wf, boundaries *)

Lemma pair_eqb_eq : forall a b, pair_eqb a b = true <-> a = b.
Proof.
  intros [a1 a2] [b1 b2]. unfold pair_eqb. cbn [fst snd]. rewrite andb_true_iff, !Nat.eqb_eq.
  split; [intros [-> ->]; reflexivity | intros H; injection H; auto].
Qed.

Lemma span_wfb_ok : forall src sp, span_wfb src sp = true <-> span_wf src sp.
Proof.
  intros src sp. unfold span_wfb, span_wf.
  rewrite !andb_true_iff, !pair_eqb_eq, !Nat.leb_le. tauto.
Qed.

Lemma boundary_zero : forall s, is_char_boundary s 0 = true.
Proof. reflexivity. Qed.

Lemma boundary_len : forall s, is_char_boundary s (length s) = true.
Proof.
  intros s. unfold is_char_boundary. destruct (Nat.eqb (length s) 0) eqn:E; [reflexivity|].
  assert (nth_error s (length s) = None) as -> by (apply nth_error_None; lia).
  apply Nat.eqb_refl.
Qed.

(* the boundary between two strings is a character boundary when the second is valid *)
Lemma boundary_app : forall a b, valid_utf8 b -> is_char_boundary (a ++ b) (length a) = true.
Proof.
  intros a b Hb. unfold is_char_boundary. destruct (Nat.eqb (length a) 0) eqn:E; [reflexivity|].
  rewrite nth_error_app2 by lia. rewrite Nat.sub_diag.
  apply valid_head in Hb. destruct b as [|d b'].
  - cbn [nth_error]. rewrite app_nil_r. apply Nat.eqb_refl.
  - cbn [nth_error]. rewrite Hb. reflexivity.
Qed.

(* ---- the lexer invariant *)

Lemma firstn_app_exact : forall (A : Type) (a b : list A), firstn (length a) (a ++ b) = a.
Proof.
  intros A a b. rewrite firstn_app, Nat.sub_diag, firstn_all. cbn [firstn]. apply app_nil_r.
Qed.

(* token_span_step: advancing over a piece `t` of the source keeps (line, col, byte) equal to the
   reference line/column of the byte offset *)
Lemma token_span_step : forall pre t post st,
  valid_utf8 t -> valid_utf8 post ->
  let src := pre ++ t ++ post in
  loc_ok src st -> l_byte st = length pre ->
  let st' := advance_over st t in
  loc_ok src st' /\ l_byte st' = length pre + length t.
Proof.
  intros pre t post st Ht Hp src (Hle & Hbd & Hlc) Hb. cbn zeta.
  destruct (advance_over_scan t Ht st) as [H1 H2]. cbn zeta in H1, H2.
  assert (Hlen : l_byte (advance_over st t) = length (pre ++ t)) by (rewrite app_length; lia).
  split; [|lia]. unfold loc_ok. subst src. rewrite Hlen.
  replace (pre ++ t ++ post) with ((pre ++ t) ++ post) by (symmetry; apply app_assoc).
  split; [rewrite !app_length; lia|]. split; [apply boundary_app; exact Hp|].
  rewrite H1, Hlc, Hb, !linecol_scan.
  rewrite (firstn_app_exact N pre (t ++ post)), (firstn_app_exact N (pre ++ t) post).
  symmetry. apply scan_from_app.
Qed.

Lemma loc_init_ok : forall src, loc_ok src loc_init.
Proof.
  intros src. unfold loc_ok, loc_init. cbn [l_byte l_line l_col].
  split; [lia|]. split; reflexivity.
Qed.

Lemma make_span_wf : forall src a b,
  loc_ok src a -> loc_ok src b -> l_byte a <= l_byte b -> span_wf src (make_span a b).
Proof.
  intros src a b (A1 & A2 & A3) (B1 & B2 & B3) Hle. unfold span_wf, make_span.
  cbn [rstart rend start_line start_col end_line end_col]. tauto.
Qed.

(* every span the tokenizer builds: make_span!(start_loc) after advance!(|t|) *)
Lemma token_span_wf : forall pre t post st,
  valid_utf8 t -> valid_utf8 post ->
  let src := pre ++ t ++ post in
  loc_ok src st -> l_byte st = length pre ->
  span_wf src (make_span st (advance_over st t)) /\
  rstart (make_span st (advance_over st t)) = length pre /\
  rend (make_span st (advance_over st t)) = length pre + length t.
Proof.
  intros pre t post st Ht Hp src Hst Hb.
  destruct (token_span_step pre t post st Ht Hp Hst Hb) as [H1 H2].
  split; [apply make_span_wf; [exact Hst|exact H1|lia]|].
  cbn [make_span rstart rend]. split; [exact Hb|exact H2].
Qed.

(* ---- split_at on a character boundary splits a valid string into two valid strings *)

Lemma boundary_app_shift : forall a l i, i <> 0 ->
  is_char_boundary (a ++ l) (length a + i) = is_char_boundary l i.
Proof.
  intros a l i Hi. unfold is_char_boundary.
  destruct (Nat.eqb (length a + i) 0) eqn:E1; [apply Nat.eqb_eq in E1; lia|].
  destruct (Nat.eqb i 0) eqn:E2; [apply Nat.eqb_eq in E2; lia|].
  rewrite nth_error_app2 by lia. replace (length a + i - length a) with i by lia.
  destruct (nth_error l i); [reflexivity|]. rewrite app_length.
  destruct (Nat.eqb i (length l)) eqn:E3.
  - apply Nat.eqb_eq in E3. apply Nat.eqb_eq. lia.
  - apply Nat.eqb_neq in E3. apply Nat.eqb_neq. lia.
Qed.

Lemma boundary_cons_shift : forall b l i, i <> 0 ->
  is_char_boundary (b :: l) (S i) = is_char_boundary l i.
Proof. intros b l i Hi. apply (boundary_app_shift [b] l i Hi). Qed.

Lemma boundary_in_conts : forall cs rest i, forallb is_cont cs = true -> i < length cs ->
  is_char_boundary (cs ++ rest) i = true -> i = 0.
Proof.
  induction cs as [|k cs IH]; intros rest i Hc Hi Hb; [cbn in Hi; lia|].
  destruct i as [|i]; [reflexivity|]. exfalso.
  cbn [forallb] in Hc. apply andb_prop in Hc. destruct Hc as [Hk Hc]. cbn [length] in Hi.
  destruct i as [|i].
  - unfold is_char_boundary in Hb. cbn [Nat.eqb app nth_error] in Hb.
    destruct cs as [|k2 cs]; [cbn in Hi; lia|]. cbn [app nth_error forallb] in *.
    apply andb_prop in Hc. destruct Hc as [Hk2 _]. rewrite Hk2 in Hb. discriminate.
  - cbn [app] in Hb. rewrite boundary_cons_shift in Hb by lia.
    apply IH in Hb; [lia|exact Hc|lia].
Qed.

Lemma split_valid : forall l, valid_utf8 l -> forall n, n <= length l ->
  is_char_boundary l n = true -> valid_utf8 (firstn n l) /\ valid_utf8 (skipn n l).
Proof.
  intros l H. induction H as [|c rest Hc Hr IH]; intros n Hn Hb.
  - destruct n; cbn; split; constructor.
  - destruct (Nat.lt_ge_cases n (length c)) as [Hlt|Hge].
    + (* inside the first character: only its start is a boundary *)
      assert (n = 0) as ->.
      { pose proof Hc as Hc'. apply wf_char_inv in Hc'.
        destruct Hc' as (b & cs & -> & Hl & Hcs & Hb0).
        destruct n as [|n]; [reflexivity|]. exfalso. cbn [length] in Hlt. cbn [app] in Hb.
        destruct n as [|n].
        - unfold is_char_boundary in Hb. cbn [Nat.eqb nth_error] in Hb.
          destruct cs as [|k cs]; [cbn in Hlt; lia|]. cbn [app nth_error forallb] in *.
          apply andb_prop in Hcs. destruct Hcs as [Hk _]. rewrite Hk in Hb. discriminate.
        - rewrite boundary_cons_shift in Hb by lia.
          apply boundary_in_conts in Hb; [lia|exact Hcs|lia]. }
      cbn [firstn skipn]. split; [constructor|constructor; assumption].
    + rewrite firstn_app, skipn_app. rewrite firstn_all2 by lia. rewrite (skipn_all2 c) by lia.
      cbn [app]. rewrite app_length in Hn.
      assert (Hb' : is_char_boundary rest (n - length c) = true).
      { destruct (Nat.eq_dec (n - length c) 0) as [->|Hne]; [reflexivity|].
        rewrite <- (boundary_app_shift c rest (n - length c) Hne).
        replace (length c + (n - length c)) with n by lia. exact Hb. }
      destruct (IH (n - length c) ltac:(lia) Hb') as [I1 I2].
      split; [constructor; assumption|exact I2].
Qed.

(* advance!(n) as a whole: no panic exactly on character boundaries; the pieces are valid *)
Lemma advance_ok : forall st rest n, valid_utf8 rest ->
  n <= length rest -> is_char_boundary rest n = true ->
  exists st', advance st rest n = Some (st', firstn n rest, skipn n rest) /\
    valid_utf8 (firstn n rest) /\ valid_utf8 (skipn n rest) /\
    st' = advance_over st (firstn n rest).
Proof.
  intros st rest n Hv Hn Hb. unfold advance, split_at. rewrite Hb.
  destruct (split_valid rest Hv n Hn Hb) as [H1 H2].
  eexists. split; [reflexivity|]. repeat split; assumption.
Qed.

Lemma advance_panics : forall st rest n, is_char_boundary rest n = false -> advance st rest n = None.
Proof. intros st rest n H. unfold advance, split_at. rewrite H. reflexivity. Qed.

(* ================================================================== expand, eoi *)

(* Span::expand: the real code needs nothing; the result is well-formed exactly when the end of
   `other` is not before the start of `self` (always so in the parser: `other` is the span of a
   token consumed after the one `self` started from) *)
Lemma expand_preserves_wf : forall src a b,
  span_wf src a -> span_wf src b -> rstart a <= rend b -> span_wf src (expand a b).
Proof.
  intros src a b (A1 & A2 & A3 & A4 & A5 & A6) (B1 & B2 & B3 & B4 & B5 & B6) H.
  unfold span_wf, expand. cbn [rstart rend start_line start_col end_line end_col]. tauto.
Qed.

Lemma expand_range : forall a b, rstart (expand a b) = rstart a /\ rend (expand a b) = rend b.
Proof. intros. split; reflexivity. Qed.

(* without the order hypothesis the byte range is reversed: not well-formed *)
Lemma expand_needs_order : forall src a b, rend b < rstart a -> ~ span_wf src (expand a b).
Proof. intros src a b H (W & _). cbn [expand rstart rend] in W. lia. Qed.

Lemma eoi_span_wf : forall src cur, span_wf src cur -> span_wf src (eoi cur).
Proof.
  intros src cur (A1 & A2 & A3 & A4 & A5 & A6). unfold span_wf, eoi.
  cbn [rstart rend start_line start_col end_line end_col]. repeat split; try assumption. lia.
Qed.

Lemma eoi_is_end : forall cur, rstart (eoi cur) = rend cur /\ rend (eoi cur) = rend cur.
Proof. intros. split; reflexivity. Qed.

(* the source `{{ 1 +` and the span of its last token `+` (1:5-1:6, bytes 5..6) *)
Definition d12_src : list N := [123; 123; 32; 49; 32; 43]%N.
Definition d12_cur : span := mkspan 1 5 1 6 5 6.

Lemma d12_src_valid : valid_utf8 d12_src.
Proof.
  unfold d12_src.
  repeat (match goal with |- valid_utf8 (?b :: ?t) => change (b :: t) with ([b] ++ t); constructor;
     [cbn; split; reflexivity|] end).
  constructor.
Qed.

Lemma eoi_unpatched_refuted :
  exists src cur, valid_utf8 src /\ span_wf src cur /\ ~ span_wf src (eoi_unpatched cur).
Proof.
  exists d12_src, d12_cur. split; [exact d12_src_valid|]. split.
  - apply span_wfb_ok. vm_compute. reflexivity.
  - intros H. apply span_wfb_ok in H. vm_compute in H. discriminate.
Qed.

(* the unpatched function is wrong for every non-empty last token *)
Lemma eoi_unpatched_wrong : forall src cur,
  span_wf src cur -> rstart cur < rend cur -> valid_utf8 src ->
  linecol src (rstart cur) <> linecol src (rend cur) -> ~ span_wf src (eoi_unpatched cur).
Proof.
  intros src cur (A1 & A2 & A3 & A4 & A5 & A6) Hlt Hv Hne (B1 & B2 & B3 & B4 & B5 & B6).
  cbn [eoi_unpatched rstart rend start_line start_col end_line end_col] in *. congruence.
Qed.

(* ================================================================== span tables *)

Definition table_wf (src : list N) (tbl : span_table) : Prop :=
  Forall (Forall (span_wf src)) tbl.

Lemma get_span_wf : forall src tbl i sp,
  table_wf src tbl -> get_span tbl i = Some sp -> span_wf src sp.
Proof.
  intros src tbl i sp Hw H. unfold get_span in H.
  destruct (nth_error tbl i) as [spans|] eqn:E; [|discriminate].
  apply nth_error_In in E. unfold table_wf in Hw. rewrite Forall_forall in Hw.
  specialize (Hw spans E). destruct spans as [|s0 r]; [discriminate|].
  cbn in H. injection H as <-. inversion Hw. assumption.
Qed.

Lemma get_span_at_wf : forall src tbl i k sp,
  table_wf src tbl -> get_span_at tbl i k = Some sp -> span_wf src sp.
Proof.
  intros src tbl i k sp Hw H. unfold get_span_at in H.
  destruct (nth_error tbl i) as [spans|] eqn:E; [|discriminate].
  apply nth_error_In in E. unfold table_wf in Hw. rewrite Forall_forall in Hw.
  specialize (Hw spans E). rewrite Forall_forall in Hw. apply Hw. eapply nth_error_In; eauto.
Qed.

(* what expand_span returns: start of the first span of instruction s, end of the first span of
   instruction e; None (the `expect("to have a span for error")` panic) iff one of them is missing *)
Lemma expand_span_spec : forall tbl s e,
  expand_span tbl (s, e) =
    match get_span tbl s, get_span tbl e with
    | Some a, Some b => Some (expand a b)
    | _, _ => None
    end.
Proof.
  intros tbl s e. unfold expand_span. destruct (get_span tbl s) as [a|] eqn:Ea; [|reflexivity].
  destruct (Nat.eqb s e) eqn:E.
  - apply Nat.eqb_eq in E. subst e. rewrite Ea. destruct a; reflexivity.
  - reflexivity.
Qed.

Lemma expand_span_wf : forall src tbl s e a b,
  table_wf src tbl -> get_span tbl s = Some a -> get_span tbl e = Some b ->
  rstart a <= rend b ->
  exists sp, expand_span tbl (s, e) = Some sp /\ span_wf src sp /\
             rstart sp = rstart a /\ rend sp = rend b.
Proof.
  intros src tbl s e a b Hw Ha Hb Hle. rewrite expand_span_spec, Ha, Hb.
  eexists. split; [reflexivity|]. split; [|split; reflexivity].
  apply expand_preserves_wf; [eapply get_span_wf; eauto|eapply get_span_wf; eauto|exact Hle].
Qed.

(* the instruction order agrees with the source order at indices i, j *)
Definition ordered_at (tbl : span_table) (i j : nat) : Prop :=
  forall a b, get_span tbl i = Some a -> get_span tbl j = Some b -> i <= j ->
    rstart a <= rstart b /\ rend a <= rend b.

(* combine_spans + expand_span = the hull of the two operand spans, and well-formed, when the
   operands' first (resp. last) instructions appear in source order *)
Lemma combine_hull : forall src tbl A B a b,
  table_wf src tbl ->
  expand_span tbl A = Some a -> expand_span tbl B = Some b ->
  rstart a <= rend a -> rstart b <= rend b ->
  ordered_at tbl (fst A) (fst B) -> ordered_at tbl (fst B) (fst A) ->
  ordered_at tbl (snd A) (snd B) -> ordered_at tbl (snd B) (snd A) ->
  exists c, expand_span tbl (combine_spans A B) = Some c /\
            rstart c = Nat.min (rstart a) (rstart b) /\
            rend c = Nat.max (rend a) (rend b) /\
            span_wf src c.
Proof.
  intros src tbl [sA eA] [sB eB] a b Hw HA HB Wa Wb O1 O2 O3 O4. cbn [fst snd] in *.
  rewrite expand_span_spec in HA, HB.
  destruct (get_span tbl sA) as [a1|] eqn:E1; [|discriminate].
  destruct (get_span tbl eA) as [a2|] eqn:E2; [|discriminate].
  destruct (get_span tbl sB) as [b1|] eqn:E3; [|discriminate].
  destruct (get_span tbl eB) as [b2|] eqn:E4; [|discriminate].
  injection HA as <-. injection HB as <-. cbn [expand rstart rend] in *.
  unfold combine_spans. cbn [fst snd]. rewrite expand_span_spec.
  assert (Hs : exists s1, get_span tbl (Nat.min sA sB) = Some s1 /\
                          rstart s1 = Nat.min (rstart a1) (rstart b1)).
  { destruct (Nat.le_ge_cases sA sB) as [H|H].
    - rewrite Nat.min_l by exact H. exists a1. split; [exact E1|].
      destruct (O1 a1 b1 E1 E3 H) as [H1 _]. lia.
    - rewrite Nat.min_r by exact H. exists b1. split; [exact E3|].
      destruct (O2 b1 a1 E3 E1 H) as [H1 _]. lia. }
  assert (He : exists e1, get_span tbl (Nat.max eA eB) = Some e1 /\
                          rend e1 = Nat.max (rend a2) (rend b2)).
  { destruct (Nat.le_ge_cases eA eB) as [H|H].
    - rewrite Nat.max_r by exact H. exists b2. split; [exact E4|].
      destruct (O3 a2 b2 E2 E4 H) as [_ H1]. lia.
    - rewrite Nat.max_l by exact H. exists a2. split; [exact E2|].
      destruct (O4 b2 a2 E4 E2 H) as [_ H1]. lia. }
  destruct Hs as (s1 & Hs1 & Hs2). destruct He as (e1 & He1 & He2).
  rewrite Hs1, He1. eexists. split; [reflexivity|]. cbn [expand rstart rend].
  split; [exact Hs2|]. split; [exact He2|].
  apply expand_preserves_wf; [eapply get_span_wf; eauto|eapply get_span_wf; eauto|lia].
Qed.

Lemma combine_spans_hull : forall A B,
  fst (combine_spans A B) = Nat.min (fst A) (fst B) /\
  snd (combine_spans A B) = Nat.max (snd A) (snd B).
Proof. intros. split; reflexivity. Qed.

(* fused paths: the span list of LoadPath/WritePath is the concatenation, in path order, of the
   lists of the fused instructions; when each carried one span (the compiler always gives
   LoadName/LoadAttr one), element k of the path reports the span of the k-th instruction *)
Lemma collected_spans_wf : forall src group,
  Forall (Forall (span_wf src)) group -> Forall (span_wf src) (collected_spans group).
Proof.
  intros src group H. unfold collected_spans. induction H as [|g gs Hg Hgs IH]; [constructor|].
  cbn [concat]. apply Forall_app. split; assumption.
Qed.

Lemma collected_spans_nth : forall (l : list span) k,
  nth_error (collected_spans (map (fun s => [s]) l)) k = nth_error l k.
Proof.
  unfold collected_spans. induction l as [|s l IH]; intros k; [reflexivity|].
  cbn [map concat app]. destruct k; [reflexivity|]. cbn [nth_error]. apply IH.
Qed.

(* ================================================================== line starts *)

Lemma nl_positions_app : forall a b i,
  nl_positions i (a ++ b) = nl_positions i a ++ nl_positions (i + length a) b.
Proof.
  induction a as [|x a IH]; intros b i.
  - cbn [app length nl_positions]. rewrite Nat.add_0_r. reflexivity.
  - cbn [app length nl_positions]. rewrite IH.
    replace (S i + length a) with (i + S (length a)) by lia.
    destruct (N.eqb x 10); reflexivity.
Qed.

Lemma nl_positions_length : forall l i, length (nl_positions i l) = count_nl l.
Proof.
  induction l as [|x l IH]; intros i; [reflexivity|].
  cbn [nl_positions]. unfold count_nl. cbn [count_occ]. fold (count_nl l). unfold NL.
  destruct (N.eq_dec x 10) as [->|Hne].
  - cbn [N.eqb Pos.eqb length]. rewrite IH. reflexivity.
  - apply N.eqb_neq in Hne. rewrite Hne. apply IH.
Qed.

Lemma nl_positions_none : forall l i, ~ In NL l -> nl_positions i l = [].
Proof.
  induction l as [|x l IH]; intros i H; [reflexivity|].
  cbn [nl_positions]. destruct (N.eqb x 10) eqn:E.
  - apply N.eqb_eq in E. exfalso. apply H. left. exact E.
  - apply IH. intros Hin. apply H. right. exact Hin.
Qed.

Lemma count_nl_none : forall l, ~ In NL l -> count_nl l = 0.
Proof. intros l H. unfold count_nl. apply count_occ_not_In. exact H. Qed.

Lemma nl_positions_In : forall l i p,
  In p (nl_positions i l) <-> i <= p /\ nth_error l (p - i) = Some NL.
Proof.
  induction l as [|x l IH]; intros i p.
  - cbn [nl_positions In]. split; [contradiction|]. intros [_ H]. destruct (p - i); discriminate.
  - cbn [nl_positions]. destruct (N.eqb x 10) eqn:E.
    + apply N.eqb_eq in E. subst x. cbn [In]. rewrite IH. split.
      * intros [<-|[H1 H2]].
        -- split; [lia|]. rewrite Nat.sub_diag. reflexivity.
        -- split; [lia|]. replace (p - i) with (S (p - S i)) by lia. exact H2.
      * intros [H1 H2]. destruct (Nat.eq_dec i p) as [->|Hne]; [left; reflexivity|right].
        split; [lia|]. replace (p - i) with (S (p - S i)) in H2 by lia. exact H2.
    + rewrite IH. apply N.eqb_neq in E. split.
      * intros [H1 H2]. split; [lia|]. replace (p - i) with (S (p - S i)) by lia. exact H2.
      * intros [H1 H2]. destruct (Nat.eq_dec i p) as [->|Hne].
        -- rewrite Nat.sub_diag in H2. cbn in H2. injection H2 as H2. contradiction.
        -- split; [lia|]. replace (p - i) with (S (p - S i)) in H2 by lia. exact H2.
Qed.

Lemma nl_positions_sorted : forall l i,
  StronglySorted lt (nl_positions i l) /\ Forall (le i) (nl_positions i l).
Proof.
  induction l as [|x l IH]; intros i; [split; constructor|].
  cbn [nl_positions]. destruct (IH (S i)) as [S1 F1].
  assert (F2 : Forall (le i) (nl_positions (S i) l)).
  { eapply Forall_impl; [|exact F1]. intros; lia. }
  destruct (N.eqb x 10); [|split; assumption].
  split.
  - constructor; [exact S1|]. eapply Forall_impl; [|exact F1]. intros; lia.
  - constructor; [lia|exact F2].
Qed.

(* get_line_starts = offset 0 and the offsets following each '\n', in increasing order, one per
   line; "\r\n" is an ordinary '\n' preceded by a '\r' that stays on its line *)
Lemma line_starts_spec : forall src,
  length (get_line_starts src) = num_lines src /\
  (forall p, In p (get_line_starts src) <->
             p = 0 \/ exists i, p = S i /\ nth_error src i = Some NL) /\
  StronglySorted lt (get_line_starts src).
Proof.
  intros src. unfold get_line_starts, num_lines. split; [|split].
  - cbn [length]. rewrite map_length, nl_positions_length. reflexivity.
  - intros p. cbn [In]. rewrite in_map_iff. split.
    + intros [H|(i & <- & Hi)]; [left; auto|right]. apply nl_positions_In in Hi.
      exists i. rewrite Nat.sub_0_r in Hi. split; [reflexivity|apply Hi].
    + intros [->|(i & -> & Hi)]; [left; reflexivity|right]. exists i. split; [reflexivity|].
      apply nl_positions_In. rewrite Nat.sub_0_r. split; [lia|exact Hi].
  - destruct (nl_positions_sorted src 0) as [S1 _]. constructor.
    + clear -S1. induction S1 as [|a l Hs IH Hf]; [constructor|]. cbn [map]. constructor; [exact IH|].
      rewrite Forall_map. eapply Forall_impl; [|exact Hf]. intros; lia.
    + rewrite Forall_map. apply Forall_forall. intros; lia.
Qed.

(* ---- cutting a source into (lines before) ++ (this line) ++ (rest) *)

Lemma before_first_nl_split : forall l,
  exists R, l = before_first_nl l ++ R /\ (R = [] \/ exists R', R = NL :: R') /\
            ~ In NL (before_first_nl l).
Proof.
  induction l as [|x l IH].
  - exists []. cbn. split; [reflexivity|]. split; [left; reflexivity|tauto].
  - cbn [before_first_nl]. destruct (N.eqb x NL) eqn:E.
    + apply N.eqb_eq in E. subst x. exists (NL :: l). split; [reflexivity|].
      split; [right; eexists; reflexivity|cbn; tauto].
    + destruct IH as (R & H1 & H2 & H3). exists R. split; [cbn [app]; f_equal; exact H1|].
      split; [exact H2|]. apply N.eqb_neq in E. cbn [In]. intros [H|H]; [congruence|contradiction].
Qed.

Lemma after_last_nl_split : forall l,
  exists A, l = A ++ after_last_nl l /\ (A = [] \/ exists A', A = A' ++ [NL]) /\
            ~ In NL (after_last_nl l).
Proof.
  intros l. destruct (before_first_nl_split (rev l)) as (R & H1 & H2 & H3).
  exists (rev R). unfold after_last_nl. split; [|split].
  - rewrite <- rev_app_distr, <- H1. symmetry. apply rev_involutive.
  - destruct H2 as [->|(R' & ->)]; [left; reflexivity|right]. exists (rev R'). reflexivity.
  - intros H. apply H3. apply in_rev. exact H.
Qed.

Lemma not_in_app : forall (x : N) a b, ~ In x a -> ~ In x b -> ~ In x (a ++ b).
Proof. intros x a b Ha Hb H. apply in_app_or in H. tauto. Qed.

Lemma source_cut : forall src off, off <= length src ->
  exists A R,
    src = A ++ line_containing src off ++ R /\
    (A = [] \/ exists A', A = A' ++ [NL]) /\
    (R = [] \/ exists R', R = NL :: R') /\
    ~ In NL (line_containing src off) /\
    count_nl A = count_nl (firstn off src) /\
    length A = line_start src off.
Proof.
  intros src off Hoff.
  destruct (after_last_nl_split (firstn off src)) as (A & H1 & H2 & H3).
  destruct (before_first_nl_split (skipn off src)) as (R & H4 & H5 & H6).
  exists A, R. unfold line_containing. split; [|split; [exact H2|split; [exact H5|split; [|split]]]].
  - rewrite <- app_assoc. rewrite <- H4. rewrite app_assoc, <- H1. symmetry. apply firstn_skipn.
  - apply not_in_app; assumption.
  - rewrite H1 at 1. rewrite count_nl_app, (count_nl_none _ H3). lia.
  - unfold line_start. rewrite H1 at 1. rewrite app_length. lia.
Qed.

Lemma nl_positions_snoc_nl : forall A' i,
  nl_positions i (A' ++ [NL]) = nl_positions i A' ++ [i + length A'].
Proof. intros. rewrite nl_positions_app. reflexivity. Qed.

(* the entries of get_line_starts around line k+1 of  A ++ L ++ R  (k = '\n's of A) *)
Lemma line_starts_nth : forall A L R,
  (A = [] \/ exists A', A = A' ++ [NL]) -> ~ In NL L ->
  let ls := get_line_starts (A ++ L ++ R) in
  nth_error ls (count_nl A) = Some (length A) /\
  (R = [] -> length ls = S (count_nl A)) /\
  (forall R', R = NL :: R' ->
     nth_error ls (S (count_nl A)) = Some (length A + length L + 1) /\
     S (count_nl A) < length ls).
Proof.
  intros A L R HA HL. cbn zeta. unfold get_line_starts.
  rewrite !nl_positions_app, (nl_positions_none L _ HL). cbn [app plus].
  set (P := nl_positions 0 A). set (Q := nl_positions (length A + length L) R).
  assert (HP : length P = count_nl A) by apply nl_positions_length.
  split; [|split].
  - destruct HA as [->|(A' & ->)]; [reflexivity|].
    subst P. rewrite nl_positions_snoc_nl. rewrite count_nl_app.
    replace (count_nl [NL]) with 1 by reflexivity. rewrite Nat.add_1_r. cbn [nth_error].
    rewrite <- app_assoc, map_app. rewrite nth_error_app2; rewrite map_length, nl_positions_length; [|lia].
    rewrite Nat.sub_diag. cbn. rewrite app_length. cbn. f_equal. lia.
  - intros ->. subst Q. cbn [nl_positions]. rewrite app_nil_r. cbn [length].
    rewrite map_length. lia.
  - intros R' ->. subst Q. cbn [nl_positions]. replace (N.eqb NL 10) with true by reflexivity.
    cbn [nth_error length]. rewrite map_app, app_length, !map_length. cbn [map length].
    split; [|lia]. rewrite nth_error_app2; rewrite map_length; [|lia].
    rewrite HP, Nat.sub_diag. cbn. f_equal. lia.
Qed.

(* ---- character boundaries at line starts *)

Lemma conts_prefix : forall cs rest x c z,
  forallb is_cont cs = true -> (c < 128)%N -> cs ++ rest = x ++ c :: z ->
  exists x', x = cs ++ x' /\ rest = x' ++ c :: z.
Proof.
  induction cs as [|k cs IH]; intros rest x c z Hc Hlt H.
  - exists x. split; [reflexivity|exact H].
  - cbn [forallb] in Hc. apply andb_prop in Hc. destruct Hc as [Hk Hc].
    destruct x as [|x0 x].
    + cbn [app] in H. injection H as H0 _. subst k. apply is_cont_ge in Hk. lia.
    + cbn [app] in H. injection H as -> H. destruct (IH rest x c z Hc Hlt H) as (x' & -> & ->).
      exists x'. split; reflexivity.
Qed.

Lemma boundary_after_ascii : forall l, valid_utf8 l -> forall x c y,
  l = x ++ c :: y -> (c < 128)%N -> is_char_boundary l (S (length x)) = true.
Proof.
  intros l H. induction H as [|g rest Hg Hr IH]; intros x c y Heq Hlt.
  - destruct x; discriminate.
  - pose proof Hg as Hg'. apply wf_char_inv in Hg'. destruct Hg' as (b & cs & -> & Hl & Hcs & Hb).
    destruct x as [|x0 x].
    + cbn [app] in Heq. injection Heq as -> Heq.
      rewrite lead_len_ascii in Hl by exact Hlt. injection Hl as Hl.
      destruct cs; [|discriminate]. cbn [app] in Heq. subst rest. cbn [app length].
      apply valid_head in Hr. unfold is_char_boundary. cbn [Nat.eqb nth_error length].
      destruct y as [|d y]; [reflexivity|]. rewrite Hr. reflexivity.
    + cbn [app] in Heq. injection Heq as Hx0 Heq. subst x0.
      destruct (conts_prefix cs rest x c y Hcs Hlt Heq) as (x' & -> & Hrest).
      specialize (IH x' c y Hrest Hlt).
      replace (S (length (b :: cs ++ x'))) with (length (b :: cs) + S (length x'))
        by (cbn [length]; rewrite app_length; lia).
      rewrite boundary_app_shift by lia. exact IH.
Qed.

(* ---- trim_end_matches('\n') *)

Lemma drop_leading_nl_id : forall l,
  match l with [] => True | h :: _ => h <> NL end -> drop_leading_nl l = l.
Proof.
  intros [|h t] H; [reflexivity|]. cbn [drop_leading_nl]. apply N.eqb_neq in H. unfold NL in H.
  rewrite H. reflexivity.
Qed.

Lemma trim_end_nl_id : forall l, ~ In NL l -> trim_end_nl l = l.
Proof.
  intros l H. unfold trim_end_nl. rewrite drop_leading_nl_id; [apply rev_involutive|].
  destruct (rev l) as [|h t] eqn:E; [exact I|]. intros ->. apply H. apply in_rev. rewrite E. left. reflexivity.
Qed.

Lemma trim_end_nl_snoc : forall l, trim_end_nl (l ++ [NL]) = trim_end_nl l.
Proof. intros l. unfold trim_end_nl. rewrite rev_app_distr. reflexivity. Qed.

(* ---- slicing *)

Lemma skipn_app_exact : forall (A : Type) (a b : list A), skipn (length a) (a ++ b) = b.
Proof. intros A a b. rewrite skipn_app, Nat.sub_diag, skipn_all. reflexivity. Qed.

Lemma boundary_line_start : forall A X,
  valid_utf8 (A ++ X) -> (A = [] \/ exists A', A = A' ++ [NL]) ->
  is_char_boundary (A ++ X) (length A) = true.
Proof.
  intros A X Hv [->|(A' & ->)]; [reflexivity|].
  rewrite app_length. cbn [length]. rewrite Nat.add_1_r.
  apply (boundary_after_ascii _ Hv A' NL X); [rewrite <- app_assoc; reflexivity|reflexivity].
Qed.

Definition underline_width (sp : span) : nat :=
  if start_col sp <? end_col sp then end_col sp - start_col sp else 1.

(* SourceLocation::new on  A ++ L ++ R  when the span's line number is that of L *)
Lemma source_location_cut : forall A L R sp,
  valid_utf8 (A ++ L ++ R) ->
  (A = [] \/ exists A', A = A' ++ [NL]) -> (R = [] \/ exists R', R = NL :: R') ->
  ~ In NL L -> start_line sp = S (count_nl A) ->
  exists loc pad, source_location_new (A ++ L ++ R) sp = Some loc /\
    sl_line loc = L /\ sl_start_line loc = start_line sp /\ sl_start_col loc = start_col sp /\
    sl_underline loc = pad ++ repeat 94%N (underline_width sp) /\ length pad <= start_col sp.
Proof.
  intros A L R sp Hv HA HR HL Hline.
  destruct (line_starts_nth A L R HA HL) as (N1 & N2 & N3). cbn zeta in N1, N2, N3.
  pose proof (boundary_line_start A (L ++ R) Hv HA) as BA.
  unfold source_location_new. rewrite Hline.
  assert (Hfin : forall raw, trim_end_nl raw = L ->
    exists loc pad,
      Some (mksl (trim_end_nl raw)
         (map (fun c => match c with [9%N] => 9%N | _ => 32%N end)
              (firstn (start_col sp) (chars (trim_end_nl raw))) ++
          repeat 94%N (if start_col sp <? end_col sp then end_col sp - start_col sp else 1))
         (S (count_nl A)) (start_col sp)) = Some loc /\
      sl_line loc = L /\ sl_start_line loc = S (count_nl A) /\ sl_start_col loc = start_col sp /\
      sl_underline loc = pad ++ repeat 94%N (underline_width sp) /\ length pad <= start_col sp).
  { intros raw Hraw. eexists. eexists. split; [reflexivity|]. cbn [sl_line sl_start_line sl_start_col sl_underline].
    split; [exact Hraw|]. split; [reflexivity|]. split; [reflexivity|]. split; [reflexivity|].
    rewrite map_length. apply firstn_le_length. }
  destruct HR as [->|(R' & ->)].
  - rewrite (N2 eq_refl), Nat.eqb_refl, N1.
    unfold str_slice. rewrite BA, boundary_len, Nat.leb_refl.
    assert ((length A <=? length (A ++ L ++ [])) = true) as -> by (apply Nat.leb_le; rewrite app_length; lia).
    cbn [andb]. apply Hfin.
    rewrite skipn_app_exact. rewrite firstn_all2 by (rewrite !app_length; lia).
    rewrite app_nil_r. apply trim_end_nl_id. exact HL.
  - destruct (N3 R' eq_refl) as [N4 N5]. rewrite N1, N4.
    assert (Nat.eqb (S (count_nl A)) (length (get_line_starts (A ++ L ++ NL :: R'))) = false) as ->
      by (apply Nat.eqb_neq; lia).
    unfold str_slice. rewrite BA.
    assert (is_char_boundary (A ++ L ++ NL :: R') (length A + length L + 1) = true) as ->.
    { replace (length A + length L + 1) with (S (length (A ++ L))) by (rewrite app_length; lia).
      apply (boundary_after_ascii _ Hv (A ++ L) NL R'); [rewrite <- app_assoc; reflexivity|reflexivity]. }
    assert ((length A <=? length A + length L + 1) = true) as -> by (apply Nat.leb_le; lia).
    assert ((length A + length L + 1 <=? length (A ++ L ++ NL :: R')) = true) as ->
      by (apply Nat.leb_le; rewrite !app_length; cbn [length]; lia).
    cbn [andb]. apply Hfin.
    rewrite skipn_app_exact. replace (length A + length L + 1 - length A) with (length L + 1) by lia.
    rewrite firstn_app, firstn_all2 by lia.
    replace (length L + 1 - length L) with 1 by lia. cbn [firstn].
    rewrite trim_end_nl_snoc. apply trim_end_nl_id. exact HL.
Qed.

Lemma source_location_at : forall src sp off,
  valid_utf8 src -> off <= length src -> start_line sp = fst (linecol src off) ->
  exists loc pad, source_location_new src sp = Some loc /\
    sl_line loc = line_containing src off /\
    sl_start_line loc = start_line sp /\ sl_start_col loc = start_col sp /\
    sl_underline loc = pad ++ repeat 94%N (underline_width sp) /\ length pad <= start_col sp.
Proof.
  intros src sp off Hv Hoff Hline.
  destruct (source_cut src off Hoff) as (A & R & Hsrc & HA & HR & HL & Hc & _).
  remember (line_containing src off) as L eqn:HeqL. clear HeqL.
  unfold linecol in Hline. cbn [fst] in Hline. rewrite <- Hc in Hline.
  subst src. apply source_location_cut; assumption.
Qed.

(* any line number in 1..=num_lines is the line of some offset *)
Lemma line_has_offset : forall src m, m <= count_nl src ->
  exists off, off <= length src /\ count_nl (firstn off src) = m.
Proof.
  induction src as [|b t IH]; intros m Hm.
  - exists 0. cbn in *. split; [lia|]. unfold count_nl in Hm. cbn in Hm. lia.
  - destruct m as [|m]; [exists 0; split; [lia|reflexivity]|].
    unfold count_nl in Hm. cbn [count_occ] in Hm. fold (count_nl t) in Hm.
    destruct (N.eq_dec b NL) as [->|Hne].
    + destruct (IH m ltac:(lia)) as (off & H1 & H2). exists (S off). cbn [length firstn].
      split; [lia|]. unfold count_nl. cbn [count_occ]. fold (count_nl (firstn off t)).
      destruct (N.eq_dec NL NL); [lia|contradiction].
    + destruct (IH (S m) Hm) as (off & H1 & H2). exists (S off). cbn [length firstn].
      split; [lia|]. unfold count_nl. cbn [count_occ]. fold (count_nl (firstn off t)).
      destruct (N.eq_dec b NL); [contradiction|exact H2].
Qed.

(* totality needs only a line number that exists ... *)
Lemma source_location_defined : forall src sp,
  valid_utf8 src -> 1 <= start_line sp <= num_lines src ->
  exists loc, source_location_new src sp = Some loc.
Proof.
  intros src sp Hv [H1 H2]. unfold num_lines in H2.
  destruct (line_has_offset src (start_line sp - 1) ltac:(lia)) as (off & Ho & Hc).
  destruct (source_location_at src sp off Hv Ho) as (loc & pad & H & _).
  - unfold linecol. cbn [fst]. lia.
  - exists loc. exact H.
Qed.

(* ... and a line number that does not exist is a panic *)
Lemma source_location_panics : forall src sp,
  start_line sp = 0 \/ num_lines src < start_line sp -> source_location_new src sp = None.
Proof.
  intros src sp H. unfold source_location_new.
  destruct (start_line sp) as [|k] eqn:E; [reflexivity|]. destruct H as [H|H]; [discriminate|].
  destruct (line_starts_spec src) as (Hlen & _).
  destruct (Nat.eqb (S k) (length (get_line_starts src))) eqn:E2.
  - apply Nat.eqb_eq in E2. lia.
  - assert (nth_error (get_line_starts src) (S k) = None) as -> by (apply nth_error_None; lia).
    destruct (nth_error (get_line_starts src) k); reflexivity.
Qed.

(* a well-formed span satisfies the precondition *)
Lemma span_wf_line_range : forall src sp, span_wf src sp -> 1 <= start_line sp <= num_lines src.
Proof.
  intros src sp (_ & _ & _ & _ & H & _). unfold linecol in H. injection H as H _.
  unfold num_lines. rewrite H. split; [lia|].
  rewrite <- (firstn_skipn (rstart sp) src) at 2. rewrite count_nl_app. lia.
Qed.

(* ================================================================== generate_report *)

Definition infix (x l : list N) : Prop := exists a b, l = a ++ x ++ b.

Lemma infix_app_l : forall x a l, infix x l -> infix x (a ++ l).
Proof. intros x a l (p & q & ->). exists (a ++ p), q. rewrite <- app_assoc. reflexivity. Qed.

Lemma infix_app_r : forall x l b, infix x l -> infix x (l ++ b).
Proof. intros x l b (p & q & ->). exists p, (q ++ b). rewrite <- !app_assoc. reflexivity. Qed.

Lemma infix_here : forall x b, infix x (x ++ b).
Proof. intros x b. exists [], b. reflexivity. Qed.

Lemma location_block_quotes : forall l, infix (sl_line l) (location_block l).
Proof.
  intros l. unfold location_block. do 5 apply infix_app_l. apply infix_here.
Qed.

Definition note_ok (n : note) : Prop := valid_utf8 (n_source n) /\ span_wf (n_source n) (n_span n).

Lemma note_text_total : forall n, note_ok n ->
  exists t, note_text n = Some t /\
    infix (line_containing (n_source n) (rstart (n_span n))) t /\
    infix (n_label n) t /\ infix (n_filename n) t.
Proof.
  intros n [Hv Hw]. pose proof Hw as (W1 & W2 & _ & _ & W5 & _).
  destruct (source_location_at (n_source n) (n_span n) (rstart (n_span n)) Hv ltac:(lia))
    as (loc & pad & H1 & H2 & _).
  - rewrite <- W5. reflexivity.
  - unfold note_text. rewrite H1. eexists. split; [reflexivity|]. split; [|split].
    + rewrite <- H2. do 11 apply infix_app_l. apply location_block_quotes.
    + do 3 apply infix_app_l. apply infix_here.
    + do 5 apply infix_app_l. apply infix_here.
Qed.

Lemma notes_text_total : forall ns, Forall note_ok ns ->
  exists t, notes_text ns = Some t /\
    Forall (fun n => infix (line_containing (n_source n) (rstart (n_span n))) t /\
                     infix (n_label n) t /\ infix (n_filename n) t) ns.
Proof.
  induction 1 as [|n ns Hn Hns IH].
  - exists []. split; [reflexivity|constructor].
  - destruct (note_text_total n Hn) as (a & Ha & I1 & I2 & I3). destruct IH as (b & Hb & IHf).
    cbn [notes_text]. rewrite Ha, Hb. eexists. split; [reflexivity|]. constructor.
    + repeat split; apply infix_app_r; assumption.
    + eapply Forall_impl; [|exact IHf]. intros n' (J1 & J2 & J3).
      repeat split; apply infix_app_l; assumption.
Qed.

(* report_total: formatting an error whose span and notes are well-formed never panics, and the
   text quotes the line the span starts on, the message, the file name, and the same for each note *)
Lemma report_total : forall e,
  valid_utf8 (r_source e) -> span_wf (r_source e) (r_span e) -> Forall note_ok (r_notes e) ->
  exists txt, generate_report e = Some txt /\
    infix (line_containing (r_source e) (rstart (r_span e))) txt /\
    infix (r_message e) txt /\ infix (r_filename e) txt /\
    Forall (fun n => infix (line_containing (n_source n) (rstart (n_span n))) txt /\
                     infix (n_label n) txt /\ infix (n_filename n) txt) (r_notes e).
Proof.
  intros e Hv Hw Hn. pose proof Hw as (W1 & W2 & _ & _ & W5 & _).
  destruct (source_location_at (r_source e) (r_span e) (rstart (r_span e)) Hv ltac:(lia))
    as (loc & pad & H1 & H2 & _).
  - rewrite <- W5. reflexivity.
  - destruct (notes_text_total (r_notes e) Hn) as (t & Ht & Hf).
    unfold generate_report. rewrite H1, Ht. eexists. split; [reflexivity|].
    split; [|split; [|split]].
    + apply infix_app_r. rewrite <- H2. do 11 apply infix_app_l. apply location_block_quotes.
    + apply infix_app_r. apply infix_app_l. apply infix_here.
    + apply infix_app_r. do 5 apply infix_app_l. apply infix_here.
    + eapply Forall_impl; [|exact Hf]. intros n (J1 & J2 & J3).
      repeat split; apply infix_app_l; assumption.
Qed.

(* the converse shape: a span whose line number is not a line of the source makes Display panic *)
Lemma report_panics : forall e,
  start_line (r_span e) = 0 \/ num_lines (r_source e) < start_line (r_span e) ->
  generate_report e = None.
Proof.
  intros e H. unfold generate_report. rewrite (source_location_panics _ _ H). reflexivity.
Qed.

(* ================================================================== linecol facts *)

Lemma scan_byte_mono_line : forall lc b, fst lc <= fst (scan_byte lc b).
Proof. intros [l c] b. unfold scan_byte. cbn [fst snd]. destruct (N.eqb b 10); [cbn; lia|]. destruct (is_cont b); cbn; lia. Qed.

Lemma firstn_split : forall (A : Type) (l : list A) a b, a <= b ->
  firstn b l = firstn a l ++ firstn (b - a) (skipn a l).
Proof.
  induction l as [|x l IH]; intros a b H.
  - rewrite !firstn_nil, skipn_nil, firstn_nil. reflexivity.
  - destruct a as [|a]; [cbn [firstn skipn app]; rewrite Nat.sub_0_r; reflexivity|].
    destruct b as [|b]; [lia|]. cbn [firstn skipn app Nat.sub]. f_equal. apply IH. lia.
Qed.

(* linecol is monotone (lexicographically) in the offset *)
Lemma linecol_monotone : forall src a b, a <= b ->
  let (la, ca) := linecol src a in let (lb, cb) := linecol src b in
  la < lb \/ (la = lb /\ ca <= cb).
Proof.
  intros src a b Hab. unfold linecol.
  rewrite (firstn_split N src a b Hab).
  set (p := firstn a src). set (q := firstn (b - a) (skipn a src)).
  rewrite count_nl_app.
  destruct (Nat.eq_dec (count_nl q) 0) as [Hz|Hnz]; [right|left; lia].
  split; [lia|].
  (* no newline in q: the last line only grows *)
  assert (Hq : ~ In NL q). { intros Hin. unfold count_nl in Hz. apply (count_occ_In N.eq_dec) in Hin. lia. }
  assert (after_last_nl (p ++ q) = after_last_nl p ++ q) as ->.
  { clear -Hq. induction q as [|x q IH] using rev_ind; [rewrite !app_nil_r; reflexivity|].
    rewrite app_assoc, after_last_nl_snoc.
    assert (N.eqb x NL = false) as ->.
    { apply N.eqb_neq. intros ->. apply Hq. apply in_or_app. right. left. reflexivity. }
    rewrite IH; [rewrite app_assoc; reflexivity|].
    intros Hin. apply Hq. apply in_or_app. left. exact Hin. }
  rewrite char_starts_app. lia.
Qed.

(* the column counts whole characters: for a valid text between the last '\n' and the offset it
   is the number of characters `chars` yields *)
Lemma char_starts_chars : forall l, valid_utf8 l -> char_starts l = length (chars l).
Proof.
  intros l H. induction H as [|c rest Hc Hr IH]; [reflexivity|].
  rewrite (chars_char c rest Hc Hr), char_starts_app, IH. cbn [length].
  apply wf_char_inv in Hc. destruct Hc as (b & cs & -> & _ & Hcs & Hb).
  unfold char_starts. cbn [filter]. rewrite Hb. cbn [negb length].
  assert (filter (fun b0 => negb (is_cont b0)) cs = []) as ->; [|reflexivity].
  clear -Hcs. induction cs as [|k cs IH]; [reflexivity|]. cbn [forallb] in Hcs.
  apply andb_prop in Hcs. destruct Hcs as [Hk Hc]. cbn [filter]. rewrite Hk. cbn [negb]. apply IH. exact Hc.
Qed.

Lemma linecol_counts_chars : forall src off,
  valid_utf8 src -> off <= length src -> is_char_boundary src off = true ->
  snd (linecol src off) = length (chars (after_last_nl (firstn off src))) /\
  fst (linecol src off) = 1 + count_nl (firstn off src).
Proof.
  intros src off Hv Hoff Hb. split; [|reflexivity]. unfold linecol. cbn [snd].
  apply char_starts_chars.
  destruct (split_valid src Hv off Hoff Hb) as [Hpre _].
  destruct (after_last_nl_split (firstn off src)) as (A & H1 & H2 & _).
  (* the last line of a valid prefix starts on a boundary of that prefix *)
  rewrite H1 in Hpre.
  pose proof (boundary_line_start A _ Hpre H2) as HbA.
  destruct (split_valid _ Hpre (length A) ltac:(rewrite app_length; lia) HbA) as [_ Hs].
  rewrite skipn_app_exact in Hs. exact Hs.
Qed.

(* ================================================================== executable validity *)

Lemma split_chars_concat : forall l,
  fst (split_chars l) ++ concat (snd (split_chars l)) = l.
Proof.
  induction l as [|b t IH]; [reflexivity|].
  cbn [split_chars]. destruct (split_chars t) as [cs gs]. cbn [fst snd] in IH.
  destruct (is_cont b); cbn [fst snd concat app]; f_equal; exact IH.
Qed.

Lemma valid_concat : forall gs, Forall wf_char gs -> valid_utf8 (concat gs).
Proof. induction 1 as [|g gs Hg _ IH]; [constructor|]. cbn [concat]. constructor; assumption. Qed.

Lemma valid_utf8b_ok : forall l, valid_utf8b l = true -> valid_utf8 l.
Proof.
  intros l H. unfold valid_utf8b in H. pose proof (split_chars_concat l) as Hc.
  destruct (fst (split_chars l)); [|discriminate]. cbn [app] in Hc. rewrite <- Hc.
  apply valid_concat. apply Forall_forall. intros g Hg.
  rewrite forallb_forall in H. apply wf_charb_ok. apply H. exact Hg.
Qed.

(* ================================================================== report_target *)

(* the registry maps a name to the template stored under that name, with its own source *)
Definition registry_ok (templates : list N -> option (list N * list N))
    (source_of : list N -> list N) : Prop :=
  forall n r, templates n = Some r -> r = (n, source_of n).

Lemma report_target_is_chunk_owner : forall tpl_name chunk_name templates source_of r,
  registry_ok templates source_of ->
  report_target tpl_name (source_of tpl_name) chunk_name templates = Some r ->
  r = (chunk_name, source_of chunk_name).
Proof.
  intros tpl_name chunk_name templates source_of r Hreg H. unfold report_target in H.
  destruct (list_eq_dec N.eq_dec tpl_name chunk_name) as [->|Hne].
  - injection H as <-. reflexivity.
  - apply Hreg. exact H.
Qed.

(* ================================================================== one advance! of the lexer loop *)

(* the induction step of the whole tokenizer: with `rest` the unread part of the source and the
   location agreeing with the reference at its beginning, advance!(n) on a character boundary
   does not panic and re-establishes the same situation for the new rest *)
Lemma advance_keeps_invariant : forall pre rest st n,
  valid_utf8 rest -> loc_ok (pre ++ rest) st -> l_byte st = length pre ->
  n <= length rest -> is_char_boundary rest n = true ->
  exists st' skipped rest',
    advance st rest n = Some (st', skipped, rest') /\
    rest = skipped ++ rest' /\ length skipped = n /\ valid_utf8 rest' /\
    loc_ok (pre ++ rest) st' /\ l_byte st' = length (pre ++ skipped) /\
    span_wf (pre ++ rest) (make_span st st').
Proof.
  intros pre rest st n Hv Hst Hb Hn Hbd.
  destruct (advance_ok st rest n Hv Hn Hbd) as (st' & Ha & Hv1 & Hv2 & Hst').
  exists st', (firstn n rest), (skipn n rest).
  assert (Hsplit : rest = firstn n rest ++ skipn n rest) by (symmetry; apply firstn_skipn).
  assert (Hlen : length (firstn n rest) = n) by (apply firstn_length_le; exact Hn).
  split; [exact Ha|]. split; [exact Hsplit|]. split; [exact Hlen|]. split; [exact Hv2|].
  pose proof (token_span_step pre (firstn n rest) (skipn n rest) st Hv1 Hv2) as Hstep.
  cbn zeta in Hstep. rewrite <- Hsplit in Hstep. destruct (Hstep Hst Hb) as [H1 H2].
  subst st'. split; [exact H1|]. split; [rewrite app_length; exact H2|].
  apply make_span_wf; [exact Hst|exact H1|lia].
Qed.

(* ================================================================== the fast checker *)

Lemma scan_table_nth : forall l lc off, off <= length l ->
  nth_error (scan_table lc l) off = Some (scan_from lc (firstn off l)).
Proof.
  induction l as [|b t IH]; intros lc off H.
  - cbn in H. assert (off = 0) as -> by lia. reflexivity.
  - destruct off as [|off]; [reflexivity|]. cbn [scan_table nth_error firstn length] in *.
    rewrite IH by lia. reflexivity.
Qed.

Lemma span_wfb_tbl_ok : forall src sp,
  span_wfb_tbl src (scan_table (1, 0) src) sp = span_wfb src sp.
Proof.
  intros src sp. unfold span_wfb_tbl, span_wfb.
  destruct (rstart sp <=? rend sp) eqn:E1; [|reflexivity].
  destruct (rend sp <=? length src) eqn:E2; [|reflexivity].
  apply Nat.leb_le in E1. apply Nat.leb_le in E2.
  rewrite !scan_table_nth by lia. rewrite <- !linecol_scan.
  destruct (is_char_boundary src (rstart sp)); [|reflexivity].
  destruct (is_char_boundary src (rend sp)); [|reflexivity].
  cbn [andb]. reflexivity.
Qed.

Lemma spans_wfb_ok : forall src sps, spans_wfb src sps = forallb (span_wfb src) sps.
Proof.
  intros src sps. unfold spans_wfb. induction sps as [|s t IH]; [reflexivity|].
  cbn [forallb]. rewrite span_wfb_tbl_ok, IH. reflexivity.
Qed.

(* ================================================================== what one byte does to line/column *)

Lemma firstn_snoc_exact : forall (A : Type) (pre : list A) b post,
  firstn (S (length pre)) (pre ++ b :: post) = pre ++ [b].
Proof.
  intros A pre b post. replace (pre ++ b :: post) with ((pre ++ [b]) ++ post)
    by (rewrite <- app_assoc; reflexivity).
  replace (S (length pre)) with (length (pre ++ [b])) by (rewrite app_length; cbn; lia).
  apply firstn_app_exact.
Qed.

(* the reference line/column moves over a byte exactly as scan_byte says: '\n' (and only '\n')
   starts a new line at column 0; a continuation byte changes nothing; every other byte — '\r',
   VT, FF, the lead bytes of U+0085 and U+2028 included — is one more column on the same line *)
Lemma linecol_step : forall pre b post,
  linecol (pre ++ b :: post) (S (length pre)) =
  scan_byte (linecol (pre ++ b :: post) (length pre)) b.
Proof.
  intros pre b post. rewrite !linecol_scan, firstn_snoc_exact, firstn_app_exact.
  rewrite scan_from_app. reflexivity.
Qed.

Lemma linecol_step_cases : forall pre b post,
  let lc := linecol (pre ++ b :: post) (length pre) in
  let lc' := linecol (pre ++ b :: post) (S (length pre)) in
  (b = NL -> lc' = (S (fst lc), 0)) /\
  (b <> NL -> is_cont b = true -> lc' = lc) /\
  (b <> NL -> is_cont b = false -> lc' = (fst lc, S (snd lc))).
Proof.
  intros pre b post. cbn zeta. rewrite linecol_step. unfold scan_byte, NL.
  split; [intros ->; reflexivity|]. split; intros Hne Hc.
  - apply N.eqb_neq in Hne. rewrite Hne, Hc. reflexivity.
  - apply N.eqb_neq in Hne. rewrite Hne, Hc. reflexivity.
Qed.

(* ================================================================== all lexer runs *)

(* the states the tokenizer can be in: it starts at loc_init with the whole source unread and
   only ever moves by advance! (any number of bytes; off a character boundary it panics).  This
   over-approximates basic_tokenize: every choice of lengths is allowed. *)
Inductive lex_reach (src : list N) : loc -> list N -> Prop :=
| lr_init : lex_reach src loc_init src
| lr_step : forall st rest n st' skipped rest',
    lex_reach src st rest -> advance st rest n = Some (st', skipped, rest') ->
    lex_reach src st' rest'.

Lemma boundary_le : forall s n, is_char_boundary s n = true -> n <= length s.
Proof.
  intros s n H. unfold is_char_boundary in H.
  destruct (Nat.eqb n 0) eqn:E; [apply Nat.eqb_eq in E; lia|].
  destruct (nth_error s n) eqn:E2.
  - assert (n < length s) by (apply nth_error_Some; congruence). lia.
  - apply Nat.eqb_eq in H. lia.
Qed.

Lemma lex_reach_inv : forall src, valid_utf8 src -> forall st rest, lex_reach src st rest ->
  exists pre, src = pre ++ rest /\ l_byte st = length pre /\ valid_utf8 rest /\ loc_ok src st.
Proof.
  intros src Hv st rest H. induction H as [|st rest n st' skipped rest' Hr IH Ha].
  - exists []. split; [reflexivity|]. split; [reflexivity|]. split; [exact Hv|apply loc_init_ok].
  - destruct IH as (pre & Hsrc & Hb & Hvr & Hok).
    assert (Hbd : is_char_boundary rest n = true).
    { unfold advance, split_at in Ha. destruct (is_char_boundary rest n); [reflexivity|discriminate]. }
    pose proof (boundary_le rest n Hbd) as Hn. rewrite Hsrc in Hok.
    destruct (advance_keeps_invariant pre rest st n Hvr Hok Hb Hn Hbd)
      as (st2 & sk2 & r2 & Ha2 & Hsplit & Hlen & Hv2 & Hok2 & Hb2 & _).
    rewrite Ha in Ha2. injection Ha2 as <- <- <-.
    exists (pre ++ skipped). rewrite Hsrc. split; [rewrite Hsplit at 1; apply app_assoc|].
    split; [exact Hb2|]. split; [exact Hv2|exact Hok2].
Qed.

(* every span make_span! can build between two states of a run is well-formed *)
Lemma lexer_span_wf : forall src a ra b rb, valid_utf8 src ->
  lex_reach src a ra -> lex_reach src b rb -> l_byte a <= l_byte b ->
  span_wf src (make_span a b).
Proof.
  intros src a ra b rb Hv Ha Hb Hle.
  destruct (lex_reach_inv src Hv a ra Ha) as (_ & _ & _ & _ & Hoka).
  destruct (lex_reach_inv src Hv b rb Hb) as (_ & _ & _ & _ & Hokb).
  apply make_span_wf; assumption.
Qed.

(* spans the parser derives from token spans: Span::expand towards a later token, eoi() *)
Inductive parser_span (src : list N) : span -> Prop :=
| ps_token : forall a ra b rb, lex_reach src a ra -> lex_reach src b rb -> l_byte a <= l_byte b ->
    parser_span src (make_span a b)
| ps_expand : forall x y, parser_span src x -> parser_span src y -> rstart x <= rend y ->
    parser_span src (expand x y)
| ps_eoi : forall x, parser_span src x -> parser_span src (eoi x).

Lemma parser_span_wf : forall src sp, valid_utf8 src -> parser_span src sp -> span_wf src sp.
Proof.
  intros src sp Hv H. induction H as [a ra b rb Ha Hb Hle|x y Hx IHx Hy IHy Hle|x Hx IHx].
  - eapply lexer_span_wf; eauto.
  - apply expand_preserves_wf; assumption.
  - apply eoi_span_wf; assumption.
Qed.

(* the agreement between the lexer's line numbers and the printer's line table: both count '\n'
   bytes and nothing else *)
Lemma parser_span_line_in_table : forall src sp, valid_utf8 src -> parser_span src sp ->
  1 <= start_line sp <= length (get_line_starts src) /\
  1 <= end_line sp <= length (get_line_starts src).
Proof.
  intros src sp Hv H. pose proof (parser_span_wf src sp Hv H) as Hw.
  destruct (line_starts_spec src) as (Hlen & _). rewrite Hlen.
  split; [apply span_wf_line_range; exact Hw|].
  destruct Hw as (W1 & W2 & _ & _ & _ & W6). unfold linecol in W6. injection W6 as W6 _.
  unfold num_lines. rewrite W6. split; [lia|].
  rewrite <- (firstn_skipn (rend sp) src) at 2. rewrite count_nl_app. lia.
Qed.

(* end to end, with the lexer model as the only premise: an error reported at any such span (in
   any template text, with notes at such spans of their own sources) displays, and quotes the line *)
Definition note_from_lexer (n : note) : Prop :=
  valid_utf8 (n_source n) /\ parser_span (n_source n) (n_span n).

Lemma lexer_report_total : forall e,
  valid_utf8 (r_source e) -> parser_span (r_source e) (r_span e) ->
  Forall note_from_lexer (r_notes e) ->
  exists txt, generate_report e = Some txt /\
    infix (line_containing (r_source e) (rstart (r_span e))) txt /\
    Forall (fun n => infix (line_containing (n_source n) (rstart (n_span n))) txt /\
                     infix (n_label n) txt /\ infix (n_filename n) txt) (r_notes e).
Proof.
  intros e Hv Hs Hn.
  destruct (report_total e Hv (parser_span_wf _ _ Hv Hs)) as (txt & H1 & H2 & _ & _ & H5).
  - eapply Forall_impl; [|exact Hn]. intros n [Hvn Hsn]. split; [exact Hvn|].
    apply parser_span_wf; assumption.
  - exists txt. repeat split; assumption.
Qed.
