(* C04 — from source template sets and chains to the theorems of Props/C04.v. *)
From Coq Require Import List NArith Bool Arith Lia Permutation.
From TeraV Require Import Model.Lineage Spec.Inherit Proofs.LineageRender Proofs.LineageProofs.
Import ListNotations.

Definition tnames (ts : list template) : list name := map t_name ts.

(* ------------------------------------------------------------------ compile *)

Definition compiled (t : template) : ctemplate :=
  {| c_name := t_name t; c_extends := t_extends t; c_chunk := code_of (t_body t);
     c_blocks := map (fun '(b, body) => (b, code_of body)) (blocks_of (t_body t));
     c_top := top_of (t_body t) |}.

Lemma compile_template_ok : forall t c, compile_template t = Ok c ->
  c = compiled t /\ NoDup (map fst (blocks_of (t_body t))).
Proof.
  unfold compile_template. intros t c H.
  destruct (nodupb (map fst (blocks_of (t_body t)))) eqn:E; [|discriminate].
  inversion H; subst. split; auto. now apply nodupb_NoDup.
Qed.

Lemma compile_all_ok : forall ts reg, compile_all ts = Ok reg ->
  reg = map compiled ts /\ forall t, In t ts -> NoDup (map fst (blocks_of (t_body t))).
Proof.
  induction ts as [|t ts IH]; cbn; intros reg H.
  - inversion H; subst. split; auto. intros t [].
  - destruct (compile_template t) as [c|] eqn:Ec; [|discriminate]. cbn in H.
    destruct (compile_all ts) as [cs|] eqn:Ea; [|discriminate]. cbn in H. inversion H; subst.
    destruct (compile_template_ok _ _ Ec) as [-> Hnd]. destruct (IH cs eq_refl) as [-> Hall].
    split; auto. intros t' [->|Hin]; auto.
Qed.

Lemma compile_all_complete : forall ts,
  (forall t, In t ts -> NoDup (map fst (blocks_of (t_body t)))) ->
  compile_all ts = Ok (map compiled ts).
Proof.
  induction ts as [|t ts IH]; cbn; intros H; auto.
  unfold compile_template.
  assert (E : nodupb (map fst (blocks_of (t_body t))) = true).
  { assert (Hn := H t (or_introl eq_refl)).
    clear -Hn. induction Hn; cbn; auto. rewrite IHHn, andb_true_r.
    apply negb_true_iff. destruct (existsb (N.eqb x) l) eqn:E; auto.
    apply existsb_exists in E. destruct E as (y & Hy & Hxy). apply N.eqb_eq in Hxy. subst. contradiction. }
  rewrite E. cbn. rewrite IH by auto. reflexivity.
Qed.

Lemma names_compiled : forall ts, names (map compiled ts) = tnames ts.
Proof. intros. unfold names, tnames. rewrite map_map. reflexivity. Qed.

Lemma fst_map_code : forall (bl : list (name * list node)),
  map fst (map (fun '(b, body) => (b, code_of body)) bl) = map fst bl.
Proof. induction bl as [|[b x] bl IH]; cbn; auto. now rewrite IH. Qed.

Lemma reg_wf_compiled : forall ts reg,
  NoDup (tnames ts) -> compile_all ts = Ok reg -> reg_wf reg.
Proof.
  intros ts reg Hnd H. destruct (compile_all_ok _ _ H) as [-> Hall]. split.
  - now rewrite names_compiled.
  - intros c Hin. apply in_map_iff in Hin. destruct Hin as (t & <- & Hin). cbn.
    rewrite fst_map_code. auto.
Qed.

Lemma get_compiled : forall ts t, NoDup (tnames ts) -> In t ts ->
  get_tpl (map compiled ts) (t_name t) = Some (compiled t).
Proof.
  intros. change (t_name t) with (c_name (compiled t)). apply get_tpl_in.
  - now rewrite names_compiled.
  - now apply in_map.
Qed.

(* ------------------------------------------------------------------ find_def vs the compiler's block list *)

Lemma find_def_node_block : forall b b' body,
  find_def_node b (BlockDef b' body) = if N.eqb b b' then Some body else find_def b body.
Proof.
  intros. simpl. destruct (N.eqb b b'); [reflexivity|].
  induction body as [|x l IH]; [reflexivity|].
  simpl. destruct (find_def_node b x); [reflexivity|]. exact IH.
Qed.
Lemma find_def_node_filter : forall b k body,
  find_def_node b (FilterSection k body) = find_def b body.
Proof.
  intros. simpl.
  induction body as [|x l IH]; [reflexivity|].
  simpl. destruct (find_def_node b x); [reflexivity|]. exact IH.
Qed.

Lemma NoDup_app_l : forall A (a b : list A), NoDup (a ++ b) -> NoDup a.
Proof. induction a; cbn; intros b H; [constructor|]. inversion H; subst. constructor; eauto. rewrite in_app_iff in H2. tauto. Qed.
Lemma NoDup_app_r : forall A (a b : list A), NoDup (a ++ b) -> NoDup b.
Proof. induction a; cbn; intros b H; auto. inversion H; subst. eauto. Qed.
Lemma NoDup_app_disj : forall A (a b : list A) x, NoDup (a ++ b) -> In x a -> In x b -> False.
Proof.
  induction a; cbn; intros b x H Ha Hb; [contradiction|]. inversion H; subst.
  destruct Ha as [->|Ha]; eauto. apply H2. apply in_or_app. now right.
Qed.

Lemma blocks_find_node : forall b n,
  NoDup (map fst (blocks_node n)) -> alookup b (blocks_node n) = find_def_node b n.
Proof.
  intros b. induction n as [i| |b' body IH|k body IH] using node_ind'; intros Hnd; auto.
  - cbn [blocks_node] in *. rewrite find_def_node_block, alookup_app. rewrite map_app in Hnd.
    assert (Hl : alookup b (flat_map blocks_node body) = find_def b body).
    { apply NoDup_app_l in Hnd. clear -IH Hnd. induction IH as [|x l Hx _ IHl]; cbn in *; auto.
      rewrite map_app in Hnd. rewrite alookup_app, Hx by (eapply NoDup_app_l; eauto).
      rewrite IHl by (eapply NoDup_app_r; eauto). reflexivity. }
    destruct (N.eqb b b') eqn:E.
    + apply N.eqb_eq in E. subst b'.
      destruct (alookup b (flat_map blocks_node body)) eqn:E2.
      * exfalso. apply alookup_in in E2. apply (in_map fst) in E2.
        eapply NoDup_app_disj; eauto. cbn. now left.
      * cbn. now rewrite N.eqb_refl.
    + rewrite Hl. destruct (find_def b body); auto. cbn. now rewrite E.
  - cbn [blocks_node] in *. rewrite find_def_node_filter.
    clear -IH Hnd. induction IH as [|x l Hx _ IHl]; cbn in *; auto.
    rewrite map_app in Hnd. rewrite alookup_app, Hx by (eapply NoDup_app_l; eauto).
    rewrite IHl by (eapply NoDup_app_r; eauto). reflexivity.
Qed.

Lemma blocks_find : forall b ns,
  NoDup (map fst (blocks_of ns)) -> alookup b (blocks_of ns) = find_def b ns.
Proof.
  unfold blocks_of. induction ns as [|n ns IH]; cbn; intros Hnd; auto.
  rewrite map_app in Hnd. rewrite alookup_app, blocks_find_node by (eapply NoDup_app_l; eauto).
  rewrite IH by (eapply NoDup_app_r; eauto). reflexivity.
Qed.

Lemma compiled_lookup : forall t b, NoDup (map fst (blocks_of (t_body t))) ->
  alookup b (c_blocks (compiled t)) = option_map code_of (defines t b).
Proof.
  intros. cbn. rewrite alookup_map, blocks_find by auto. reflexivity.
Qed.

Lemma top_of_spec_top : forall ns, top_of ns = spec_top ns.
Proof. reflexivity. Qed.

(* ------------------------------------------------------------------ chains *)

Lemma is_chain_in : forall ts ch, is_chain ts ch -> forall t, In t ch -> In t ts.
Proof.
  induction ch as [|t ch IH]; cbn; intros H x Hx; [contradiction|].
  destruct ch as [|p ch].
  - destruct Hx as [->|[]]. tauto.
  - destruct H as (Hin & _ & Hc). destruct Hx as [->|Hx]; auto.
Qed.

Lemma chain_anc : forall ts, NoDup (tnames ts) ->
  forall ch, is_chain ts ch ->
  match ch with
  | [] => False
  | t :: anc => anc_names (map compiled ts) (t_name t) (map t_name anc)
  end.
Proof.
  intros ts Hnd. induction ch as [|t ch IH]; cbn [is_chain]; auto.
  destruct ch as [|p ch].
  - intros [Hin He]. eapply AN_root; [apply get_compiled; eauto|]. exact He.
  - intros (Hin & He & Hc). cbn [map]. eapply AN_step; [apply get_compiled; eauto|exact He|].
    apply (IH Hc).
Qed.

Lemma clin_spec : forall ts, NoDup (tnames ts) ->
  (forall t, In t ts -> NoDup (map fst (blocks_of (t_body t)))) ->
  forall ch b, (forall t, In t ch -> In t ts) ->
  clin (map compiled ts) (map t_name ch) b = map code_of (spec_lineage ch b).
Proof.
  intros ts Hnd Hbl. induction ch as [|t ch IH]; intros b Hin; cbn [map clin spec_lineage]; auto.
  rewrite get_compiled by (auto; apply Hin; now left).
  rewrite compiled_lookup by (apply Hbl; apply Hin; now left).
  destruct (defines t b) as [body|]; cbn [option_map map].
  - rewrite has_super_code. destruct (has_super body); cbn [map]; auto.
    rewrite IH; auto. intros x Hx. apply Hin. now right.
  - apply IH. intros x Hx. apply Hin. now right.
Qed.

Lemma rev_head_last : forall A (l : list A) d, l <> [] -> exists r, rev l = last l d :: r.
Proof.
  induction l as [|x l IH]; intros d H; [contradiction|].
  destruct l as [|y l].
  - exists []. reflexivity.
  - destruct (IH d) as [r Hr]; [discriminate|]. exists (r ++ [x]).
    change (rev (x :: y :: l)) with (rev (y :: l) ++ [x]). rewrite Hr. reflexivity.
Qed.

Lemma last_in : forall A (l : list A) x d, In (last (x :: l) d) (x :: l).
Proof.
  induction l as [|y l IH]; intros x d.
  - left. reflexivity.
  - right. change (last (x :: y :: l) d) with (last (y :: l) d). apply IH.
Qed.

(* ------------------------------------------------------------------ registered sets *)

Section Registered.
  Variable ord : orders.
  Variable ts : list template.
  Variable fr : freg.
  Hypothesis Hord : orders_ok ord.
  Hypothesis Hnd : NoDup (tnames ts).
  Hypothesis Hreg : register ord ts = Ok fr.

  Let reg := map compiled ts.

  Lemma reg_facts :
    compile_all ts = Ok reg /\ finalize ord reg = Ok fr /\
    (forall t, In t ts -> NoDup (map fst (blocks_of (t_body t)))).
  Proof.
    unfold register in Hreg. destruct (compile_all ts) as [r|] eqn:E; [|discriminate].
    destruct (compile_all_ok _ _ E) as [-> Hall]. auto.
  Qed.

  Lemma registered_chain : forall T anc, is_chain ts (T :: anc) ->
    ancl (f_parents fr) (t_name T) = map t_name anc /\
    (forall b, lineage_of fr (t_name T) b = nonempty (map code_of (spec_lineage (T :: anc) b))) /\
    get_tpl (f_tpls fr) (t_name T) = Some (compiled T).
  Proof.
    intros T anc Hc. destruct reg_facts as (Hca & Hfin & Hbl).
    assert (Hwf : reg_wf reg) by (eapply reg_wf_compiled; eauto).
    destruct (finalize_ok ord reg fr Hord Hwf Hfin) as (Htp & HP & _ & _ & Hlin).
    assert (HinT : In T ts) by (eapply is_chain_in; eauto; now left).
    assert (HinC : In (compiled T) reg) by (now apply in_map).
    assert (Ha := chain_anc ts Hnd _ Hc). cbn in Ha.
    destruct HP as (_ & HPall & _). destruct (HPall _ HinC) as (_ & Ha' & _). cbn in Ha'.
    assert (Hancl : ancl (f_parents fr) (t_name T) = map t_name anc) by (eapply an_det; eauto).
    split; auto. split.
    - intros b. assert (Hb := Hlin _ HinC b). cbn [c_name compiled] in Hb. rewrite Hb, Hancl.
      change (t_name T :: map t_name anc) with (map t_name (T :: anc)).
      unfold reg. rewrite clin_spec; auto. eapply is_chain_in; eauto.
    - rewrite Htp. now apply get_compiled.
  Qed.

  Lemma root_chunk : forall T anc, is_chain ts (T :: anc) ->
    match alookup (t_name T) (f_parents fr) with
    | Some (base :: _) =>
        match get_tpl (f_tpls fr) base with
        | Some bt => Ok (c_chunk bt)
        | None => Err ENoTemplate
        end
    | _ => Ok (c_chunk (compiled T))
    end = Ok (code_of (t_body (last (T :: anc) {| t_name := 0%N; t_extends := None; t_body := [] |}))).
  Proof.
    intros T anc Hc. destruct (registered_chain T anc Hc) as (Hancl & _ & _).
    destruct reg_facts as (Hca & Hfin & Hbl).
    assert (Hwf : reg_wf reg) by (eapply reg_wf_compiled; eauto).
    destruct (finalize_ok ord reg fr Hord Hwf Hfin) as (Htp & HP & _ & _ & _).
    unfold ancl in Hancl. destruct (alookup (t_name T) (f_parents fr)) as [ps|] eqn:E.
    - assert (Hps : ps = rev (map t_name anc)) by (rewrite <- Hancl; now rewrite rev_involutive).
      destruct anc as [|p anc].
      + subst ps. cbn. reflexivity.
      + set (d := {| t_name := 0%N; t_extends := None; t_body := [] |}).
        destruct (rev_head_last _ (p :: anc) d) as [r Hr]; [discriminate|].
        rewrite <- map_rev, Hr in Hps. cbn [map] in Hps. subst ps.
        rewrite Htp. unfold reg.
        assert (Hl : In (last (p :: anc) d) ts).
        { eapply is_chain_in; eauto. right. apply last_in. }
        rewrite get_compiled by auto. cbn [c_chunk compiled].
        change (last (T :: p :: anc) d) with (last (p :: anc) d). reflexivity.
    - destruct anc; [reflexivity|discriminate].
  Qed.

  Theorem render_to_spec : forall fuel T anc capture, is_chain ts (T :: anc) ->
    interp true (lineage_of fr (t_name T)) fuel (init_state capture)
           (code_of (t_body (last (T :: anc) {| t_name := 0%N; t_extends := None; t_body := [] |}))) [] =
    match spec_render fuel (T :: anc) with
    | Err e => Err e
    | Ok tr => Ok (fin (init_state capture) [] tr)
    end.
  Proof.
    intros fuel T anc capture Hc. destruct (registered_chain T anc Hc) as (_ & Hlin & _).
    unfold spec_render. apply sim_top. exact Hlin.
  Qed.

  Theorem render_chain_spec_l : forall fuel T anc, is_chain ts (T :: anc) ->
    render_model fuel fr (t_name T) = rmap flat (spec_render fuel (T :: anc)).
  Proof.
    intros fuel T anc Hc. unfold render_model, render_to.
    destruct (registered_chain T anc Hc) as (_ & _ & Hg). rewrite Hg.
    rewrite (root_chunk T anc Hc). cbn [rbind].
    rewrite (render_to_spec fuel T anc None Hc).
    destruct (spec_render fuel (T :: anc)) as [tr|e]; cbn; auto.
    now rewrite erase_none_flat.
  Qed.

  Theorem render_block_spec_l : forall fuel T anc b, is_chain ts (T :: anc) ->
    render_block_model fuel fr (t_name T) b =
    match resolve (T :: anc) b with
    | None => Err EBlockNotFound
    | Some _ => rmap (lastw (Some b) []) (spec_render fuel (T :: anc))
    end.
  Proof.
    intros fuel T anc b Hc. unfold render_block_model, render_block_gen, render_to.
    destruct (registered_chain T anc Hc) as (_ & Hlin & Hg). rewrite Hg, Hlin.
    rewrite (spec_lineage_resolve (T :: anc) b).
    destruct (resolve (T :: anc) b) as [[body anc']|]; cbn [nonempty map]; auto.
    rewrite (root_chunk T anc Hc). cbn [rbind].
    rewrite (render_to_spec fuel T anc (Some b) Hc).
    destruct (spec_render fuel (T :: anc)) as [tr|e]; cbn; auto.
  Qed.
End Registered.

(* ------------------------------------------------------------------ acceptance *)

Lemma orphans_perm_iff : forall reg P l l', Permutation l l' ->
  (flat_map (orphans_of reg P) l = [] <-> flat_map (orphans_of reg P) l' = []).
Proof.
  intros. split; apply orphans_perm; auto. now apply Permutation_sym.
Qed.

Lemma finalize_err1 : forall ord reg e, loop1 reg reg = Err e -> finalize ord reg = Err e.
Proof. intros. unfold finalize. now rewrite H. Qed.

(* ---- find_block_cycle only looks at a lineage map through lookups and its sorted keys *)

Lemma insert_name_comm : forall x y s, insert_name x (insert_name y s) = insert_name y (insert_name x s).
Proof.
  intros x y s. induction s as [|a s IH]; cbn.
  - destruct (N.leb_spec x y), (N.leb_spec y x); cbn; try reflexivity; try lia.
    assert (x = y) by lia. now subst.
  - destruct (N.leb_spec y a), (N.leb_spec x a); cbn;
      repeat match goal with |- context [N.leb ?u ?v] => destruct (N.leb_spec u v); cbn end;
      try reflexivity; try lia; try (assert (x = y) by lia; subst; reflexivity).
    now rewrite IH.
Qed.

Lemma sort_names_perm : forall l l', Permutation l l' -> sort_names l = sort_names l'.
Proof.
  induction 1; cbn; auto.
  - now rewrite IHPermutation.
  - apply insert_name_comm.
  - congruence.
Qed.

Definition lookup_eq (m m' : list (name * list code)) : Prop := forall b, alookup b m = alookup b m'.

Lemma keys_sorted_eq : forall m m', NoDup (map fst m) -> NoDup (map fst m') -> lookup_eq m m' ->
  sort_names (map fst m) = sort_names (map fst m').
Proof.
  intros m m' Hn Hn' He. apply sort_names_perm. apply NoDup_Permutation; auto.
  intros k. split; intros Hin.
  - destruct (alookup k m') eqn:E.
    + apply alookup_in in E. apply (in_map fst) in E. exact E.
    + exfalso. rewrite <- He in E. apply alookup_none_keys in E. contradiction.
  - destruct (alookup k m) eqn:E.
    + apply alookup_in in E. apply (in_map fst) in E. exact E.
    + exfalso. rewrite He in E. apply alookup_none_keys in E. contradiction.
Qed.

Lemma next_nodes_ext : forall m m' c, lookup_eq m m' -> next_nodes m c = next_nodes m' c.
Proof.
  intros m m' c He. unfold next_nodes. rewrite (He (fst c)).
  destruct (alookup (fst c) m'); auto. destruct (nth_error l (snd c)); auto.
  f_equal. f_equal. f_equal. apply filter_ext. intros b. now rewrite (He b).
Qed.

Lemma bc_walk_ext : forall m m', lookup_eq m m' ->
  forall f c st v, bc_walk f m c st v = bc_walk f m' c st v.
Proof.
  intros m m' He. induction f as [|f IH]; intros c st v; auto.
  cbn [bc_walk]. rewrite (next_nodes_ext m m' c He).
  destruct (next_nodes m' c) as [next|]; auto.
  revert v. induction next as [|n next IHn]; intros v; auto.
  destruct (existsb (bnode_eqb n) st); auto.
  destruct (existsb (bnode_eqb n) v); auto.
  rewrite IH. destruct (bc_walk f m' n (n :: st) v) as [[[found|] v']|]; auto.
Qed.

Lemma first_cycle_ext : forall m m', lookup_eq m m' ->
  forall f starts, first_cycle f m starts = first_cycle f m' starts.
Proof.
  intros m m' He f. induction starts as [|s starts IH]; auto.
  cbn [first_cycle]. rewrite (bc_walk_ext m m' He). rewrite IH. reflexivity.
Qed.

Lemma lin_len_ext : forall m m', lookup_eq m m' -> forall k, lin_len m k = lin_len m' k.
Proof. intros m m' He k. unfold lin_len. now rewrite He. Qed.

Lemma fbc_ext : forall m m', NoDup (map fst m) -> NoDup (map fst m') -> lookup_eq m m' ->
  find_block_cycle m = find_block_cycle m'.
Proof.
  intros m m' Hn Hn' He. unfold find_block_cycle.
  rewrite (keys_sorted_eq m m' Hn Hn' He).
  rewrite (map_ext _ _ (lin_len_ext m m' He)).
  rewrite (first_cycle_ext m m' He).
  f_equal. apply flat_map_ext. intros k. now rewrite (lin_len_ext m m' He).
Qed.

(* tpl_blocks after the inherit pass, whatever the orders were *)
Definition tb_full (reg : list ctemplate) (P : list (name * list name))
           (tb : list (name * list (name * list code))) : Prop :=
  maps_nodup tb /\
  forall t, In t reg ->
    exists m, alookup (c_name t) tb = Some m /\
      forall b, alookup b m = nonempty (clin reg (c_name t :: ancl P (c_name t)) b).

Lemma cycle_pass_ext : forall reg P tb tb', tb_full reg P tb -> tb_full reg P tb' ->
  forall todo, incl todo reg -> cycle_pass todo tb = cycle_pass todo tb'.
Proof.
  intros reg P tb tb' [Hn Hf] [Hn' Hf']. induction todo as [|t todo IH]; intros Hincl; auto.
  cbn [cycle_pass].
  destruct (Hf t (Hincl t (or_introl eq_refl))) as (m & Hm & Hl).
  destruct (Hf' t (Hincl t (or_introl eq_refl))) as (m' & Hm' & Hl').
  rewrite Hm, Hm'.
  rewrite (fbc_ext m m'); [|eapply Hn; eauto|eapply Hn'; eauto|intros b; now rewrite Hl, Hl'].
  rewrite IH; auto. intros x Hx. apply Hincl. now right.
Qed.

Lemma bc_walk_S : forall f lin current stack visited,
  bc_walk (S f) lin current stack visited =
  match next_nodes lin current with
  | Err e => Err e
  | Ok next =>
      (fix loop (next : list bnode) (visited : list bnode) {struct next}
         : rres (option name * list bnode) :=
         match next with
         | [] => Ok (None, visited)
         | node :: rest =>
             if existsb (bnode_eqb node) stack then Ok (Some (fst node), visited)
             else if existsb (bnode_eqb node) visited then loop rest visited
             else
               match bc_walk f lin node (node :: stack) visited with
               | Err e => Err e
               | Ok (Some found, v) => Ok (Some found, v)
               | Ok (None, v) => loop rest (node :: v)
               end
         end) next visited
  end.
Proof. reflexivity. Qed.

Lemma cycle_pass_errors : forall reg tb e, cycle_pass reg tb = Err e -> e = EPanic \/ e = EOutOfFuel.
Proof.
  assert (Hw : forall f m c st v e, bc_walk f m c st v = Err e -> e = EPanic \/ e = EOutOfFuel).
  { induction f as [|f IH]; intros m c st v e H.
    - inversion H. auto.
    - rewrite bc_walk_S in H. unfold next_nodes in H. destruct (alookup (fst c) m); [|inversion H; auto].
      destruct (nth_error l (snd c)); [|inversion H; auto].
      match type of H with (fix loop (n : list bnode) (vv : list bnode) {struct n} := _) ?nx v = _ =>
        set (nxt := nx) in H; clearbody nxt end.
      revert v H. induction nxt as [|n nxt IHn]; intros v H.
      + discriminate.
      + cbn -[bc_walk] in H. destruct (existsb (bnode_eqb n) st); [discriminate|].
        destruct (existsb (bnode_eqb n) v); [eauto|].
        case_eq (bc_walk f m n (@cons bnode n st) v); [intros [[found|] v'] E|intros e' E]; rewrite E in H.
        * discriminate.
        * eauto.
        * inversion H; subst. eapply IH; eauto. }
  assert (Hf : forall f m starts e, first_cycle f m starts = Err e -> e = EPanic \/ e = EOutOfFuel).
  { intros f m. induction starts as [|s starts IH]; intros e H; cbn [first_cycle] in H; [discriminate|].
    case_eq (bc_walk f m s [s] []); [intros [[found|] v'] E|intros e' E]; rewrite E in H.
    - discriminate.
    - eauto.
    - inversion H; subst. eapply Hw; eauto. }
  induction reg as [|t reg IH]; intros tb e H; cbn [cycle_pass] in H; [discriminate|].
  destruct (alookup (c_name t) tb); [|inversion H; auto].
  destruct (find_block_cycle l) as [c|e'] eqn:E; cbn [rbind] in H.
  - destruct (cycle_pass reg tb) as [r|e''] eqn:E2; cbn [rbind] in H; [discriminate|].
    inversion H; subst. eapply IH; eauto.
  - inversion H; subst. unfold find_block_cycle in E. eapply Hf; eauto.
Qed.

(* what finalize does once the parents are known *)
Lemma finalize_after_loop1 : forall ord reg P,
  orders_ok ord -> reg_wf reg -> loop1 reg reg = Ok P ->
  match flat_map (orphans_of reg P) reg with
  | _ :: _ => finalize ord reg = Err EOrphanBlock
  | [] =>
      exists tb, tb_full reg P tb /\
        finalize ord reg =
        (cyc <- cycle_pass reg tb ;;
         match cyc with
         | [] => Ok {| f_tpls := reg; f_parents := P; f_lineage := tb |}
         | _ :: _ => Err EBlockCycle
         end)
  end.
Proof.
  intros ord reg P Hord [Hnd Hbl] E1. unfold finalize. rewrite E1. cbn [rbind].
  assert (HP := loop1_parents_ok reg P Hnd E1).
  destruct Hord as (Ho2 & Hob & Hoi & Hop).
  assert (Hord : orders_ok ord) by (repeat split; auto).
  destruct (loop2_ok ord reg P (o_loop2 ord reg) Hord (conj Hnd Hbl) HP) as (orph & tb & Hr & Ho & Htnd & Htk & Htall).
  { intros x Hx. eapply Permutation_in; [apply Ho2|exact Hx]. }
  { eapply Permutation_NoDup; [|exact Hnd]. apply Permutation_map. apply Permutation_sym. apply Ho2. }
  rewrite Hr. cbn [rbind fst snd].
  assert (Hinv0 : tb_inv reg P [] tb).
  { split; auto. split.
    - intros n m Hm.
      assert (Hn : In n (names (o_loop2 ord reg))).
      { apply Htk. apply alookup_in in Hm. apply (in_map fst) in Hm. exact Hm. }
      apply in_map_iff in Hn. destruct Hn as (t & Htn & Hti). subst n.
      destruct (Htall t Hti) as (m' & Hm' & Hnd' & _). congruence.
    - intros t Hin. assert (Hin' : In t (o_loop2 ord reg)).
      { eapply Permutation_in; [apply Permutation_sym; apply Ho2|exact Hin]. }
      destruct (Htall t Hin') as (m & Hm & _ & Hl). exists m. split; auto. }
  destruct HP as (HPk & HPall & HPkeys).
  destruct (inherit_pass_ok ord reg P (o_inherit ord P) [] tb Hord Hnd (conj HPk (conj HPall HPkeys))) as (tb' & Hr' & Hinv'); auto.
  { intros n ps Hin. apply in_alookup; auto. eapply Permutation_in; [apply Hoi|exact Hin]. }
  { eapply Permutation_NoDup; [|exact HPk]. apply Permutation_map. apply Permutation_sym. apply Hoi. }
  rewrite Hr'. cbn [rbind].
  destruct (flat_map (orphans_of reg P) reg) eqn:E.
  - assert (Hnil : orph = []).
    { rewrite Ho. eapply orphans_perm; [apply Permutation_sym; apply Ho2|exact E]. }
    rewrite Hnil. exists tb'. split; [|reflexivity].
    destruct Hinv' as (_ & Hmn & Hall). split; auto.
    intros t Hin. destruct (Hall t Hin) as (m & Hm & Hl). exists m. split; auto.
    intros b. rewrite Hl.
    assert (Hd : existsb (N.eqb (c_name t)) (map fst (o_inherit ord P) ++ []) = true).
    { apply existsb_exists. exists (c_name t). split; [|apply N.eqb_refl].
      rewrite app_nil_r. eapply Permutation_in; [apply Permutation_map; apply Permutation_sym; apply Hoi|].
      destruct (HPall t Hin) as (Hs & _). destruct (alookup (c_name t) P) eqn:E'; [|congruence].
      apply alookup_in in E'. apply (in_map fst) in E'. exact E'. }
    now rewrite Hd.
  - destruct orph; auto. exfalso.
    assert (flat_map (orphans_of reg P) reg = []).
    { eapply orphans_perm; [apply Ho2|]. now rewrite <- Ho. }
    congruence.
Qed.

(* the verdict (accepted, or which error) does not depend on the iteration orders *)
Lemma finalize_class_indep : forall ord ord' reg,
  orders_ok ord -> orders_ok ord' -> reg_wf reg ->
  rmap (fun _ => tt) (finalize ord reg) = rmap (fun _ => tt) (finalize ord' reg).
Proof.
  intros ord ord' reg H H' Hwf. destruct (loop1 reg reg) as [P|e] eqn:E1.
  - assert (A := finalize_after_loop1 ord reg P H Hwf E1).
    assert (B := finalize_after_loop1 ord' reg P H' Hwf E1).
    destruct (flat_map (orphans_of reg P) reg).
    + destruct A as (tb & Hf & ->). destruct B as (tb' & Hf' & ->).
      rewrite (cycle_pass_ext reg P tb tb' Hf Hf' reg (incl_refl _)).
      destruct (cycle_pass reg tb') as [[|c cyc]|e]; reflexivity.
    + now rewrite A, B.
  - now rewrite (finalize_err1 ord reg e E1), (finalize_err1 ord' reg e E1).
Qed.

(* chains never loop, so find_parents succeeds on them *)
Lemma an_suffix : forall reg n l, anc_names reg n l ->
  forall p, In p l -> exists l', anc_names reg p l' /\ length l' < length l.
Proof.
  induction 1; intros q Hq; [contradiction|].
  destruct Hq as [->|Hq].
  - exists l. split; auto.
  - destruct (IHanc_names q Hq) as (l' & Ha & Hlen). exists l'. split; auto. cbn. lia.
Qed.

Lemma an_no_self : forall reg n l, anc_names reg n l -> ~ In n l.
Proof.
  intros reg n l Ha Hin. destruct (an_suffix _ _ _ Ha n Hin) as (l' & Ha' & Hlen).
  assert (l = l') by (eapply an_det; eauto). subst. lia.
Qed.

Lemma an_nodup : forall reg n l, anc_names reg n l -> NoDup l.
Proof.
  induction 1; constructor; auto. eapply an_no_self; eauto.
Qed.

Lemma an_in_names : forall reg n l, anc_names reg n l -> incl l (names reg).
Proof.
  induction 1; intros x Hx; [contradiction|].
  destruct Hx as [->|Hx]; auto.
  destruct (an_self _ _ _ H1) as [pt Hpt]. destruct (get_tpl_some _ _ _ Hpt) as [Hin <-].
  now apply in_map.
Qed.

Lemma find_parents_complete : forall reg l f start t acc,
  anc_names reg (c_name t) l -> get_tpl reg (c_name t) = Some t ->
  length l < f -> ~ In start l -> (forall p, In p l -> ~ In p acc) -> NoDup l ->
  find_parents f reg start t acc = Ok (rev (acc ++ l)).
Proof.
  intros reg l. induction l as [|p l IH]; intros f start t acc Ha Hg Hf Hs Hacc Hnd.
  - destruct f; [inversion Hf|]. cbn.
    inversion Ha as [t0 n0 Hg0 He0 | t0 n0 p0 l0 Hg0 He0 Ha0]; subst.
    assert (t0 = t) by congruence. subst. rewrite He0. now rewrite app_nil_r.
  - destruct f; [inversion Hf|]. cbn [find_parents].
    inversion Ha as [t0 n0 Hg0 He0 | t0 n0 p0 l0 Hg0 He0 Ha0]; subst.
    assert (t0 = t) by congruence. subst. rewrite He0.
    destruct (an_self _ _ _ Ha0) as [parent Hp]. rewrite Hp.
    destruct (get_tpl_some _ _ _ Hp) as [_ Hn].
    assert (E1 : N.eqb p start = false).
    { apply N.eqb_neq. intros ->. apply Hs. now left. }
    assert (E2 : existsb (N.eqb p) acc = false).
    { destruct (existsb (N.eqb p) acc) eqn:E; auto. apply existsb_exists in E.
      destruct E as (x & Hx & Hxe). apply N.eqb_eq in Hxe. subst x. exfalso. eapply Hacc; eauto. now left. }
    rewrite E1, E2. cbn [orb]. apply NoDup_cons_iff in Hnd. destruct Hnd as [Hnp Hndl].
    rewrite (IH f start parent (acc ++ [c_name parent])); auto.
    + rewrite Hn, <- app_assoc. reflexivity.
    + now rewrite Hn.
    + rewrite Hn. exact Hp.
    + cbn in Hf. lia.
    + intros H. apply Hs. now right.
    + intros q Hq Hin. apply in_app_or in Hin. destruct Hin as [Hin|[Heq|[]]].
      * eapply Hacc; eauto. now right.
      * rewrite Hn in Heq. subst q. auto.
Qed.

Lemma loop1_complete : forall reg todo, NoDup (names reg) -> incl todo reg ->
  (forall t, In t todo -> exists l, anc_names reg (c_name t) l) ->
  exists P, loop1 reg todo = Ok P.
Proof.
  intros reg todo Hnd. induction todo as [|t todo IH]; intros Hincl Hall; cbn [loop1].
  - eauto.
  - destruct (Hall t (or_introl eq_refl)) as [l Ha].
    assert (Hg : get_tpl reg (c_name t) = Some t) by (apply get_tpl_in; auto; apply Hincl; now left).
    rewrite (find_parents_complete reg l (S (length reg)) (c_name t) t [] Ha Hg).
    + cbn [rbind]. destruct IH as [P HP].
      { intros x Hx. apply Hincl. now right. } { intros x Hx. apply Hall. now right. }
      rewrite HP. cbn [rbind]. eauto.
    + assert (length l <= length (names reg)).
      { apply NoDup_incl_length; [eapply an_nodup; eauto|eapply an_in_names; eauto]. }
      unfold names in H. rewrite map_length in H. lia.
    + eapply an_no_self; eauto.
    + intros p _ [].
    + eapply an_nodup; eauto.
Qed.

(* orphan check of one template against the specification's acceptance rule *)
Lemma existsb_rev : forall A (g : A -> bool) l, existsb g (rev l) = existsb g l.
Proof.
  induction l; cbn; auto. rewrite existsb_app, IHl. cbn. rewrite orb_false_r. apply orb_comm.
Qed.

Lemma filter_nil_forallb : forall A (g : A -> bool) l, filter g l = [] <-> forallb (fun x => negb (g x)) l = true.
Proof.
  induction l; cbn; [tauto|]. destruct (g a); cbn.
  - split; discriminate.
  - exact IHl.
Qed.

Lemma forallb_ext' : forall A (g h : A -> bool) l, (forall x, g x = h x) -> forallb g l = forallb h l.
Proof. induction l; cbn; intros; auto. now rewrite H, IHl. Qed.

Lemma orphans_spec : forall ts P T anc,
  NoDup (tnames ts) -> (forall t, In t ts -> NoDup (map fst (blocks_of (t_body t)))) ->
  is_chain ts (T :: anc) -> alookup (t_name T) P <> None -> ancl P (t_name T) = map t_name anc ->
  (orphans_of (map compiled ts) P (compiled T) = [] <->
   match anc with [] => true | _ => forallb (defined_in anc) (spec_top (t_body T)) end = true).
Proof.
  intros ts P T anc Hnd Hbl Hc Hsome Hancl. unfold orphans_of. cbn [c_name compiled].
  unfold ancl in Hancl. destruct (alookup (t_name T) P) as [ps|]; [|congruence].
  assert (Hps : ps = rev (map t_name anc)) by (rewrite <- Hancl; now rewrite rev_involutive).
  unfold orphan_blocks. destruct anc as [|p anc].
  - subst ps. cbn. tauto.
  - destruct ps as [|q ps]. { destruct (rev_head_last _ (map t_name (p :: anc)) 0%N) as [r Hr]; [discriminate|]. congruence. }
    rewrite Hps. rewrite filter_nil_forallb. cbn [c_top compiled]. rewrite top_of_spec_top.
    assert (Heq : forall b,
      negb (negb (existsb (fun p0 => match get_tpl (map compiled ts) p0 with
                                     | Some pt => amem b (c_blocks pt) | None => false end)
                          (rev (map t_name (p :: anc))))) = defined_in (p :: anc) b).
    { intros b. rewrite negb_involutive, existsb_rev. unfold defined_in.
      assert (Hin : forall t, In t (p :: anc) -> In t ts).
      { intros t Ht. eapply is_chain_in; eauto. now right. }
      clear -Hin Hnd Hbl. induction (p :: anc) as [|t l IH]; cbn [map existsb]; auto.
      rewrite get_compiled by (auto; apply Hin; now left).
      rewrite IH by (intros x Hx; apply Hin; now right). f_equal.
      unfold amem. rewrite compiled_lookup by (apply Hbl; apply Hin; now left).
      destruct (defines t b); reflexivity. }
    split; intros H.
    + erewrite forallb_ext'; [exact H|]. intros b. symmetry. apply Heq.
    + erewrite forallb_ext'; [exact H|]. intros b. apply Heq.
Qed.

Lemma is_chain_tail : forall ts t p anc, is_chain ts (t :: p :: anc) -> is_chain ts (p :: anc).
Proof. intros ts t p anc H. cbn in H. tauto. Qed.

Lemma flat_map_nil_in : forall A B (g : A -> list B) l x, flat_map g l = [] -> In x l -> g x = [].
Proof.
  induction l; cbn; intros x H Hin; [contradiction|].
  apply app_eq_nil in H. destruct H. destruct Hin as [->|Hin]; auto.
Qed.

Section Accept.
  Variable ord : orders.
  Variable ts : list template.
  Hypothesis Hord : orders_ok ord.
  Hypothesis Hnd : NoDup (tnames ts).

  (* accepted => every top-level block of a child is defined by an ancestor *)
  Theorem accepted_chain_ok : forall fr, register ord ts = Ok fr ->
    forall ch, is_chain ts ch -> spec_accepts ch = true.
  Proof.
    intros fr Hreg. destruct (reg_facts ord ts fr Hreg) as (Hca & Hfin & Hbl).
    assert (Hwf : reg_wf (map compiled ts)) by (eapply reg_wf_compiled; eauto).
    destruct (finalize_ok ord _ fr Hord Hwf Hfin) as (Htp & HP & Horph & _ & _).
    induction ch as [|T anc IH]; intros Hc; [reflexivity|].
    cbn [spec_accepts]. apply andb_true_iff. split.
    - assert (HinT : In T ts) by (eapply is_chain_in; eauto; now left).
      destruct (registered_chain ord ts fr Hord Hnd Hreg T anc Hc) as (Hancl & _ & _).
      destruct HP as (_ & HPall & _).
      destruct (HPall (compiled T) (in_map compiled ts T HinT)) as (Hs & _ & _). cbn in Hs.
      apply (orphans_spec ts (f_parents fr) T anc Hnd Hbl Hc Hs Hancl).
      eapply flat_map_nil_in; [exact Horph|]. now apply in_map.
    - destruct anc as [|p anc]; [reflexivity|]. apply IH. eapply is_chain_tail; eauto.
  Qed.

  Hypothesis Hsyn : forall t, In t ts -> NoDup (map fst (blocks_of (t_body t))).
  Hypothesis Hchains : forall t, In t ts -> exists anc, is_chain ts (t :: anc).

  Lemma loop1_chains : exists P, loop1 (map compiled ts) (map compiled ts) = Ok P.
  Proof.
    apply loop1_complete.
    - now rewrite names_compiled.
    - apply incl_refl.
    - intros c Hc. apply in_map_iff in Hc. destruct Hc as (t & <- & Hin).
      destruct (Hchains t Hin) as [anc Hch]. exists (map t_name anc).
      apply (chain_anc ts Hnd _ Hch).
  Qed.

  Lemma wf_chains : reg_wf (map compiled ts).
  Proof. eapply reg_wf_compiled; eauto. now apply compile_all_complete. Qed.

  Lemma parents_chain : forall P, loop1 (map compiled ts) (map compiled ts) = Ok P ->
    forall T anc, is_chain ts (T :: anc) ->
    alookup (t_name T) P <> None /\ ancl P (t_name T) = map t_name anc.
  Proof.
    intros P HP T anc Hc. destruct wf_chains as [Hn _].
    destruct (loop1_parents_ok _ P Hn HP) as (_ & HPall & _).
    assert (HinT : In T ts) by (eapply is_chain_in; eauto; now left).
    destruct (HPall (compiled T) (in_map compiled ts T HinT)) as (Hs & Ha & _). cbn in Hs, Ha.
    split; auto. eapply an_det; eauto. apply (chain_anc ts Hnd _ Hc).
  Qed.

  (* every template's chain passes the rule (nested new blocks are not looked at) => not
     rejected by the orphan rule: what is left is the block-cycle check on the lineage *)
  Theorem chains_ok_accepted :
    (forall ch, is_chain ts ch -> spec_accepts ch = true) ->
    exists P tb, tb_full (map compiled ts) P tb /\
      register ord ts =
      (cyc <- cycle_pass (map compiled ts) tb ;;
       match cyc with
       | [] => Ok {| f_tpls := map compiled ts; f_parents := P; f_lineage := tb |}
       | _ :: _ => Err EBlockCycle
       end).
  Proof.
    intros Hacc. unfold register. rewrite compile_all_complete by auto. cbn [rbind].
    destruct loop1_chains as [P HP].
    assert (A := finalize_after_loop1 ord _ P Hord wf_chains HP).
    destruct (flat_map (orphans_of (map compiled ts) P) (map compiled ts)) eqn:E.
    { destruct A as (tb & Hf & Hfin). exists P, tb. auto. }
    exfalso.
    assert (Hin : In n (flat_map (orphans_of (map compiled ts) P) (map compiled ts))) by (rewrite E; now left).
    apply in_flat_map in Hin. destruct Hin as (c & Hc & Hn).
    apply in_map_iff in Hc. destruct Hc as (T & <- & HinT).
    destruct (Hchains T HinT) as [anc Hch].
    destruct (parents_chain P HP T anc Hch) as (Hs & Hancl).
    assert (Hok := Hacc _ Hch). cbn [spec_accepts] in Hok. apply andb_true_iff in Hok. destruct Hok as [Hok _].
    apply (orphans_spec ts P T anc Hnd Hsyn Hch Hs Hancl) in Hok. rewrite Hok in Hn. contradiction.
  Qed.

  Corollary chains_ok_only_cycle_rejection :
    (forall ch, is_chain ts ch -> spec_accepts ch = true) ->
    forall e, register ord ts = Err e -> e = EBlockCycle \/ e = EPanic \/ e = EOutOfFuel.
  Proof.
    intros Hacc e He. destruct (chains_ok_accepted Hacc) as (P & tb & _ & Hr). rewrite Hr in He.
    destruct (cycle_pass (map compiled ts) tb) as [[|c cyc]|e'] eqn:E; cbn [rbind] in He.
    - discriminate.
    - inversion He. auto.
    - inversion He; subst. right. eapply cycle_pass_errors; eauto.
  Qed.

  (* a chain that breaks the rule => rejected with the orphan-block error *)
  Theorem chain_bad_rejected : forall ch, is_chain ts ch -> spec_accepts ch = false ->
    register ord ts = Err EOrphanBlock.
  Proof.
    intros ch Hch Hbad. unfold register. rewrite compile_all_complete by auto. cbn [rbind].
    destruct loop1_chains as [P HP].
    assert (A := finalize_after_loop1 ord _ P Hord wf_chains HP).
    destruct (flat_map (orphans_of (map compiled ts) P) (map compiled ts)) eqn:E; auto.
    exfalso. clear A. revert Hch Hbad. induction ch as [|T anc IH]; intros Hch Hbad; [discriminate|].
    cbn [spec_accepts] in Hbad. apply andb_false_iff in Hbad. destruct Hbad as [Hb|Hb].
    - destruct (parents_chain P HP T anc Hch) as (Hs & Hancl).
      assert (HinT : In T ts) by (eapply is_chain_in; eauto; now left).
      assert (Ho : orphans_of (map compiled ts) P (compiled T) = []).
      { eapply flat_map_nil_in; [exact E|]. now apply in_map. }
      apply (orphans_spec ts P T anc Hnd Hsyn Hch Hs Hancl) in Ho. congruence.
    - destruct anc as [|p anc]; [discriminate|]. apply IH; auto. eapply is_chain_tail; eauto.
  Qed.
End Accept.

(* ------------------------------------------------------------------ order independence *)

Theorem register_order_independent : forall ord ord' ts,
  orders_ok ord -> orders_ok ord' -> NoDup (tnames ts) ->
  rmap (fun _ => tt) (register ord ts) = rmap (fun _ => tt) (register ord' ts) /\
  forall fr fr', register ord ts = Ok fr -> register ord' ts = Ok fr' ->
    f_tpls fr = f_tpls fr' /\
    forall t, In t ts ->
      ancl (f_parents fr) (t_name t) = ancl (f_parents fr') (t_name t) /\
      forall b, lineage_of fr (t_name t) b = lineage_of fr' (t_name t) b.
Proof.
  intros ord ord' ts Ho Ho' Hnd. split.
  - unfold register. destruct (compile_all ts) as [reg|e] eqn:E; cbn [rbind]; auto.
    apply finalize_class_indep; auto. eapply reg_wf_compiled; eauto.
  - intros fr fr' H H'.
    destruct (reg_facts ord ts fr H) as (Hca & Hfin & Hbl).
    destruct (reg_facts ord' ts fr' H') as (_ & Hfin' & _).
    assert (Hwf : reg_wf (map compiled ts)) by (eapply reg_wf_compiled; eauto).
    destruct (finalize_ok ord _ fr Ho Hwf Hfin) as (Htp & HP & _ & _ & Hlin).
    destruct (finalize_ok ord' _ fr' Ho' Hwf Hfin') as (Htp' & HP' & _ & _ & Hlin').
    split; [congruence|]. intros t Hin.
    assert (HinC : In (compiled t) (map compiled ts)) by now apply in_map.
    destruct HP as (_ & HPall & _). destruct HP' as (_ & HPall' & _).
    destruct (HPall _ HinC) as (_ & Ha & _). destruct (HPall' _ HinC) as (_ & Ha' & _).
    cbn [c_name compiled] in *.
    assert (Heq : ancl (f_parents fr) (t_name t) = ancl (f_parents fr') (t_name t)) by (eapply an_det; eauto).
    split; auto. intros b.
    assert (A := Hlin _ HinC b). assert (B := Hlin' _ HinC b). cbn [c_name compiled] in A, B.
    rewrite A, B, Heq. reflexivity.
Qed.
