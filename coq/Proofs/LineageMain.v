(* C04 — from source template sets and chains to the theorems of Props/C04.v. *)
From Coq Require Import List NArith Bool Arith Lia Permutation.
From TeraV Require Import Model.Lineage Spec.Inherit Proofs.LineageRender Proofs.LineageProofs.
Import ListNotations.

Definition tnames (ts : list template) : list name := map t_name ts.

(* ------------------------------------------------------------------ compile *)

Definition compiled (t : template) : ctemplate :=
  {| c_name := t_name t; c_extends := t_extends t; c_chunk := code_of (t_body t);
     c_blocks := map (fun '(b, body) => (b, code_of body)) (blocks_of (t_body t));
     c_top := top_of (t_body t) |}.

Lemma compile_template_ok : forall t c, compile_template t = Ok c ->
  c = compiled t /\ NoDup (map fst (blocks_of (t_body t))).
Proof.
  unfold compile_template. intros t c H.
  destruct (nodupb (map fst (blocks_of (t_body t)))) eqn:E; [|discriminate].
  inversion H; subst. split; auto. now apply nodupb_NoDup.
Qed.

Lemma compile_all_ok : forall ts reg, compile_all ts = Ok reg ->
  reg = map compiled ts /\ forall t, In t ts -> NoDup (map fst (blocks_of (t_body t))).
Proof.
  induction ts as [|t ts IH]; cbn; intros reg H.
  - inversion H; subst. split; auto. intros t [].
  - destruct (compile_template t) as [c|] eqn:Ec; [|discriminate]. cbn in H.
    destruct (compile_all ts) as [cs|] eqn:Ea; [|discriminate]. cbn in H. inversion H; subst.
    destruct (compile_template_ok _ _ Ec) as [-> Hnd]. destruct (IH cs eq_refl) as [-> Hall].
    split; auto. intros t' [->|Hin]; auto.
Qed.

Lemma compile_all_complete : forall ts,
  (forall t, In t ts -> NoDup (map fst (blocks_of (t_body t)))) ->
  compile_all ts = Ok (map compiled ts).
Proof.
  induction ts as [|t ts IH]; cbn; intros H; auto.
  unfold compile_template.
  assert (E : nodupb (map fst (blocks_of (t_body t))) = true).
  { assert (Hn := H t (or_introl eq_refl)).
    clear -Hn. induction Hn; cbn; auto. rewrite IHHn, andb_true_r.
    apply negb_true_iff. destruct (existsb (N.eqb x) l) eqn:E; auto.
    apply existsb_exists in E. destruct E as (y & Hy & Hxy). apply N.eqb_eq in Hxy. subst. contradiction. }
  rewrite E. cbn. rewrite IH by auto. reflexivity.
Qed.

Lemma names_compiled : forall ts, names (map compiled ts) = tnames ts.
Proof. intros. unfold names, tnames. rewrite map_map. reflexivity. Qed.

Lemma fst_map_code : forall (bl : list (name * list node)),
  map fst (map (fun '(b, body) => (b, code_of body)) bl) = map fst bl.
Proof. induction bl as [|[b x] bl IH]; cbn; auto. now rewrite IH. Qed.

Lemma reg_wf_compiled : forall ts reg,
  NoDup (tnames ts) -> compile_all ts = Ok reg -> reg_wf reg.
Proof.
  intros ts reg Hnd H. destruct (compile_all_ok _ _ H) as [-> Hall]. split.
  - now rewrite names_compiled.
  - intros c Hin. apply in_map_iff in Hin. destruct Hin as (t & <- & Hin). cbn.
    rewrite fst_map_code. auto.
Qed.

Lemma get_compiled : forall ts t, NoDup (tnames ts) -> In t ts ->
  get_tpl (map compiled ts) (t_name t) = Some (compiled t).
Proof.
  intros. change (t_name t) with (c_name (compiled t)). apply get_tpl_in.
  - now rewrite names_compiled.
  - now apply in_map.
Qed.

(* ------------------------------------------------------------------ find_def vs the compiler's block list *)

Lemma find_def_node_block : forall b b' body,
  find_def_node b (BlockDef b' body) = if N.eqb b b' then Some body else find_def b body.
Proof.
  intros. simpl. destruct (N.eqb b b'); [reflexivity|].
  induction body as [|x l IH]; [reflexivity|].
  simpl. destruct (find_def_node b x); [reflexivity|]. exact IH.
Qed.
Lemma find_def_node_filter : forall b k body,
  find_def_node b (FilterSection k body) = find_def b body.
Proof.
  intros. simpl.
  induction body as [|x l IH]; [reflexivity|].
  simpl. destruct (find_def_node b x); [reflexivity|]. exact IH.
Qed.

Lemma NoDup_app_l : forall A (a b : list A), NoDup (a ++ b) -> NoDup a.
Proof. induction a; cbn; intros b H; [constructor|]. inversion H; subst. constructor; eauto. rewrite in_app_iff in H2. tauto. Qed.
Lemma NoDup_app_r : forall A (a b : list A), NoDup (a ++ b) -> NoDup b.
Proof. induction a; cbn; intros b H; auto. inversion H; subst. eauto. Qed.
Lemma NoDup_app_disj : forall A (a b : list A) x, NoDup (a ++ b) -> In x a -> In x b -> False.
Proof.
  induction a; cbn; intros b x H Ha Hb; [contradiction|]. inversion H; subst.
  destruct Ha as [->|Ha]; eauto. apply H2. apply in_or_app. now right.
Qed.

Lemma blocks_find_node : forall b n,
  NoDup (map fst (blocks_node n)) -> alookup b (blocks_node n) = find_def_node b n.
Proof.
  intros b. induction n as [i| |b' body IH|k body IH] using node_ind'; intros Hnd; auto.
  - cbn [blocks_node] in *. rewrite find_def_node_block, alookup_app. rewrite map_app in Hnd.
    assert (Hl : alookup b (flat_map blocks_node body) = find_def b body).
    { apply NoDup_app_l in Hnd. clear -IH Hnd. induction IH as [|x l Hx _ IHl]; cbn in *; auto.
      rewrite map_app in Hnd. rewrite alookup_app, Hx by (eapply NoDup_app_l; eauto).
      rewrite IHl by (eapply NoDup_app_r; eauto). reflexivity. }
    destruct (N.eqb b b') eqn:E.
    + apply N.eqb_eq in E. subst b'.
      destruct (alookup b (flat_map blocks_node body)) eqn:E2.
      * exfalso. apply alookup_in in E2. apply (in_map fst) in E2.
        eapply NoDup_app_disj; eauto. cbn. now left.
      * cbn. now rewrite N.eqb_refl.
    + rewrite Hl. destruct (find_def b body); auto. cbn. now rewrite E.
  - cbn [blocks_node] in *. rewrite find_def_node_filter.
    clear -IH Hnd. induction IH as [|x l Hx _ IHl]; cbn in *; auto.
    rewrite map_app in Hnd. rewrite alookup_app, Hx by (eapply NoDup_app_l; eauto).
    rewrite IHl by (eapply NoDup_app_r; eauto). reflexivity.
Qed.

Lemma blocks_find : forall b ns,
  NoDup (map fst (blocks_of ns)) -> alookup b (blocks_of ns) = find_def b ns.
Proof.
  unfold blocks_of. induction ns as [|n ns IH]; cbn; intros Hnd; auto.
  rewrite map_app in Hnd. rewrite alookup_app, blocks_find_node by (eapply NoDup_app_l; eauto).
  rewrite IH by (eapply NoDup_app_r; eauto). reflexivity.
Qed.

Lemma compiled_lookup : forall t b, NoDup (map fst (blocks_of (t_body t))) ->
  alookup b (c_blocks (compiled t)) = option_map code_of (defines t b).
Proof.
  intros. cbn. rewrite alookup_map, blocks_find by auto. reflexivity.
Qed.

Lemma top_of_spec_top : forall ns, top_of ns = spec_top ns.
Proof. reflexivity. Qed.

(* ------------------------------------------------------------------ chains *)

Lemma is_chain_in : forall ts ch, is_chain ts ch -> forall t, In t ch -> In t ts.
Proof.
  induction ch as [|t ch IH]; cbn; intros H x Hx; [contradiction|].
  destruct ch as [|p ch].
  - destruct Hx as [->|[]]. tauto.
  - destruct H as (Hin & _ & Hc). destruct Hx as [->|Hx]; auto.
Qed.

Lemma chain_anc : forall ts, NoDup (tnames ts) ->
  forall ch, is_chain ts ch ->
  match ch with
  | [] => False
  | t :: anc => anc_names (map compiled ts) (t_name t) (map t_name anc)
  end.
Proof.
  intros ts Hnd. induction ch as [|t ch IH]; cbn [is_chain]; auto.
  destruct ch as [|p ch].
  - intros [Hin He]. eapply AN_root; [apply get_compiled; eauto|]. exact He.
  - intros (Hin & He & Hc). cbn [map]. eapply AN_step; [apply get_compiled; eauto|exact He|].
    apply (IH Hc).
Qed.

Lemma clin_spec : forall ts, NoDup (tnames ts) ->
  (forall t, In t ts -> NoDup (map fst (blocks_of (t_body t)))) ->
  forall ch b, (forall t, In t ch -> In t ts) ->
  clin (map compiled ts) (map t_name ch) b = map code_of (spec_lineage ch b).
Proof.
  intros ts Hnd Hbl. induction ch as [|t ch IH]; intros b Hin; cbn [map clin spec_lineage]; auto.
  rewrite get_compiled by (auto; apply Hin; now left).
  rewrite compiled_lookup by (apply Hbl; apply Hin; now left).
  destruct (defines t b) as [body|]; cbn [option_map map].
  - rewrite has_super_code. destruct (has_super body); cbn [map]; auto.
    rewrite IH; auto. intros x Hx. apply Hin. now right.
  - apply IH. intros x Hx. apply Hin. now right.
Qed.

Lemma rev_head_last : forall A (l : list A) d, l <> [] -> exists r, rev l = last l d :: r.
Proof.
  induction l as [|x l IH]; intros d H; [contradiction|].
  destruct l as [|y l].
  - exists []. reflexivity.
  - destruct (IH d) as [r Hr]; [discriminate|]. exists (r ++ [x]).
    change (rev (x :: y :: l)) with (rev (y :: l) ++ [x]). rewrite Hr. reflexivity.
Qed.

Lemma last_in : forall A (l : list A) x d, In (last (x :: l) d) (x :: l).
Proof.
  induction l as [|y l IH]; intros x d.
  - left. reflexivity.
  - right. change (last (x :: y :: l) d) with (last (y :: l) d). apply IH.
Qed.

(* ------------------------------------------------------------------ registered sets *)

Section Registered.
  Variable ord : orders.
  Variable ts : list template.
  Variable fr : freg.
  Hypothesis Hord : orders_ok ord.
  Hypothesis Hnd : NoDup (tnames ts).
  Hypothesis Hreg : register ord ts = Ok fr.

  Let reg := map compiled ts.

  Lemma reg_facts :
    compile_all ts = Ok reg /\ finalize ord reg = Ok fr /\
    (forall t, In t ts -> NoDup (map fst (blocks_of (t_body t)))).
  Proof.
    unfold register in Hreg. destruct (compile_all ts) as [r|] eqn:E; [|discriminate].
    destruct (compile_all_ok _ _ E) as [-> Hall]. auto.
  Qed.

  Lemma registered_chain : forall T anc, is_chain ts (T :: anc) ->
    ancl (f_parents fr) (t_name T) = map t_name anc /\
    (forall b, lineage_of fr (t_name T) b = nonempty (map code_of (spec_lineage (T :: anc) b))) /\
    get_tpl (f_tpls fr) (t_name T) = Some (compiled T).
  Proof.
    intros T anc Hc. destruct reg_facts as (Hca & Hfin & Hbl).
    assert (Hwf : reg_wf reg) by (eapply reg_wf_compiled; eauto).
    destruct (finalize_ok ord reg fr Hord Hwf Hfin) as (Htp & HP & _ & Hlin).
    assert (HinT : In T ts) by (eapply is_chain_in; eauto; now left).
    assert (HinC : In (compiled T) reg) by (now apply in_map).
    assert (Ha := chain_anc ts Hnd _ Hc). cbn in Ha.
    destruct HP as (_ & HPall & _). destruct (HPall _ HinC) as (_ & Ha' & _). cbn in Ha'.
    assert (Hancl : ancl (f_parents fr) (t_name T) = map t_name anc) by (eapply an_det; eauto).
    split; auto. split.
    - intros b. assert (Hb := Hlin _ HinC b). cbn [c_name compiled] in Hb. rewrite Hb, Hancl.
      change (t_name T :: map t_name anc) with (map t_name (T :: anc)).
      unfold reg. rewrite clin_spec; auto. eapply is_chain_in; eauto.
    - rewrite Htp. now apply get_compiled.
  Qed.

  Lemma root_chunk : forall T anc, is_chain ts (T :: anc) ->
    match alookup (t_name T) (f_parents fr) with
    | Some (base :: _) =>
        match get_tpl (f_tpls fr) base with
        | Some bt => Ok (c_chunk bt)
        | None => Err ENoTemplate
        end
    | _ => Ok (c_chunk (compiled T))
    end = Ok (code_of (t_body (last (T :: anc) {| t_name := 0%N; t_extends := None; t_body := [] |}))).
  Proof.
    intros T anc Hc. destruct (registered_chain T anc Hc) as (Hancl & _ & _).
    destruct reg_facts as (Hca & Hfin & Hbl).
    assert (Hwf : reg_wf reg) by (eapply reg_wf_compiled; eauto).
    destruct (finalize_ok ord reg fr Hord Hwf Hfin) as (Htp & HP & _ & _).
    unfold ancl in Hancl. destruct (alookup (t_name T) (f_parents fr)) as [ps|] eqn:E.
    - assert (Hps : ps = rev (map t_name anc)) by (rewrite <- Hancl; now rewrite rev_involutive).
      destruct anc as [|p anc].
      + subst ps. cbn. reflexivity.
      + set (d := {| t_name := 0%N; t_extends := None; t_body := [] |}).
        destruct (rev_head_last _ (p :: anc) d) as [r Hr]; [discriminate|].
        rewrite <- map_rev, Hr in Hps. cbn [map] in Hps. subst ps.
        rewrite Htp. unfold reg.
        assert (Hl : In (last (p :: anc) d) ts).
        { eapply is_chain_in; eauto. right. apply last_in. }
        rewrite get_compiled by auto. cbn [c_chunk compiled].
        change (last (T :: p :: anc) d) with (last (p :: anc) d). reflexivity.
    - destruct anc; [reflexivity|discriminate].
  Qed.

  Theorem render_to_spec : forall fuel T anc capture, is_chain ts (T :: anc) ->
    interp true (lineage_of fr (t_name T)) fuel (init_state capture)
           (code_of (t_body (last (T :: anc) {| t_name := 0%N; t_extends := None; t_body := [] |}))) [] =
    match spec_render fuel (T :: anc) with
    | Err e => Err e
    | Ok tr => Ok (fin (init_state capture) [] tr)
    end.
  Proof.
    intros fuel T anc capture Hc. destruct (registered_chain T anc Hc) as (_ & Hlin & _).
    unfold spec_render. apply sim_top. exact Hlin.
  Qed.

  Theorem render_chain_spec_l : forall fuel T anc, is_chain ts (T :: anc) ->
    render_model fuel fr (t_name T) = rmap flat (spec_render fuel (T :: anc)).
  Proof.
    intros fuel T anc Hc. unfold render_model, render_to.
    destruct (registered_chain T anc Hc) as (_ & _ & Hg). rewrite Hg.
    rewrite (root_chunk T anc Hc). cbn [rbind].
    rewrite (render_to_spec fuel T anc None Hc).
    destruct (spec_render fuel (T :: anc)) as [tr|e]; cbn; auto.
    now rewrite erase_none_flat.
  Qed.

  Theorem render_block_spec_l : forall fuel T anc b, is_chain ts (T :: anc) ->
    render_block_model fuel fr (t_name T) b =
    match resolve (T :: anc) b with
    | None => Err EBlockNotFound
    | Some _ => rmap (lastw (Some b) []) (spec_render fuel (T :: anc))
    end.
  Proof.
    intros fuel T anc b Hc. unfold render_block_model, render_block_gen, render_to.
    destruct (registered_chain T anc Hc) as (_ & Hlin & Hg). rewrite Hg, Hlin.
    rewrite (spec_lineage_resolve (T :: anc) b).
    destruct (resolve (T :: anc) b) as [[body anc']|]; cbn [nonempty map]; auto.
    rewrite (root_chunk T anc Hc). cbn [rbind].
    rewrite (render_to_spec fuel T anc (Some b) Hc).
    destruct (spec_render fuel (T :: anc)) as [tr|e]; cbn; auto.
  Qed.
End Registered.
