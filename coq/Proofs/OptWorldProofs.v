(* C09 at whole-world level, part 2: the simulation between `run` on a world and `run` on its
   optimised image (see the header of Proofs/OptWorldBase.v for the architecture). *)
From TeraV Require Import Model.Value Model.Instr Model.Slice Model.Optimize Model.VM Model.StackCheck
  Model.OptWorld Model.World0 Gen.Tables Proofs.OptimizeProofs Proofs.OptimizeSim Proofs.OptWorldBase.
Local Open Scope nat_scope.

(* ------------------------------------------------------------------------------------------ *)
(* 3. lookups in the optimised world                                                           *)
(* ------------------------------------------------------------------------------------------ *)

Lemma assoc_get_map {A B} (f : A -> B) (l : list (str * A)) n :
  assoc_get (map (fun e => (fst e, f (snd e))) l) n = option_map f (assoc_get l n).
Proof.
  induction l as [|[k v] t IH]; [reflexivity|]. cbn [map assoc_get fst snd].
  destruct (str_eqb k n); [reflexivity|exact IH].
Qed.

Lemma opt_templates wd n :
  assoc_get (w_templates (opt_world wd)) n = option_map opt_tpl (assoc_get (w_templates wd) n).
Proof. apply (assoc_get_map opt_tpl). Qed.

Lemma opt_components wd n :
  assoc_get (w_components (opt_world wd)) n =
  option_map (fun dc => (fst dc, opt_chunk (snd dc))) (assoc_get (w_components wd) n).
Proof. apply (assoc_get_map (fun dc : comp_def * list instr => (fst dc, opt_chunk (snd dc)))). Qed.

Lemma opt_lineage_get l n : assoc_get (opt_lineage l) n = option_map (map opt_chunk) (assoc_get l n).
Proof. apply (assoc_get_map (map opt_chunk)). Qed.

Lemma assoc_get_in {A} (l : list (str * A)) n x : assoc_get l n = Some x -> exists k, In (k, x) l.
Proof.
  induction l as [|[k v] t IH]; [discriminate|]. cbn [assoc_get].
  destruct (str_eqb k n).
  - intros H. injection H as <-. exists k. left. reflexivity.
  - intros H. destruct (IH H) as (k' & Hk). exists k'. right. exact Hk.
Qed.

(* the lookup of the current block's entry in State.blocks (interpreter.rs 455-462) *)
Definition find_block (cb : str) :=
  fix find (bs pre : list blk) {struct bs} :=
    match bs with
    | [] => None
    | (bn, lin, lvl) :: t =>
        if str_eqb bn cb then Some (rev pre, (bn, lin, lvl), t) else find t ((bn, lin, lvl) :: pre)
    end.

Lemma find_block_spec cb : forall bs pre,
  match find_block cb bs pre with
  | Some (p, e, q) => rev pre ++ bs = p ++ e :: q
  | None => True
  end.
Proof.
  induction bs as [|[[bn lin] lvl] t IH]; intros pre; cbn [find_block]; [exact I|].
  destruct (str_eqb bn cb) eqn:E; [reflexivity|].
  specialize (IH ((bn, lin, lvl) :: pre)). destruct (find_block cb t ((bn, lin, lvl) :: pre)) as [[[p e] q]|]; [|exact I].
  rewrite <- IH. cbn [rev]. rewrite <- app_assoc. reflexivity.
Qed.

Lemma find_block_opt cb : forall bs pre,
  find_block cb (blocks_opt bs) (blocks_opt pre) =
  match find_block cb bs pre with
  | Some (p, e, q) => Some (blocks_opt p, blk_opt e, blocks_opt q)
  | None => None
  end.
Proof.
  induction bs as [|[[bn lin] lvl] t IH]; intros pre; [reflexivity|].
  cbn [blocks_opt map blk_opt fst snd find_block].
  destruct (str_eqb bn cb).
  - unfold blocks_opt. rewrite map_rev. reflexivity.
  - exact (IH ((bn, lin, lvl) :: pre)).
Qed.

(* ------------------------------------------------------------------------------------------ *)
(* 4. how the helpers of the VM act on related states                                          *)
(* ------------------------------------------------------------------------------------------ *)

Lemma cons_eq_inv {A} (a b : A) l l' : a :: l = b :: l' -> a = b /\ l = l'.
Proof. intros H. split; [exact (f_equal (hd a) H)|exact (f_equal (@tl A) H)]. Qed.

Section Kit.
  Variable good : list instr -> Prop.
  Notation SB := (SB good).
  Notation SR := (SR good).

  Ltac prj := cbn [stack loops setvars caps blocks cur_block parent context global capture_block
                   block_buffer upd_stack upd_loops upd_setvars upd_caps upd_blocks upd_block_buffer
                   push store_global new_state ends map].

  Ltac sbs := unfold SB in *; prj;
    repeat match goal with H : _ /\ _ |- _ => destruct H end;
    repeat split; try assumption; try reflexivity; try congruence.

  Lemma SB_upd_stack s s' x : SB s s' -> SB (upd_stack s x) (upd_stack s' x).
  Proof. intros H. sbs. Qed.
  Lemma SB_push s s' v : SB s s' -> SB (push s v) (push s' v).
  Proof. intros H. sbs. Qed.
  Lemma SB_upd_caps s s' c : SB s s' -> SB (upd_caps s c) (upd_caps s' c).
  Proof. intros H. sbs. Qed.
  Lemma SB_store_global s s' n v : SB s s' -> SB (store_global s n v) (store_global s' n v).
  Proof. intros H. sbs. Qed.
  Lemma SB_upd_block_buffer s s' b : SB s s' -> SB (upd_block_buffer s b) (upd_block_buffer s' b).
  Proof. intros H. sbs. Qed.
  Lemma SB_upd_blocks s s' b cb : SB s s' -> blocks_good good b ->
    SB (upd_blocks s b cb) (upd_blocks s' (blocks_opt b) cb).
  Proof. intros H Hb. sbs. Qed.
  Lemma SB_upd_loops s s' l l' : SB s s' -> map lf_erase l' = map lf_erase l ->
    SB (upd_loops s l) (upd_loops s' l').
  Proof. intros H Hl. sbs. Qed.

  Lemma SB_new c : SB (new_state c) (new_state c).
  Proof. unfold SB. prj. repeat split; constructor. Qed.

  Lemma SR_upd_stack oc bl bl' lo s s' x : SR oc bl bl' lo s s' -> SR oc bl bl' lo (upd_stack s x) (upd_stack s' x).
  Proof. intros [H L]. split; [apply SB_upd_stack; exact H|exact L]. Qed.
  Lemma SR_push oc bl bl' lo s s' v : SR oc bl bl' lo s s' -> SR oc bl bl' lo (push s v) (push s' v).
  Proof. intros [H L]. split; [apply SB_push; exact H|exact L]. Qed.
  Lemma SR_upd_caps oc bl bl' lo s s' c : SR oc bl bl' lo s s' -> SR oc bl bl' lo (upd_caps s c) (upd_caps s' c).
  Proof. intros [H L]. split; [apply SB_upd_caps; exact H|exact L]. Qed.
  Lemma SR_store_global oc bl bl' lo s s' n v :
    SR oc bl bl' lo s s' -> SR oc bl bl' lo (store_global s n v) (store_global s' n v).
  Proof. intros [H L]. split; [apply SB_store_global; exact H|exact L]. Qed.
  Lemma SR_upd_block_buffer oc bl bl' lo s s' b :
    SR oc bl bl' lo s s' -> SR oc bl bl' lo (upd_block_buffer s b) (upd_block_buffer s' b).
  Proof. intros [H L]. split; [apply SB_upd_block_buffer; exact H|exact L]. Qed.

  (* the loop stacks of related states have the same shape *)
  Lemma SB_loops s s' : SB s s' ->
    match loops s, loops s' with
    | [], [] => True
    | f :: t, f' :: t' => lf_erase f' = lf_erase f /\ map lf_erase t' = map lf_erase t
    | _, _ => False
    end.
  Proof.
    intros H. unfold SB in H. repeat match goal with H : _ /\ _ |- _ => destruct H end.
    match goal with H : map lf_erase (loops s') = _ |- _ => rename H into Hl end.
    destruct (loops s), (loops s'); cbn [map] in Hl; try discriminate Hl; [exact I|].
    exact (cons_eq_inv _ _ _ _ Hl).
  Qed.

  Lemma SR_store_local oc bl bl' lo s s' n v :
    SR oc bl bl' lo s s' -> SR oc bl bl' lo (store_local s n v) (store_local s' n v).
  Proof.
    intros [H L]. pose proof (SB_loops _ _ H) as HL. unfold store_local.
    unfold ends in L.
    destruct (loops s) as [|f t] eqn:E, (loops s') as [|f' t'] eqn:E'; try contradiction.
    - apply SR_store_global. split; [exact H|]. unfold ends. rewrite E, E'. exact L.
    - destruct HL as [H1 H2]. split.
      + apply SB_upd_loops; [exact H|]. cbn [map]. rewrite (erase_store _ _ n v H1), H2. reflexivity.
      + unfold ends. prj. exact L.
  Qed.

  (* ---------- reading variables ---------- *)

  Lemma SB_scope s s' : SB s s' -> scope_erase (scope_of s') = scope_erase (scope_of s).
  Proof.
    intros H. unfold SB in H. repeat match goal with H : _ /\ _ |- _ => destruct H end.
    unfold scope_of. cbn [scope_erase].
    repeat match goal with H : _ s' = _ s |- _ => rewrite H; clear H end.
    match goal with H : map lf_erase (loops s') = _ |- _ => rewrite H end.
    match goal with H : option_map scope_erase (parent s') = _ |- _ => rename H into Hp end.
    destruct (parent s), (parent s'); cbn in Hp; try discriminate Hp; [injection Hp as ->|]; reflexivity.
  Qed.

  Lemma SB_get_value s s' n : SB s s' -> get_value s' n = get_value s n.
  Proof.
    intros H. unfold get_value. rewrite <- (scope_get_erase (scope_of s')), <- (scope_get_erase (scope_of s)).
    rewrite (SB_scope _ _ H). reflexivity.
  Qed.

  Lemma fold_erase_irrel (G : ctx -> loop_frame -> ctx) :
    (forall a f f', lf_erase f' = lf_erase f -> G a f' = G a f) ->
    forall l l' c, map lf_erase l' = map lf_erase l -> fold_left G l' c = fold_left G l c.
  Proof.
    intros HG. induction l as [|f l IH]; intros [|f' l'] c H; try discriminate H; [reflexivity|].
    cbn [map] in H. destruct (cons_eq_inv _ _ _ _ H) as [H1 H2]. cbn [fold_left].
    rewrite (HG c _ _ H1). apply IH. exact H2.
  Qed.

  Lemma SB_dump s s' : SB s s' -> dump_context s' = dump_context s.
  Proof.
    intros H. unfold SB in H. repeat match goal with H : _ /\ _ |- _ => destruct H end.
    unfold dump_context. cbv zeta.
    repeat match goal with H : _ s' = _ s |- _ => rewrite H; clear H end.
    match goal with H : map lf_erase (loops s') = _ |- _ => rename H into Hl end.
    assert (Hr : map lf_erase (rev (loops s')) = map lf_erase (rev (loops s))) by (rewrite !map_rev, Hl; reflexivity).
    f_equal. f_equal. apply fold_erase_irrel; [|exact Hr].
    intros a f f' E. rewrite (erase_context _ _ E). reflexivity.
  Qed.

  Lemma SB_load_name s s' n : SB s s' -> load_name_v s' n = load_name_v s n.
  Proof.
    intros H. unfold load_name_v. rewrite (SB_get_value _ _ n H), (SB_dump _ _ H). reflexivity.
  Qed.

  (* ---------- writing ---------- *)

  Section Out.
    Variable W : Type.
    Variable wr : W -> str -> option W.
    Variable wd : world.

    Lemma emit_rel oc bl bl' lo s s' o t : SR oc bl bl' lo s s' ->
      match emit W wr s o t, emit W wr s' o t with
      | Some (s1, o1), Some (s1', o1') => o1' = o1 /\ SR oc bl bl' lo s1 s1'
      | None, None => True
      | _, _ => False
      end.
    Proof.
      intros HR. assert (Hc : caps s' = caps s) by (destruct HR as [H _]; unfold SB in H; tauto).
      unfold emit. rewrite Hc. destruct (caps s) as [|c ct].
      - destruct (sink_write W wr o t); [split; [reflexivity|exact HR]|exact I].
      - split; [reflexivity|]. apply SR_upd_caps. exact HR.
    Qed.

    Lemma write_value_rel oc bl bl' lo ae s s' o v : SR oc bl bl' lo s s' ->
      match write_value W wr wd ae s o v, write_value W wr wd ae s' o v with
      | Some (s1, o1), Some (s1', o1') => o1' = o1 /\ SR oc bl bl' lo s1 s1'
      | None, None => True
      | _, _ => False
      end.
    Proof. intros HR. unfold write_value. destruct (negb ae || value_is_safe v); apply emit_rel; exact HR. Qed.
  End Out.
End Kit.

Lemma all2_lp_sub_refl l : all2 lp_sub l l = true.
Proof.
  induction l as [|a l IH]; [reflexivity|]. cbn. rewrite IH.
  destruct a as [t|]; cbn; [rewrite Nat.eqb_refl|]; reflexivity.
Qed.

Lemma all2_lp_sub_trans : forall a b c, all2 lp_sub a b = true -> all2 lp_sub b c = true -> all2 lp_sub a c = true.
Proof.
  induction a as [|x a IH]; intros [|y b] [|z c] H1 H2; try discriminate; [reflexivity|].
  cbn in *. apply andb_prop in H1. destruct H1 as [H1 H1']. apply andb_prop in H2. destruct H2 as [H2 H2'].
  rewrite (IH _ _ H1' H2'), andb_true_r.
  destruct z as [t|]; [|reflexivity]. destruct y as [t'|]; [|discriminate].
  cbn in H2. apply Nat.eqb_eq in H2. subst t'. exact H1.
Qed.

Lemma tl_map {A B} (f : A -> B) l : tl (map f l) = map f (tl l).
Proof. destruct l; reflexivity. Qed.

Lemma upd_stack_id s : upd_stack s (stack s) = s.
Proof. destruct s; reflexivity. Qed.
Lemma upd_stack_push_id s v : upd_stack (push s v) (stack s) = s.
Proof. destruct s; reflexivity. Qed.

(* ------------------------------------------------------------------------------------------ *)
(* 5. the simulation                                                                           *)
(* ------------------------------------------------------------------------------------------ *)

Section Sim.
  Variable W : Type.
  Variable wr : W -> str -> option W.
  Variable wd : world.
  Hypothesis Hga : forall a, w_get_attr wd VUndef a = None.
  Hypothesis Hblind : scope_blind wd.
  Variable K : nat.     (* a bound on the length of every chunk a run can reach *)

  Definition good (c : list instr) : Prop := cgood c /\ length c <= K.
  Definition tgood (t : template) : Prop :=
    good (t_root_chunk t) /\ forall b lin, assoc_get (t_lineage t) b = Some lin -> Forall good lin.
  Hypothesis Hwt : forall n t, assoc_get (w_templates wd) n = Some t -> tgood t.
  Hypothesis Hwc : forall n d c, assoc_get (w_components wd) n = Some (d, c) -> good c.

  Notation SB := (SB good).
  Notation SR := (SR good).
  Notation runP := (VM.run W wr wd).
  Notation runO := (VM.run W wr (opt_world wd)).

  (* ---------- the unfused chain on the concrete VM ---------- *)

  Definition attr_or_undef (v : value) (a : str) : value :=
    match w_get_attr wd v a with Some x => x | None => VUndef end.

  Fixpoint chain_v (v : value) (attrs : list str) : res value :=
    match attrs with
    | [] => ROk v
    | a :: r => if is_undefined v then RErr ErrRender else chain_v (attr_or_undef v a) r
    end.

  Lemma chain_undef r : r <> [] -> chain_v VUndef r = RErr ErrRender.
  Proof. destruct r; [congruence|reflexivity]. Qed.

  Lemma path_walk_chain : forall attrs v, path_walk_v wd v attrs = chain_v v attrs.
  Proof.
    induction attrs as [|a r IH]; intros v; [reflexivity|]. cbn [path_walk_v chain_v].
    destruct (is_undefined v) eqn:Ev; [reflexivity|].
    unfold attr_or_undef. destruct (w_get_attr wd v a) as [next|] eqn:Eg; [apply IH|].
    destruct r as [|b r']; [reflexivity|]. symmetry. apply chain_undef. discriminate.
  Qed.

  Lemma load_path_chain s n attrs :
    is_magic n = false -> load_path_v wd s (n :: attrs) = chain_v (get_value s n) attrs.
  Proof.
    intros Hm. unfold load_path_v, load_name_v. unfold is_magic in Hm. rewrite Hm.
    destruct attrs as [|a r]; [reflexivity|]. rewrite path_walk_chain. cbn [chain_v].
    destruct (is_undefined (get_value s n)); reflexivity.
  Qed.

  Lemma write_walk_chain : forall attrs v,
    is_undefined v = false ->
    match write_walk_v wd v attrs with ROk x => if is_undefined x then RErr ErrRender else ROk x | RErr e => RErr e end
    = match chain_v v attrs with ROk x => if is_undefined x then RErr ErrRender else ROk x | RErr e => RErr e end.
  Proof.
    induction attrs as [|a r IH]; intros v Hv; [reflexivity|]. cbn [write_walk_v chain_v]. rewrite Hv.
    unfold attr_or_undef. destruct (w_get_attr wd v a) as [next|] eqn:Eg.
    - destruct (is_undefined next) eqn:En; [|apply IH; exact En].
      destruct next; try discriminate En.
      destruct r as [|b r']; [reflexivity|]. cbn [write_walk_v chain_v is_undefined]. rewrite Hga. reflexivity.
    - destruct r as [|b r']; [reflexivity|]. reflexivity.
  Qed.

  Lemma write_path_chain s n attrs :
    is_magic n = false ->
    write_path_v wd s (n :: attrs) =
      match chain_v (get_value s n) attrs with
      | ROk v => if is_undefined v then RErr ErrRender else ROk v
      | RErr e => RErr e
      end.
  Proof.
    intros Hm. unfold write_path_v, load_name_v. unfold is_magic in Hm. rewrite Hm.
    assert (Hroot : (match attrs with [] => get_value s n | _ :: _ => get_value s n end) = get_value s n)
      by (destruct attrs; reflexivity).
    rewrite Hroot. destruct (is_undefined (get_value s n)) eqn:Er.
    - destruct attrs as [|a r]; cbn [chain_v]; rewrite Er; reflexivity.
    - apply write_walk_chain. exact Er.
  Qed.

  (* LoadAttr a1; ...; LoadAttr ak on the original side. The equation holds when there is
     enough fuel for the whole chain or the run is known not to run out of fuel. *)
  Lemma run_attrs : forall attrs fuel tpl ae depth ch pc v st s o,
    code_at ch pc (map LoadAttr attrs) ->
    (length attrs <= fuel \/ runP fuel tpl ae depth ch pc (upd_stack s (v :: st)) o <> ROutOfFuel) ->
    runP fuel tpl ae depth ch pc (upd_stack s (v :: st)) o =
      match chain_v v attrs with
      | ROk v' => runP (fuel - length attrs) tpl ae depth ch (pc + length attrs) (upd_stack s (v' :: st)) o
      | RErr e => RFail e
      end.
  Proof.
    induction attrs as [|a r IH]; intros fuel tpl ae depth ch pc v st s o Hc Hf.
    - cbn [chain_v length]. rewrite Nat.sub_0_r, Nat.add_0_r. reflexivity.
    - destruct fuel as [|f].
      + exfalso. destruct Hf as [Hf|Hf]; [cbn in Hf; lia|apply Hf; reflexivity].
      + cbn [map] in Hc. cbn [VM.run] in *. rewrite (code_at_head _ _ _ _ Hc) in *.
        unfold pop1 in *. cbn [stack upd_stack andb] in *. cbn [chain_v].
        destruct (is_undefined v); [reflexivity|].
        change (push (upd_stack (upd_stack s (v :: st)) st)
                     match w_get_attr wd v a with Some x => x | None => VUndef end)
          with (upd_stack s (attr_or_undef v a :: st)) in *.
        rewrite IH; [|exact (code_at_tail _ _ _ _ Hc)|destruct Hf as [Hf|Hf]; [left; cbn in Hf; lia|right; exact Hf]].
        destruct (chain_v (attr_or_undef v a) r); [|reflexivity].
        cbn [length]. replace (S pc + length r) with (pc + S (length r)) by lia. reflexivity.
  Qed.

  (* LoadName n; LoadAttr* *)
  Lemma run_load_group nm attrs fuel tpl ae depth ch pc s o :
    code_at ch pc (LoadName nm :: map LoadAttr attrs) -> is_magic nm = false ->
    (S (length attrs) <= fuel \/ runP fuel tpl ae depth ch pc s o <> ROutOfFuel) ->
    runP fuel tpl ae depth ch pc s o =
      match chain_v (get_value s nm) attrs with
      | ROk v' => runP (fuel - S (length attrs)) tpl ae depth ch (pc + S (length attrs)) (push s v') o
      | RErr e => RFail e
      end.
  Proof.
    intros Hc Hm Hf. destruct fuel as [|f].
    - exfalso. destruct Hf as [Hf|Hf]; [lia|apply Hf; reflexivity].
    - cbn [VM.run] in *. rewrite (code_at_head _ _ _ _ Hc) in *.
      unfold load_name_v in *. unfold is_magic in Hm. rewrite Hm in *.
      change (push s (get_value s nm)) with (upd_stack s (get_value s nm :: stack s)) in *.
      rewrite (run_attrs attrs f tpl ae depth ch (S pc) (get_value s nm) (stack s) s o);
        [|exact (code_at_tail _ _ _ _ Hc)|destruct Hf as [Hf|Hf]; [left; lia|right; exact Hf]].
      destruct (chain_v (get_value s nm) attrs); [|reflexivity].
      cbn [Nat.sub]. replace (S pc + length attrs) with (pc + S (length attrs)) by lia. reflexivity.
  Qed.

  (* LoadName n; LoadAttr*; WriteTop *)
  Lemma run_write_group nm attrs fuel tpl ae depth ch pc s o :
    code_at ch pc (LoadName nm :: map LoadAttr attrs ++ [WriteTop]) -> is_magic nm = false ->
    (S (S (length attrs)) <= fuel \/ runP fuel tpl ae depth ch pc s o <> ROutOfFuel) ->
    runP fuel tpl ae depth ch pc s o =
      match chain_v (get_value s nm) attrs with
      | ROk v =>
          if is_undefined v then RFail ErrRender
          else match write_value W wr wd (match ae with Some b => b | None => t_autoescape tpl end) s o v with
               | Some (s2, o2) => runP (fuel - S (S (length attrs))) tpl ae depth ch (pc + S (S (length attrs))) s2 o2
               | None => RFail ErrIo
               end
      | RErr e => RFail e
      end.
  Proof.
    intros Hc Hm Hf.
    assert (Hc1 : code_at ch pc (LoadName nm :: map LoadAttr attrs)).
    { change (LoadName nm :: map LoadAttr attrs ++ [WriteTop]) with ((LoadName nm :: map LoadAttr attrs) ++ [WriteTop]) in Hc.
      exact (proj1 (code_at_app _ _ _ _ Hc)). }
    assert (Hw : nth_error ch (pc + S (length attrs)) = Some WriteTop).
    { change (LoadName nm :: map LoadAttr attrs ++ [WriteTop]) with ((LoadName nm :: map LoadAttr attrs) ++ [WriteTop]) in Hc.
      pose proof (proj2 (code_at_app _ _ _ _ Hc)) as H2. cbn [length] in H2. rewrite map_length in H2.
      rewrite <- (Nat.add_0_r (pc + _)). apply H2. reflexivity. }
    assert (Hf1 : S (length attrs) <= fuel \/ runP fuel tpl ae depth ch pc s o <> ROutOfFuel)
      by (destruct Hf as [Hf|Hf]; [left; lia|right; exact Hf]).
    rewrite (run_load_group nm attrs fuel tpl ae depth ch pc s o Hc1 Hm Hf1) in *.
    destruct (chain_v (get_value s nm) attrs) as [v|e]; [|reflexivity].
    destruct (fuel - S (length attrs)) as [|f] eqn:Ef.
    - exfalso. destruct Hf as [Hf|Hf]; [lia|apply Hf; reflexivity].
    - cbn [VM.run] in *. rewrite Hw in *. unfold pop1 in *.
      change (stack (push s v)) with (v :: stack s) in *. cbv beta iota in *.
      rewrite upd_stack_push_id in *.
      destruct (is_undefined v); [reflexivity|].
      destruct (write_value W wr wd _ s o v) as [[s2 o2]|]; [|reflexivity].
      replace (fuel - S (S (length attrs))) with f by lia.
      replace (pc + S (S (length attrs))) with (S (pc + S (length attrs))) by lia. reflexivity.
  Qed.

  (* ---------- outcomes ---------- *)

  (* same sink and related final states, or the same error class *)
  Definition RR (oc : list instr) (bl bl' : list nat) (r r' : rres W) : Prop :=
    match r, r' with
    | RDone s1 o1, RDone s1' o1' => o1' = o1 /\ SR oc bl bl' [] s1 s1'
    | RFail e, RFail e' => e' = e
    | _, _ => False
    end.

  (* dir = true: the original run is the one known to terminate; dir = false: the optimised *)
  Definition live_side (dir : bool) (r r' : rres W) : Prop :=
    if dir then r <> ROutOfFuel else r' <> ROutOfFuel.
  Definition Q (dir : bool) (oc : list instr) (bl bl' : list nat) (r r' : rres W) : Prop :=
    live_side dir r r' -> RR oc bl bl' r r'.

  Lemma Q_fail dir oc bl bl' e : Q dir oc bl bl' (RFail e) (RFail e).
  Proof. intros _. reflexivity. Qed.
  Lemma Q_OO dir oc bl bl' : Q dir oc bl bl' ROutOfFuel ROutOfFuel.
  Proof. intros H. destruct dir; exfalso; apply H; reflexivity. Qed.
  Lemma Q_DD dir oc bl bl' s o s' o' : Q dir oc bl bl' (RDone s o) (RDone s' o') -> o' = o /\ SR oc bl bl' [] s s'.
  Proof. intros H. apply H. destruct dir; discriminate. Qed.
  Lemma Q_FF dir oc bl bl' e e' : Q dir oc bl bl' (RFail e) (RFail e') -> e' = e.
  Proof. intros H. apply H. destruct dir; discriminate. Qed.
  Lemma Q_DF dir oc bl bl' s o e : Q dir oc bl bl' (RDone s o) (RFail e) -> False.
  Proof. intros H. apply H. destruct dir; discriminate. Qed.
  Lemma Q_FD dir oc bl bl' s o e : Q dir oc bl bl' (RFail e) (RDone s o) -> False.
  Proof. intros H. apply H. destruct dir; discriminate. Qed.
  Lemma Q_xO dir oc bl bl' r : r <> ROutOfFuel -> Q dir oc bl bl' r ROutOfFuel ->
    forall oc2 b2 b2' X, Q dir oc2 b2 b2' X ROutOfFuel.
  Proof.
    intros Hr H oc2 b2 b2' X Hl. destruct dir.
    - exfalso. specialize (H Hr). destruct r; exact H.
    - exfalso. apply Hl. reflexivity.
  Qed.
  Lemma Q_Ox dir oc bl bl' r' : r' <> ROutOfFuel -> Q dir oc bl bl' ROutOfFuel r' ->
    forall oc2 b2 b2' Y, Q dir oc2 b2 b2' ROutOfFuel Y.
  Proof.
    intros Hr H oc2 b2 b2' Y Hl. destruct dir.
    - exfalso. apply Hl. reflexivity.
    - exfalso. exact (H Hr).
  Qed.

  Lemma SR_return oc bl bl' lo oc2 s1 s1' s2 s2' :
    SR oc2 (ends s1) (ends s1') [] s2 s2' -> LR oc bl bl' lo (ends s1) (ends s1') -> SR oc bl bl' lo s2 s2'.
  Proof.
    intros [HB HL] H. destruct (LR_nil_inv _ _ _ _ _ HL) as [E1 E2]. split; [exact HB|].
    rewrite E1, E2. exact H.
  Qed.

  Lemma SR_upd_blocks oc bl bl' lo s s' b cb : SR oc bl bl' lo s s' -> blocks_good good b ->
    SR oc bl bl' lo (upd_blocks s b cb) (upd_blocks s' (blocks_opt b) cb).
  Proof. intros [H L] Hb. split; [apply SB_upd_blocks; assumption|exact L]. Qed.

  Lemma blind_fn s s' n k : SB s s' -> w_function wd n k (scope_of s') = w_function wd n k (scope_of s).
  Proof.
    intros H. destruct Hblind as [_ Hf]. rewrite (Hf n k (scope_of s')), (Hf n k (scope_of s)).
    rewrite (SB_scope good _ _ H). reflexivity.
  Qed.
  Lemma blind_filter s s' n v k : SB s s' -> w_filter wd n v k (scope_of s') = w_filter wd n v k (scope_of s).
  Proof.
    intros H. destruct Hblind as [Hf _]. rewrite (Hf n v k (scope_of s')), (Hf n v k (scope_of s)).
    rewrite (SB_scope good _ _ H). reflexivity.
  Qed.

  (* ---------- the statement proved by induction on fuel ---------- *)

  Definition P (dir : bool) (fp fo : nat) : Prop :=
    forall tpl ae depth ch lt n lo s s' o bl bl',
      tgood tpl -> good ch -> ltable_ok ch lt -> n <= length (opt_chunk ch) ->
      lt (group_start (opt_chunk ch) n) = Some lo ->
      SR (opt_chunk ch) bl bl' lo s s' ->
      Q dir (opt_chunk ch) bl bl'
        (runP fp tpl ae depth ch (group_start (opt_chunk ch) n) s o)
        (runO fo (opt_tpl tpl) ae depth (opt_chunk ch) n s' o).

  Lemma lt_walk ch lt : ltable_ok ch lt ->
    forall code pc lo, code_at ch pc code ->
      Forall (fun i => forall ip l, lsucc i ip l = [(S ip, l)]) code ->
      lt pc = Some lo -> exists lo2, lt (pc + length code) = Some lo2 /\ all2 lp_sub lo lo2 = true.
  Proof.
    intros [He _]. induction code as [|i code IH]; intros pc lo Hc Hs Hl.
    - exists lo. rewrite Nat.add_0_r. split; [exact Hl|apply all2_lp_sub_refl].
    - inversion Hs as [|i0 c0 Hi Hs']. subst.
      destruct (He pc i lo (code_at_head _ _ _ _ Hc) Hl) as [_ Hsuc].
      destruct (Hsuc (S pc) lo) as (lo1 & E1 & S1); [rewrite Hi; left; reflexivity|].
      destruct (IH (S pc) lo1 (code_at_tail _ _ _ _ Hc) Hs' E1) as (lo2 & E2 & S2).
      exists lo2. cbn [length]. replace (pc + S (length code)) with (S pc + length code) by lia.
      split; [exact E2|exact (all2_lp_sub_trans _ _ _ S1 S2)].
  Qed.

  Section Step.
    Variable dir : bool.
    Variables fp fo : nat.

    (* a nested run: any good chunk from its start, on related states *)
    Lemma nested tpl ae depth c s s' o : P dir fp fo ->
      tgood tpl -> good c -> SB s s' ->
      Q dir (opt_chunk c) (ends s) (ends s')
        (runP fp tpl ae depth c 0 s o) (runO fo (opt_tpl tpl) ae depth (opt_chunk c) 0 s' o).
    Proof.
      intros IH HT HG HS. destruct (cg_loops _ (proj1 HG)) as (lt & Hlt & H0).
      pose proof (IH tpl ae depth c lt 0 [] s s' o (ends s) (ends s') HT HG Hlt (Nat.le_0_l _)) as H.
      rewrite group_start_0 in H. apply H; [exact H0|]. split; [exact HS|apply LR_base].
    Qed.

    (* one fused instruction against the group it replaces *)
    Lemma fused_step tpl ae depth ch lt n g lo s s' o bl bl' :
      P dir (fp - gsize g) fo -> (dir = false -> gsize g <= fp) ->
      tgood tpl -> good ch -> ltable_ok ch lt ->
      nth_error (opt_chunk ch) n = Some g -> is_fused g = true ->
      lt (group_start (opt_chunk ch) n) = Some lo ->
      SR (opt_chunk ch) bl bl' lo s s' ->
      Q dir (opt_chunk ch) bl bl'
        (runP fp tpl ae depth ch (group_start (opt_chunk ch) n) s o)
        (runO (S fo) (opt_tpl tpl) ae depth (opt_chunk ch) n s' o).
    Proof.
      intros IH Hfuel HT HG Hlt Eg Hf Elt HSR.
      set (oc := opt_chunk ch) in *. destruct HG as [HC HK].
      assert (HSn : S n <= length oc) by (apply nth_error_Some; congruence).
      pose proof (group_start_succ oc n g Eg) as Hsucc.
      destruct HSR as [HB HL].
      destruct (cg_shape _ HC g (nth_error_In _ _ Eg) Hf) as (nm & attrs & Hm & [-> | ->]).
      - (* LoadPath *)
        assert (Hcode : code_at ch (group_start oc n) (LoadName nm :: map LoadAttr attrs ++ [])).
        { eapply fused_group_code; [exact (cg_rel _ HC)|exact Eg| |constructor]. cbn. rewrite app_nil_r. reflexivity. }
        rewrite app_nil_r in Hcode.
        assert (Hgs : gsize (LoadPath (nm :: attrs)) = S (length attrs))
          by (unfold gsize; cbn; rewrite map_length; reflexivity).
        rewrite Hgs in *.
        destruct (lt_walk ch lt Hlt _ _ lo Hcode) as (lo2 & E2 & S2); [|exact Elt|].
        { constructor; [intros; reflexivity|]. apply Forall_forall. intros i Hi. apply in_map_iff in Hi.
          destruct Hi as (a & <- & _). intros; reflexivity. }
        cbn [length] in E2. rewrite map_length in E2.
        intros Hlive.
        assert (Hcond : S (length attrs) <= fp \/ runP fp tpl ae depth ch (group_start oc n) s o <> ROutOfFuel).
        { destruct dir; [right; exact Hlive|left; apply Hfuel; reflexivity]. }
        revert Hlive. rewrite (run_load_group nm attrs fp tpl ae depth ch _ s o Hcode Hm Hcond).
        cbn [VM.run]. rewrite Eg.
        change (load_path_v (opt_world wd)) with (load_path_v wd).
        rewrite (load_path_chain s' nm attrs Hm), (SB_get_value good _ _ nm HB).
        destruct (chain_v (get_value s nm) attrs) as [v|e]; [|intros _; reflexivity].
        rewrite <- Hsucc.
        apply (IH tpl ae depth ch lt (S n) lo2 (push s v) (push s' v) o bl bl' HT (conj HC HK) Hlt HSn).
        + fold oc. rewrite Hsucc. exact E2.
        + apply SR_push. split; [exact HB|exact (LR_sub _ _ _ _ _ _ _ S2 HL)].
      - (* WritePath *)
        assert (Hcode : code_at ch (group_start oc n) (LoadName nm :: map LoadAttr attrs ++ [WriteTop])).
        { eapply fused_group_code; [exact (cg_rel _ HC)|exact Eg|reflexivity|repeat constructor]. }
        assert (Hgs : gsize (WritePath (nm :: attrs)) = S (S (length attrs)))
          by (unfold gsize; cbn; rewrite app_length, map_length; cbn; lia).
        rewrite Hgs in *.
        destruct (lt_walk ch lt Hlt _ _ lo Hcode) as (lo2 & E2 & S2); [|exact Elt|].
        { constructor; [intros; reflexivity|]. apply Forall_app. split.
          - apply Forall_forall. intros i Hi. apply in_map_iff in Hi.
            destruct Hi as (a & <- & _). intros; reflexivity.
          - constructor; [intros; reflexivity|constructor]. }
        cbn [length] in E2. rewrite app_length, map_length in E2. cbn [length] in E2.
        replace (length attrs + 1) with (S (length attrs)) in E2 by lia.
        intros Hlive.
        assert (Hcond : S (S (length attrs)) <= fp \/ runP fp tpl ae depth ch (group_start oc n) s o <> ROutOfFuel).
        { destruct dir; [right; exact Hlive|left; apply Hfuel; reflexivity]. }
        revert Hlive. rewrite (run_write_group nm attrs fp tpl ae depth ch _ s o Hcode Hm Hcond).
        cbn [VM.run]. rewrite Eg.
        change (write_path_v (opt_world wd)) with (write_path_v wd).
        change (write_value W wr (opt_world wd)) with (write_value W wr wd).
        cbn [opt_tpl t_autoescape].
        rewrite (write_path_chain s' nm attrs Hm), (SB_get_value good _ _ nm HB).
        destruct (chain_v (get_value s nm) attrs) as [v|e]; [|intros _; reflexivity].
        destruct (is_undefined v); [intros _; reflexivity|].
        pose proof (write_value_rel good W wr wd oc bl bl' lo
                      (match ae with Some b => b | None => t_autoescape tpl end) s s' o v (conj HB HL)) as HW.
        destruct (write_value W wr wd _ s o v) as [[s2 o2]|], (write_value W wr wd _ s' o v) as [[s2' o2']|];
          try contradiction; [|intros _; reflexivity].
        destruct HW as [-> [HB2 HL2]].
        rewrite <- Hsucc.
        apply (IH tpl ae depth ch lt (S n) lo2 s2 s2' o2 bl bl' HT (conj HC HK) Hlt HSn).
        + fold oc. rewrite Hsucc. exact E2.
        + split; [exact HB2|exact (LR_sub _ _ _ _ _ _ _ S2 HL2)].
    Qed.

    (* ---------- one plain (non-fused) instruction on both sides ---------- *)

    Ltac srs := repeat first
      [ apply SR_push | apply SR_upd_stack | apply SR_upd_caps | apply SR_store_global
      | apply SR_store_local | apply SR_upd_block_buffer ]; try eassumption.

    Ltac ncases HN :=
      match type of HN with
      | Q _ _ _ _ ?r ?r' =>
          revert HN; destruct r as [?s3 ?o3|?e3|], r' as [?s3' ?o3'|?e3'|]; intro HN;
          [ destruct (Q_DD _ _ _ _ _ _ _ _ HN) as [-> ?HS3]
          | exfalso; exact (Q_DF _ _ _ _ _ _ _ HN)
          | refine (Q_xO _ _ _ _ _ _ HN _ _ _ _); discriminate
          | exfalso; exact (Q_FD _ _ _ _ _ _ _ HN)
          | rewrite (Q_FF _ _ _ _ _ _ HN); apply Q_fail
          | refine (Q_xO _ _ _ _ _ _ HN _ _ _ _); discriminate
          | refine (Q_Ox _ _ _ _ _ _ HN _ _ _ _); discriminate
          | refine (Q_Ox _ _ _ _ _ _ HN _ _ _ _); discriminate
          | apply Q_OO ]
      end.



    Ltac sbinc HB :=
      unfold OptWorldBase.SB;
      cbn [stack loops setvars caps blocks cur_block parent context global capture_block block_buffer
           option_map map blocks_opt];
      repeat split; try reflexivity; try (constructor; fail);
      try (f_equal; exact (SB_scope good _ _ HB)).

    Ltac nestg NEST HTx HGx tacSB :=
      match goal with
      | |- Q _ _ _ _ (match VM.run _ _ _ _ ?t2 ?ae2 ?d2 ?cc 0 ?i1 ?oo with _ => _ end)
                     (match VM.run _ _ _ _ _ _ _ _ 0 ?i2 _ with _ => _ end) =>
          let HSI := fresh "HSI" in
          assert (HSI : SB i1 i2) by tacSB;
          let HN := fresh "HN" in
          pose proof (NEST t2 ae2 d2 cc i1 i2 oo HTx HGx HSI) as HN; ncases HN
      end.

    Lemma Forall_tl {A} (Pr : A -> Prop) l : Forall Pr l -> Forall Pr (tl l).
    Proof. intros H. destruct H; [constructor|assumption]. Qed.

    Lemma end_advance f e : lf_end_ip (lf_advance f e) = e.
    Proof. unfold lf_advance. destruct (lf_rest f); reflexivity. Qed.

    Lemma find_block_opt0 cb bs :
      find_block cb (blocks_opt bs) [] =
      match find_block cb bs [] with
      | Some (p, e, q) => Some (blocks_opt p, blk_opt e, blocks_opt q)
      | None => None
      end.
    Proof. exact (find_block_opt cb bs []). Qed.

    (* returning from a block / super() chunk that ran on the caller's State *)
    Lemma SR_block_return oc bl bl' lo oc2 s1 s1' s3 s3' cb :
      SR oc2 (ends s1) (ends s1') [] s3 s3' -> LR oc bl bl' lo (ends s1) (ends s1') ->
      SR oc bl bl' lo (upd_blocks s3 (tl (blocks s3)) cb) (upd_blocks s3' (tl (blocks s3')) cb).
    Proof.
      intros H3 HL. pose proof (SR_return _ _ _ _ _ _ _ _ _ H3 HL) as HR.
      destruct H3 as [HB3 _]. unfold OptWorldBase.SB in HB3.
      destruct HB3 as (_ & _ & _ & Hbk3 & _ & _ & _ & _ & _ & _ & _ & Hbg3).
      rewrite Hbk3. unfold blocks_opt. rewrite tl_map. apply SR_upd_blocks; [exact HR|].
      apply Forall_tl. exact Hbg3.
    Qed.

    Lemma plain_step tpl ae depth ch lt n g lo s s' o bl bl' :
      P dir fp fo ->
      tgood tpl -> good ch -> ltable_ok ch lt ->
      nth_error (opt_chunk ch) n = Some g -> is_fused g = false ->
      lt (group_start (opt_chunk ch) n) = Some lo ->
      SR (opt_chunk ch) bl bl' lo s s' ->
      Q dir (opt_chunk ch) bl bl'
        (runP (S fp) tpl ae depth ch (group_start (opt_chunk ch) n) s o)
        (runO (S fo) (opt_tpl tpl) ae depth (opt_chunk ch) n s' o).
    Proof.
      intros IH HT HG Hlt Eg Hf Elt HSR.
      set (oc := opt_chunk ch) in *. destruct HG as [HC HK].
      destruct (plain_group ch oc (cg_rel _ HC) n g Eg Hf) as (i & Hi & Hr & Hg1).
      assert (HSn : S n <= length oc) by (apply nth_error_Some; congruence).
      assert (Hsucc : group_start oc (S n) = S (group_start oc n))
        by (rewrite (group_start_succ oc n g Eg), Hg1; lia).
      pose proof (cg_iter _ HC) as Hiter.
      pose proof (cg_unfused _ HC i (nth_error_In _ _ Hi)) as Hunf.
      set (ip := group_start oc n) in *.
      destruct (proj1 Hlt ip i lo Hi Elt) as [Hneed Hsuc].
      assert (CONT : forall n2 lo2 s1 s1' o1, n2 <= length oc ->
                In (group_start oc n2, lo2) (lsucc i ip lo) -> SR oc bl bl' lo2 s1 s1' ->
                Q dir oc bl bl' (runP fp tpl ae depth ch (group_start oc n2) s1 o1)
                                (runO fo (opt_tpl tpl) ae depth oc n2 s1' o1)).
      { intros n2 lo2 s1 s1' o1 Hn2 Hin [HB1 HL1]. destruct (Hsuc _ _ Hin) as (lo3 & E3 & Hsub).
        apply (IH tpl ae depth ch lt n2 lo3 s1 s1' o1 bl bl' HT (conj HC HK) Hlt Hn2 E3).
        split; [exact HB1|exact (LR_sub _ _ _ _ _ _ _ Hsub HL1)]. }
      assert (NEXT : forall lo2 s1 s1' o1, In (S ip, lo2) (lsucc i ip lo) -> SR oc bl bl' lo2 s1 s1' ->
                Q dir oc bl bl' (runP fp tpl ae depth ch (S ip) s1 o1)
                                (runO fo (opt_tpl tpl) ae depth oc (S n) s1' o1)).
      { intros lo2 s1 s1' o1 Hin HS1. rewrite <- Hsucc. apply (CONT (S n) lo2); [exact HSn|rewrite Hsucc; exact Hin|exact HS1]. }
      assert (NEST := fun t2 ae2 d2 c2 s2 s2' o2 => nested t2 ae2 d2 c2 s2 s2' o2 IH).
      clear IH Hsuc.
      pose proof HSR as [HB HL].
      pose proof HB as HB0. unfold OptWorldBase.SB in HB0.
      destruct HB0 as (Hst & Hsv & Hcp & Hbk & Hcb & Hpar & Hcx & Hgl & Hcpb & Hbb & Hlp & Hbg).
      cbn [VM.run]. rewrite Hi, Eg. unfold fail.
      cbn [opt_world w_templates w_components w_build_ctx w_filter w_test w_function w_escape w_format
           w_math w_negate w_cmp w_eq w_contains w_as_key w_map_get w_get_attr w_max_depth
           opt_tpl t_autoescape t_lineage].
      change (subscript (opt_world wd)) with (subscript wd).
      change (write_value W wr (opt_world wd)) with (write_value W wr wd).
      change (build_map_pairs (opt_world wd)) with (build_map_pairs wd).
      change (map_of_pairs (opt_world wd)) with (map_of_pairs wd).
      change (build_map_spreads (opt_world wd)) with (build_map_spreads wd).
      Ltac qfin NEXT :=
        repeat match goal with
        | |- Q _ _ _ _ (RFail ?e) (RFail ?e) => apply Q_fail
        | |- Q _ _ _ _ (match ?x with _ => _ end) (match ?x with _ => _ end) => destruct x
        | |- Q _ _ _ _ (if ?x then _ else _) (if ?x then _ else _) => destruct x
        | |- Q _ _ _ _ (VM.run _ _ _ _ _ _ _ _ (S _) _ _) _ => eapply NEXT; [left; reflexivity|srs]
        end.
      Ltac p1 Hst s := unfold pop1; rewrite ?Hst; destruct (stack s) as [|?v ?st]; [apply Q_fail|]; cbv beta iota.
      Ltac p2 Hst s := unfold pop2; rewrite ?Hst; destruct (stack s) as [|?v [|?v ?st]]; [apply Q_fail|apply Q_fail|]; cbv beta iota.
      destruct (rel_inv _ _ _ Hr) as [[Hnt ->] | (t & t' & Ht & -> & Htl & Hgt)].
      - (* no jump target: the same instruction on both sides *)
        destruct i; cbn [target_of] in Hnt; try discriminate Hnt; try discriminate Hunf;
          cbn [lsucc tl] in CONT, NEXT; cbn [lneed] in Hneed.
        + (* LoadConst *) qfin NEXT.
        + (* LoadName *) rewrite (SB_load_name good _ _ n0 HB). qfin NEXT.
        + (* LoadAttr *) p1 Hst s. cbn [andb]. qfin NEXT.
        + (* LoadAttrOpt *) p1 Hst s. qfin NEXT.
        + (* BinarySubscript *) p2 Hst s. qfin NEXT.
        + (* BinarySubscriptOpt *) p2 Hst s. qfin NEXT.
        + (* Slice *) rewrite Hst. qfin NEXT.
        + (* SliceOpt *) rewrite Hst. qfin NEXT.
        + (* WriteText *)
          pose proof (emit_rel good W wr oc bl bl' lo s s' o t HSR) as HE.
          destruct (emit W wr s o t) as [[s1 o1]|], (emit W wr s' o t) as [[s1' o1']|]; try contradiction;
            [destruct HE as [-> HE]; eapply NEXT; [left; reflexivity|exact HE]|apply Q_fail].
        + (* WriteTop *) p1 Hst s. destruct (is_undefined v); [apply Q_fail|].
          match goal with |- context[write_value W wr wd ?b (upd_stack s ?st0) o v] =>
            pose proof (write_value_rel good W wr wd oc bl bl' lo b (upd_stack s st0) (upd_stack s' st0) o v
                          ltac:(srs)) as HE;
            destruct (write_value W wr wd b (upd_stack s st0) o v) as [[s1 o1]|],
                     (write_value W wr wd b (upd_stack s' st0) o v) as [[s1' o1']|]; try contradiction;
            [destruct HE as [-> HE]; eapply NEXT; [left; reflexivity|exact HE]|apply Q_fail]
          end.
        + (* SetI *) p1 Hst s. qfin NEXT.
        + (* SetGlobal *) p1 Hst s. qfin NEXT.
        + (* Include *)
          rewrite (assoc_get_map opt_tpl).
          destruct (assoc_get (w_templates wd) n0) as [t2|] eqn:Et; cbn [option_map]; [|apply Q_fail].
          pose proof (Hwt _ _ Et) as HT2. rewrite Hcp, Hcx. cbn [opt_tpl t_root_chunk].
          destruct (caps s) as [|c ct].
          * nestg NEST HT2 (proj1 HT2) ltac:(sbinc HB). qfin NEXT.
          * nestg NEST HT2 (proj1 HT2) ltac:(sbinc HB). qfin NEXT.
        + (* BuildMap *) rewrite Hst. qfin NEXT.
        + (* BuildList *) rewrite Hst. qfin NEXT.
        + (* BuildMapWithSpreads *) rewrite Hst. qfin NEXT.
        + (* BuildListWithSpreads *) rewrite Hst. qfin NEXT.
        + (* CallFunction *)
          p1 Hst s. destruct (str_eqb n0 [115; 117; 112; 101; 114]%N).
          * (* super() *)
            cbn [cur_block upd_stack blocks caps]. rewrite ?Hcb, ?Hbk, ?Hcp.
            destruct (cur_block s) as [cb|]; [|apply Q_fail].
            match goal with |- context [?f (blocks s) []] =>
              change (f (blocks s) []) with (find_block cb (blocks s) []) end.
            match goal with |- context [?f (blocks_opt (blocks s)) []] =>
              change (f (blocks_opt (blocks s)) []) with (find_block cb (blocks_opt (blocks s)) []) end.
            rewrite find_block_opt0.
            pose proof (find_block_spec cb (blocks s) []) as FS.
            destruct (find_block cb (blocks s) []) as [[[pre [[bn lin] lvl]] post]|]; [|apply Q_fail].
            cbn [rev app] in FS. cbn [blk_opt fst snd]. rewrite nth_error_map.
            destruct (nth_error lin (S lvl)) as [bchunk|] eqn:En; cbn [option_map]; [|apply Q_fail].
            assert (Hbg' : blocks_good good (pre ++ (bn, lin, lvl) :: post)) by (rewrite <- FS; exact Hbg).
            assert (HbgL : forall l, blocks_good good (pre ++ (bn, lin, l) :: post)).
            { intros l. pose proof Hbg' as X. apply Forall_app in X. destruct X as [Xa Xb].
              apply Forall_app. split; [exact Xa|]. inversion Xb; subst. constructor; assumption. }
            assert (Hlin : Forall good lin).
            { pose proof Hbg' as X. apply Forall_app in X. destruct X as [_ Xb]. exact (Forall_inv Xb). }
            assert (Hbc : good bchunk) by (rewrite Forall_forall in Hlin; apply Hlin; exact (nth_error_In _ _ En)).
            assert (EB : forall l, blocks_opt pre ++ (bn, map opt_chunk lin, l) :: blocks_opt post
                                   = blocks_opt (pre ++ (bn, lin, l) :: post))
              by (intros l; unfold blocks_opt; rewrite map_app; reflexivity).
            rewrite !EB.
            nestg NEST HT Hbc ltac:(apply SB_upd_caps, SB_upd_blocks; [apply SB_upd_stack; exact HB|exact (HbgL (S lvl))]).
            destruct o3 as [|text]; [apply Q_fail|].
            eapply NEXT; [left; reflexivity|]. apply SR_push, SR_upd_caps.
            pose proof HS3 as [HB3 _]. unfold OptWorldBase.SB in HB3.
            destruct HB3 as (_ & _ & _ & _ & Hcb3 & _). rewrite Hcb3.
            apply SR_upd_blocks; [|exact (HbgL lvl)].
            eapply SR_return; [exact HS3|exact HL].
          * destruct (kwargs_of v) as [k|]; [|apply Q_fail].
            rewrite (blind_fn (upd_stack s st) (upd_stack s' st) n0 k ltac:(apply SB_upd_stack; exact HB)).
            qfin NEXT.
        + (* RenderInlineComponent *)
          p1 Hst s. rewrite (assoc_get_map (fun dc : comp_def * list instr => (fst dc, opt_chunk (snd dc)))).
          destruct (kwargs_of v) as [k|]; [|apply Q_fail].
          destruct (assoc_get (w_components wd) n0) as [[def cchunk]|] eqn:Ec; cbn [option_map fst snd]; [|apply Q_fail].
          pose proof (Hwc _ _ _ Ec) as Hcc.
          destruct (w_build_ctx wd def k None) as [cctx|]; [|apply Q_fail].
          destruct (Nat.ltb (w_max_depth wd) (S depth)); [apply Q_fail|].
          nestg NEST HT Hcc ltac:(apply SB_new). qfin NEXT.
        + (* RenderBodyComponent *)
          p1 Hst s. rewrite (assoc_get_map (fun dc : comp_def * list instr => (fst dc, opt_chunk (snd dc)))).
          destruct (kwargs_of v) as [k|]; [|apply Q_fail].
          destruct (assoc_get (w_components wd) n0) as [[def cchunk]|] eqn:Ec; cbn [option_map fst snd]; [|apply Q_fail].
          pose proof (Hwc _ _ _ Ec) as Hcc.
          cbn [stack upd_stack]. destruct st as [|b st2]; cbv beta iota; [apply Q_fail|].
          destruct (w_build_ctx wd def k (Some (mark_safe b))) as [cctx|]; [|apply Q_fail].
          destruct (Nat.ltb (w_max_depth wd) (S depth)); [apply Q_fail|].
          nestg NEST HT Hcc ltac:(apply SB_new). qfin NEXT.
        + (* ApplyFilter *) p2 Hst s.
          destruct (kwargs_of v); [|apply Q_fail].
          rewrite (blind_filter (upd_stack s st) (upd_stack s' st) n0 v0 k ltac:(apply SB_upd_stack; exact HB)).
          qfin NEXT.
        + (* RunTest *) p2 Hst s. qfin NEXT.
        + (* RenderBlock *)
          rewrite opt_lineage_get.
          destruct (assoc_get (t_lineage tpl) n0) as [[|bchunk lin_rest]|] eqn:El; cbn [option_map map]; try apply Q_fail.
          pose proof (proj2 HT _ _ El) as Hlin. assert (Hbc : good bchunk) by exact (Forall_inv Hlin).
          rewrite Hcpb, Hbk, Hcb, Hcp.
          change ((n0, opt_chunk bchunk :: map opt_chunk lin_rest, 0) :: blocks_opt (blocks s))
            with (blocks_opt ((n0, bchunk :: lin_rest, 0) :: blocks s)).
          assert (Hbg1 : blocks_good good ((n0, bchunk :: lin_rest, 0) :: blocks s)) by (constructor; assumption).
          destruct (match capture_block s with Some cbn0 => str_eqb cbn0 n0 | None => false end).
          * nestg NEST HT Hbc ltac:(apply SB_upd_caps, SB_upd_blocks; [exact HB|exact Hbg1]).
            destruct o3 as [|text]; [apply Q_fail|].
            eapply NEXT; [left; reflexivity|]. apply SR_upd_block_buffer, SR_upd_caps.
            eapply SR_block_return; [exact HS3|exact HL].
          * nestg NEST HT Hbc ltac:(apply SB_upd_blocks; [exact HB|exact Hbg1]).
            eapply NEXT; [left; reflexivity|]. eapply SR_block_return; [exact HS3|exact HL].
        + (* Capture *) rewrite Hcp. qfin NEXT.
        + (* EndCapture *) rewrite Hcp. qfin NEXT.
        + (* StartIterate *)
          p1 Hst s. destruct (iter_items v) as [items|]; [|apply Q_fail].
          destruct (kv && negb (is_map v)); [apply Q_fail|].
          eapply NEXT; [left; reflexivity|]. split.
          * apply SB_upd_loops; [apply SB_upd_stack; exact HB|]. cbn [map loops upd_stack]. rewrite Hlp. reflexivity.
          * unfold ends. cbn [loops upd_loops upd_stack map]. apply LR_cons; [exact I|exact (end_rel_00 oc)|exact HL].
        + (* StartIterateComprehension *)
          p1 Hst s. destruct (iter_items v) as [items|]; [|apply Q_fail].
          destruct (kv && negb (is_map v)); [apply Q_fail|].
          eapply NEXT; [left; reflexivity|]. split.
          * apply SB_upd_loops; [apply SB_upd_stack; exact HB|]. cbn [map loops upd_stack]. rewrite Hlp. reflexivity.
          * unfold ends. cbn [loops upd_loops upd_stack map]. apply LR_cons; [exact I|exact (end_rel_00 oc)|exact HL].
        + (* StoreLocal *)
          pose proof (SB_loops good _ _ HB) as HLs. unfold ends in HL.
          destruct (loops s) as [|fr t] eqn:El, (loops s') as [|fr' t'] eqn:El'; try contradiction.
          * eapply NEXT; [left; reflexivity|exact HSR].
          * destruct HLs as [H1 H2]. eapply NEXT; [left; reflexivity|]. split.
            -- apply SB_upd_loops; [exact HB|]. cbn [map]. rewrite (erase_store_local _ _ n0 H1), H2. reflexivity.
            -- unfold ends. cbn [loops upd_loops map]. rewrite !end_store_local. exact HL.
        + (* StoreDidNotIterate *)
          pose proof (SB_loops good _ _ HB) as HLs.
          destruct (loops s) as [|fr t] eqn:El, (loops s') as [|fr' t'] eqn:El'; try contradiction.
          * eapply NEXT; [left; reflexivity|exact HSR].
          * destruct HLs as [H1 H2]. rewrite (erase_iterated _ _ H1). qfin NEXT.
        + (* Break *)
          destruct Hneed as (tb & lr & ->). cbn [lsucc] in CONT.
          destruct (LR_pop _ _ _ _ _ _ _ HL) as (e & e' & es & es' & E1 & E2 & Hk & Hre & HL').
          unfold ends in E1, E2.
          destruct (loops s) as [|fr t] eqn:El; [discriminate E1|].
          destruct (loops s') as [|fr' t'] eqn:El'; [discriminate E2|].
          cbn [map] in E1, E2. destruct (cons_eq_inv _ _ _ _ E1) as [E1a E1b]. destruct (cons_eq_inv _ _ _ _ E2) as [E2a E2b].
          subst e e'. cbn [lok] in Hk.
          assert (G : group_start oc (lf_end_ip fr') = lf_end_ip fr /\ lf_end_ip fr' <= length oc).
          { destruct Hre as [[-> ->]|(_ & _ & N3 & N4)]; [split; [reflexivity|lia]|split; assumption]. }
          destruct G as [G1 G2]. rewrite <- G1.
          apply (CONT (lf_end_ip fr') (Some tb :: lr)); [exact G2|left; rewrite G1, Hk; reflexivity|exact HSR].
        + (* PopLoop *)
          destruct lo as [|a lr]; [congruence|]. cbn [tl] in NEXT.
          destruct (LR_pop _ _ _ _ _ _ _ HL) as (e & e' & es & es' & E1 & E2 & _ & _ & HL').
          eapply NEXT; [left; reflexivity|]. split.
          * apply SB_upd_loops; [exact HB|]. rewrite <- !tl_map, Hlp. reflexivity.
          * unfold ends in *. cbn [loops upd_loops]. rewrite <- !tl_map, E1, E2. exact HL'.
        + (* AppendToList *) rewrite Hst. qfin NEXT.
        + p2 Hst s. qfin NEXT.
        + p2 Hst s. qfin NEXT.
        + p2 Hst s. qfin NEXT.
        + p2 Hst s. qfin NEXT.
        + p2 Hst s. qfin NEXT.
        + p2 Hst s. qfin NEXT.
        + p2 Hst s. qfin NEXT.
        + p2 Hst s. qfin NEXT.
        + p2 Hst s. qfin NEXT.
        + p2 Hst s. qfin NEXT.
        + p2 Hst s. qfin NEXT.
        + p2 Hst s. qfin NEXT.
        + p2 Hst s. qfin NEXT.
        + p2 Hst s. qfin NEXT.
        + p2 Hst s. qfin NEXT.
        + p1 Hst s. qfin NEXT.
        + p1 Hst s. qfin NEXT.
      - (* a jump: the same instruction, re-pointed to the group that starts at the old target *)
        destruct i; cbn [target_of] in Ht; try discriminate Ht; injection Ht as Ht; subst t;
          cbn [set_target]; cbn [lsucc tl] in CONT, NEXT; cbn [lneed] in Hneed.
        + (* Jump *)
          rewrite <- Hgt. apply (CONT t' lo); [exact Htl|left; rewrite Hgt; reflexivity|exact HSR].
        + (* PopJumpIfFalse *)
          p1 Hst s. destruct (is_truthy v).
          * eapply NEXT; [left; reflexivity|srs].
          * rewrite <- Hgt. apply (CONT t' lo); [exact Htl|right; left; rewrite Hgt; reflexivity|srs].
        + (* JumpIfFalseOrPop *)
          p1 Hst s. destruct (is_truthy v).
          * eapply NEXT; [left; reflexivity|srs].
          * rewrite <- Hgt. apply (CONT t' lo); [exact Htl|right; left; rewrite Hgt; reflexivity|exact HSR].
        + (* JumpIfTrueOrPop *)
          p1 Hst s. destruct (is_truthy v).
          * rewrite <- Hgt. apply (CONT t' lo); [exact Htl|right; left; rewrite Hgt; reflexivity|exact HSR].
          * eapply NEXT; [left; reflexivity|srs].
        + (* Iterate *)
          destruct lo as [|a lr]; [congruence|]. cbn [tl] in NEXT.
          destruct (LR_pop _ _ _ _ _ _ _ HL) as (e & e' & es & es' & E1 & E2 & Hk & Hre & HL').
          pose proof (SB_loops good _ _ HB) as HLs. unfold ends in E1, E2.
          destruct (loops s) as [|fr tf] eqn:El; [discriminate E1|].
          destruct (loops s') as [|fr' tf'] eqn:El'; [discriminate E2|].
          destruct HLs as [H1 H2].
          cbn [map] in E1, E2. destruct (cons_eq_inv _ _ _ _ E1) as [E1a E1b]. destruct (cons_eq_inv _ _ _ _ E2) as [E2a E2b].
          subst e e' es es'.
          rewrite (erase_rest _ _ H1). destruct (lf_rest fr) eqn:Er.
          * rewrite <- Hgt. apply (CONT t' (a :: lr)); [exact Htl|right; left; rewrite Hgt; reflexivity|exact HSR].
          * eapply NEXT; [left; reflexivity|]. split.
            -- apply SB_upd_loops; [exact HB|]. cbn [map]. rewrite H2. f_equal.
               apply erase_advance; [exact H1|exact (end_rel_zero oc _ _ Hre)].
            -- unfold ends. cbn [loops upd_loops map]. rewrite !end_advance.
               apply LR_cons; [reflexivity| |exact HL'].
               pose proof (Hiter _ _ Hi) as Hfw. right. repeat split; try lia; try assumption.
               intros ->. rewrite group_start_0 in Hgt. lia.
    Qed.
  End Step.

  (* ---------- the two inductions on fuel ---------- *)

  Lemma run_exit f tpl ae depth ch s o wdx : VM.run W wr wdx (S f) tpl ae depth ch (length ch) s o = RDone s o.
  Proof.
    cbn [VM.run]. assert (nth_error ch (length ch) = None) as -> by (apply nth_error_None; lia). reflexivity.
  Qed.

  Lemma gsize_bound ch g : good ch -> In g (opt_chunk ch) -> gsize g <= K.
  Proof.
    intros [HC HK] Hg. pose proof (gsize_le_expand _ _ Hg) as H. rewrite (cg_len _ HC) in H. lia.
  Qed.

  (* at the exit of the chunk on both sides *)
  Lemma exit_step dir fp fo tpl ae depth ch lt n lo s s' o bl bl' :
    good ch -> ltable_ok ch lt -> nth_error (opt_chunk ch) n = None -> n <= length (opt_chunk ch) ->
    lt (group_start (opt_chunk ch) n) = Some lo -> SR (opt_chunk ch) bl bl' lo s s' ->
    Q dir (opt_chunk ch) bl bl'
      (runP (S fp) tpl ae depth ch (group_start (opt_chunk ch) n) s o)
      (runO (S fo) (opt_tpl tpl) ae depth (opt_chunk ch) n s' o).
  Proof.
    intros [HC HK] [_ Hexit] En Hn Elt HSR.
    assert (n = length (opt_chunk ch)) by (apply nth_error_None in En; lia). subst n.
    rewrite (group_start_len_p ch _ (cg_rel _ HC)) in *. rewrite !run_exit.
    rewrite (Hexit _ Elt) in HSR. intros _. split; [reflexivity|exact HSR].
  Qed.

  (* original => optimised: the same fuel (or more) suffices on the optimised side *)
  Lemma P_true : forall N fp fo, fp <= N -> fp <= fo -> P true fp fo.
  Proof.
    induction N as [|N IH]; intros fp fo HN Hle.
    - assert (fp = 0) by lia. subst. intros tpl ae depth ch lt n lo s s' o bl bl' _ _ _ _ _ _ Hl.
      exfalso. apply Hl. reflexivity.
    - destruct fp as [|fp]; [apply (IH 0 fo); lia|].
      destruct fo as [|fo]; [lia|].
      intros tpl ae depth ch lt n lo s s' o bl bl' HT HG Hlt Hn Elt HSR.
      destruct (nth_error (opt_chunk ch) n) as [g|] eqn:Eg.
      + destruct (is_fused g) eqn:Ef.
        * pose proof (gsize_pos g).
          apply (fused_step true (S fp) fo tpl ae depth ch lt n g lo s s' o bl bl'); try assumption.
          -- apply (IH (S fp - gsize g) fo); lia.
          -- discriminate.
        * apply (plain_step true fp fo tpl ae depth ch lt n g lo s s' o bl bl'); try assumption.
          apply (IH fp fo); lia.
      + apply (exit_step true fp fo tpl ae depth ch lt n lo s s' o bl bl'); assumption.
  Qed.

  (* optimised => original: every optimised step is at most K original steps *)
  Lemma P_false : forall fo fp, S K * fo <= fp -> P false fp fo.
  Proof.
    induction fo as [|fo IH]; intros fp Hle.
    - intros tpl ae depth ch lt n lo s s' o bl bl' _ _ _ _ _ _ Hl. exfalso. apply Hl. reflexivity.
    - intros tpl ae depth ch lt n lo s s' o bl bl' HT HG Hlt Hn Elt HSR.
      destruct fp as [|fp]; [lia|].
      destruct (nth_error (opt_chunk ch) n) as [g|] eqn:Eg.
      + destruct (is_fused g) eqn:Ef.
        * pose proof (gsize_pos g). pose proof (gsize_bound ch g HG (nth_error_In _ _ Eg)).
          apply (fused_step false (S fp) fo tpl ae depth ch lt n g lo s s' o bl bl'); try assumption.
          -- apply IH. lia.
          -- intros _. lia.
        * apply (plain_step false fp fo tpl ae depth ch lt n g lo s s' o bl bl'); try assumption.
          apply IH. lia.
      + apply (exit_step false fp fo tpl ae depth ch lt n lo s s' o bl bl'); assumption.
  Qed.

  (* ---------- render_to ---------- *)

  (* what a caller of render_to observes: the writer, or the error class *)
  Definition same_outcome (r r' : rres W) : Prop :=
    match r, r' with
    | RDone _ o, RDone _ o' => o' = o
    | RFail e, RFail e' => e' = e
    | _, _ => False
    end.

  Lemma render_rel dir fp fo tpl block c g w : P dir fp fo -> tgood tpl ->
    live_side dir (render_to W wr wd fp tpl block c g w)
                  (render_to W wr (opt_world wd) fo (opt_tpl tpl) block c g w) ->
    same_outcome (render_to W wr wd fp tpl block c g w)
                 (render_to W wr (opt_world wd) fo (opt_tpl tpl) block c g w).
  Proof.
    intros HP HT. unfold render_to. cbn [opt_tpl t_root_chunk].
    set (s0 := {| stack := []; loops := []; setvars := []; caps := []; blocks := []; cur_block := None;
                  parent := None; context := c; global := Some g; capture_block := block;
                  block_buffer := [] |}).
    assert (HS0 : SB s0 s0) by (unfold OptWorldBase.SB; cbn; repeat split; constructor).
    destruct block as [b|].
    - pose proof (nested dir fp fo tpl None 0 (t_root_chunk tpl) s0 s0 (SinkBuf []) HP HT (proj1 HT) HS0) as HN.
      revert HN.
      destruct (runP fp tpl None 0 (t_root_chunk tpl) 0 s0 (SinkBuf [])) as [s1 o1|e1|],
               (runO fo (opt_tpl tpl) None 0 (opt_chunk (t_root_chunk tpl)) 0 s0 (SinkBuf [])) as [s1' o1'|e1'|];
        intros HN Hl.
      + destruct (Q_DD _ _ _ _ _ _ _ _ HN) as [_ [HB _]]. unfold OptWorldBase.SB in HB.
        destruct HB as (_ & _ & _ & _ & _ & _ & _ & _ & _ & Hbb & _). rewrite Hbb.
        destruct (wr w (block_buffer s1)); reflexivity.
      + exfalso. exact (Q_DF _ _ _ _ _ _ _ HN).
      + exfalso. destruct dir; [|apply Hl; reflexivity].
        destruct (wr w (block_buffer s1)); exact (HN ltac:(discriminate)).
      + exfalso. exact (Q_FD _ _ _ _ _ _ _ HN).
      + exact (Q_FF _ _ _ _ _ _ HN).
      + exfalso. destruct dir; [exact (HN ltac:(discriminate))|apply Hl; reflexivity].
      + exfalso. destruct dir; [apply Hl; reflexivity|].
        destruct (wr w (block_buffer s1')); exact (HN ltac:(discriminate)).
      + exfalso. destruct dir; [apply Hl; reflexivity|exact (HN ltac:(discriminate))].
      + exfalso. destruct dir; apply Hl; reflexivity.
    - pose proof (nested dir fp fo tpl None 0 (t_root_chunk tpl) s0 s0 (SinkTop w) HP HT (proj1 HT) HS0) as HN.
      intros Hl. specialize (HN Hl).
      destruct (runP fp tpl None 0 (t_root_chunk tpl) 0 s0 (SinkTop w)) as [s1 o1|e1|],
               (runO fo (opt_tpl tpl) None 0 (opt_chunk (t_root_chunk tpl)) 0 s0 (SinkTop w)) as [s1' o1'|e1'|];
        cbn in HN; try contradiction; [exact (proj1 HN)|exact HN].
  Qed.
End Sim.

(* ------------------------------------------------------------------------------------------ *)
(* 6. from the decidable checks to the hypotheses of the simulation                            *)
(* ------------------------------------------------------------------------------------------ *)

Definition max_len (l : list (list instr)) : nat := fold_right (fun c m => Nat.max (length c) m) 0 l.

Lemma max_len_in l c : In c l -> length c <= max_len l.
Proof.
  induction l as [|x l IH]; intros []; cbn [max_len fold_right]; fold (max_len l).
  - subst. lia.
  - specialize (IH H). lia.
Qed.

(* the fuel factor of the direction optimised => original *)
Definition world_bound (wd : world) (tpl : template) : nat :=
  S (max_len (world_chunks wd ++ chunks_of_tpl tpl)).

Lemma world_tpl_chunks wd n t c :
  assoc_get (w_templates wd) n = Some t -> In c (chunks_of_tpl t) -> In c (world_chunks wd).
Proof.
  intros H Hc. destruct (assoc_get_in _ _ _ H) as (k & Hk). unfold world_chunks.
  apply in_or_app. left. apply in_flat_map. exists (k, t). split; [exact Hk|exact Hc].
Qed.

Lemma world_comp_chunk wd n d c :
  assoc_get (w_components wd) n = Some (d, c) -> In c (world_chunks wd).
Proof.
  intros H. destruct (assoc_get_in _ _ _ H) as (k & Hk). unfold world_chunks.
  apply in_or_app. right. apply in_map_iff. exists (k, (d, c)). split; [reflexivity|exact Hk].
Qed.

Lemma lineage_chunk t b lin c : assoc_get (t_lineage t) b = Some lin -> In c lin -> In c (chunks_of_tpl t).
Proof.
  intros H Hc. destruct (assoc_get_in _ _ _ H) as (k & Hk). unfold chunks_of_tpl.
  right. right. apply in_flat_map. exists (k, lin). split; [exact Hk|exact Hc].
Qed.

Lemma tpl_ok_of_world wd n t : world_ok wd = true -> assoc_get (w_templates wd) n = Some t -> tpl_ok t = true.
Proof.
  unfold world_ok, tpl_ok. rewrite !forallb_forall. intros H Ht c Hc. apply H.
  exact (world_tpl_chunks _ _ _ _ Ht Hc).
Qed.

Lemma tgood_of_chunks K t :
  (forall c, In c (chunks_of_tpl t) -> good K c) -> tgood K t.
Proof.
  intros H. split.
  - apply H. right. left. reflexivity.
  - intros b lin Hb. apply Forall_forall. intros c Hc. apply H. exact (lineage_chunk _ _ _ _ Hb Hc).
Qed.

Lemma opt_world_defined_ok wd : world_ok wd = true -> opt_world_defined wd = true.
Proof.
  unfold world_ok, opt_world_defined. rewrite !forallb_forall. intros H c Hc.
  unfold opt_defined. rewrite (opt_chunk_defined c (H c Hc)). reflexivity.
Qed.

(* WHOLE-WORLD CORRECTNESS OF THE FUSION PASS.
   wd: any world (templates with their root chunks and block lineages, components, and arbitrary
   filters / tests / functions / arithmetic / comparison / escaping / formatting) such that
     - every chunk passes the four decidable checks of `chunk_ok` (no fused instruction yet, jump
       targets in range, Iterate targets forward, C07's stack validator),
     - get_attr on Undefined is None, and filters / functions do not observe stored end_ips;
   tpl: any template whose chunks pass the same checks (in particular any template of wd).
   Then for every writer, block option, context and global context, rendering on the optimised
   world agrees with rendering on the original one — same writer state (the bytes written) or
   same error class:
     (1) if the original render terminates with `fuel`, so does the optimised one with the SAME
         fuel, with the same outcome;
     (2) if the optimised render terminates with `fuel'`, so does the original one with
         `world_bound wd tpl * fuel'`, with the same outcome;
   and every `optimize` call made by opt_world succeeded (no index_map panic). *)
Theorem optimize_world_correct (W : Type) (wr : W -> str -> option W) (wd : world) (tpl : template) :
  world_ok wd = true -> tpl_ok tpl = true ->
  (forall a, w_get_attr wd VUndef a = None) -> scope_blind wd ->
  opt_world_defined wd = true /\
  forall (block : option str) (c g : ctx) (w : W),
    (forall fuel,
       render_to W wr wd fuel tpl block c g w <> ROutOfFuel ->
       same_outcome W (render_to W wr wd fuel tpl block c g w)
                      (render_to W wr (opt_world wd) fuel (opt_tpl tpl) block c g w)) /\
    (forall fuel',
       render_to W wr (opt_world wd) fuel' (opt_tpl tpl) block c g w <> ROutOfFuel ->
       same_outcome W (render_to W wr wd (world_bound wd tpl * fuel') tpl block c g w)
                      (render_to W wr (opt_world wd) fuel' (opt_tpl tpl) block c g w)).
Proof.
  intros Hw Ht Hga Hblind. split; [exact (opt_world_defined_ok _ Hw)|].
  set (K := max_len (world_chunks wd ++ chunks_of_tpl tpl)).
  unfold world_ok in Hw. unfold tpl_ok in Ht. rewrite forallb_forall in Hw, Ht.
  assert (HgW : forall c, In c (world_chunks wd) -> good K c).
  { intros c Hc. split; [exact (chunk_ok_cgood _ (Hw c Hc))|]. apply max_len_in. apply in_or_app. left. exact Hc. }
  assert (HgT : forall c, In c (chunks_of_tpl tpl) -> good K c).
  { intros c Hc. split; [exact (chunk_ok_cgood _ (Ht c Hc))|]. apply max_len_in. apply in_or_app. right. exact Hc. }
  assert (Hwt : forall n t, assoc_get (w_templates wd) n = Some t -> tgood K t).
  { intros n t Hn. apply tgood_of_chunks. intros c Hc. apply HgW. exact (world_tpl_chunks _ _ _ _ Hn Hc). }
  assert (Hwc : forall n d c, assoc_get (w_components wd) n = Some (d, c) -> good K c).
  { intros n d c Hn. apply HgW. exact (world_comp_chunk _ _ _ _ Hn). }
  pose proof (tgood_of_chunks K tpl HgT) as HT.
  intros block c g w. split.
  - intros fuel Hl.
    apply (render_rel W wr wd K true fuel fuel tpl block c g w); [|exact HT|exact Hl].
    apply (P_true W wr wd Hga Hblind K Hwt Hwc fuel fuel fuel); lia.
  - intros fuel' Hl.
    apply (render_rel W wr wd K false (world_bound wd tpl * fuel') fuel' tpl block c g w);
      [|exact HT|exact Hl].
    apply (P_false W wr wd Hga Hblind K Hwt Hwc). unfold world_bound. fold K. lia.
Qed.

(* what happens to OutOfFuel: the optimised render diverges (runs out of every fuel) exactly
   when the original one does *)
Corollary optimize_world_diverges (W : Type) (wr : W -> str -> option W) (wd : world) (tpl : template) :
  world_ok wd = true -> tpl_ok tpl = true ->
  (forall a, w_get_attr wd VUndef a = None) -> scope_blind wd ->
  forall block c g w,
    (forall fuel, render_to W wr wd fuel tpl block c g w = ROutOfFuel) <->
    (forall fuel', render_to W wr (opt_world wd) fuel' (opt_tpl tpl) block c g w = ROutOfFuel).
Proof.
  intros Hw Ht Hga Hb block c g w.
  destruct (optimize_world_correct W wr wd tpl Hw Ht Hga Hb) as [_ H]. destruct (H block c g w) as [H1 H2].
  split.
  - intros Hd fuel'.
    destruct (render_to W wr (opt_world wd) fuel' (opt_tpl tpl) block c g w) eqn:E; [| |reflexivity]; exfalso;
      (assert (Hl : render_to W wr (opt_world wd) fuel' (opt_tpl tpl) block c g w <> ROutOfFuel) by (rewrite E; discriminate));
      specialize (H2 fuel' Hl); rewrite (Hd (world_bound wd tpl * fuel')) in H2; exact H2.
  - intros Hd fuel.
    destruct (render_to W wr wd fuel tpl block c g w) eqn:E; [| |reflexivity]; exfalso;
      (assert (Hl : render_to W wr wd fuel tpl block c g w <> ROutOfFuel) by (rewrite E; discriminate));
      specialize (H1 fuel Hl); rewrite (Hd fuel) in H1; rewrite E in H1; exact H1.
Qed.


(* the world-side hypotheses hold for every world that shares World0's built-ins (its filters
   ignore the State, it has no functions, Value::get_attr of Undefined is None) *)
Lemma world0_hyps tpls :
  (forall a, w_get_attr (World0.world0 tpls) VUndef a = None) /\ scope_blind (World0.world0 tpls).
Proof. split; [reflexivity|]. split; reflexivity. Qed.
