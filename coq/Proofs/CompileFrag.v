(* C07 second tier: a small assembly calculus for "this code fragment, placed at position p,
   is accepted by check_table under ANY global table that holds the fragment's own segment,
   a suitable entry after it, and suitable entries at the external labels it jumps to".
   Fragments compose sequentially; labels are resolved when the enclosing construct is closed
   (the target is inside the segment or is its end). Used by Proofs/CompileAlwaysChecks.v. *)
From TeraV Require Import Model.Value Model.Instr Model.VM Model.StackCheck Proofs.CompileChecks.
Local Open Scope nat_scope.

Definition ext_ok (T : table) (ext : list (nat * astate)) : Prop :=
  forall t a, In (t, a) ext -> exists b, nth_error T t = Some (Some b) /\ astate_sub a b = true.

(* the state the fragment is entered with refines its first table entry (or, for an empty
   fragment, its exit state) *)
Definition entry_ok (sg : list astate) (ain aout : astate) : Prop :=
  match sg with [] => astate_sub ain aout = true | a0 :: _ => astate_sub ain a0 = true end.

Definition Frag (p : nat) (code : list instr) (sg : list astate) (ain aout : astate)
           (ext : list (nat * astate)) : Prop :=
  length sg = length code /\ entry_ok sg ain aout /\
  forall T b, agree T p sg -> nth_error T (p + length code) = Some (Some b) ->
    astate_sub aout b = true -> ext_ok T ext ->
    forall k i, nth_error code k = Some i -> instr_ok T (p + k) i = true.

Lemma F_nil p a ext : Frag p [] [] a a ext.
Proof.
  split; [reflexivity|split; [apply astate_sub_refl|]]. intros T b _ _ _ _ k i H. destruct k; discriminate.
Qed.

(* one instruction: every out-edge either falls through with a state refining `aout`, or goes to
   a label of `ext` *)
Lemma F_instr p i a aout ext edges :
  astep i p a = Some edges ->
  (forall e, In e edges -> (fst e = S p /\ astate_sub (snd e) aout = true) \/ In e ext) ->
  Frag p [i] [a] a aout ext.
Proof.
  intros HA HE. split; [reflexivity|split; [apply astate_sub_refl|]].
  intros T b Hag Hexit Hsub Hext k j Hk. destruct k as [|k]; [|destruct k; discriminate]. injection Hk as <-.
  rewrite Nat.add_0_r. pose proof (Hag 0 a eq_refl) as H0. rewrite Nat.add_0_r in H0.
  unfold instr_ok. rewrite H0, HA. apply forallb_forall. intros [t a'] Hin. unfold edge_ok. cbn [fst snd].
  destruct (HE _ Hin) as [[Ht Hs]|Hl]; cbn [fst snd] in *.
  - subst t. replace (S p) with (p + length [i]) by (cbn; lia). rewrite Hexit. exact (astate_sub_trans _ _ _ Hs Hsub).
  - destruct (Hext _ _ Hl) as (b' & Hb & Hs). rewrite Hb. exact Hs.
Qed.

Lemma entry_nth sg ain aout : entry_ok sg ain aout ->
  match nth_error sg 0 with Some a0 => astate_sub ain a0 = true | None => astate_sub ain aout = true end.
Proof. destruct sg; exact (fun H => H). Qed.

Lemma F_seq p c1 s1 a0 a1 c2 s2 a2 ext p2 code :
  Frag p c1 s1 a0 a1 ext -> Frag p2 c2 s2 a1 a2 ext -> p2 = p + length c1 -> code = c1 ++ c2 ->
  Frag p code (s1 ++ s2) a0 a2 ext.
Proof.
  intros (L1 & E1 & K1) (L2 & E2 & K2) -> ->. split; [rewrite !app_length; lia|split].
  - destruct s1 as [|x s1]; [|exact E1]. cbn [app]. destruct c1; [|discriminate]. cbn in E1.
    destruct s2 as [|y s2]; cbn in *; [exact (astate_sub_trans _ _ _ E1 E2)|exact (astate_sub_trans _ _ _ E1 E2)].
  - intros T b Hag Hexit Hsub Hext k i Hk.
    destruct (agree_app _ _ _ _ Hag) as [Ha1 Ha2]. rewrite L1 in Ha2.
    rewrite app_length in Hexit. rewrite Nat.add_assoc in Hexit.
    destruct (nth_app_cases _ _ _ _ Hk) as [[Hl Hk1]|[Hl Hk2]].
    + (* in c1: the entry after c1 is the head of s2, or b *)
      pose proof (entry_nth _ _ _ E2) as En.
      destruct (nth_error s2 0) as [y|] eqn:Ey.
      * pose proof (Ha2 0 y Ey) as Hm. rewrite Nat.add_0_r in Hm.
        exact (K1 T y Ha1 Hm En Hext k i Hk1).
      * assert (s2 = []) by (destruct s2; [reflexivity|discriminate]). subst s2.
        assert (c2 = []) by (destruct c2; [reflexivity|discriminate]). subst c2.
        cbn [length] in Hexit. rewrite Nat.add_0_r in Hexit.
        exact (K1 T b Ha1 Hexit (astate_sub_trans _ _ _ En Hsub) Hext k i Hk1).
    + replace (p + k) with (p + length c1 + (k - length c1)) by lia.
      exact (K2 T b Ha2 Hexit Hsub Hext _ i Hk2).
Qed.

Lemma F_weaken p c sg a0 a1 ext ext' : Frag p c sg a0 a1 ext -> incl ext ext' -> Frag p c sg a0 a1 ext'.
Proof.
  intros (L & E & K) Hi. split; [exact L|split; [exact E|]]. intros T b Hag Hexit Hsub Hext.
  apply (K T b Hag Hexit Hsub). intros t a Hin. apply Hext. apply Hi. exact Hin.
Qed.

(* a label is resolved when it points into the segment (at a state it refines) or at its end *)
Definition resolved (p : nat) (sg : list astate) (aout : astate) (l : nat * astate) : Prop :=
  exists j, fst l = p + j /\
    match nth_error sg j with
    | Some aj => astate_sub (snd l) aj = true
    | None => j = length sg /\ astate_sub (snd l) aout = true
    end.

Lemma F_resolve p c sg a0 a1 ext ext' :
  Frag p c sg a0 a1 ext ->
  (forall l, In l ext -> In l ext' \/ resolved p sg a1 l) ->
  Frag p c sg a0 a1 ext'.
Proof.
  intros (L & E & K) HR. split; [exact L|split; [exact E|]]. intros T b Hag Hexit Hsub Hext.
  apply (K T b Hag Hexit Hsub). intros t a Hin.
  destruct (HR _ Hin) as [Hi|(j & Hj & Hm)]; [exact (Hext _ _ Hi)|]. cbn [fst snd] in *. subst t.
  destruct (nth_error sg j) as [aj|] eqn:Ej.
  - exists aj. split; [exact (Hag j aj Ej)|exact Hm].
  - destruct Hm as [-> Hs]. exists b. rewrite L. split; [exact Hexit|exact (astate_sub_trans _ _ _ Hs Hsub)].
Qed.

Lemma F_entry_weaken p c sg a0 a0' a1 ext :
  Frag p c sg a0 a1 ext -> astate_sub a0' a0 = true -> Frag p c sg a0' a1 ext.
Proof.
  intros (L & E & K) Hs. split; [exact L|split; [|exact K]].
  destruct sg; cbn in *; exact (astate_sub_trans _ _ _ Hs E).
Qed.

Lemma F_exit_weaken p c sg a0 a1 a1' ext :
  Frag p c sg a0 a1 ext -> astate_sub a1 a1' = true -> Frag p c sg a0 a1' ext.
Proof.
  intros (L & E & K) Hs. split; [exact L|split].
  - destruct sg; cbn in *; [exact (astate_sub_trans _ _ _ E Hs)|exact E].
  - intros T b Hag Hexit Hsub Hext. exact (K T b Hag Hexit (astate_sub_trans _ _ _ Hs Hsub) Hext).
Qed.

(* a closed fragment at position 0 starting and ending in the empty state is a valid chunk *)
Theorem Frag_check_table code sg :
  Frag 0 code sg a_empty a_empty [] ->
  check_table code a_empty (map Some (sg ++ [a_empty])) = true.
Proof.
  intros (L & E & K). unfold check_table.
  assert (Hget : forall k a, nth_error (sg ++ [a_empty]) k = Some a ->
                 nth_error (map Some (sg ++ [a_empty])) k = Some (Some a)).
  { intros k a H. rewrite nth_error_map, H. reflexivity. }
  assert (Hexit : nth_error (map Some (sg ++ [a_empty])) (length code) = Some (Some a_empty)).
  { apply Hget. rewrite nth_error_app2 by lia. rewrite L, Nat.sub_diag. reflexivity. }
  rewrite map_length, app_length, L. cbn [length]. replace (length code + 1) with (S (length code)) by lia.
  rewrite Nat.eqb_refl. cbn [andb].
  assert (H0 : exists a, nth_error (map Some (sg ++ [a_empty])) 0 = Some (Some a) /\ astate_sub a_empty a = true).
  { destruct sg as [|x sg]; cbn in *; eauto. }
  destruct H0 as (a & Ha & Hs). rewrite Ha, Hs, Hexit, astate_sub_refl. cbn [andb]. rewrite andb_true_r.
  apply all_from_intro. intros k i Hk. cbn [Nat.add].
  apply (K _ a_empty); [|exact Hexit|apply astate_sub_refl|intros t x []|exact Hk].
  intros j x Hj. cbn [Nat.add]. apply Hget. rewrite nth_error_app1; [exact Hj|]. apply nth_error_Some. congruence.
Qed.
