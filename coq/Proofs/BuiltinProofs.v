(* C17 lemmas, string half: trim*, truncate, escape_*, split/replace, newlines_to_br, indent,
   case filters relative to the case-mapping oracle. *)
From Coq Require Import String.
From TeraV Require Import Model.Value Model.StrOps Model.Builtins Spec.BuiltinLaws Gen.Tables Gen.Builtins
  Proofs.BuiltinNumProofs.
Open Scope list_scope.
Open Scope Z_scope.
Set Default Timeout 600.

(* ------------------------------------------------------------------ White_Space *)

Lemma is_ws_iff c : is_ws c = true <-> ws c.
Proof.
  unfold is_ws, ws, white_space. cbn [In].
  rewrite !orb_true_iff, !andb_true_iff, !N.leb_le, !N.eqb_eq. lia.
Qed.

Lemma is_ws_false c : is_ws c = false <-> ~ ws c.
Proof. rewrite <- is_ws_iff. destruct (is_ws c); split; congruence || tauto. Qed.

(* ------------------------------------------------------------------ trim (white space) *)

Fixpoint take_while (p : N -> bool) (s : str) : str :=
  match s with [] => [] | c :: t => if p c then c :: take_while p t else [] end.

Lemma take_drop p s : take_while p s ++ drop_while p s = s.
Proof. induction s as [|c t IH]; [reflexivity|]. cbn. destruct (p c); cbn; [rewrite IH|]; reflexivity. Qed.

Lemma take_while_all p s : Forall (fun c => p c = true) (take_while p s).
Proof.
  induction s as [|c t IH]; [constructor|]. cbn. destruct (p c) eqn:E; constructor; assumption.
Qed.

Lemma drop_while_head p s :
  match drop_while p s with c :: _ => p c = false | [] => True end.
Proof. induction s as [|c t IH]; [exact I|]. cbn. destruct (p c) eqn:E; [exact IH|exact E]. Qed.

Lemma drop_while_id p s :
  match s with c :: _ => p c = false | [] => True end -> drop_while p s = s.
Proof. destruct s as [|c t]; [reflexivity|]. cbn. intros ->. reflexivity. Qed.

Lemma not_starts_ws s : ~ starts_with_ws s <-> match s with c :: _ => is_ws c = false | [] => True end.
Proof. destruct s as [|c t]; unfold starts_with_ws; [tauto|]. rewrite is_ws_false. tauto. Qed.

Lemma all_ws_of (w : str) : Forall (fun c => is_ws c = true) w -> Forall ws w.
Proof. intro H. eapply Forall_impl; [|exact H]. intros c Hc. apply is_ws_iff. exact Hc. Qed.

Lemma trim_start_spec s : trimmed_start s (trim_start_ws s).
Proof.
  exists (take_while is_ws s). split; [symmetry; apply take_drop|]. split.
  - apply all_ws_of, take_while_all.
  - apply not_starts_ws. apply drop_while_head.
Qed.

Lemma trim_end_spec s : trimmed_end s (trim_end_ws s).
Proof.
  unfold trim_end_ws. exists (rev (take_while is_ws (rev s))). split.
  - rewrite <- rev_app_distr, take_drop, rev_involutive. reflexivity.
  - split.
    + apply Forall_rev, all_ws_of, take_while_all.
    + unfold ends_with_ws. rewrite rev_involutive. apply not_starts_ws. apply drop_while_head.
Qed.

Lemma trim_start_id s : ~ starts_with_ws s -> trim_start_ws s = s.
Proof. intro H. apply drop_while_id. apply not_starts_ws. exact H. Qed.

Lemma trim_end_id s : ~ ends_with_ws s -> trim_end_ws s = s.
Proof.
  intro H. unfold trim_end_ws. rewrite drop_while_id; [apply rev_involutive|].
  apply not_starts_ws. exact H.
Qed.

Lemma trim_spec s : trimmed s (trim_ws s).
Proof.
  unfold trim_ws.
  destruct (trim_start_spec s) as (w1 & H1 & A1 & N1).
  destruct (trim_end_spec (trim_start_ws s)) as (w2 & H2 & A2 & N2).
  set (r1 := trim_start_ws s) in *. set (r := trim_end_ws r1) in *.
  exists w1, w2. split; [rewrite H1 at 1; rewrite H2 at 1; reflexivity|].
  repeat split; try assumption.
  intro Hs. apply N1. rewrite H2. destruct r as [|c t]; [contradiction|exact Hs].
Qed.

Lemma trim_idempotent s :
  trim_ws (trim_ws s) = trim_ws s /\ trim_start_ws (trim_start_ws s) = trim_start_ws s /\
  trim_end_ws (trim_end_ws s) = trim_end_ws s.
Proof.
  destruct (trim_spec s) as (w1 & w2 & _ & _ & _ & N1 & N2).
  destruct (trim_start_spec s) as (_ & _ & _ & N3).
  destruct (trim_end_spec s) as (_ & _ & _ & N4).
  repeat split.
  - unfold trim_ws at 1. rewrite (trim_start_id _ N1). apply trim_end_id. exact N2.
  - apply trim_start_id. exact N3.
  - apply trim_end_id. exact N4.
Qed.

(* ------------------------------------------------------------------ trim (pattern) *)

Lemma strip_prefix_some p : forall s r, strip_prefix p s = Some r <-> s = p ++ r.
Proof.
  induction p as [|a p IH]; intros s r; cbn.
  - split; [intro H; injection H as ->; reflexivity|intros ->; reflexivity].
  - destruct s as [|b s].
    + split; [discriminate|intro H; discriminate].
    + destruct (N.eqb a b) eqn:E.
      * apply N.eqb_eq in E. subst b. rewrite IH. split; [intros ->; reflexivity|intro H; injection H; tauto].
      * apply N.eqb_neq in E. split; [discriminate|]. intro H. injection H as H _. congruence.
Qed.

Lemma strip_prefix_none p s : strip_prefix p s = None <-> ~ is_prefix p s.
Proof.
  split.
  - intros H [r Hr]. apply strip_prefix_some in Hr. congruence.
  - intro H. destruct (strip_prefix p s) as [r|] eqn:E; [|reflexivity].
    exfalso. apply H. exists r. apply strip_prefix_some. exact E.
Qed.

Lemma strip_all_spec p : p <> [] -> forall fuel s, (length s <= fuel)%nat ->
  exists n, s = copies n p ++ strip_all fuel p s /\ strip_prefix p (strip_all fuel p s) = None.
Proof.
  intros Hp fuel. induction fuel as [|f IH]; intros s Hl.
  - destruct s; [|cbn in Hl; lia]. exists O. split; [reflexivity|].
    cbn. destruct p; [congruence|reflexivity].
  - cbn [strip_all]. destruct (strip_prefix p s) as [r|] eqn:E.
    + apply strip_prefix_some in E. subst s.
      assert (Hr : (length r <= f)%nat).
      { rewrite app_length in Hl. destruct p; [congruence|]. cbn in Hl. lia. }
      destruct (IH r Hr) as (n & Hn & Hnone). exists (S n). split; [|exact Hnone].
      cbn [copies]. rewrite <- app_assoc. rewrite <- Hn. reflexivity.
    + exists O. split; [reflexivity|exact E].
Qed.

Lemma trim_start_matches_spec p s :
  p <> [] -> pat_trimmed_start p s (trim_start_matches p s).
Proof.
  intro Hp. unfold trim_start_matches. destruct p as [|a p']; [congruence|].
  destruct (strip_all_spec (a :: p') Hp (length s) s (le_n _)) as (n & Hn & Hnone).
  exists n. split; [exact Hn|]. apply strip_prefix_none. exact Hnone.
Qed.

Lemma trim_matches_empty s : trim_start_matches [] s = s /\ trim_end_matches [] s = s.
Proof. split; [reflexivity|]. unfold trim_end_matches. cbn. apply rev_involutive. Qed.

Lemma copies_snoc {A} n (p : list A) : copies n p ++ p = p ++ copies n p.
Proof. induction n as [|n IH]; cbn; [rewrite app_nil_r; reflexivity|]. rewrite <- app_assoc, IH. reflexivity. Qed.

Lemma rev_copies {A} n (p : list A) : rev (copies n p) = copies n (rev p).
Proof.
  induction n as [|n IH]; [reflexivity|]. cbn [copies]. rewrite rev_app_distr, IH. apply copies_snoc.
Qed.

Lemma trim_end_matches_spec p s :
  p <> [] -> pat_trimmed_end p s (trim_end_matches p s).
Proof.
  intro Hp. unfold trim_end_matches.
  assert (Hrp : rev p <> []).
  { intro H. apply Hp. rewrite <- (rev_involutive p), H. reflexivity. }
  destruct (trim_start_matches_spec (rev p) (rev s) Hrp) as (n & Hn & Hnot).
  set (r := trim_start_matches (rev p) (rev s)) in *.
  exists n. split.
  - rewrite <- (rev_involutive s), Hn, rev_app_distr, rev_copies, rev_involutive. reflexivity.
  - intros [x Hx]. apply Hnot. exists (rev x).
    rewrite <- (rev_involutive r), Hx, rev_app_distr. reflexivity.
Qed.

Lemma strip_all_none fuel p s : strip_prefix p s = None -> strip_all fuel p s = s.
Proof. intro H. destruct fuel; [reflexivity|]. cbn. rewrite H. reflexivity. Qed.

Lemma trim_start_matches_idempotent p s :
  trim_start_matches p (trim_start_matches p s) = trim_start_matches p s.
Proof.
  destruct p as [|a p']; [reflexivity|].
  destruct (trim_start_matches_spec (a :: p') s ltac:(discriminate)) as (n & _ & Hnot).
  apply strip_prefix_none in Hnot.
  unfold trim_start_matches at 1. apply strip_all_none. exact Hnot.
Qed.

Lemma trim_end_matches_idempotent p s :
  trim_end_matches p (trim_end_matches p s) = trim_end_matches p s.
Proof.
  unfold trim_end_matches. rewrite rev_involutive, trim_start_matches_idempotent. reflexivity.
Qed.

(* ------------------------------------------------------------------ truncate *)

Definition text_of (v : value) : str := match v with VStr s _ => s | _ => [] end.

Lemma truncate_spec s n e :
  let endm := match e with Some x => x | None => ellipsis end in
  ((length s <= n)%nat -> str_truncate s n e = VStr s false) /\
  ((n < length s)%nat -> str_truncate s n e = VStr (firstn n s ++ endm) false /\
                          length (text_of (str_truncate s n e)) = (n + length endm)%nat) /\
  (length (text_of (str_truncate s n e)) <= n + length endm)%nat /\
  is_prefix (firstn n s) (text_of (str_truncate s n e)).
Proof.
  intro endm. unfold str_truncate. fold endm.
  destruct (Nat.ltb n (length s)) eqn:E.
  - apply Nat.ltb_lt in E. repeat split; try lia.
    + cbn. rewrite app_length, firstn_length_le by lia. reflexivity.
    + cbn. rewrite app_length, firstn_length_le by lia. lia.
    + cbn. exists endm. reflexivity.
  - apply Nat.ltb_ge in E. repeat split; try lia.
    + cbn. lia.
    + cbn. exists []. rewrite app_nil_r. symmetry. apply firstn_all2. exact E.
Qed.

Lemma truncate_clamp s n e :
  0 <= n ->
  str_truncate s (Z.to_nat (Z.min n (Z.of_nat (length s)))) e = str_truncate s (Z.to_nat n) e.
Proof.
  intro Hn. unfold str_truncate.
  destruct (Z_lt_le_dec n (Z.of_nat (length s))) as [H|H].
  - rewrite Z.min_l by lia. reflexivity.
  - rewrite Z.min_r by lia. rewrite Nat2Z.id.
    rewrite Nat.ltb_irrefl.
    assert (E : Nat.ltb (Z.to_nat n) (length s) = false) by (apply Nat.ltb_ge; lia).
    rewrite E. reflexivity.
Qed.

(* the filter: receiver and arguments are checked in that order, then the law above applies *)
Lemma f_truncate_spec kw v :
  f_truncate kw v =
    match v with
    | VStr s _ =>
        match kw_find (s2l "length") kw with
        | None => BErr EMissingArg
        | Some l =>
            match arg_int TUsize l with
            | BErr e => BErr e
            | BOk n =>
                match kw_find (s2l "end") kw with
                | None => BOk (str_truncate s (Z.to_nat n) None)
                | Some (VStr e _) => BOk (str_truncate s (Z.to_nat n) (Some e))
                | Some _ => BErr EInvalidArg
                end
            end
        end
    | _ => BErr EInvalidArg
    end.
Proof.
  unfold f_truncate, on_str. destruct v; try reflexivity. cbn [arg_str bbind].
  unfold kw_must, kw_get. destruct (kw_find (s2l "length") kw) as [l|]; [|reflexivity].
  destruct (arg_int TUsize l) as [n|e] eqn:E; [|reflexivity]. cbn [bbind].
  assert (Hn : 0 <= n).
  { apply arg_int_ok in E. destruct E as [(r0 & _ & Hr)|(f0 & _ & _ & Hr & _)]; cbn [ity_min] in Hr; lia. }
  destruct (kw_find (s2l "end") kw) as [ev|]; cbn [bbind].
  - destruct ev; cbn [arg_str bbind]; try reflexivity. rewrite truncate_clamp by exact Hn. reflexivity.
  - rewrite truncate_clamp by exact Hn. reflexivity.
Qed.

(* ------------------------------------------------------------------ escape_html / escape_xml *)

Lemma escape_with_spec tbl s : escaped_by tbl s (escape_with tbl s).
Proof.
  unfold escaped_by, escape_with.
  exists (map (fun c => match find (fun e => N.eqb (fst e) c) tbl with Some e => snd e | None => [c] end) s).
  split; [apply flat_map_concat_map|].
  induction s as [|c t IH]; cbn [map]; constructor; [|exact IH].
  destruct (find (fun e => N.eqb (fst e) c) tbl) as [e|] eqn:E.
  - left. apply find_some in E as [Hin He]. apply N.eqb_eq in He. exists (snd e). split; [|reflexivity].
    destruct e as [k rep]. cbn in *. subst k. exact Hin.
  - right. split; [|reflexivity]. intros rep Hin.
    pose proof (find_none _ _ E _ Hin) as Hn. cbn in Hn. rewrite N.eqb_refl in Hn. discriminate.
Qed.

Definition special_b (c : N) : bool := N.eqb c 60 || N.eqb c 62 || N.eqb c 34 || N.eqb c 39.

Lemma special_b_iff c : special_b c = true <-> html_special c.
Proof. unfold special_b, html_special. rewrite !orb_true_iff, !N.eqb_eq. tauto. Qed.

(* a table is sound when no replacement contains a raw special character (less-than, greater-than, double or single quote) and each of them, and the ampersand, has an entry *)
Definition table_sound (tbl : list (N * list N)) : bool :=
  forallb (fun e => forallb (fun c => negb (special_b c)) (snd e)) tbl &&
  forallb (fun k => existsb (fun e => N.eqb (fst e) k) tbl) [60; 62; 34; 39; 38]%N.

Lemma escape_no_specials tbl :
  table_sound tbl = true -> forall s c, In c (escape_with tbl s) -> ~ html_special c.
Proof.
  intros Hs s c Hin. apply andb_true_iff in Hs as [H1 H2].
  unfold escape_with in Hin. apply in_flat_map in Hin as (x & _ & Hx).
  destruct (find (fun e => N.eqb (fst e) x) tbl) as [e|] eqn:E.
  - apply find_some in E as [He _]. rewrite forallb_forall in H1. specialize (H1 e He).
    rewrite forallb_forall in H1. specialize (H1 c Hx). intro Hc. apply special_b_iff in Hc.
    rewrite Hc in H1. discriminate.
  - destruct Hx as [<-|[]]. intro Hc.
    assert (Hk : In x [60; 62; 34; 39; 38]%N) by (destruct Hc as [->|[->|[->| ->]]]; cbn; tauto).
    rewrite forallb_forall in H2. specialize (H2 x Hk). apply existsb_exists in H2 as (e & He & Hek).
    pose proof (find_none _ _ E e He) as Hn. cbn in Hn. congruence.
Qed.

Lemma html_table_sound : table_sound escape_html_map = true. Proof. vm_compute. reflexivity. Qed.
Lemma xml_table_sound : table_sound xml_map = true. Proof. vm_compute. reflexivity. Qed.

(* every key of the byte-wise escape_html table is ASCII and so are its replacements: working on
   bytes or on characters is the same, and the output is valid text *)
Lemma html_table_ascii :
  forallb (fun e => N.ltb (fst e) 128 && forallb (fun c => N.ltb c 128) (snd e)) escape_html_map = true.
Proof. vm_compute. reflexivity. Qed.

Lemma xml_matches_doc : xml_map = doc_escape_xml. Proof. vm_compute. reflexivity. Qed.

(* the documented table of escape_html differs from the code in the entity used for the apostrophe *)
Lemma html_doc_mismatch :
  exists s, escape_html s <> escape_with doc_escape_html s.
Proof. exists [39%N]. vm_compute. discriminate. Qed.

Lemma html_matches_doc_but_apostrophe s :
  ~ In 39%N s -> escape_html s = escape_with doc_escape_html s.
Proof.
  intro H. unfold escape_html, escape_with. induction s as [|c t IH]; [reflexivity|].
  cbn [flat_map]. rewrite IH by (intro; apply H; right; assumption). f_equal.
  assert (Hc : c <> 39%N) by (intro; apply H; left; congruence).
  assert (D : c = 38%N \/ c = 60%N \/ c = 62%N \/ c = 34%N \/ (c <> 38 /\ c <> 60 /\ c <> 62 /\ c <> 34)%N) by lia.
  destruct D as [->|[->|[->|[->|(A & B & C & D)]]]]; try reflexivity.
  unfold escape_html_map, doc_escape_html. cbn [find fst].
  repeat match goal with
         | |- context [N.eqb ?k c] => let E := fresh in destruct (N.eqb k c) eqn:E; [apply N.eqb_eq in E; congruence|]
         end.
  reflexivity.
Qed.

(* ------------------------------------------------------------------ occurrences, split, replace *)

Lemma find_occ_some p : forall s a r, find_occ p s = Some (a, r) -> leftmost p s a r.
Proof.
  induction s as [|c t IH]; intros a r H.
  - cbn in H. destruct (strip_prefix p []) as [r0|] eqn:E; [|discriminate].
    injection H as <- <-. apply strip_prefix_some in E. split; [exact E|]. intros; cbn; lia.
  - cbn [find_occ] in H. destruct (strip_prefix p (c :: t)) as [r0|] eqn:E.
    + injection H as <- <-. apply strip_prefix_some in E. split; [exact E|]. intros; cbn; lia.
    + destruct (find_occ p t) as [[a' r']|] eqn:E2; [|discriminate]. injection H as <- <-.
      destruct (IH a' r' eq_refl) as [Ht Hmin]. split; [rewrite Ht; reflexivity|].
      intros a'' r'' Hs. destruct a'' as [|d a3].
      * exfalso. cbn in Hs. assert (X : strip_prefix p (c :: t) = Some r'') by (apply strip_prefix_some; exact Hs).
        congruence.
      * cbn in Hs. injection Hs as -> Hs. cbn. specialize (Hmin a3 r'' Hs). lia.
Qed.

Lemma find_occ_none p : forall s, find_occ p s = None -> ~ is_infix p s.
Proof.
  induction s as [|c t IH]; intros H (a & r & Hs).
  - cbn in H. destruct (strip_prefix p []) as [r0|] eqn:E; [discriminate|].
    destruct a; [|discriminate]. cbn in Hs.
    assert (X : strip_prefix p [] = Some r) by (apply strip_prefix_some; exact Hs). congruence.
  - cbn [find_occ] in H. destruct (strip_prefix p (c :: t)) as [r0|] eqn:E; [discriminate|].
    destruct (find_occ p t) as [[a' r']|] eqn:E2; [discriminate|].
    destruct a as [|d a3].
    + cbn in Hs. assert (X : strip_prefix p (c :: t) = Some r) by (apply strip_prefix_some; exact Hs). congruence.
    + cbn in Hs. injection Hs as -> Hs. apply (IH eq_refl). exists a3, r. exact Hs.
Qed.

Lemma split_fuel_spec p : p <> [] -> forall fuel s, (length s < fuel)%nat -> split_at p s (split_fuel fuel p s).
Proof.
  intros Hp fuel. induction fuel as [|f IH]; intros s Hl; [lia|].
  cbn [split_fuel]. destruct (find_occ p s) as [[a r]|] eqn:E.
  - pose proof (find_occ_some p s a r E) as L. apply split_one with (r := r); [exact L|].
    apply IH. destruct L as [Hs _]. subst s. rewrite !app_length in Hl.
    destruct p; [congruence|]. cbn in Hl. lia.
  - apply split_none. apply find_occ_none. exact E.
Qed.

Lemma split_spec p s : p <> [] -> split_at p s (str_split p s).
Proof.
  intro Hp. unfold str_split. destruct p as [|a p']; [congruence|].
  apply split_fuel_spec; [exact Hp|lia].
Qed.

Lemma split_at_nonempty {A} (p s : list A) l : split_at p s l -> l <> [].
Proof. intro H. destruct H; discriminate. Qed.

Lemma split_at_join {A} (p s : list A) l : split_at p s l -> join_with p l = s.
Proof.
  induction 1 as [s Hn|s a r l [Hs _] Hl IH]; [reflexivity|].
  pose proof (split_at_nonempty _ _ _ Hl) as Hne. destruct l as [|x t]; [congruence|].
  cbn [join_with] in *. rewrite IH. symmetry. exact Hs.
Qed.

Lemma intercalate_join sep l : intercalate sep l = join_with sep l.
Proof. induction l as [|x t IH]; [reflexivity|]. destruct t; [reflexivity|]. cbn [intercalate join_with] in *. rewrite IH. reflexivity. Qed.

(* replace: the text between the leftmost non-overlapping occurrences is kept, each occurrence
   becomes `to` *)
Lemma replace_spec from to s :
  from <> [] ->
  exists pieces, split_at from s pieces /\ join_with from pieces = s /\
                 str_replace from to s = join_with to pieces.
Proof.
  intro Hf. exists (str_split from s). pose proof (split_spec from s Hf) as H.
  split; [exact H|]. split; [apply split_at_join; exact H|]. apply intercalate_join.
Qed.

Lemma replace_absent from to s : from <> [] -> ~ is_infix from s -> str_replace from to s = s.
Proof.
  intros Hf Hn. unfold str_replace, str_split. destruct from as [|a p']; [congruence|].
  cbn [split_fuel]. destruct (find_occ (a :: p') s) as [[x r]|] eqn:E; [|reflexivity].
  exfalso. apply Hn. destruct (find_occ_some _ _ _ _ E) as [Hs _]. exists x, r. exact Hs.
Qed.

Lemma replace_same from s : from <> [] -> str_replace from from s = s.
Proof.
  intro Hf. destruct (replace_spec from from s Hf) as (l & _ & Hj & Hr). congruence.
Qed.

Lemma intercalate_cons sep x l : l <> [] -> intercalate sep (x :: l) = x ++ sep ++ intercalate sep l.
Proof. destruct l; [congruence|reflexivity]. Qed.

Lemma replace_empty_pattern to s :
  str_replace [] to s = to ++ flat_map (fun c => c :: to) s.
Proof.
  unfold str_replace, str_split.
  assert (G : forall t, intercalate to (map (fun c => [c]) t ++ [[]]) = flat_map (fun c => c :: to) t).
  { induction t as [|c t IH]; [reflexivity|]. cbn [map app flat_map].
    rewrite intercalate_cons by (destruct t; discriminate). rewrite IH. reflexivity. }
  rewrite intercalate_cons by (destruct s; discriminate). rewrite G. reflexivity.
Qed.

(* ------------------------------------------------------------------ case filters *)

Section CaseLaws.
  Variables (upper_of lower_of : N -> list N) (final_sigma : str -> nat -> bool).

  (* what a case filter may put in the place of one character *)
  Definition case_variant (c : N) (piece : str) : Prop :=
    piece = [c] \/ piece = upper_of c \/ piece = lower_of c \/
    (c = sigma_cap /\ (piece = [sigma_small] \/ piece = [sigma_final])).

  Definition case_only (s out : str) : Prop :=
    exists pieces, Forall2 case_variant s pieces /\ out = concat pieces.

  Lemma case_only_cons c piece s out :
    case_variant c piece -> case_only s out -> case_only (c :: s) (piece ++ out).
  Proof.
    intros Hc (ps & Hf & ->). exists (piece :: ps). split; [constructor; assumption|reflexivity].
  Qed.

  Lemma case_only_nil : case_only [] [].
  Proof. exists []. split; [constructor|reflexivity]. Qed.

  Lemma upper_case_only s : case_only s (str_upper upper_of s).
  Proof.
    induction s as [|c t IH]; [apply case_only_nil|]. cbn. apply case_only_cons; [|exact IH].
    right. left. reflexivity.
  Qed.

  Lemma lower_from_case_only whole : forall s i, case_only s (lower_from lower_of final_sigma whole i s).
  Proof.
    induction s as [|c t IH]; intro i; [apply case_only_nil|]. cbn [lower_from].
    apply case_only_cons; [|apply IH].
    destruct (N.eqb c sigma_cap) eqn:E.
    - apply N.eqb_eq in E. right. right. right. split; [exact E|].
      destruct (final_sigma whole i); [right|left]; reflexivity.
    - right. right. left. reflexivity.
  Qed.

  Lemma lower_case_only s : case_only s (str_lower lower_of final_sigma s).
  Proof. apply lower_from_case_only. Qed.

  Lemma capitalize_case_only s : case_only s (str_capitalize upper_of lower_of final_sigma s).
  Proof.
    destruct s as [|c t]; [apply case_only_nil|]. cbn.
    apply case_only_cons; [right; left; reflexivity|apply lower_case_only].
  Qed.

  Lemma title_go_case_only : forall s cap, case_only s (title_go upper_of lower_of s cap).
  Proof.
    induction s as [|c t IH]; intro cap; [apply case_only_nil|]. cbn [title_go].
    destruct (is_ascii_punct c || is_ws c).
    - change (c :: title_go upper_of lower_of t (if N.eqb c 39 then cap else true))
        with ([c] ++ title_go upper_of lower_of t (if N.eqb c 39 then cap else true)).
      apply case_only_cons; [left; reflexivity|apply IH].
    - destruct cap; (apply case_only_cons; [|apply IH]); [right; left|right; right; left]; reflexivity.
  Qed.

  Lemma title_case_only s : case_only s (str_title upper_of lower_of s).
  Proof. apply title_go_case_only. Qed.

  (* characters on which the oracle does nothing are left exactly where they are *)
  Definition caseless (c : N) : Prop := upper_of c = [c] /\ lower_of c = [c] /\ c <> sigma_cap.

  Lemma lower_from_caseless whole : forall s i, Forall caseless s -> lower_from lower_of final_sigma whole i s = s.
  Proof.
    induction s as [|c t IH]; intros i H; [reflexivity|]. inversion H as [|? ? (Hu & Hl & Hs) Ht]; subst.
    cbn [lower_from]. apply N.eqb_neq in Hs. rewrite Hs, Hl, IH by assumption. reflexivity.
  Qed.

  Lemma title_go_caseless : forall s cap, Forall caseless s -> title_go upper_of lower_of s cap = s.
  Proof.
    induction s as [|c t IH]; intros cap H; [reflexivity|]. inversion H as [|? ? (Hu & Hl & Hs) Ht]; subst.
    cbn [title_go]. destruct (is_ascii_punct c || is_ws c); [rewrite IH by assumption; reflexivity|].
    destruct cap; rewrite ?Hu, ?Hl, IH by assumption; reflexivity.
  Qed.

  Lemma caseless_fixed s :
    Forall caseless s ->
    str_upper upper_of s = s /\ str_lower lower_of final_sigma s = s /\
    str_capitalize upper_of lower_of final_sigma s = s /\ str_title upper_of lower_of s = s.
  Proof.
    intro H. repeat split.
    - induction H as [|c t (Hu & _ & _) Ht IH]; [reflexivity|]. cbn. rewrite Hu. cbn.
      unfold str_upper in IH. rewrite IH. reflexivity.
    - apply lower_from_caseless. exact H.
    - destruct H as [|c t (Hu & _ & _) Ht]; [reflexivity|]. cbn. rewrite Hu.
      unfold str_lower. rewrite lower_from_caseless by assumption. reflexivity.
    - apply title_go_caseless. exact H.
  Qed.

  (* the documented shape of each filter *)
  Lemma case_filter_shapes s :
    str_upper upper_of s = flat_map upper_of s /\
    (forall c t, s = c :: t ->
       str_capitalize upper_of lower_of final_sigma s = upper_of c ++ str_lower lower_of final_sigma t) /\
    (~ In sigma_cap s -> str_lower lower_of final_sigma s = flat_map lower_of s).
  Proof.
    repeat split.
    - intros c t ->. reflexivity.
    - intro Hn. unfold str_lower. generalize 0%nat. generalize s at 1.
      induction s as [|c t IH]; intros whole i; [reflexivity|]. cbn [lower_from flat_map].
      assert (E : N.eqb c sigma_cap = false) by (apply N.eqb_neq; intro; apply Hn; left; congruence).
      rewrite E, IH by (intro; apply Hn; right; assumption). reflexivity.
  Qed.
End CaseLaws.

(* ------------------------------------------------------------------ coverage of the registered names *)

Definition covered (registered modelled oracle_only : list string) : bool :=
  forallb (fun n => existsb (String.eqb n) modelled || existsb (String.eqb n) oracle_only) registered.

Lemma builtins_covered :
  covered builtin_filters modelled_filters oracle_only_filters = true /\
  covered builtin_tests modelled_tests oracle_only_tests = true /\
  covered builtin_functions modelled_functions oracle_only_functions = true.
Proof. vm_compute. repeat split; reflexivity. Qed.

(* ------------------------------------------------------------------ newlines_to_br *)

Lemma find_occ_shorter p s a r : p <> [] -> find_occ p s = Some (a, r) -> (length r < length s)%nat.
Proof.
  intros Hp H. destruct (find_occ_some _ _ _ _ H) as [-> _]. rewrite !app_length.
  destruct p; [congruence|]. cbn. lia.
Qed.

Lemma split_fuel_indep p : p <> [] -> forall f f' s,
  (length s < f)%nat -> (length s < f')%nat -> split_fuel f p s = split_fuel f' p s.
Proof.
  intros Hp f. induction f as [|f IH]; intros f' s H1 H2; [lia|]. destruct f' as [|f']; [lia|].
  cbn [split_fuel]. destruct (find_occ p s) as [[a r]|] eqn:E; [|reflexivity]. f_equal.
  pose proof (find_occ_shorter _ _ _ _ Hp E). apply IH; lia.
Qed.

Lemma split_fuel_S f p s :
  split_fuel (S f) p s = match find_occ p s with Some (a, r) => a :: split_fuel f p r | None => [s] end.
Proof. reflexivity. Qed.

Lemma str_split_unfold p s : p <> [] ->
  str_split p s = match find_occ p s with Some (a, r) => a :: str_split p r | None => [s] end.
Proof.
  intro Hp. unfold str_split. destruct p as [|x p']; [congruence|]. rewrite (split_fuel_S (length s)).
  destruct (find_occ (x :: p') s) as [[a r]|] eqn:E; [|reflexivity]. f_equal.
  pose proof (find_occ_shorter _ _ _ _ Hp E). apply split_fuel_indep; [exact Hp|lia|lia].
Qed.

Lemma str_split_nonempty p s : str_split p s <> [].
Proof.
  unfold str_split. destruct p; [discriminate|]. cbn [split_fuel].
  destruct (find_occ (n :: p) s) as [[a r]|]; discriminate.
Qed.

Lemma replace_unfold p to s : p <> [] ->
  str_replace p to s =
    match strip_prefix p s with
    | Some r => to ++ str_replace p to r
    | None => match s with [] => [] | c :: t => c :: str_replace p to t end
    end.
Proof.
  intro Hp. unfold str_replace. rewrite (str_split_unfold p s Hp).
  destruct (strip_prefix p s) as [r|] eqn:E.
  - assert (F : find_occ p s = Some ([], r)) by (destruct s; cbn [find_occ]; rewrite E; reflexivity).
    rewrite F. rewrite intercalate_cons by apply str_split_nonempty. reflexivity.
  - destruct s as [|c t].
    + cbn [find_occ]. rewrite E. reflexivity.
    + cbn [find_occ]. rewrite E. rewrite (str_split_unfold p t Hp).
      destruct (find_occ p t) as [[a r]|]; [|reflexivity].
      rewrite !intercalate_cons by apply str_split_nonempty. reflexivity.
Qed.

Definition nl_g (c : N) : str := if N.eqb c LF || N.eqb c CR then br else [c].

Lemma newlines_to_br_alt s : newlines_to_br s = flat_map nl_g (str_replace [CR; LF] br s).
Proof. reflexivity. Qed.

Lemma nl_g_other c : N.eqb c 10 = false -> N.eqb c 13 = false -> nl_g c = [c].
Proof. intros A B. unfold nl_g, LF, CR. rewrite A, B. reflexivity. Qed.

Lemma newlines_to_br_spec s : newlines_to_br s = nl2br s.
Proof.
  rewrite newlines_to_br_alt.
  assert (Hbr : flat_map nl_g br = br) by (vm_compute; reflexivity).
  assert (Hbt : br = br_text) by (vm_compute; reflexivity).
  assert (Gcr : nl_g CR = br) by reflexivity.
  assert (Glf : nl_g 10%N = br) by reflexivity.
  remember (length s) as n eqn:Hn. revert s Hn.
  induction n as [n IH] using lt_wf_ind. intros s Hn.
  rewrite replace_unfold by discriminate.
  destruct s as [|c t]; [reflexivity|].
  cbn [strip_prefix nl2br].
  destruct (N.eqb CR c) eqn:E1.
  - apply N.eqb_eq in E1. subst c. change (N.eqb CR 13) with true. cbv iota.
    destruct t as [|d t'].
    + cbn [strip_prefix]. rewrite replace_unfold by discriminate. cbn [strip_prefix flat_map].
      rewrite app_nil_r, Gcr, <- Hbt. reflexivity.
    + cbn [strip_prefix]. destruct (N.eqb LF d) eqn:E2.
      * apply N.eqb_eq in E2. subst d. change (N.eqb LF 10) with true. cbv iota.
        rewrite flat_map_app, Hbr, <- Hbt. f_equal.
        apply (IH (length t')); [cbn in Hn; lia|reflexivity].
      * assert (E3 : N.eqb d 10 = false) by (rewrite N.eqb_sym; exact E2). rewrite E3.
        cbn [flat_map]. rewrite <- Hbt, Gcr. f_equal.
        apply (IH (length (d :: t'))); [cbn in Hn |- *; lia|reflexivity].
  - assert (E1' : N.eqb c 13 = false) by (rewrite N.eqb_sym; exact E1). rewrite E1'.
    cbn [flat_map].
    destruct (N.eqb c 10) eqn:E2.
    + apply N.eqb_eq in E2. subst c. rewrite Glf, <- Hbt. f_equal.
      apply (IH (length t)); [cbn in Hn; lia|reflexivity].
    + rewrite (nl_g_other c E2 E1'). cbn [app]. f_equal. apply (IH (length t)); [cbn in Hn; lia|reflexivity].
Qed.

(* ------------------------------------------------------------------ indent *)

Definition trail (w : str) : str := if ends_with_lf w then [LF] else [].

Lemma lines_go_nil : forall s cur, lines_go s cur = [] <-> s = [] /\ cur = [].
Proof.
  induction s as [|c t IH]; intro cur; cbn [lines_go].
  - destruct cur; split; try tauto; try discriminate. intros [_ H]. discriminate.
  - destruct (N.eqb c LF).
    + split; [discriminate|intros [H _]; discriminate].
    + rewrite IH. split; [intros [_ H]; discriminate|intros [H _]; discriminate].
Qed.

Lemma ends_with_lf_app a t : t <> [] -> ends_with_lf (a ++ t) = ends_with_lf t.
Proof.
  intro Ht. unfold ends_with_lf. rewrite rev_app_distr.
  destruct (rev t) as [|x r] eqn:E; [|reflexivity].
  exfalso. apply Ht. rewrite <- (rev_involutive t), E. reflexivity.
Qed.

Lemma join_with_cons {A} (sep x : list A) l : l <> [] -> join_with sep (x :: l) = x ++ sep ++ join_with sep l.
Proof. destruct l; [congruence|reflexivity]. Qed.

Lemma lines_go_join : forall s cur,
  ~ In CR s -> ~ In CR cur -> ~ In LF cur ->
  join_with [LF] (lines_go s cur) ++ trail (rev cur ++ s) = rev cur ++ s.
Proof.
  induction s as [|c t IH]; intros cur Hs Hc Hl.
  - rewrite app_nil_r. cbn [lines_go]. unfold trail, ends_with_lf. rewrite rev_involutive.
    destruct cur as [|d cur']; [reflexivity|].
    assert (E : N.eqb d LF = false) by (apply N.eqb_neq; intro; apply Hl; left; congruence).
    rewrite E. cbn [join_with]. apply app_nil_r.
  - cbn [lines_go]. destruct (N.eqb c LF) eqn:E.
    + apply N.eqb_eq in E. subst c.
      assert (Hline : match cur with
                      | d :: cur' => if N.eqb d CR then rev cur' else rev cur
                      | [] => []
                      end = rev cur).
      { destruct cur as [|d cur']; [reflexivity|].
        assert (E : N.eqb d CR = false) by (apply N.eqb_neq; intro; apply Hc; left; congruence).
        rewrite E. reflexivity. }
      rewrite Hline.
      destruct t as [|d t'].
      * cbn [lines_go join_with]. unfold trail, ends_with_lf. rewrite rev_app_distr. cbn [rev app].
        change (N.eqb LF LF) with true. cbv iota. reflexivity.
      * assert (Hne : lines_go (d :: t') [] <> []).
        { intro H. apply lines_go_nil in H as [H _]. discriminate. }
        unfold str in *. rewrite (@join_with_cons N [LF] (rev cur) (lines_go (d :: t') [])) by exact Hne.
        assert (Ht : trail (rev cur ++ LF :: d :: t') = trail (d :: t')).
        { unfold trail. change (rev cur ++ LF :: d :: t') with (rev cur ++ [LF] ++ (d :: t')).
          rewrite app_assoc, ends_with_lf_app by discriminate. reflexivity. }
        rewrite Ht.
        assert (IH' : join_with [LF] (lines_go (d :: t') []) ++ trail (d :: t') = d :: t').
        { apply (IH []); [intro H; apply Hs; right; exact H|intros []|intros []]. }
        rewrite <- !app_assoc. rewrite IH'. reflexivity.
    + apply N.eqb_neq in E.
      assert (R : rev cur ++ c :: t = rev (c :: cur) ++ t) by (cbn [rev]; rewrite <- app_assoc; reflexivity).
      rewrite R. apply IH.
      * intro H. apply Hs. right. exact H.
      * intros [H|H]; [apply Hs; left; exact H|apply Hc; exact H].
      * intros [H|H]; [apply E; exact H|apply Hl; exact H].
Qed.

Lemma lines_roundtrip s : ~ In CR s -> join_with [LF] (str_lines s) ++ trail s = s.
Proof. intro H. apply (lines_go_join s [] H); intros []. Qed.

Lemma indent_lines_nopad_rest : forall ls fi bl,
  indent_lines ls [] false fi bl = flat_map (fun l => LF :: l) ls.
Proof.
  induction ls as [|l t IH]; intros fi bl; [reflexivity|]. cbn [indent_lines flat_map].
  rewrite IH. destruct (negb match l with [] => true | _ :: _ => false end || bl); reflexivity.
Qed.

Lemma join_with_lf : forall (t : list str) l, join_with [LF] (l :: t) = l ++ flat_map (fun x => LF :: x) t.
Proof.
  induction t as [|x t IH]; intro l; [cbn; rewrite app_nil_r; reflexivity|].
  unfold str in *. rewrite (@join_with_cons N [LF] l (x :: t)) by discriminate. rewrite IH. reflexivity.
Qed.

Lemma indent_width0_identity s fi bl : ~ In CR s -> str_indent s 0 fi bl = s.
Proof.
  intro H. unfold str_indent.
  change (repeat SP (Z.to_nat (Z.min 0 1000))) with (@nil N).
  rewrite <- (lines_roundtrip s H) at 3. unfold trail. f_equal.
  destruct (str_lines s) as [|l t]; [reflexivity|].
  cbn [indent_lines]. rewrite indent_lines_nopad_rest, join_with_lf.
  destruct fi; reflexivity.
Qed.

Lemma indent_drops_cr : exists s, str_indent s 0 false false <> s.
Proof. exists [97; 13; 10; 98]%N. vm_compute. discriminate. Qed.

(* ------------------------------------------------------------------ trim(pat) = trim_end(pat) after trim_start(pat) *)

Lemma trim_both_matches_spec p s : p <> [] ->
  exists i j, s = copies i p ++ trim_end_matches p (trim_start_matches p s) ++ copies j p /\
              ~ is_prefix p (trim_end_matches p (trim_start_matches p s)) /\
              ~ is_suffix p (trim_end_matches p (trim_start_matches p s)).
Proof.
  intro Hp.
  destruct (trim_start_matches_spec p s Hp) as (i & Hi & Hnp).
  destruct (trim_end_matches_spec p (trim_start_matches p s) Hp) as (j & Hj & Hns).
  exists i, j. split.
  { etransitivity; [exact Hi|]. f_equal. exact Hj. }
  split; [|exact Hns].
  intros [x Hx]. apply Hnp. exists (x ++ copies j p).
  etransitivity; [exact Hj|]. rewrite Hx, <- app_assoc. reflexivity.
Qed.

Lemma f_trim_pat kw s b p b' :
  kw_find (s2l "pat") kw = Some (VStr p b') ->
  f_trim kw (VStr s b) = BOk (vstr (trim_end_matches p (trim_start_matches p s))) /\
  f_trim_start kw (VStr s b) = BOk (vstr (trim_start_matches p s)) /\
  f_trim_end kw (VStr s b) = BOk (vstr (trim_end_matches p s)).
Proof.
  intro H. unfold f_trim, f_trim_start, f_trim_end, on_str. cbn [arg_str bbind].
  rewrite !kw_get_spec, H. cbn [arg_str bbind]. repeat split; reflexivity.
Qed.
