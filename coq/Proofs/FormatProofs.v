(* Proofs about printing (C19, Model/Format.v): the key order is a strict total order on distinct
   keys, the printed form of a map does not depend on the internal order of its entries, printing
   a canonicalised value changes nothing at any depth, integers print as their decimal numeral. *)
From TeraV Require Import Model.Value Model.Format.
From Coq Require Import Permutation Sorted Decimal DecimalPos DecimalZ.

(* ------------------------------------------------------------------ the order of keys *)

Lemma str_cmp_refl : forall s, str_cmp s s = Eq.
Proof. induction s as [|c s IH]; cbn; [reflexivity|]. rewrite N.compare_refl. exact IH. Qed.

Lemma str_cmp_opp : forall a b, str_cmp b a = CompOpp (str_cmp a b).
Proof.
  induction a as [|x a IH]; destruct b as [|y b]; cbn; try reflexivity.
  rewrite (N.compare_antisym x y). destruct (x ?= y)%N; cbn; auto.
Qed.

Lemma str_cmp_trans : forall a b c, str_cmp a b = Lt -> str_cmp b c = Lt -> str_cmp a c = Lt.
Proof.
  induction a as [|x a IH]; destruct b as [|y b]; destruct c as [|z c]; cbn; intros H1 H2;
    try discriminate; try reflexivity.
  destruct (N.compare_spec x y) as [Hxy|Hxy|Hxy]; try discriminate;
    destruct (N.compare_spec y z) as [Hyz|Hyz|Hyz]; try discriminate; subst.
  - rewrite N.compare_refl. eapply IH; eauto.
  - apply N.compare_lt_iff in Hyz. rewrite Hyz. reflexivity.
  - apply N.compare_lt_iff in Hxy. rewrite Hxy. reflexivity.
  - assert ((x ?= z)%N = Lt) as -> by (apply N.compare_lt_iff; lia). reflexivity.
Qed.

Lemma fkey_cmp_refl : forall k, fkey_cmp k k = Eq.
Proof. destruct k as [x|r x|s o]; cbn; [destruct x; reflexivity|apply Z.compare_refl|apply str_cmp_refl]. Qed.

Lemma fkey_cmp_opp : forall a b, fkey_cmp b a = CompOpp (fkey_cmp a b).
Proof.
  destruct a as [x|r x|s o], b as [y|r' y|t o']; cbn; try reflexivity.
  - destruct x, y; reflexivity.
  - apply Z.compare_antisym.
  - apply str_cmp_opp.
Qed.

Lemma fkey_cmp_trans : forall a b c, fkey_cmp a b = Lt -> fkey_cmp b c = Lt -> fkey_cmp a c = Lt.
Proof.
  destruct a as [x|r x|s o], b as [y|r' y|t o'], c as [z|r'' z|u o'']; cbn; intros H1 H2; try discriminate; try reflexivity.
  - destruct x, y, z; cbn in *; congruence.
  - rewrite Z.compare_lt_iff in *. lia.
  - eapply str_cmp_trans; eauto.
Qed.

Definition klt {A} (a b : key * A) : Prop := fkey_cmp (fst a) (fst b) = Lt.
Definition kle {A} (a b : key * A) : Prop := fkey_cmp (fst a) (fst b) <> Gt.

(* ------------------------------------------------------------------ the sort *)

Lemma kinsert_perm : forall {A} (e : key * A) l, Permutation (kinsert e l) (e :: l).
Proof.
  intros A e. induction l as [|h t IH]; cbn; [reflexivity|].
  destruct (fkey_cmp (fst e) (fst h)); try reflexivity.
  rewrite IH. apply perm_swap.
Qed.

Lemma ksort_perm : forall {A} (l : list (key * A)), Permutation (ksort l) l.
Proof.
  intros A. induction l as [|a l IH]; cbn; [reflexivity|].
  rewrite kinsert_perm. constructor. exact IH.
Qed.

Lemma kinsert_sorted : forall {A} (e : key * A) l, Sorted kle l -> Sorted kle (kinsert e l).
Proof.
  intros A e. induction l as [|h t IH]; intro Hs; cbn; [repeat constructor|].
  inversion Hs as [|h' t' Hst Hhd]; subst.
  destruct (fkey_cmp (fst e) (fst h)) eqn:E.
  - constructor; [exact Hs|]. constructor. unfold kle. rewrite E. discriminate.
  - constructor; [exact Hs|]. constructor. unfold kle. rewrite E. discriminate.
  - constructor; [apply IH; exact Hst|].
    assert (Hhe : kle h e) by (unfold kle; rewrite fkey_cmp_opp, E; discriminate).
    destruct t as [|h2 t2]; cbn; [constructor; exact Hhe|].
    destruct (fkey_cmp (fst e) (fst h2)); constructor; try exact Hhe.
    inversion Hhd; assumption.
Qed.

Lemma ksort_sorted : forall {A} (l : list (key * A)), Sorted kle (ksort l).
Proof.
  intros A. induction l as [|a l IH]; cbn; [constructor|]. apply kinsert_sorted. exact IH.
Qed.

Lemma ksort_id : forall {A} (l : list (key * A)), Sorted kle l -> ksort l = l.
Proof.
  intros A l H. induction H as [|a l Hs IH Hhd]; [reflexivity|].
  cbn. fold (ksort l). rewrite IH.
  destruct Hhd as [|h t Hah]; cbn; [reflexivity|].
  unfold kle in Hah. destruct (fkey_cmp (fst a) (fst h)); try reflexivity. congruence.
Qed.

Lemma ksort_idem : forall {A} (l : list (key * A)), ksort (ksort l) = ksort l.
Proof. intros A l. apply ksort_id. apply ksort_sorted. Qed.

(* sorting commutes with a map that leaves the keys alone *)
Lemma kinsert_map : forall {A B} (g : A -> B) (e : key * A) l,
  kinsert (fst e, g (snd e)) (map (fun x : key * A => (fst x, g (snd x))) l)
  = map (fun x : key * A => (fst x, g (snd x))) (kinsert e l).
Proof.
  intros A B g e. induction l as [|h t IH]; cbn; [reflexivity|].
  destruct (fkey_cmp (fst e) (fst h)); cbn; try reflexivity.
  f_equal. exact IH.
Qed.

Lemma ksort_map : forall {A B} (g : A -> B) (l : list (key * A)),
  ksort (map (fun x : key * A => (fst x, g (snd x))) l) = map (fun x : key * A => (fst x, g (snd x))) (ksort l).
Proof.
  intros A B g. induction l as [|a l IH]; cbn; [reflexivity|].
  fold (ksort l). fold (ksort (map (fun x : key * A => (fst x, g (snd x))) l)).
  rewrite IH. apply kinsert_map.
Qed.

(* ------------------------------------------------------------------ distinct keys *)

Inductive kdistinct {A} : list (key * A) -> Prop :=
| KD_nil : kdistinct []
| KD_cons e l : Forall (fun b => fkey_cmp (fst e) (fst b) <> Eq) l -> kdistinct l -> kdistinct (e :: l).

Lemma cmp_neq_sym : forall a b, fkey_cmp a b <> Eq -> fkey_cmp b a <> Eq.
Proof. intros a b H. rewrite fkey_cmp_opp. destruct (fkey_cmp a b); cbn; congruence. Qed.

Lemma kdistinct_perm : forall {A} (l l' : list (key * A)), Permutation l l' -> kdistinct l -> kdistinct l'.
Proof.
  intros A l l' HP. induction HP as [|x l l' HP IH|x y l|l l' l'' _ IH1 _ IH2]; intro H.
  - constructor.
  - inversion H; subst. constructor; [eapply Permutation_Forall; eauto|auto].
  - inversion H as [|e1 l1 Hy Hrest]; subst. inversion Hrest as [|e2 l2 Hx Hl]; subst.
    inversion Hy as [|b1 l3 Hyx Hyl]; subst.
    constructor; [constructor; [apply cmp_neq_sym; exact Hyx|exact Hx]|].
    constructor; assumption.
  - auto.
Qed.

Lemma kdistinct_map : forall {A B} (g : A -> B) (l : list (key * A)),
  kdistinct l -> kdistinct (map (fun x : key * A => (fst x, g (snd x))) l).
Proof.
  intros A B g l H. induction H as [|e l Hf _ IH]; cbn; constructor; [|exact IH].
  apply Forall_map. cbn. exact Hf.
Qed.

Lemma kinsert_ssorted : forall {A} (e : key * A) l,
  StronglySorted klt l -> Forall (fun b => fkey_cmp (fst e) (fst b) <> Eq) l ->
  StronglySorted klt (kinsert e l).
Proof.
  intros A e. induction l as [|h t IH]; intros Hs Hne; cbn; [repeat constructor|].
  inversion Hs as [|h' t' Hst Hall]; subst. inversion Hne as [|h' t' Hneh Hnet]; subst.
  destruct (fkey_cmp (fst e) (fst h)) eqn:E; [congruence| |].
  - constructor; [exact Hs|]. constructor; [exact E|].
    eapply Forall_impl; [|exact Hall]. intros b Hb. unfold klt in *. eapply fkey_cmp_trans; eauto.
  - constructor; [apply IH; assumption|].
    eapply Permutation_Forall; [symmetry; apply kinsert_perm|].
    constructor; [|exact Hall]. unfold klt. rewrite fkey_cmp_opp, E. reflexivity.
Qed.

Lemma ksort_ssorted : forall {A} (l : list (key * A)), kdistinct l -> StronglySorted klt (ksort l).
Proof.
  intros A l H. induction H as [|e l Hf _ IH]; cbn; [constructor|].
  apply kinsert_ssorted; [exact IH|].
  eapply Permutation_Forall; [symmetry; apply ksort_perm|exact Hf].
Qed.

Lemma klt_irrefl : forall {A} (a : key * A), ~ klt a a.
Proof. intros A a H. unfold klt in H. rewrite fkey_cmp_refl in H. discriminate. Qed.
Lemma klt_asym : forall {A} (a b : key * A), klt a b -> ~ klt b a.
Proof. intros A a b H H'. unfold klt in *. rewrite fkey_cmp_opp, H in H'. discriminate. Qed.

Lemma ssorted_perm_unique : forall {A} (l l' : list (key * A)),
  StronglySorted klt l -> StronglySorted klt l' -> Permutation l l' -> l = l'.
Proof.
  intros A. induction l as [|a l IH]; intros l' Hs Hs' HP.
  - apply Permutation_nil in HP. subst. reflexivity.
  - destruct l' as [|b l']; [apply Permutation_sym, Permutation_nil in HP; discriminate|].
    inversion Hs as [|a' l1 Hsl Hal]; subst. inversion Hs' as [|b' l1' Hsl' Hbl]; subst.
    assert (a = b) as ->.
    { assert (Ha : In a (b :: l')) by (eapply Permutation_in; [exact HP|left; reflexivity]).
      assert (Hb : In b (a :: l)) by (eapply Permutation_in; [symmetry; exact HP|left; reflexivity]).
      destruct Ha as [Ha|Ha]; [auto|]. destruct Hb as [Hb|Hb]; [auto|].
      rewrite Forall_forall in Hal, Hbl. exfalso. eapply klt_asym; [apply Hal; exact Hb|apply Hbl; exact Ha]. }
    f_equal. apply IH; auto. eapply Permutation_cons_inv; eauto.
Qed.

(* the sorted form of a list of entries with distinct keys does not depend on their order *)
Theorem ksort_perm_eq : forall {A} (l l' : list (key * A)),
  Permutation l l' -> kdistinct l -> ksort l = ksort l'.
Proof.
  intros A l l' HP Hd. apply ssorted_perm_unique.
  - apply ksort_ssorted. exact Hd.
  - apply ksort_ssorted. eapply kdistinct_perm; eauto.
  - eapply Permutation_trans; [apply ksort_perm|]. eapply Permutation_trans; [exact HP|]. symmetry. apply ksort_perm.
Qed.

(* ------------------------------------------------------------------ induction on values *)

Section ValueInd.
  Variable P : value -> Prop.
  Hypothesis HUndef : P VUndef.
  Hypothesis HNone : P VNone.
  Hypothesis HBool : forall b, P (VBool b).
  Hypothesis HInt : forall r z, P (VInt r z).
  Hypothesis HFloat : forall f, P (VFloat f).
  Hypothesis HStr : forall s f, P (VStr s f).
  Hypothesis HArr : forall l, Forall P l -> P (VArr l).
  Hypothesis HMap : forall m, Forall (fun e => P (snd e)) m -> P (VMap m).
  Hypothesis HBytes : forall b, P (VBytes b).

  Fixpoint value_ind' (v : value) : P v :=
    match v with
    | VUndef => HUndef | VNone => HNone | VBool b => HBool b | VInt r z => HInt r z
    | VFloat f => HFloat f | VStr s f => HStr s f | VBytes b => HBytes b
    | VArr l =>
        HArr l ((fix go (l : list value) : Forall P l :=
                   match l with
                   | [] => Forall_nil _
                   | x :: l' => Forall_cons x (value_ind' x) (go l')
                   end) l)
    | VMap m =>
        HMap m ((fix go (l : list (key * value)) : Forall (fun e => P (snd e)) l :=
                   match l with
                   | [] => Forall_nil _
                   | x :: l' => Forall_cons x (value_ind' (snd x)) (go l')
                   end) m)
    end.
End ValueInd.

(* ------------------------------------------------------------------ printing *)

Section Printing.
  Variable ffmt : spec_float -> str.
  Variable sdbg : str -> str.
  Variable blossy : list N -> str.

  Let fmt := format ffmt sdbg blossy.
  (* how an element of an array / a value of a map is written *)
  Definition inner (x : value) : str := match x with VStr s _ => sdbg s | _ => fmt x end.
  Definition fmt_entry (e : key * str) : str := fmt_key sdbg (fst e) ++ s_colon ++ snd e.

  Lemma format_arr : forall l, fmt (VArr l) = [91%N] ++ join s_comma (map inner l) ++ [93%N].
  Proof. reflexivity. Qed.

  Lemma format_map_eq : forall m,
    fmt (VMap m) = [123%N] ++ join s_comma (map fmt_entry (ksort (map (fun e : key * value => (fst e, inner (snd e))) m))) ++ [125%N].
  Proof. reflexivity. Qed.

  (* maps print in sorted key order: the text is the entries of SOME list that is a rearrangement
     of the map's entries and is sorted by key *)
  Theorem format_map_sorted : forall m,
    exists es, fmt (VMap m) = [123%N] ++ join s_comma (map fmt_entry es) ++ [125%N]
               /\ Permutation es (map (fun e : key * value => (fst e, inner (snd e))) m)
               /\ Sorted kle es.
  Proof.
    intro m. eexists. split; [apply format_map_eq|]. split; [apply ksort_perm|apply ksort_sorted].
  Qed.

  (* ... whatever the internal order of the entries *)
  Theorem format_map_perm : forall m m',
    Permutation m m' -> kdistinct m -> fmt (VMap m) = fmt (VMap m').
  Proof.
    intros m m' HP Hd. rewrite !format_map_eq. do 4 f_equal.
    apply ksort_perm_eq; [apply Permutation_map; exact HP|apply kdistinct_map; exact Hd].
  Qed.

  Lemma inner_canon : forall x, fmt (canon x) = fmt x -> inner (canon x) = inner x.
  Proof. intros x H. destruct x; cbn in *; auto. Qed.

  (* ... and at every depth: sorting the entries of every map inside a value changes nothing *)
  Theorem format_canon : forall v, fmt (canon v) = fmt v.
  Proof.
    induction v using value_ind'; try reflexivity.
    - cbn [canon]. rewrite !format_arr. do 3 f_equal. rewrite map_map.
      apply map_ext_in. intros x Hx. apply inner_canon. rewrite Forall_forall in H. auto.
    - cbn [canon]. rewrite !format_map_eq. do 4 f_equal.
      rewrite (ksort_map inner), ksort_idem. rewrite <- (ksort_map inner).
      f_equal. rewrite map_map. apply map_ext_in. intros e He. cbn. f_equal.
      apply inner_canon. rewrite Forall_forall in H. auto.
  Qed.

  Corollary format_determined_by_canon : forall v w, canon v = canon w -> fmt v = fmt w.
  Proof. intros v w H. rewrite <- (format_canon v), <- (format_canon w), H. reflexivity. Qed.

  Lemma format_int : forall r z, fmt (VInt r z) = dec z.
  Proof. reflexivity. Qed.
End Printing.

(* ------------------------------------------------------------------ decimal numerals *)

Lemma horner_acc' : forall u acc z, z = Z.pos acc ->
  horner z (str_of_uint u) = Some (Z.pos (Pos.of_uint_acc u acc)).
Proof.
  induction u as [|u IH|u IH|u IH|u IH|u IH|u IH|u IH|u IH|u IH|u IH]; intros acc z Hz;
    cbn [str_of_uint horner Pos.of_uint_acc].
  - subst. reflexivity.
  - change (digit_val 48) with (Some 0). cbv iota beta. apply IH. subst. lia.
  - change (digit_val 49) with (Some 1). cbv iota beta. apply IH. subst. lia.
  - change (digit_val 50) with (Some 2). cbv iota beta. apply IH. subst. lia.
  - change (digit_val 51) with (Some 3). cbv iota beta. apply IH. subst. lia.
  - change (digit_val 52) with (Some 4). cbv iota beta. apply IH. subst. lia.
  - change (digit_val 53) with (Some 5). cbv iota beta. apply IH. subst. lia.
  - change (digit_val 54) with (Some 6). cbv iota beta. apply IH. subst. lia.
  - change (digit_val 55) with (Some 7). cbv iota beta. apply IH. subst. lia.
  - change (digit_val 56) with (Some 8). cbv iota beta. apply IH. subst. lia.
  - change (digit_val 57) with (Some 9). cbv iota beta. apply IH. subst. lia.
Qed.

Lemma horner_acc : forall u acc,
  horner (Z.pos acc) (str_of_uint u) = Some (Z.pos (Pos.of_uint_acc u acc)).
Proof. intros. apply horner_acc'. reflexivity. Qed.

Lemma horner_uint : forall u, horner 0 (str_of_uint u) = Some (Z.of_N (Pos.of_uint u)).
Proof.
  induction u as [|u IH|u IH|u IH|u IH|u IH|u IH|u IH|u IH|u IH|u IH];
    cbn [str_of_uint horner Pos.of_uint]; try reflexivity.
  - change (digit_val 48) with (Some 0). exact IH.
  - change (digit_val 49) with (Some 1). apply (horner_acc u 1).
  - change (digit_val 50) with (Some 2). apply (horner_acc u 2).
  - change (digit_val 51) with (Some 3). apply (horner_acc u 3).
  - change (digit_val 52) with (Some 4). apply (horner_acc u 4).
  - change (digit_val 53) with (Some 5). apply (horner_acc u 5).
  - change (digit_val 54) with (Some 6). apply (horner_acc u 6).
  - change (digit_val 55) with (Some 7). apply (horner_acc u 7).
  - change (digit_val 56) with (Some 8). apply (horner_acc u 8).
  - change (digit_val 57) with (Some 9). apply (horner_acc u 9).
Qed.

Lemma str_of_uint_first : forall u, match str_of_uint u with 45%N :: _ => False | _ => True end.
Proof. destruct u; cbn; exact I. Qed.

(* what is printed for an integer, read as a decimal numeral, is that integer *)
Theorem parse_dec_dec : forall z, parse_dec (dec z) = Some z.
Proof.
  intro z. unfold dec. destruct z as [|p|p]; cbn [Z.to_int str_of_int].
  - reflexivity.
  - pose proof (DecimalPos.Unsigned.of_to p) as Hof.
    pose proof (horner_uint (Pos.to_uint p)) as Hh. rewrite Hof in Hh.
    pose proof (str_of_uint_first (Pos.to_uint p)) as Hf.
    destruct (str_of_uint (Pos.to_uint p)) as [|c t] eqn:E.
    + cbn in Hh. discriminate.
    + unfold parse_dec. destruct c as [|c]; [exact Hh|].
      repeat (destruct c as [c|c|]; try exact Hh). contradiction.
  - pose proof (DecimalPos.Unsigned.of_to p) as Hof.
    pose proof (horner_uint (Pos.to_uint p)) as Hh. rewrite Hof in Hh.
    destruct (str_of_uint (Pos.to_uint p)) as [|c t] eqn:E.
    + cbn in Hh. discriminate.
    + cbn [parse_dec]. rewrite Hh. reflexivity.
Qed.
