(* C04 — the VM model against the recursive specification: for a lineage function that is the
   specified one, [interp] (fixed code, any capture_block) computes exactly what [spec_node]
   says, with the SAME fuel on both sides. *)
From Coq Require Import List NArith Bool Arith Lia.
From TeraV Require Import Model.Lineage Spec.Inherit.
Import ListNotations.

(* ------------------------------------------------------------------ induction on nodes *)

Section NodeInd.
  Variable P : node -> Prop.
  Hypothesis HT : forall i, P (Text i).
  Hypothesis HS : P Super.
  Hypothesis HB : forall b body, Forall P body -> P (BlockDef b body).
  Hypothesis HF : forall k body, Forall P body -> P (FilterSection k body).
  Fixpoint node_ind' (n : node) : P n :=
    let fix go (l : list node) : Forall P l :=
      match l with
      | [] => Forall_nil P
      | x :: l' => Forall_cons x (node_ind' x) (go l')
      end in
    match n with
    | Text i => HT i
    | Super => HS
    | BlockDef b body => HB b body (go body)
    | FilterSection k body => HF k body (go body)
    end.
End NodeInd.

Section TreeInd.
  Variable P : otree -> Prop.
  Hypothesis HT : forall i, P (TText i).
  Hypothesis HO : P TOpen.
  Hypothesis HC : P TClose.
  Hypothesis HB : forall b body, Forall P body -> P (TBlock b body).
  Fixpoint otree_ind' (t : otree) : P t :=
    let fix go (l : list otree) : Forall P l :=
      match l with
      | [] => Forall_nil P
      | x :: l' => Forall_cons x (otree_ind' x) (go l')
      end in
    match t with
    | TText i => HT i
    | TOpen => HO
    | TClose => HC
    | TBlock b body => HB b body (go body)
    end.
End TreeInd.

(* ------------------------------------------------------------------ what a capturing render emits *)

(* text reaching the output / capture buffers when capture_block = cb: activations of cb are
   diverted to the block buffer *)
Fixpoint erase_node (cb : option name) (t : otree) : list out :=
  match t with
  | TText i => [OText i]
  | TOpen => [OOpen]
  | TClose => [OClose]
  | TBlock b body => if opt_name_eqb cb b then [] else flat_map (erase_node cb) body
  end.
Definition erase (cb : option name) (ts : list otree) : list out := flat_map (erase_node cb) ts.

(* content of block_buffer after the tree was produced, starting from d *)
Fixpoint lastw_node (cb : option name) (d : list out) (t : otree) : list out :=
  match t with
  | TBlock b body =>
      if opt_name_eqb cb b then erase cb body else fold_left (lastw_node cb) body d
  | _ => d
  end.
Definition lastw (cb : option name) (d : list out) (ts : list otree) : list out :=
  fold_left (lastw_node cb) ts d.

Lemma erase_none_flat_node : forall t, erase_node None t = flat_node t.
Proof.
  induction t using otree_ind'; cbn; auto.
  induction H; cbn; auto. now rewrite H, IHForall.
Qed.
Lemma erase_none_flat : forall ts, erase None ts = flat ts.
Proof.
  induction ts; cbn; auto. unfold erase, flat in *. now rewrite erase_none_flat_node, IHts.
Qed.
Lemma lastw_none_node : forall t d, lastw_node None d t = d.
Proof.
  induction t using otree_ind'; cbn; auto.
  induction H; cbn; auto. intros d. now rewrite H, IHForall.
Qed.
Lemma lastw_none : forall ts d, lastw None d ts = d.
Proof.
  unfold lastw. induction ts; cbn; auto. intros d. now rewrite lastw_none_node, IHts.
Qed.

Lemma erase_app : forall cb a b, erase cb (a ++ b) = erase cb a ++ erase cb b.
Proof. intros. unfold erase. apply flat_map_app. Qed.
Lemma lastw_app : forall cb d a b, lastw cb d (a ++ b) = lastw cb (lastw cb d a) b.
Proof. intros. unfold lastw. apply fold_left_app. Qed.

Lemma erase_twrap : forall cb k tr, erase cb (twrap k tr) = wrap k (erase cb tr).
Proof.
  intros cb [] tr; auto. unfold erase, twrap, wrap. cbn [flat_map erase_node app].
  rewrite flat_map_app. reflexivity.
Qed.
Lemma lastw_twrap : forall cb k d tr, lastw cb d (twrap k tr) = lastw cb d tr.
Proof.
  intros cb [] d tr; auto. unfold lastw, twrap. cbn [fold_left lastw_node].
  rewrite fold_left_app. reflexivity.
Qed.

(* ------------------------------------------------------------------ unfolding of the two recursions *)

Lemma interp_nil : forall fx lin f st o, interp fx lin (S f) st [] o = Ok (st, o).
Proof. reflexivity. Qed.
Lemma interp_text : forall fx lin f st t c o,
  interp fx lin (S f) st (IText t :: c) o =
  let '(st', o') := write st o [OText t] in interp fx lin (S f) st' c o'.
Proof. reflexivity. Qed.
Lemma interp_capture : forall fx lin f st c o,
  interp fx lin (S f) st (ICapture :: c) o = interp fx lin (S f) (set_caps st ([] :: st_caps st)) c o.
Proof. reflexivity. Qed.
Lemma interp_endcapture : forall fx lin f st k c o,
  interp fx lin (S f) st (IEndCapture k :: c) o =
  match st_caps st with
  | [] => Err EPanic
  | captured :: rest =>
      let '(st', o') := write (set_caps st rest) o (wrap k captured) in interp fx lin (S f) st' c o'
  end.
Proof. reflexivity. Qed.
Lemma interp_renderblock : forall fx lin f st b c o,
  interp fx lin (S f) st (IRenderBlock b :: c) o =
  match lin b with
  | None | Some [] => Err ENoLineage
  | Some ((ch0 :: _) as lineage) =>
      let st1 := set_current (set_blocks st ((b, lineage, 0) :: st_blocks st)) (Some b) in
      if opt_name_eqb (st_capture_block st) b then
        let st1' := if fx then set_caps st1 [] else st1 in
        match interp fx lin f st1' ch0 [] with
        | Err e => Err e
        | Ok (st2, buf) =>
            let st2' := if fx then set_caps st2 (st_caps st) else st2 in
            interp fx lin (S f)
                   (set_blocks (set_current (set_block_buffer st2' buf) (st_current st)) (tl (st_blocks st2')))
                   c o
        end
      else
        match interp fx lin f st1 ch0 o with
        | Err e => Err e
        | Ok (st2, o2) =>
            interp fx lin (S f) (set_blocks (set_current st2 (st_current st)) (tl (st_blocks st2))) c o2
        end
  end.
Proof. reflexivity. Qed.
Lemma interp_super : forall fx lin f st c o,
  interp fx lin (S f) st (ISuper :: c) o =
  match st_current st with
  | None => Err ESuperOutside
  | Some cur =>
      match find_entry cur (st_blocks st) with
      | None => Err EPanic
      | Some (pos, (lineage, level)) =>
          match nth_error lineage (S level) with
          | None => Err ESuperTop
          | Some ch =>
              let st1 := set_caps (set_blocks st (set_level pos (S level) (st_blocks st))) [] in
              match interp fx lin f st1 ch [] with
              | Err e => Err e
              | Ok (st2, sup) =>
                  let st3 := set_blocks (set_caps st2 (st_caps st)) (set_level pos level (st_blocks st2)) in
                  let '(st', o') := write st3 o sup in
                  interp fx lin (S f) st' c o'
              end
          end
      end
  end.
Proof. reflexivity. Qed.

Arguments interp : simpl never.
Arguments spec_node : simpl never.

Definition spec_sub (f : nat) (ch : chain) (cur : option (name * chain)) (body : list node) :=
  match f with
  | 0 => Err EOutOfFuel
  | S _ => list_bind (spec_node f ch cur) body
  end.

Lemma spec_sub_list : forall f ch cur body, spec_sub f ch cur body = spec_list f ch cur body.
Proof. destruct f; reflexivity. Qed.

Lemma spec_node_text : forall f ch cur i, spec_node (S f) ch cur (Text i) = Ok [TText i].
Proof. reflexivity. Qed.
Lemma spec_node_filter : forall f ch cur k body,
  spec_node (S f) ch cur (FilterSection k body) =
  (r <- list_bind (spec_node (S f) ch cur) body ;; Ok (twrap k r)).
Proof. reflexivity. Qed.
Lemma spec_node_block : forall f ch cur b bd,
  spec_node (S f) ch cur (BlockDef b bd) =
  match resolve ch b with
  | None => Err ENoLineage
  | Some (body, anc) => r <- spec_sub f ch (Some (b, anc)) body ;; Ok [TBlock b r]
  end.
Proof. reflexivity. Qed.
Lemma spec_node_super : forall f ch cur,
  spec_node (S f) ch cur Super =
  match cur with
  | None => Err ESuperOutside
  | Some (b, anc) =>
      match resolve anc b with
      | None => Err ESuperTop
      | Some (body, anc') => spec_sub f ch (Some (b, anc')) body
      end
  end.
Proof. reflexivity. Qed.

Lemma list_bind_cons : forall A B (g : A -> rres (list B)) x l,
  list_bind g (x :: l) = (a <- g x ;; r <- list_bind g l ;; Ok (a ++ r)).
Proof. reflexivity. Qed.

(* ------------------------------------------------------------------ lineage vs resolve *)

Definition nonempty {A} (l : list A) : option (list A) :=
  match l with [] => None | _ => Some l end.

Lemma spec_lineage_resolve : forall ch b,
  spec_lineage ch b =
  match resolve ch b with
  | None => []
  | Some (body, anc) => body :: (if has_super body then spec_lineage anc b else [])
  end.
Proof.
  induction ch as [|t anc IH]; intros b; cbn; auto.
  destruct (defines t b); auto.
Qed.

Lemma has_super_code_node : forall n, calls_super (code_node n) = has_super_node n.
Proof.
  induction n using node_ind'; cbn; auto.
  unfold calls_super in *. cbn. rewrite existsb_app. cbn. rewrite orb_false_r.
  induction H; cbn; auto. rewrite existsb_app, H, IHForall. reflexivity.
Qed.
Lemma has_super_code : forall ns, calls_super (code_of ns) = has_super ns.
Proof.
  induction ns; cbn; auto. unfold calls_super, code_of, has_super in *. cbn.
  rewrite existsb_app. fold (calls_super (code_node a)). now rewrite has_super_code_node, IHns.
Qed.

(* ------------------------------------------------------------------ the simulation *)

(* final state and output after a tree was produced *)
Definition fin (st : vstate) (o : list out) (tr : list otree) : vstate * list out :=
  let '(st1, o1) := write st o (erase (st_capture_block st) tr) in
  (set_block_buffer st1 (lastw (st_capture_block st) (st_block_buffer st) tr), o1).

Lemma fin_nil : forall st o, fin st o [] = (st, o).
Proof.
  intros [bl cu caps cb bb] o. unfold fin, write. cbn.
  destruct caps; cbn; now rewrite app_nil_r.
Qed.

Lemma fin_app : forall st o a b,
  fin st o (a ++ b) = let '(st1, o1) := fin st o a in fin st1 o1 b.
Proof.
  intros [bl cu caps cb bb] o a b. unfold fin, write. cbn.
  rewrite erase_app, lastw_app.
  destruct caps; cbn; now rewrite app_assoc.
Qed.

Definition cur_ok (cur : option (name * chain)) (st : vstate) (sup : bool) : Prop :=
  match cur with
  | None => st_current st = None
  | Some (b, anc) =>
      st_current st = Some b /\
      exists lineage level rest,
        st_blocks st = (b, lineage, level) :: rest /\
        (sup = true -> skipn (S level) lineage = map code_of (spec_lineage anc b))
  end.

Lemma cur_ok_weaken : forall cur st s s', (s' = true -> s = true) -> cur_ok cur st s -> cur_ok cur st s'.
Proof.
  intros [[b anc]|] st s s' Hs; cbn; auto.
  intros [Hc (l & lv & r & Hb & Hk)]. split; auto. exists l, lv, r. split; auto.
Qed.

Lemma cur_ok_fin : forall cur st o tr s, cur_ok cur st s -> cur_ok cur (fst (fin st o tr)) s.
Proof.
  intros cur [bl cu caps cb bb] o tr s. unfold fin, write. cbn.
  destruct caps; cbn; auto.
Qed.

Section Sim.
  Variable ch : chain.
  Variable lin : name -> option (list code).
  Hypothesis Hlin : forall b, lin b = nonempty (map code_of (spec_lineage ch b)).

  Definition call_ok (f : nat) : Prop :=
    forall cur st body o,
      cur_ok cur st (has_super body) ->
      interp true lin f st (code_of body) o =
      match spec_sub f ch cur body with
      | Err e => Err e
      | Ok tr => Ok (fin st o tr)
      end.

  Definition node_ok (f : nat) (n : node) : Prop :=
    forall cur st rest o,
      cur_ok cur st (has_super_node n) ->
      interp true lin (S f) st (code_node n ++ rest) o =
      match spec_node (S f) ch cur n with
      | Err e => Err e
      | Ok tr => let '(st', o') := fin st o tr in interp true lin (S f) st' rest o'
      end.

  Lemma list_ok : forall f ns, Forall (node_ok f) ns ->
    forall cur st rest o,
      cur_ok cur st (has_super ns) ->
      interp true lin (S f) st (code_of ns ++ rest) o =
      match list_bind (spec_node (S f) ch cur) ns with
      | Err e => Err e
      | Ok tr => let '(st', o') := fin st o tr in interp true lin (S f) st' rest o'
      end.
  Proof.
    intros f ns HF. induction HF as [|n ns Hn _ IH]; intros cur st rest o Hc.
    - cbn [code_of flat_map app list_bind]. now rewrite fin_nil.
    - unfold code_of in *. cbn [flat_map]. rewrite <- app_assoc, list_bind_cons.
      rewrite (Hn cur st).
      2:{ eapply cur_ok_weaken; [|exact Hc]. unfold has_super. cbn. intros ->. reflexivity. }
      destruct (spec_node (S f) ch cur n) as [tr1|e]; cbn [rbind]; auto.
      destruct (fin st o tr1) as [st1 o1] eqn:Hf1.
      rewrite (IH cur st1).
      2:{ replace st1 with (fst (fin st o tr1)) by now rewrite Hf1.
          apply cur_ok_fin. eapply cur_ok_weaken; [|exact Hc].
          unfold has_super. cbn. intros ->. apply orb_true_r. }
      destruct (list_bind (spec_node (S f) ch cur) ns) as [tr2|e]; cbn [rbind]; auto.
      rewrite fin_app, Hf1. reflexivity.
  Qed.

  Lemma skipn_S_tl : forall A (l : list A) n x r, skipn n l = x :: r -> skipn (S n) l = r.
  Proof.
    induction l; intros n x r H.
    - destruct n; discriminate.
    - destruct n; cbn in *.
      + now inversion H.
      + eapply IHl; eauto.
  Qed.

  Lemma nth_error_skipn_hd : forall A (l : list A) n, nth_error l n = hd_error (skipn n l).
  Proof.
    induction l; intros [|n]; cbn; auto.
  Qed.

  Lemma node_step : forall f, call_ok f -> forall n, node_ok f n.
  Proof.
    intros f Hcall. induction n as [i| |b0 bd0 Hbd|k bd0 Hbd] using node_ind'; unfold node_ok; intros cur st rest o Hc.
    - (* Text *)
      cbn [code_node app]. rewrite interp_text, spec_node_text.
      destruct st as [bl cu caps cb bb]. unfold fin, write, erase, lastw. cbn.
      destruct caps; cbn; rewrite ?app_nil_r; reflexivity.
    - (* Super *)
      cbn [code_node app]. rewrite interp_super, spec_node_super.
      destruct cur as [[b anc]|]; unfold cur_ok in Hc.
      2:{ now rewrite Hc. }
      destruct Hc as [Hcu (lineage & level & brest & Hb & Hk)].
      rewrite Hcu, Hb. cbn [find_entry]. rewrite N.eqb_refl.
      specialize (Hk eq_refl). rewrite nth_error_skipn_hd, Hk.
      rewrite (spec_lineage_resolve anc b) in *.
      destruct (resolve anc b) as [[body anc']|]; cbn [map hd_error] in *; auto.
      cbn [set_level].
      rewrite (Hcall (Some (b, anc'))).
      2:{ unfold cur_ok. split; auto. exists lineage, (S level), brest. split; auto.
          intros Hs. rewrite Hs in Hk. eapply skipn_S_tl. exact Hk. }
      destruct (spec_sub f ch (Some (b, anc')) body) as [tr|e]; auto.
      destruct st as [bl cu caps cb bb]. cbn in Hb, Hcu. subst bl cu.
      unfold fin, write. cbn. destruct caps; cbn; reflexivity.
    - (* BlockDef *)
      rename b0 into b.
      cbn [code_node app]. rewrite interp_renderblock, spec_node_block, Hlin.
      rewrite (spec_lineage_resolve ch b).
      destruct (resolve ch b) as [[body anc]|]; cbn [map nonempty]; auto.
      set (lineage := code_of body :: map code_of (if has_super body then spec_lineage anc b else [])).
      destruct (opt_name_eqb (st_capture_block st) b) eqn:Hcb.
      + rewrite (Hcall (Some (b, anc))).
        2:{ cbn. split; auto. exists lineage, 0, (st_blocks st). split; auto.
            intros Hs. subst lineage. cbn. now rewrite Hs. }
        destruct (spec_sub f ch (Some (b, anc)) body) as [tr|e]; cbn [rbind]; auto.
        destruct st as [bl cu caps cb bb]. cbn in Hcb.
        unfold fin, write. cbn. rewrite Hcb. cbn.
        destruct caps; cbn; rewrite ?app_nil_r; reflexivity.
      + rewrite (Hcall (Some (b, anc))).
        2:{ cbn. split; auto. exists lineage, 0, (st_blocks st). split; auto.
            intros Hs. subst lineage. cbn. now rewrite Hs. }
        destruct (spec_sub f ch (Some (b, anc)) body) as [tr|e]; cbn [rbind]; auto.
        destruct st as [bl cu caps cb bb]. cbn in Hcb.
        unfold fin, write, erase, lastw. cbn. rewrite Hcb. cbn.
        destruct caps; cbn; rewrite ?app_nil_r; reflexivity.
    - (* FilterSection *)
      cbn [code_node app]. rewrite interp_capture, spec_node_filter.
      rewrite <- app_assoc.
      rename bd0 into body.
      assert (HL := list_ok f body Hbd cur (set_caps st ([] :: st_caps st)) ([IEndCapture k] ++ rest) o).
      unfold code_of in HL. rewrite HL.
      2:{ destruct cur as [[b anc]|]; cbn in *; auto. }
      destruct (list_bind (spec_node (S f) ch cur) body) as [tr|e]; cbn [rbind]; auto.
      destruct st as [bl cu caps cb bb].
      unfold fin at 1. unfold write. cbn.
      rewrite interp_endcapture. cbn.
      unfold fin, write. cbn. rewrite erase_twrap, lastw_twrap.
      destruct caps; cbn; reflexivity.
  Qed.

  Theorem sim : forall f, call_ok f.
  Proof.
    induction f as [|f IH]; unfold call_ok; intros cur st body o Hc.
    - reflexivity.
    - assert (HF : Forall (node_ok f) body).
      { apply Forall_forall. intros n _. now apply node_step. }
      assert (HL := list_ok f body HF cur st [] o Hc).
      rewrite app_nil_r in HL. rewrite HL. cbn [spec_sub].
      destruct (list_bind (spec_node (S f) ch cur) body) as [tr|e]; auto.
      destruct (fin st o tr) as [st' o']. reflexivity.
  Qed.

  (* the whole render from the initial state *)
  Corollary sim_top : forall f capture body,
    interp true lin f (init_state capture) (code_of body) [] =
    match spec_list f ch None body with
    | Err e => Err e
    | Ok tr => Ok (fin (init_state capture) [] tr)
    end.
  Proof.
    intros. rewrite <- spec_sub_list. apply sim. reflexivity.
  Qed.
End Sim.

(* ------------------------------------------------------------------ last activation *)

Lemma last_app_ne : forall A (l l' : list A) d, l' <> [] -> last (l ++ l') d = last l' d.
Proof.
  induction l; intros l' d Hne; cbn; auto.
  destruct (l ++ l') eqn:E.
  - apply app_eq_nil in E. destruct E; contradiction.
  - rewrite <- E. now apply IHl.
Qed.

Lemma last_indep : forall A (l : list A) d d', l <> [] -> last l d = last l d'.
Proof.
  induction l; intros d d' H; [contradiction|].
  destruct l; cbn; auto. apply IHl. discriminate.
Qed.

(* no activation of b at all inside: nothing written, buffer untouched *)
Lemma writes_nil_lastw_node : forall b t d,
  writes_node b t = [] -> lastw_node (Some b) d t = d.
Proof.
  intros b. induction t using otree_ind'; cbn; auto.
  intros d. destruct (N.eqb b b0); [discriminate|].
  intros Hw. revert d. induction H; cbn in *; auto.
  intros d. apply app_eq_nil in Hw. destruct Hw as [Hw1 Hw2]. rewrite H; auto.
Qed.

Lemma erase_flat_node : forall b t,
  self_nested_node true b t = false -> erase_node (Some b) t = flat_node t.
Proof.
  intros b. induction t using otree_ind'; cbn; auto.
  destruct (N.eqb b b0); cbn; [discriminate|].
  intros Hs. induction H; cbn in *; auto.
  apply orb_false_iff in Hs. destruct Hs as [Hs1 Hs2]. now rewrite H, IHForall.
Qed.
Lemma erase_flat : forall b ts,
  existsb (self_nested_node true b) ts = false -> erase (Some b) ts = flat ts.
Proof.
  induction ts; cbn; auto. intros Hs. apply orb_false_iff in Hs. destruct Hs.
  unfold erase, flat in *. cbn. now rewrite erase_flat_node, IHts.
Qed.

Lemma lastw_last_node : forall b t d,
  self_nested_node false b t = false ->
  lastw_node (Some b) d t = last (writes_node b t) d.
Proof.
  intros b. induction t using otree_ind'; cbn; auto.
  intros d. destruct (N.eqb b b0) eqn:E; cbn.
  - intros Hs. now apply erase_flat.
  - intros Hs. revert d. induction H; intros d; cbn in *; auto.
    apply orb_false_iff in Hs. destruct Hs as [Hs1 Hs2].
    rewrite H by auto. rewrite IHForall by auto.
    destruct (flat_map (writes_node b) l) eqn:E2.
    + rewrite app_nil_r. reflexivity.
    + rewrite last_app_ne by discriminate. apply last_indep. discriminate.
Qed.

Lemma lastw_last : forall b ts d,
  self_nested b ts = false -> lastw (Some b) d ts = last (block_writes b ts) d.
Proof.
  unfold self_nested, lastw, block_writes. induction ts; intros d Hs; cbn in *; auto.
  apply orb_false_iff in Hs. destruct Hs as [Hs1 Hs2].
  rewrite lastw_last_node by auto. rewrite IHts by auto.
  destruct (flat_map (writes_node b) ts) eqn:E2.
  - rewrite app_nil_r. reflexivity.
  - rewrite last_app_ne by discriminate. apply last_indep. discriminate.
Qed.
