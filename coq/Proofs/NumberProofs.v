(* Lemmas for C13, part 1: integer arithmetic of Model/Number.v against Spec/Arith.v.
   (Part 2, numeric comparison, is Proofs/NumCmpProofs.v.) *)
From TeraV Require Import Model.Value Model.Number Spec.Arith.

Ltac range_unfold :=
  unfold fits_i128, in_i128, in_u128, i128_min, i128_max, u128_max, two127, two128, u32_max in *.

Lemma in_i128_fits : forall z, in_i128 z = true <-> fits_i128 z.
Proof. intro z. range_unfold. rewrite andb_true_iff, !Z.leb_le. lia. Qed.

Lemma in_i128_false : forall z, in_i128 z = false <-> ~ fits_i128 z.
Proof.
  intro z. rewrite <- in_i128_fits. destruct (in_i128 z); split; congruence.
Qed.

Lemma as_number_int : forall r z,
  as_number (VInt r z) = if in_i128 z then Some (NInt z) else None.
Proof. intros. cbn [as_number as_i128]. destruct (in_i128 z); reflexivity. Qed.

(* ---------------------------------------------------------------- + - * and negation *)

Lemma math_int : forall iop fop ra a rb b,
  math iop fop (VInt ra a) (VInt rb b) =
    if in_i128 a && in_i128 b
    then match iop a b with Some z => Some (ROk (VInt I128 z)) | None => Some (RErr ErrMsg) end
    else Some (RErr ErrMsg).
Proof.
  intros. unfold math, with_numbers. rewrite !as_number_int.
  destruct (in_i128 a); [|reflexivity].
  destruct (in_i128 b); [|reflexivity].
  cbn [num_is_float orb andb]. destruct (iop a b); reflexivity.
Qed.

Definition exact_or_error (a b r : Z) : mres :=
  if in_i128 a && in_i128 b && in_i128 r then Some (ROk (VInt I128 r)) else Some (RErr ErrMsg).

Lemma math_checked : forall g fop ra a rb b,
  math (fun x y => checked (g x y)) fop (VInt ra a) (VInt rb b) = exact_or_error a b (g a b).
Proof.
  intros. rewrite math_int. unfold exact_or_error, checked.
  destruct (in_i128 a), (in_i128 b); cbn [andb]; try reflexivity.
  destruct (in_i128 (g a b)); reflexivity.
Qed.

Lemma add_exact : forall ra a rb b,
  num_add (VInt ra a) (VInt rb b) = exact_or_error a b (a + b).
Proof. intros. apply (math_checked Z.add). Qed.
Lemma sub_exact : forall ra a rb b,
  num_sub (VInt ra a) (VInt rb b) = exact_or_error a b (a - b).
Proof. intros. apply (math_checked Z.sub). Qed.
Lemma mul_exact : forall ra a rb b,
  num_mul (VInt ra a) (VInt rb b) = exact_or_error a b (a * b).
Proof. intros. apply (math_checked Z.mul). Qed.

Lemma neg_exact : forall ra a,
  num_negate (VInt ra a) = exact_or_error a a (- a).
Proof.
  intros. unfold num_negate, exact_or_error. rewrite as_number_int.
  destruct (in_i128 a); cbn [andb]; [|reflexivity].
  unfold checked_neg, checked. destruct (in_i128 (- a)); reflexivity.
Qed.

(* the DESIGN form: Ok r  <->  operands in range, r exact, r in range *)
Lemma exact_or_error_ok : forall a b r v,
  exact_or_error a b r = Some (ROk v) <->
  fits_i128 a /\ fits_i128 b /\ v = VInt I128 r /\ fits_i128 r.
Proof.
  intros. unfold exact_or_error. rewrite <- !in_i128_fits.
  destruct (in_i128 a), (in_i128 b), (in_i128 r); cbn [andb]; split; intro H;
    try discriminate; try (decompose [and] H; discriminate).
  - inversion H. auto.
  - decompose [and] H. subst. reflexivity.
Qed.

Lemma exact_or_error_total : forall a b r,
  exact_or_error a b r = Some (ROk (VInt I128 r)) \/ exact_or_error a b r = Some (RErr ErrMsg).
Proof. intros. unfold exact_or_error. destruct (_ && _ && _); auto. Qed.

(* ---------------------------------------------------------------- Euclidean division *)

Lemma euclid_unique : forall a b q r,
  b <> 0 -> is_euclid a b q r -> q = euclid_div a b /\ r = euclid_mod a b.
Proof.
  intros a b q r Hb [Hq Hr]. unfold euclid_div, euclid_mod.
  destruct (Z_lt_le_dec b 0) as [Hneg|Hpos].
  - rewrite Z.abs_neq in * by lia. rewrite Z.sgn_neg by lia.
    assert (E1 : - q = a / - b) by (apply Z.div_unique_pos with r; lia).
    assert (E2 : r = a mod - b) by (apply Z.mod_unique_pos with (- q); lia).
    lia.
  - rewrite Z.abs_eq in * by lia. rewrite Z.sgn_pos by lia.
    assert (E1 : q = a / b) by (apply Z.div_unique_pos with r; lia).
    assert (E2 : r = a mod b) by (apply Z.mod_unique_pos with q; lia).
    lia.
Qed.

Lemma euclid_spec_is_euclid : forall a b,
  b <> 0 -> is_euclid a b (euclid_div a b) (euclid_mod a b).
Proof.
  intros a b Hb. unfold is_euclid, euclid_div, euclid_mod.
  assert (Hab : 0 < Z.abs b) by lia.
  pose proof (Z.div_mod a (Z.abs b) ltac:(lia)) as Hdm.
  pose proof (Z.mod_pos_bound a (Z.abs b) Hab) as Hm.
  split; [|exact Hm].
  destruct (Z_lt_le_dec b 0).
  - rewrite Z.sgn_neg by lia. rewrite Z.abs_neq in * by lia. lia.
  - rewrite Z.sgn_pos by lia. rewrite Z.abs_eq in * by lia. lia.
Qed.

(* std's div_euclid / rem_euclid (over truncating division) are the Euclidean pair *)
Lemma std_euclid : forall a b,
  b <> 0 -> is_euclid a b (div_euclid a b) (rem_euclid a b).
Proof.
  intros a b Hb. unfold is_euclid, div_euclid, rem_euclid.
  pose proof (Z.quot_rem' a b) as Hqr.
  pose proof (Z.rem_bound_abs a b Hb) as Hbound.
  set (Q := Z.quot a b) in *. set (R := Z.rem a b) in *.
  destruct (R <? 0) eqn:HR; [apply Z.ltb_lt in HR | apply Z.ltb_ge in HR].
  - destruct (0 <? b) eqn:Hb0; [apply Z.ltb_lt in Hb0 | apply Z.ltb_ge in Hb0]; lia.
  - lia.
Qed.

Lemma div_euclid_spec : forall a b, b <> 0 -> div_euclid a b = euclid_div a b.
Proof. intros. apply (euclid_unique a b _ _ H (std_euclid a b H)). Qed.
Lemma rem_euclid_spec : forall a b, b <> 0 -> rem_euclid a b = euclid_mod a b.
Proof. intros. apply (euclid_unique a b _ _ H (std_euclid a b H)). Qed.

Lemma euclid_mod_fits : forall a b, b <> 0 -> fits_i128 b -> fits_i128 (euclid_mod a b).
Proof.
  intros a b Hb Hf. destruct (euclid_spec_is_euclid a b Hb) as [_ Hr].
  range_unfold. lia.
Qed.

(* |q| <= |a| *)
Lemma euclid_div_abs : forall a b, b <> 0 -> Z.abs (euclid_div a b) <= Z.abs a.
Proof.
  intros a b Hb. unfold euclid_div. rewrite Z.abs_mul.
  assert (Hs : Z.abs (Z.sgn b) = 1) by (destruct b; cbn; lia).
  rewrite Hs, Z.mul_1_l.
  assert (Hab : 0 < Z.abs b) by lia.
  destruct (Z_lt_le_dec a 0).
  - (* a < 0: a / |b| in [a, -1] *)
    assert (a <= a / Z.abs b).
    { apply Z.div_le_lower_bound; [lia|]. nia. }
    assert (a / Z.abs b < 0) by (apply Z.div_lt_upper_bound; lia).
    lia.
  - assert (0 <= a / Z.abs b) by (apply Z.div_pos; lia).
    assert (a / Z.abs b <= a).
    { apply Z.div_le_upper_bound; [lia|]. nia. }
    lia.
Qed.

Lemma euclid_div_min_neg1 : euclid_div i128_min (-1) = two127.
Proof. vm_compute. reflexivity. Qed.

(* the only in-range operands whose Euclidean quotient does not fit *)
Lemma euclid_div_fits : forall a b,
  b <> 0 -> fits_i128 a -> fits_i128 b ->
  (fits_i128 (euclid_div a b) <-> ~ (a = i128_min /\ b = -1)).
Proof.
  intros a b Hb Ha Hbf. split.
  - intros Hf [-> ->]. rewrite euclid_div_min_neg1 in Hf. range_unfold. lia.
  - intro Hn. pose proof (euclid_div_abs a b Hb) as Habs.
    destruct (Z.eq_dec a i128_min) as [->|Hne].
    + (* a = MIN, b <> -1 *)
      destruct (Z.eq_dec b 1) as [->|Hb1].
      * vm_compute. split; discriminate.
      * assert (Hb2 : 2 <= Z.abs b) by lia.
        unfold euclid_div in *.
        assert (Hs : Z.abs (Z.sgn b) = 1) by (destruct b; cbn; lia).
        assert (Hq : -85070591730234615865843651857942052864 <= i128_min / Z.abs b <= 0).
        { split.
          - apply Z.div_le_lower_bound; [lia|]. range_unfold. lia.
          - apply Z.div_le_upper_bound; [lia|]. range_unfold. lia. }
        range_unfold.
        destruct (Z.sgn b) eqn:Es; cbn in Hs; try lia;
          destruct p; try discriminate; lia.
    + range_unfold. lia.
Qed.

Lemma floor_div_exact : forall ra a rb b,
  b <> 0 ->
  num_floor_div (VInt ra a) (VInt rb b) = exact_or_error a b (euclid_div a b).
Proof.
  intros ra a rb b Hb. unfold num_floor_div, with_numbers, exact_or_error.
  rewrite !as_number_int.
  destruct (in_i128 a) eqn:Ha; [|reflexivity].
  destruct (in_i128 b) eqn:Hbb; [|reflexivity].
  cbn [num_is_zero num_is_float orb andb].
  apply Z.eqb_neq in Hb. rewrite Hb. apply Z.eqb_neq in Hb.
  apply in_i128_fits in Ha. apply in_i128_fits in Hbb.
  pose proof (euclid_div_fits a b Hb Ha Hbb) as Hfit.
  unfold checked_div_euclid.
  replace (b =? 0) with false by (symmetry; apply Z.eqb_neq; exact Hb).
  cbn [orb].
  destruct ((a =? i128_min) && (b =? -1)) eqn:Hc.
  - apply andb_true_iff in Hc. destruct Hc as [H1 H2].
    apply Z.eqb_eq in H1. apply Z.eqb_eq in H2.
    assert (Hnf : in_i128 (euclid_div a b) = false).
    { apply in_i128_false. intro Hf. apply Hfit in Hf. apply Hf. auto. }
    rewrite Hnf. reflexivity.
  - assert (Hf : in_i128 (euclid_div a b) = true).
    { apply in_i128_fits, Hfit. intros [H1 H2]. subst.
      rewrite Z.eqb_refl in Hc. discriminate. }
    rewrite Hf, (div_euclid_spec a b Hb). reflexivity.
Qed.

Lemma wrapping_rem_euclid_spec : forall a b, b <> 0 -> wrapping_rem_euclid a b = euclid_mod a b.
Proof.
  intros a b Hb. unfold wrapping_rem_euclid.
  destruct (b =? -1) eqn:E.
  - apply Z.eqb_eq in E. subst. unfold euclid_mod. cbn [Z.abs]. symmetry. apply Z.mod_1_r.
  - apply rem_euclid_spec; assumption.
Qed.

Lemma rem_exact : forall ra a rb b,
  b <> 0 ->
  num_rem (VInt ra a) (VInt rb b) = exact_or_error a b (euclid_mod a b).
Proof.
  intros ra a rb b Hb. unfold num_rem, num_rem_with, with_numbers, exact_or_error.
  rewrite !as_number_int.
  destruct (in_i128 a) eqn:Ha; [|reflexivity].
  destruct (in_i128 b) eqn:Hbb; [|reflexivity].
  cbn [num_is_zero num_is_float orb andb].
  replace (b =? 0) with false by (symmetry; apply Z.eqb_neq; exact Hb).
  apply in_i128_fits in Hbb.
  assert (Hf : in_i128 (euclid_mod a b) = true)
    by (apply in_i128_fits, euclid_mod_fits; assumption).
  rewrite Hf, (wrapping_rem_euclid_spec a b Hb). reflexivity.
Qed.

Lemma div_by_zero_errors : forall a rb,
  num_floor_div a (VInt rb 0) = Some (RErr ErrMsg) /\
  num_rem a (VInt rb 0) = Some (RErr ErrMsg) /\
  num_div a (VInt rb 0) = Some (RErr ErrMsg).
Proof.
  intros. unfold num_floor_div, num_rem, num_rem_with, num_div, with_numbers.
  rewrite as_number_int. change (in_i128 0) with true. cbn iota.
  destruct (as_number a); cbn [num_is_zero Z.eqb]; auto.
Qed.

Lemma div_by_float_zero_errors : forall a s,
  num_floor_div a (VFloat (S754_zero s)) = Some (RErr ErrMsg) /\
  num_rem a (VFloat (S754_zero s)) = Some (RErr ErrMsg) /\
  num_div a (VFloat (S754_zero s)) = Some (RErr ErrMsg).
Proof.
  intros. unfold num_floor_div, num_rem, num_rem_with, num_div, with_numbers.
  cbn [as_number]. destruct (as_number a); cbn [num_is_zero sf_is_zero]; auto.
Qed.

(* D3, on the unrepaired function: the remainder 0 fits but an error is returned *)
Lemma rem_before_D3_refuted : exists a b,
  b <> 0 /\ fits_i128 a /\ fits_i128 b /\ fits_i128 (euclid_mod a b) /\
  num_rem_before_D3 (VInt I128 a) (VInt I64 b) <> exact_or_error a b (euclid_mod a b).
Proof.
  exists i128_min, (-1). repeat split; try (vm_compute; discriminate).
Qed.

(* ---------------------------------------------------------------- power *)

Lemma pow_abs_ge : forall a e, 2 <= Z.abs a -> 128 <= e -> 2 ^ 128 <= Z.abs (a ^ e).
Proof.
  intros a e Ha He. rewrite Z.abs_pow.
  apply Z.le_trans with (2 ^ e).
  - apply Z.pow_le_mono_r; lia.
  - apply Z.pow_le_mono_l. lia.
Qed.

Lemma checked_pow_spec : forall a e, 0 <= e -> checked_pow a e = checked (a ^ e).
Proof.
  intros a e He. unfold checked_pow.
  destruct (Z.abs a <=? 1) eqn:Ha.
  - apply Z.leb_le in Ha.
    destruct (e =? 0) eqn:E0.
    + apply Z.eqb_eq in E0. subst. reflexivity.
    + apply Z.eqb_neq in E0.
      assert (Hcases : a = 0 \/ a = 1 \/ a = -1) by lia.
      destruct Hcases as [->|[->| ->]].
      * rewrite Z.pow_0_l by lia. reflexivity.
      * rewrite Z.pow_1_l by lia. reflexivity.
      * cbn [Z.eqb]. destruct (Z.even e) eqn:Ev.
        -- apply Z.even_spec in Ev. destruct Ev as [k ->].
           rewrite Z.pow_mul_r by lia. change ((-1) ^ 2) with 1.
           rewrite Z.pow_1_l by lia. reflexivity.
        -- assert (Od : Z.odd e = true) by (rewrite <- Z.negb_even, Ev; reflexivity).
           apply Z.odd_spec in Od. destruct Od as [k ->].
           rewrite Z.pow_add_r, Z.pow_mul_r by lia. change ((-1) ^ 2) with 1.
           rewrite Z.pow_1_l by lia. reflexivity.
  - apply Z.leb_gt in Ha.
    destruct (127 <? e) eqn:E.
    + apply Z.ltb_lt in E. pose proof (pow_abs_ge a e ltac:(lia) ltac:(lia)) as Hbig.
      unfold checked.
      assert (Hf : in_i128 (a ^ e) = false).
      { apply in_i128_false. range_unfold.
        change (2 ^ 128) with 340282366920938463463374607431768211456 in Hbig. lia. }
      rewrite Hf. reflexivity.
    + reflexivity.
Qed.

(* std's square-and-multiply loop computes exactly that *)
Lemma not_fits_scale : forall x p, ~ fits_i128 x -> 1 <= p -> ~ fits_i128 (x * p).
Proof. intros x p Hx Hp. range_unfold. nia. Qed.

Lemma sq_not_fits : forall b, ~ fits_i128 (b * b) -> 2 ^ 127 < b * b.
Proof.
  intros b H. range_unfold. change (2 ^ 127) with 170141183460469231731687303715884105728 in *.
  assert (0 <= b * b) by nia.
  destruct (Z_le_gt_dec (Z.abs b) 13043817825332782212).
  - exfalso. apply H. nia.
  - nia.
Qed.

Lemma big_not_fits : forall c q, c <> 0 -> 2 ^ 127 < q -> ~ fits_i128 (c * q).
Proof.
  intros c q Hc Hq. range_unfold. change (2 ^ 127) with 170141183460469231731687303715884105728 in *. nia.
Qed.

Lemma pow_ge_base : forall q h, 1 <= q -> 1 <= h -> q <= q ^ h.
Proof.
  intros q h Hq Hh. replace h with (Z.succ (h - 1)) by lia. rewrite Z.pow_succ_r by lia.
  assert (1 <= q ^ (h - 1)).
  { change 1 with (q ^ 0) at 1. apply Z.pow_le_mono_r; lia. }
  nia.
Qed.

Lemma pow_loop_spec : forall fuel base acc exp,
  1 <= exp < 2 ^ Z.of_nat fuel -> fits_i128 base -> fits_i128 acc -> (base = 0 \/ acc <> 0) ->
  pow_loop fuel base acc exp = Some (checked (acc * base ^ exp)).
Proof.
  induction fuel as [|f IH]; intros base acc exp He Hb Ha Hinv.
  - cbn in He. lia.
  - rewrite Nat2Z.inj_succ, Z.pow_succ_r in He by lia.
    cbn [pow_loop]. unfold checked_mul.
    pose proof (Z.div_mod exp 2 ltac:(lia)) as Hdm.
    set (h := exp / 2) in *.
    destruct (Z.odd exp) eqn:Eodd.
    + (* exp = 2h + 1 *)
      assert (Hm : exp mod 2 = 1) by (rewrite Zmod_odd, Eodd; reflexivity).
      assert (Hexp : exp = 2 * h + 1) by lia.
      assert (Hpow : acc * base ^ exp = (acc * base) * (base * base) ^ h).
      { rewrite Hexp, Z.pow_add_r, Z.pow_mul_r, Z.pow_1_r by lia.
        change (base ^ 2) with (base * (base * 1)). rewrite Z.mul_1_r. ring. }
      unfold checked at 1. destruct (in_i128 (acc * base)) eqn:E1.
      * apply in_i128_fits in E1.
        destruct (exp =? 1) eqn:E2.
        -- apply Z.eqb_eq in E2. rewrite E2, Z.pow_1_r. unfold checked.
           apply in_i128_fits in E1. rewrite E1. reflexivity.
        -- apply Z.eqb_neq in E2. assert (Hh : 1 <= h) by lia.
           unfold checked at 1. destruct (in_i128 (base * base)) eqn:E3.
           ++ apply in_i128_fits in E3. rewrite Hpow. apply IH; try assumption; try lia.
              all: try (destruct Hinv as [->|Hacc]; [left; reflexivity|];
                        destruct (Z.eq_dec base 0) as [->|Hb0]; [left; reflexivity|right; nia]).
           ++ apply in_i128_false in E3. apply sq_not_fits in E3.
              assert (Hb0 : base <> 0) by (intros ->; cbn in E3; lia).
              assert (Hacc : acc <> 0) by (destruct Hinv; congruence).
              rewrite Hpow. unfold checked.
              assert (Hq : 2 ^ 127 < (base * base) ^ h).
              { apply Z.lt_le_trans with (base * base); [assumption|].
                apply pow_ge_base; lia. }
              assert (Hnf : in_i128 (acc * base * (base * base) ^ h) = false).
              { apply in_i128_false. apply big_not_fits; [nia|assumption]. }
              rewrite Hnf. reflexivity.
      * apply in_i128_false in E1.
        assert (Hb0 : base <> 0) by (intros ->; apply E1; rewrite Z.mul_0_r; range_unfold; lia).
        rewrite Hpow. unfold checked.
        assert (Hnf : in_i128 (acc * base * (base * base) ^ h) = false).
        { apply in_i128_false. apply not_fits_scale; [assumption|].
          rewrite <- (Z.pow_1_l h) by lia. apply Z.pow_le_mono_l. nia. }
        rewrite Hnf. reflexivity.
    + (* exp = 2h *)
      assert (Hm : exp mod 2 = 0) by (rewrite Zmod_odd, Eodd; reflexivity).
      assert (Hexp : exp = 2 * h) by lia.
      assert (Hh : 1 <= h) by lia.
      assert (Hpow : acc * base ^ exp = acc * (base * base) ^ h).
      { rewrite Hexp, Z.pow_mul_r by lia.
        change (base ^ 2) with (base * (base * 1)). rewrite Z.mul_1_r. reflexivity. }
      unfold checked at 1. destruct (in_i128 (base * base)) eqn:E3.
      * apply in_i128_fits in E3. rewrite Hpow. apply IH; try assumption; try lia.
        all: try (destruct Hinv as [->|Hacc]; [left; reflexivity|right; assumption]).
      * apply in_i128_false in E3. apply sq_not_fits in E3.
        assert (Hacc : acc <> 0).
        { destruct Hinv as [->|]; [cbn in E3; lia|assumption]. }
        rewrite Hpow. unfold checked.
        assert (Hq : 2 ^ 127 < (base * base) ^ h).
        { apply Z.lt_le_trans with (base * base); [assumption|].
          apply pow_ge_base; lia. }
        assert (Hnf : in_i128 (acc * (base * base) ^ h) = false).
        { apply in_i128_false. apply big_not_fits; assumption. }
        rewrite Hnf. reflexivity.
Qed.

Lemma checked_pow_loop_spec : forall a e,
  fits_i128 a -> 0 <= e <= u32_max ->
  checked_pow_loop a e = Some (checked_pow a e).
Proof.
  intros a e Ha He. unfold checked_pow_loop. rewrite checked_pow_spec by lia.
  destruct (e =? 0) eqn:E0.
  - apply Z.eqb_eq in E0. subst. reflexivity.
  - apply Z.eqb_neq in E0. rewrite pow_loop_spec; try assumption.
    + rewrite Z.mul_1_l. reflexivity.
    + unfold u32_max in He. change (2 ^ Z.of_nat 32) with 4294967296. lia.
    + range_unfold. lia.
    + right. lia.
Qed.

(* KnownClass of D4: exponent above u32::MAX *)
Definition pow_exponent_above_u32 (b : Z) : Prop := u32_max < b.

Lemma pow_exact : forall ra a rb b,
  0 <= b -> ~ pow_exponent_above_u32 b ->
  num_pow (VInt ra a) (VInt rb b) = exact_or_error a b (a ^ b).
Proof.
  intros ra a rb b Hb Hk. unfold pow_exponent_above_u32 in Hk.
  unfold num_pow, with_numbers, exact_or_error. rewrite !as_number_int.
  destruct (in_i128 a) eqn:Ha; [|reflexivity].
  destruct (in_i128 b) eqn:Hbb; [|reflexivity].
  cbn [num_is_float orb andb].
  replace (b <? 0) with false by (symmetry; apply Z.ltb_ge; lia).
  replace (0 <=? b) with true by (symmetry; apply Z.leb_le; lia).
  replace (b <=? u32_max) with true by (symmetry; apply Z.leb_le; lia).
  cbn [andb]. apply in_i128_fits in Ha.
  rewrite (checked_pow_loop_spec a b Ha) by (unfold u32_max in *; lia).
  rewrite checked_pow_spec by assumption. unfold checked.
  destruct (in_i128 (a ^ b)); reflexivity.
Qed.

(* D4: with the exponent above u32::MAX the result may fit and still be refused *)
Lemma pow_exact_refuted : exists a b,
  0 <= b /\ pow_exponent_above_u32 b /\ fits_i128 a /\ fits_i128 b /\ fits_i128 (a ^ b) /\
  num_pow (VInt U64 a) (VInt U64 b) = Some (RErr ErrMsg).
Proof.
  exists 1, 5000000000. rewrite Z.pow_1_l by lia.
  repeat split; try (vm_compute; congruence).
Qed.

(* outside the known class the only way to err is a result (or operand) out of range; inside it
   the error is unconditional *)
Lemma pow_above_u32_errors : forall ra a rb b,
  pow_exponent_above_u32 b -> num_pow (VInt ra a) (VInt rb b) = Some (RErr ErrMsg).
Proof.
  intros ra a rb b Hk. unfold pow_exponent_above_u32, u32_max in Hk.
  unfold num_pow, with_numbers. rewrite !as_number_int.
  destruct (in_i128 a); [|reflexivity]. destruct (in_i128 b); [|reflexivity].
  cbn [num_is_float orb].
  replace (b <? 0) with false by (symmetry; apply Z.ltb_ge; lia).
  replace (b <=? u32_max) with false by (symmetry; apply Z.leb_gt; unfold u32_max; lia).
  rewrite andb_false_r. reflexivity.
Qed.

(* ---------------------------------------------------------------- float promotion, `/` *)

Lemma div_is_float : forall a b l r,
  as_number a = Some l -> as_number b = Some r ->
  num_div a b =
    if num_is_zero r then Some (RErr ErrMsg)
    else Some (ROk (VFloat (SFdiv 53 1024 (into_float l) (into_float r)))).
Proof.
  intros a b l r Ha Hb. unfold num_div, with_numbers. rewrite Ha, Hb. reflexivity.
Qed.

Lemma float_operand_promotes : forall a b l r,
  as_number a = Some l -> as_number b = Some r ->
  num_is_float l || num_is_float r = true ->
  num_add a b = Some (ROk (VFloat (SFadd 53 1024 (into_float l) (into_float r)))) /\
  num_sub a b = Some (ROk (VFloat (SFsub 53 1024 (into_float l) (into_float r)))) /\
  num_mul a b = Some (ROk (VFloat (SFmul 53 1024 (into_float l) (into_float r)))).
Proof.
  intros a b l r Ha Hb Hf. unfold num_add, num_sub, num_mul, math, with_numbers.
  rewrite Ha, Hb, Hf. auto.
Qed.

(* the result of an all-integer operation is never a float, and a float operand never yields an
   integer: results of + - * *)
Lemma int_operands_int_result : forall iop fop ra a rb b v,
  math iop fop (VInt ra a) (VInt rb b) = Some (ROk v) -> exists z, v = VInt I128 z.
Proof.
  intros until v. rewrite math_int.
  destruct (in_i128 a && in_i128 b); [|discriminate].
  destruct (iop a b); [|discriminate]. intro H. inversion H. eauto.
Qed.

(* operands that are numbers but not usable (u128 above i128::MAX) are an error, never a
   truncated value *)
Lemma oversize_operand_errors : forall op ra a b,
  in_i128 a = false ->
  num_binop op (VInt ra a) b = Some (RErr ErrMsg) /\ num_binop op b (VInt ra a) = Some (RErr ErrMsg).
Proof.
  intros op ra a b Ha.
  assert (E : as_number (VInt ra a) = None) by (rewrite as_number_int, Ha; reflexivity).
  destruct op; cbn [num_binop];
    unfold num_add, num_sub, num_mul, math, num_div, num_floor_div, num_rem, num_rem_with, num_pow,
      with_numbers; rewrite E; split; try reflexivity; destruct (as_number b); reflexivity.
Qed.

(* ---------------------------------------------------------------- the VM never panics *)

Lemma num_pow_no_panic : forall a b, num_pow a b <> Some (RErr ErrPanic).
Proof.
  intros a b. unfold num_pow, with_numbers, m_err, m_ok, m_unmodelled.
  destruct (as_number a) as [[x|f]|] eqn:Ea; destruct (as_number b) as [[y|g]|] eqn:Eb;
    cbn [num_is_float orb]; try discriminate.
  destruct (y <? 0); cbn [orb]; [discriminate|].
  destruct ((0 <=? y) && (y <=? u32_max)) eqn:Ey; [|discriminate].
  apply andb_true_iff in Ey. destruct Ey as [Ey1 Ey2]. apply Z.leb_le in Ey1. apply Z.leb_le in Ey2.
  assert (Hx : fits_i128 x).
  { destruct a; try discriminate. cbn [as_number as_i128] in Ea.
    destruct (in_i128 z) eqn:E; [|discriminate]. inversion Ea. subst. apply in_i128_fits. exact E. }
  rewrite (checked_pow_loop_spec x y Hx) by lia.
  destruct (checked_pow x y); discriminate.
Qed.

Lemma num_binop_no_panic : forall op a b, num_binop op a b <> Some (RErr ErrPanic).
Proof.
  intros op a b.
  destruct op; cbn [num_binop]; try apply num_pow_no_panic;
    unfold num_add, num_sub, num_mul, math, num_div, num_floor_div, num_rem, num_rem_with,
      with_numbers, m_err, m_ok, m_unmodelled;
    destruct (as_number a) as [[x|f]|]; destruct (as_number b) as [[y|g]|];
    cbn [num_is_float num_is_zero orb];
    repeat match goal with
           | |- context [if ?c then _ else _] => destruct c
           | |- context [match ?c with Some _ => _ | None => _ end] => destruct c
           end; discriminate.
Qed.

Lemma vm_binop_no_panic : forall op a b, vm_binop op a b <> Some (RErr ErrPanic).
Proof.
  intros op a b. unfold vm_binop.
  destruct (negb (is_number a) || negb (is_number b)); [discriminate|].
  pose proof (num_binop_no_panic op a b) as H.
  unfold to_render. destruct (num_binop op a b) as [[v|[]]|]; congruence.
Qed.

Lemma vm_negative_no_panic : forall a, vm_negative a <> Some (RErr ErrPanic).
Proof.
  intro a. unfold vm_negative, num_negate, to_render, m_ok, m_err.
  destruct (as_number a) as [[z|f]|]; try discriminate.
  destruct (checked_neg z); discriminate.
Qed.

(* the VM level: same results, errors re-raised as rendering errors *)
Lemma vm_binop_int : forall op ra a rb b,
  vm_binop op (VInt ra a) (VInt rb b) = to_render (num_binop op (VInt ra a) (VInt rb b)).
Proof. reflexivity. Qed.
